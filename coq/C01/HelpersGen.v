(* C01 - theorems about the definitions GENERATED from the C++ text of
   ExpressionHelpers::evaluate_{arithmetic,comparison,logical,bitwise}_binary and evaluate_simple_unary
   (src/backend/interpreter/evaluator/core/helpers.cpp -> C01/Gen_Helpers.v by translators/cxx_pure.py, re-run by
   ./check C01 on every run; meaning of the generated terms: Cxx/Cxx.v).

   Every proof below evaluates the generated term: [cxx_tree] turns [run fn_<name> "<op>" <symbolic operands>] into the
   decision tree of the C++ function body (tests on the operands at the inner nodes, return values / exceptions /
   undefined behaviour at the leaves), [cxx_cases] splits it.  When the C++ text changes, Gen_Helpers.v changes and
   these proofs are re-checked against what the code says now; a change of behaviour breaks them. *)
From Coq Require Import ZArith Bool String List Lia ZifyBool.
From Cb Require Import Cxx.Cxx Cxx.CxxLemmas C01.Gen_Helpers.
From Cb Require Lang.Syntax Lang.Sem C01.ArithPaths.
Import ListNotations.
Local Open Scope string_scope.
Local Open Scope Z_scope.
Ltac Zify.zify_post_hook ::= Z.to_euclidean_division_equations.

Module S := Cb.Lang.Syntax.
Module R := Cb.Lang.Sem.
Module P := Cb.C01.ArithPaths.

(* ------------------------------------------------------------------ how the helpers are called *)
Definition args2 (a b : Z) : list (string * value) := [("left", (TLong, a)); ("right", (TLong, b))].
Definition args1 (a : Z) : list (string * value) := [("operand", (TLong, a))].

(* dispatcher.cpp: which helper gets which operator, spelled how *)
Definition spelling (o : S.binop) : string :=
  match o with
  | S.Add => "+" | S.Sub => "-" | S.Mul => "*" | S.Div => "/" | S.Mod => "%"
  | S.BAnd => "&" | S.BOr => "|" | S.BXor => "^" | S.Shl => "<<" | S.Shr => ">>"
  | S.Lt => "<" | S.Le => "<=" | S.Gt => ">" | S.Ge => ">=" | S.Eq => "==" | S.Ne => "!="
  end.
Definition helper_of (o : S.binop) : fn :=
  match o with
  | S.Add | S.Sub | S.Mul | S.Div | S.Mod => fn_evaluate_arithmetic_binary
  | S.BAnd | S.BOr | S.BXor | S.Shl | S.Shr => fn_evaluate_bitwise_binary
  | _ => fn_evaluate_comparison_binary
  end.
Definition uspelling (o : S.unop) : string := match o with S.Neg => "-" | S.LNot => "!" | S.BNot => "~" end.

(* the outcome of a helper call, seen from the closed form [ArithPaths.eval_i64] *)
Definition result_of_mres (o : S.binop) (m : P.mres) : result :=
  match m with
  | P.MVal z => RVal (TLong, z)
  | P.MDiv0 => RThrow (match o with S.Mod => "Modulo by zero" | _ => "Division by zero" end)
  | P.MOvf => RThrow "Arithmetic overflow in division"
  | P.MUB => RUB "undefined behaviour"
  end.

(* ------------------------------------------------------------------ arithmetic facts *)
Lemma in64_bounds a : R.in64 a = true ->
  (-9223372036854775808 <=? a) = true /\ (a <=? 9223372036854775807) = true.
Proof. unfold R.in64, R.int64_min, R.int64_max. intros H. apply andb_true_iff in H. exact H. Qed.
Lemma in64_of_range a : in_range TLong a = true -> R.in64 a = true.
Proof. intros H. exact H. Qed.

(* conversion to int64_t of a representable value *)
Lemma sconv64_id a : (-9223372036854775808 <=? a) = true -> (a <=? 9223372036854775807) = true ->
  (a - -9223372036854775808) mod 18446744073709551616 + -9223372036854775808 = a.
Proof. intros H1 H2. rewrite Z.mod_small; lia. Qed.
Lemma sconv64_id' a : -9223372036854775808 <= a <= 9223372036854775807 ->
  (a - -9223372036854775808) mod 18446744073709551616 + -9223372036854775808 = a.
Proof. intros H. rewrite Z.mod_small; lia. Qed.

(* static_cast<int64_t>( <uint64_t result z mod 2^64> ), passed through the return conversion *)
Lemma wrap_chain z :
  ((z mod 18446744073709551616 - -9223372036854775808) mod 18446744073709551616 + -9223372036854775808
   - -9223372036854775808) mod 18446744073709551616 + -9223372036854775808 = P.wrap64 z.
Proof. unfold P.wrap64. lia. Qed.

Lemma shiftr63 x : -9223372036854775808 <= x <= 9223372036854775807 <-> (Z.shiftr x 63 = 0 \/ Z.shiftr x 63 = -1).
Proof. rewrite Z.shiftr_div_pow2 by lia. change (2 ^ 63) with 9223372036854775808. lia. Qed.
Lemma bitop_in64 (f : Z -> Z -> Z) a b :
  (forall x y n, Z.shiftr (f x y) n = f (Z.shiftr x n) (Z.shiftr y n)) ->
  (forall u v, (u = 0 \/ u = -1) -> (v = 0 \/ v = -1) -> f u v = 0 \/ f u v = -1) ->
  -9223372036854775808 <= a <= 9223372036854775807 -> -9223372036854775808 <= b <= 9223372036854775807 ->
  -9223372036854775808 <= f a b <= 9223372036854775807.
Proof. intros Hs Hc Ha Hb. apply shiftr63. rewrite Hs. apply Hc; apply shiftr63; assumption. Qed.
Lemma land_in64 a b : -9223372036854775808 <= a <= 9223372036854775807 -> -9223372036854775808 <= b <= 9223372036854775807 ->
  -9223372036854775808 <= Z.land a b <= 9223372036854775807.
Proof. apply bitop_in64; [apply Z.shiftr_land|]. intros u v [-> | ->] [-> | ->]; cbn; auto. Qed.
Lemma lor_in64 a b : -9223372036854775808 <= a <= 9223372036854775807 -> -9223372036854775808 <= b <= 9223372036854775807 ->
  -9223372036854775808 <= Z.lor a b <= 9223372036854775807.
Proof. apply bitop_in64; [apply Z.shiftr_lor|]. intros u v [-> | ->] [-> | ->]; cbn; auto. Qed.
Lemma lxor_in64 a b : -9223372036854775808 <= a <= 9223372036854775807 -> -9223372036854775808 <= b <= 9223372036854775807 ->
  -9223372036854775808 <= Z.lxor a b <= 9223372036854775807.
Proof. apply bitop_in64; [apply Z.shiftr_lxor|]. intros u v [-> | ->] [-> | ->]; cbn; auto. Qed.

(* (uint64_t) right & 63 *)
Lemma count_mod64 b :
  Z.land ((b mod 18446744073709551616) mod 18446744073709551616) 63 mod 18446744073709551616 = b mod 64.
Proof.
  change 63 with (Z.ones 6). rewrite Z.land_ones by lia. change (2 ^ 6) with 64. lia.
Qed.
Lemma shr_in64 a c : -9223372036854775808 <= a <= 9223372036854775807 -> 0 <= c ->
  -9223372036854775808 <= a / 2 ^ c <= 9223372036854775807.
Proof.
  intros Ha Hc. assert (Hk : 0 < 2 ^ c) by (apply Z.pow_pos_nonneg; lia). generalize dependent (2 ^ c). intros k Hk.
  pose proof (Z.div_mod a k ltac:(lia)). pose proof (Z.mod_pos_bound a k Hk). nia.
Qed.

Lemma nonzero_eqb z : nonzero z = negb (z =? 0).
Proof. destruct z; reflexivity. Qed.
Ltac fold_nonzero :=
  repeat match goal with
  | |- context [match ?x with Z0 => false | Zpos _ => true | Zneg _ => true end] =>
      lazymatch x with context [if _ then _ else _] => fail | _ => idtac end;
      change (match x with Z0 => false | Zpos _ => true | Zneg _ => true end) with (nonzero x); rewrite (nonzero_eqb x)
  end.

(* the decision tree of a helper call on two int64 operands, range tests of the arguments discharged *)
Ltac open_helper Ha Hb :=
  let Ha1 := fresh "Ha1" in let Ha2 := fresh "Ha2" in let Hb1 := fresh "Hb1" in let Hb2 := fresh "Hb2" in
  destruct (in64_bounds _ Ha) as [Ha1 Ha2]; destruct (in64_bounds _ Hb) as [Hb1 Hb2];
  cxx_tree; rewrite Ha1, Ha2, Hb1, Hb2; cbv beta iota; fold_consts;
  rewrite ?(sconv64_id _ Ha1 Ha2), ?(sconv64_id _ Hb1 Hb2); fold_nonzero.
Ltac open_helper1 Ha :=
  let Ha1 := fresh "Ha1" in let Ha2 := fresh "Ha2" in
  destruct (in64_bounds _ Ha) as [Ha1 Ha2];
  cxx_tree; rewrite Ha1, Ha2; cbv beta iota; fold_consts; rewrite ?(sconv64_id _ Ha1 Ha2); fold_nonzero.
Ltac leaves := try reflexivity; try (exfalso; lia).

(* ------------------------------------------------------------------ evaluate_arithmetic_binary *)
Section Operands.
Variables a b : Z.
Hypothesis Ha : R.in64 a = true.
Hypothesis Hb : R.in64 b = true.

Lemma run_add : run fn_evaluate_arithmetic_binary "+" (args2 a b) = RVal (TLong, P.wrap64 (a + b)).
Proof. open_helper Ha Hb. do 2 f_equal. rewrite !Z.mod_mod, <- Z.add_mod by lia. apply wrap_chain. Qed.
Lemma run_sub : run fn_evaluate_arithmetic_binary "-" (args2 a b) = RVal (TLong, P.wrap64 (a - b)).
Proof. open_helper Ha Hb. do 2 f_equal. rewrite !Z.mod_mod, <- Zminus_mod by lia. apply wrap_chain. Qed.
Lemma run_mul : run fn_evaluate_arithmetic_binary "*" (args2 a b) = RVal (TLong, P.wrap64 (a * b)).
Proof. open_helper Ha Hb. do 2 f_equal. rewrite !Z.mod_mod, <- Z.mul_mod by lia. apply wrap_chain. Qed.
Lemma run_div : run fn_evaluate_arithmetic_binary "/" (args2 a b) = result_of_mres S.Div (P.eval_i64 S.Div a b).
Proof.
  open_helper Ha Hb. cbn [P.eval_i64 result_of_mres]. unfold R.int64_min. cxx_cases; cbn [result_of_mres andb]; leaves;
    rewrite sconv64_id by assumption; reflexivity.
Qed.
Lemma run_mod : run fn_evaluate_arithmetic_binary "%" (args2 a b) = result_of_mres S.Mod (P.eval_i64 S.Mod a b).
Proof.
  open_helper Ha Hb. cbn [P.eval_i64 result_of_mres]. cxx_cases; cbn [result_of_mres]; leaves;
    rewrite sconv64_id' by lia; reflexivity.
Qed.

(* ------------------------------------------------------------------ evaluate_bitwise_binary *)
Lemma run_band : run fn_evaluate_bitwise_binary "&" (args2 a b) = RVal (TLong, Z.land a b).
Proof. open_helper Ha Hb. rewrite sconv64_id' by (apply land_in64; lia). reflexivity. Qed.
Lemma run_bor : run fn_evaluate_bitwise_binary "|" (args2 a b) = RVal (TLong, Z.lor a b).
Proof. open_helper Ha Hb. rewrite sconv64_id' by (apply lor_in64; lia). reflexivity. Qed.
Lemma run_bxor : run fn_evaluate_bitwise_binary "^" (args2 a b) = RVal (TLong, Z.lxor a b).
Proof. open_helper Ha Hb. rewrite sconv64_id' by (apply lxor_in64; lia). reflexivity. Qed.
Lemma run_shl : run fn_evaluate_bitwise_binary "<<" (args2 a b) = RVal (TLong, P.wrap64 (a * 2 ^ (b mod 64))).
Proof.
  open_helper Ha Hb. rewrite !count_mod64. cxx_cases; leaves.
  do 2 f_equal. rewrite Z.mod_mod, Z.mul_mod_idemp_l by lia. apply wrap_chain.
Qed.
Lemma run_shr : run fn_evaluate_bitwise_binary ">>" (args2 a b) = RVal (TLong, Z.shiftr a (b mod 64)).
Proof.
  open_helper Ha Hb. rewrite !count_mod64. cxx_cases; leaves.
  rewrite sconv64_id' by (apply shr_in64; lia). rewrite Z.shiftr_div_pow2 by lia. reflexivity.
Qed.

(* ------------------------------------------------------------------ evaluate_comparison_binary *)
Lemma run_eq : run fn_evaluate_comparison_binary "==" (args2 a b) = RVal (TLong, R.b2z (a =? b)).
Proof. open_helper Ha Hb. cxx_cases; reflexivity. Qed.
Lemma run_ne : run fn_evaluate_comparison_binary "!=" (args2 a b) = RVal (TLong, R.b2z (negb (a =? b))).
Proof. open_helper Ha Hb. cxx_cases; reflexivity. Qed.
Lemma run_lt : run fn_evaluate_comparison_binary "<" (args2 a b) = RVal (TLong, R.b2z (a <? b)).
Proof. open_helper Ha Hb. cxx_cases; reflexivity. Qed.
Lemma run_gt : run fn_evaluate_comparison_binary ">" (args2 a b) = RVal (TLong, R.b2z (b <? a)).
Proof. open_helper Ha Hb. cxx_cases; reflexivity. Qed.
Lemma run_le : run fn_evaluate_comparison_binary "<=" (args2 a b) = RVal (TLong, R.b2z (a <=? b)).
Proof. open_helper Ha Hb. cxx_cases; reflexivity. Qed.
Lemma run_ge : run fn_evaluate_comparison_binary ">=" (args2 a b) = RVal (TLong, R.b2z (b <=? a)).
Proof. open_helper Ha Hb. cxx_cases; reflexivity. Qed.

(* ------------------------------------------------------------------ evaluate_logical_binary
   (the value Lang.Sem's EAnd / EOr give once both operands have been evaluated) *)
Lemma run_land : run fn_evaluate_logical_binary "&&" (args2 a b) =
  RVal (TLong, if a =? 0 then 0 else R.b2z (negb (b =? 0))).
Proof. open_helper Ha Hb. cxx_cases; leaves. Qed.
Lemma run_lor : run fn_evaluate_logical_binary "||" (args2 a b) =
  RVal (TLong, if a =? 0 then R.b2z (negb (b =? 0)) else 1).
Proof. open_helper Ha Hb. cxx_cases; leaves. Qed.

(* ------------------------------------------------------------------ the helpers compute exactly eval_i64 *)
Lemma helpers_are_eval_i64_l o : run (helper_of o) (spelling o) (args2 a b) = result_of_mres o (P.eval_i64 o a b).
Proof.
  destruct o; cbn [helper_of spelling P.eval_i64 result_of_mres].
  - apply run_add. - apply run_sub. - apply run_mul. - apply run_div. - apply run_mod.
  - apply run_band. - apply run_bor. - apply run_bxor. - apply run_shl. - apply run_shr.
  - apply run_lt. - apply run_le. - apply run_gt. - apply run_ge. - apply run_eq. - apply run_ne.
Qed.
End Operands.

(* ------------------------------------------------------------------ evaluate_simple_unary *)
Section Operand.
Variable a : Z.
Hypothesis Ha : R.in64 a = true.
Lemma run_uplus : run fn_evaluate_simple_unary "+" (args1 a) = RVal (TLong, a).
Proof. open_helper1 Ha. reflexivity. Qed.
Lemma run_uneg : run fn_evaluate_simple_unary "-" (args1 a) = RVal (TLong, P.wrap64 (- a)).
Proof.
  open_helper1 Ha. do 2 f_equal. rewrite !Z.mod_mod by lia.
  replace ((0 - a mod 18446744073709551616) mod 18446744073709551616) with ((- a) mod 18446744073709551616) by lia.
  apply wrap_chain.
Qed.
Lemma run_unot : run fn_evaluate_simple_unary "!" (args1 a) = RVal (TLong, R.b2z (a =? 0)).
Proof. open_helper1 Ha. unfold R.b2z. cxx_cases; leaves. Qed.
Lemma run_ucompl : run fn_evaluate_simple_unary "~" (args1 a) = RVal (TLong, Z.lnot a).
Proof.
  open_helper1 Ha. rewrite sconv64_id' by lia. replace (Z.lnot a) with (- a - 1) by (unfold Z.lnot; lia). reflexivity.
Qed.
End Operand.

(* ------------------------------------------------------------------ any other operator string is rejected *)
Lemma op_is_false x op lit : op <> lit -> op_is (x, op) lit = false.
Proof. intros H. unfold op_is. cbn [snd]. apply String.eqb_neq. exact H. Qed.
Ltac reject Hop :=
  cbn [In] in Hop; cxx_tree_sym;
  repeat match goal with
  | |- context [op_is (?x, ?op) ?lit] => rewrite (op_is_false x op lit) by (intros ->; apply Hop; tauto)
  end; cbv beta iota.

Lemma reject_arith op a b : R.in64 a = true -> R.in64 b = true -> ~ In op ["+"; "-"; "*"; "/"; "%"] ->
  run fn_evaluate_arithmetic_binary op (args2 a b) = RThrow ("Unknown arithmetic operator: " ++ op).
Proof.
  intros Ha Hb Hop. destruct (in64_bounds _ Ha) as [Ha1 Ha2]; destruct (in64_bounds _ Hb) as [Hb1 Hb2].
  reject Hop. rewrite Ha1, Ha2, Hb1, Hb2. reflexivity.
Qed.
Lemma reject_bitwise op a b : R.in64 a = true -> R.in64 b = true -> ~ In op ["&"; "|"; "^"; "<<"; ">>"] ->
  run fn_evaluate_bitwise_binary op (args2 a b) = RThrow ("Unknown bitwise operator: " ++ op).
Proof.
  intros Ha Hb Hop. destruct (in64_bounds _ Ha) as [Ha1 Ha2]; destruct (in64_bounds _ Hb) as [Hb1 Hb2].
  reject Hop. rewrite Ha1, Ha2, Hb1, Hb2. reflexivity.
Qed.
Lemma reject_comparison op a b : R.in64 a = true -> R.in64 b = true -> ~ In op ["=="; "!="; "<"; ">"; "<="; ">="] ->
  run fn_evaluate_comparison_binary op (args2 a b) = RThrow ("Unknown comparison operator: " ++ op).
Proof.
  intros Ha Hb Hop. destruct (in64_bounds _ Ha) as [Ha1 Ha2]; destruct (in64_bounds _ Hb) as [Hb1 Hb2].
  reject Hop. rewrite Ha1, Ha2, Hb1, Hb2. reflexivity.
Qed.
Lemma reject_logical op a b : R.in64 a = true -> R.in64 b = true -> ~ In op ["&&"; "||"] ->
  run fn_evaluate_logical_binary op (args2 a b) = RThrow ("Unknown logical operator: " ++ op).
Proof.
  intros Ha Hb Hop. destruct (in64_bounds _ Ha) as [Ha1 Ha2]; destruct (in64_bounds _ Hb) as [Hb1 Hb2].
  reject Hop. rewrite Ha1, Ha2, Hb1, Hb2. reflexivity.
Qed.
Lemma reject_unary op a : R.in64 a = true -> ~ In op ["+"; "-"; "!"; "~"] ->
  run fn_evaluate_simple_unary op (args1 a) = RThrow ("Unknown unary operator: " ++ op).
Proof.
  intros Ha Hop. destruct (in64_bounds _ Ha) as [Ha1 Ha2]. reject Hop. rewrite Ha1, Ha2. reflexivity.
Qed.

(* ------------------------------------------------------------------ no undefined behaviour, for EVERY operator string *)
(* a helper call is well defined when it returns an int64_t value or throws std::runtime_error - it never reaches
   undefined behaviour, never falls off its end, and is a well-formed call of the fragment *)
Definition well_defined (r : result) : Prop :=
  match r with RVal (TLong, z) => R.in64 z = true | RThrow _ => True | _ => False end.

Lemma well_defined_intro f op args :
  f_ret f = TLong -> (exists z, run f op args = RVal (TLong, z)) \/ (exists m, run f op args = RThrow m) ->
  well_defined (run f op args).
Proof.
  intros Hr [[z H] | [m H]]; rewrite H; cbn [well_defined]; [|exact I].
  apply run_returns_in_range in H as [_ H]; [|rewrite Hr; reflexivity]. rewrite Hr in H. exact H.
Qed.

Lemma eval_i64_defined o a b : exists r, result_of_mres o (P.eval_i64 o a b) = RVal (TLong, r) \/
                                         exists m, result_of_mres o (P.eval_i64 o a b) = RThrow m.
Proof.
  destruct o; cbn [P.eval_i64 result_of_mres];
    repeat match goal with |- context [if ?c then _ else _] => destruct c end; cbn [result_of_mres];
    (eexists; left; reflexivity) || (exists 0; right; eexists; reflexivity).
Qed.

Ltac split_in H := cbn [In] in H; repeat (destruct H as [<- | H]); [..|destruct H].

Lemma arith_ub_free op a b : R.in64 a = true -> R.in64 b = true ->
  well_defined (run fn_evaluate_arithmetic_binary op (args2 a b)).
Proof.
  intros Ha Hb. apply well_defined_intro; [reflexivity|].
  destruct (in_dec string_dec op ["+"; "-"; "*"; "/"; "%"]) as [Hin | Hout].
  - split_in Hin.
    + left. eexists. apply run_add; assumption.
    + left. eexists. apply run_sub; assumption.
    + left. eexists. apply run_mul; assumption.
    + rewrite run_div by assumption. destruct (eval_i64_defined S.Div a b) as [r [-> | [m ->]]]; eauto.
    + rewrite run_mod by assumption. destruct (eval_i64_defined S.Mod a b) as [r [-> | [m ->]]]; eauto.
  - right. eexists. apply reject_arith; assumption.
Qed.
Lemma bitwise_ub_free op a b : R.in64 a = true -> R.in64 b = true ->
  well_defined (run fn_evaluate_bitwise_binary op (args2 a b)).
Proof.
  intros Ha Hb. apply well_defined_intro; [reflexivity|].
  destruct (in_dec string_dec op ["&"; "|"; "^"; "<<"; ">>"]) as [Hin | Hout].
  - left. split_in Hin; eexists; [apply run_band|apply run_bor|apply run_bxor|apply run_shl|apply run_shr]; assumption.
  - right. eexists. apply reject_bitwise; assumption.
Qed.
Lemma comparison_ub_free op a b : R.in64 a = true -> R.in64 b = true ->
  well_defined (run fn_evaluate_comparison_binary op (args2 a b)).
Proof.
  intros Ha Hb. apply well_defined_intro; [reflexivity|].
  destruct (in_dec string_dec op ["=="; "!="; "<"; ">"; "<="; ">="]) as [Hin | Hout].
  - left. split_in Hin; eexists; [apply run_eq|apply run_ne|apply run_lt|apply run_gt|apply run_le|apply run_ge]; assumption.
  - right. eexists. apply reject_comparison; assumption.
Qed.
Lemma logical_ub_free op a b : R.in64 a = true -> R.in64 b = true ->
  well_defined (run fn_evaluate_logical_binary op (args2 a b)).
Proof.
  intros Ha Hb. apply well_defined_intro; [reflexivity|].
  destruct (in_dec string_dec op ["&&"; "||"]) as [Hin | Hout].
  - left. split_in Hin; eexists; [apply run_land|apply run_lor]; assumption.
  - right. eexists. apply reject_logical; assumption.
Qed.
Lemma unary_ub_free op a : R.in64 a = true -> well_defined (run fn_evaluate_simple_unary op (args1 a)).
Proof.
  intros Ha. apply well_defined_intro; [reflexivity|].
  destruct (in_dec string_dec op ["+"; "-"; "!"; "~"]) as [Hin | Hout].
  - left. split_in Hin; eexists; [apply run_uplus|apply run_uneg|apply run_unot|apply run_ucompl]; assumption.
  - right. eexists. apply reject_unary; assumption.
Qed.

Definition binary_helpers : list fn :=
  [fn_evaluate_arithmetic_binary; fn_evaluate_comparison_binary; fn_evaluate_logical_binary; fn_evaluate_bitwise_binary].

Lemma helpers_ub_free_l f op a b : In f binary_helpers -> R.in64 a = true -> R.in64 b = true ->
  well_defined (run f op (args2 a b)).
Proof.
  intros Hf Ha Hb. unfold binary_helpers in Hf. split_in Hf.
  - apply arith_ub_free; assumption.
  - apply comparison_ub_free; assumption.
  - apply logical_ub_free; assumption.
  - apply bitwise_ub_free; assumption.
Qed.

(* ------------------------------------------------------------------ against the reference semantics Lang.Sem.arith *)
Lemma helpers_match_reference_val o a b r : R.in64 a = true -> R.in64 b = true ->
  R.arith o a b = R.Val r -> run (helper_of o) (spelling o) (args2 a b) = RVal (TLong, r).
Proof.
  intros Ha Hb H. rewrite helpers_are_eval_i64_l by assumption.
  apply P.arith_paths_agree_l in H as [-> _]. reflexivity.
Qed.
Lemma helpers_match_reference_div0 o a b : R.in64 a = true -> R.in64 b = true ->
  (R.arith o a b = R.Fail R.EDiv0 <->
   run (helper_of o) (spelling o) (args2 a b) = RThrow "Division by zero" \/
   run (helper_of o) (spelling o) (args2 a b) = RThrow "Modulo by zero").
Proof.
  intros Ha Hb. rewrite helpers_are_eval_i64_l by assumption. split.
  - intros H. apply P.div0_paths_agree_l in H as [-> _]. destruct o; cbn [result_of_mres]; auto.
  - intros H. assert (E : P.eval_i64 o a b = P.MDiv0).
    { destruct (P.eval_i64 o a b); cbn [result_of_mres] in H; destruct H as [H | H]; try discriminate; reflexivity. }
    clear H. destruct o; cbn [P.eval_i64 R.arith] in *; try discriminate;
      destruct (b =? 0); try reflexivity;
      repeat match type of E with context [if ?c then _ else _] => destruct c end; discriminate.
Qed.

Lemma unary_matches_reference o a r : R.in64 a = true ->
  R.unarith o a = R.Val r -> run fn_evaluate_simple_unary (uspelling o) (args1 a) = RVal (TLong, r).
Proof.
  intros Ha H. destruct o; cbn [R.unarith uspelling] in *.
  - apply P.chk_val in H as [Hin ->]. rewrite run_uneg by assumption. rewrite P.wrap64_id by assumption. reflexivity.
  - injection H as <-. apply run_unot; assumption.
  - injection H as <-. apply run_ucompl; assumption.
Qed.
