(* C01 - property theorems about the integer tail of the typed evaluator, stated about the definition GENERATED from the
   current C++ text of the dispatch chain that ends BinaryUnaryTypedHelpers::evaluate_binary_op_typed (binary_unary.cpp):
   C01/Gen_TypedChain.v, written by translators/cxx_pure.py (target typed_chain) from clang's AST on every run of
   ./check C01; meaning of the generated term: Cxx/Cxx.v; proofs: C01/TypedChainGen.v.
   The chain's inputs: left_int / right_int (the operands as int64_t), left_quad / right_quad (the operands as long double),
   prefer_integral_result, and boolean observations named by their source text; [chain_args a b tl tr s] is the state the
   code before the chain establishes for integer operands a, b (tl, tr = truthy(left/right_value); s = the value of the
   string comparisons, which are never consulted).  Results: [RCall builder arguments] - the local result builder the
   chain calls and the values it passes, or [RThrow message]. *)
From Coq Require Import List ZArith Bool String.
From Cb Require Import Cxx.Cxx Cxx.CxxLemmas C01.Gen_TypedChain C01.HelpersGen C01.TypedChainGen.
From Cb Require Lang.Syntax Lang.Sem C01.ArithPaths.
Import ListNotations.
Local Open Scope string_scope.
Local Open Scope Z_scope.

(* For all sixteen operators and ALL int64 operands: which builder the generated chain calls, with exactly which values -
   + - * are computed in long double (one rounding to a 64-bit significand), / % & | ^ << >> on the int64 views (truncating
   division, "Division by zero" / "Modulo by zero", "Arithmetic overflow in division" for INT64_MIN / -1, x % -1 = 0, shift
   counts modulo 64), comparisons on the int64 views. *)
Theorem typed_chain_results : forall o a b tl tr s, Sem.in64 a = true -> Sem.in64 b = true ->
  run fn_evaluate_binary_op_typed_chain (spelling o) (chain_args a b tl tr s) = chain_expected o a b.
Proof. exact (fun o a b tl tr s Ha Hb => chain_results_l a b Ha Hb o tl tr s). Qed.
Print Assumptions typed_chain_results.

(* the generated chain, followed by what the three builders do with integer operands, IS the hand-written model
   ArithPaths.eval_ld (which arith_paths_agree of Properties_C01.v is about) *)
Theorem typed_chain_is_eval_ld : forall o a b tl tr s, Sem.in64 a = true -> Sem.in64 b = true ->
  builders (run fn_evaluate_binary_op_typed_chain (spelling o) (chain_args a b tl tr s)) = ArithPaths.eval_ld o a b.
Proof. exact typed_chain_is_eval_ld_l. Qed.
Print Assumptions typed_chain_is_eval_ld.

(* whenever the reference arithmetic Lang.Sem.arith is exact, the typed path returns exactly its result *)
Theorem typed_path_matches_reference : forall o a b r tl tr s, Sem.in64 a = true -> Sem.in64 b = true ->
  Sem.arith o a b = Sem.Val r ->
  builders (run fn_evaluate_binary_op_typed_chain (spelling o) (chain_args a b tl tr s)) = ArithPaths.MVal r.
Proof. exact typed_path_matches_reference_l. Qed.
Print Assumptions typed_path_matches_reference.

(* no undefined behaviour in the chain on integer operands: it calls a builder or throws std::runtime_error *)
Theorem typed_chain_ub_free : forall o a b tl tr s, Sem.in64 a = true -> Sem.in64 b = true ->
  match run fn_evaluate_binary_op_typed_chain (spelling o) (chain_args a b tl tr s) with
  | RCall _ _ | RThrow _ => True | _ => False end.
Proof. exact chain_ub_free_l. Qed.
Print Assumptions typed_chain_ub_free.

(* && and || (reached only when the left operand did not decide): the conjunction / disjunction of the truth values *)
Theorem typed_chain_logical : forall a b tl tr s, Sem.in64 a = true -> Sem.in64 b = true ->
  run fn_evaluate_binary_op_typed_chain "&&" (chain_args a b tl tr s) = boolean (tl && tr) /\
  run fn_evaluate_binary_op_typed_chain "||" (chain_args a b tl tr s) = boolean (tl || tr).
Proof. exact (fun a b tl tr s Ha Hb => conj (chain_land a b Ha Hb tl tr s) (chain_lor a b Ha Hb tl tr s)). Qed.
Print Assumptions typed_chain_logical.

(* ---- non-vacuity: the generated chain evaluated at the boundaries ---- *)
Example typed_add_rounds_to_64_bits :       (* 2^63-1 + 2^63-1 = 2^64 - 2 is still exact *)
  run fn_evaluate_binary_op_typed_chain "+" (chain_args 9223372036854775807 9223372036854775807 true true false)
  = numeric 18446744073709551614.
Proof. vm_compute. reflexivity. Qed.
Example typed_mul_rounds :                   (* (2^63-1)^2 needs 126 bits: rounded to a 64-bit significand *)
  run fn_evaluate_binary_op_typed_chain "*" (chain_args 9223372036854775807 9223372036854775807 true true false)
  = numeric 85070591730234615847396907784232501248.
Proof. vm_compute. reflexivity. Qed.
Example typed_min_div_minus_one : run fn_evaluate_binary_op_typed_chain "/" (chain_args (-9223372036854775808) (-1) true true false)
  = RThrow "Arithmetic overflow in division".
Proof. vm_compute. reflexivity. Qed.
Example typed_shift_count_mod_64 : run fn_evaluate_binary_op_typed_chain ">>" (chain_args (-7) 65 true true false) = integer (-4).
Proof. vm_compute. reflexivity. Qed.
Example typed_unknown_operator : run fn_evaluate_binary_op_typed_chain "**" (chain_args 1 2 true true false)
  = RThrow "Unsupported binary operator in typed evaluation: **".
Proof. vm_compute. reflexivity. Qed.
(* with a floating inferred type and prefer_integral_result = false the chain takes the long double division, which is
   outside the integer-valued fragment: the semantics says so instead of inventing a value *)
Example float_division_is_outside_the_fragment :
  exists w, run fn_evaluate_binary_op_typed_chain "/"
    (("left_int", (TLong, 7)) :: ("left_quad", (TLDouble, 7)) :: ("prefer_integral_result", (TBool, 0)) ::
     ("right_int", (TLong, 2)) :: ("right_quad", (TLDouble, 2)) :: ("inferred_type.type_info == TYPE_DOUBLE", (TBool, 1)) ::
     skipn 6 (chain_args 7 2 true true false)) = RStuck w.
Proof. eexists. vm_compute. reflexivity. Qed.
