(* C01 - lemmas about the reference interpreter that are specific to this property. *)
From Coq Require Import List ZArith Bool Arith Lia.
From Cb Require Import Lang.Syntax Lang.Sem Lang.Respect Lang.Theorems Lang.Print.
Import ListNotations.
Local Open Scope Z_scope.

(* the interpreter is a function: same program, same fuel, same transcript *)
Lemma run_deterministic_l fuel p r1 r2 : run fuel p = r1 -> run fuel p = r2 -> r1 = r2.
Proof. congruence. Qed.

(* whatever a program does, what it has printed stays printed: the transcript of a longer run
   extends the transcript of the state it started from *)
Lemma exec_list_out funcs n ss s : out_ext s (snd (exec_list (exec funcs n) ss s)).
Proof.
  apply (r_exec_list out_ext out_ext_refl out_ext_trans (exec funcs n)).
  apply (proj2 (output_monotone_l funcs n)).
Qed.

(* `continue` (and a normal end of the body) goes on with the update clause; `break` does not *)
Lemma loop_step_continue body next s s' : body s = (Cnt, s') -> loop_step body next s = next s'.
Proof. unfold loop_step. intros ->. reflexivity. Qed.
Lemma loop_step_normal body next s s' : body s = (Val tt, s') -> loop_step body next s = next s'.
Proof. unfold loop_step. intros ->. reflexivity. Qed.
Lemma loop_step_break body next s s' : body s = (Brk, s') -> loop_step body next s = (Val tt, s').
Proof. unfold loop_step. intros ->. reflexivity. Qed.
Lemma loop_step_error body next s s' e : body s = (Fail e, s') -> loop_step body next s = (Fail e, s').
Proof. unfold loop_step. intros ->. reflexivity. Qed.

Lemma for_unfold funcs k init c upd body :
  exec funcs (S k) (SFor init c upd body) =
  (m_push_scope ;;;
   finally (exec_list (exec funcs k) init ;;;
            x <- eval funcs k c ;;
            if x =? 0 then ret tt
            else loop_step (in_block (exec funcs k) body)
                           (exec_list (exec funcs k) upd ;;; exec funcs k (SFor [] c upd body))) pop_scope_st).
Proof. reflexivity. Qed.

(* unfolding equations (all by computation) *)
Lemma exec_compound_eq funcs k lv o e : exec funcs (S k) (SAssign lv (Some o) e) =
  (tg <- lval_target (eval funcs k) lv ;; old <- m_read (fst tg) (snd tg) ;; v <- eval funcs k e ;;
   r <- lift (arith o old v) ;; m_write (fst tg) (snd tg) r).
Proof. reflexivity. Qed.
Lemma exec_assign_eq funcs k lv e : exec funcs (S k) (SAssign lv None e) =
  (v <- eval funcs k e ;; tg <- lval_target (eval funcs k) lv ;; m_write (fst tg) (snd tg) v).
Proof. reflexivity. Qed.
Lemma eval_bin_eq funcs k o a b : eval funcs (S k) (EBin o a b) =
  (x <- eval funcs k a ;; y <- eval funcs k b ;; lift (arith o x y)).
Proof. reflexivity. Qed.
Lemma eval_var_eq funcs k x : eval funcs (S k) (EVar x) = m_read x [].
Proof. reflexivity. Qed.
Lemma eval_idx_lit_eq funcs k x i : eval funcs (S (S k)) (EIdx x [ENum i]) = (is_ <- (v <- ret i ;; vs <- ret [] ;; ret (v :: vs)) ;; m_read x is_).
Proof. reflexivity. Qed.

(* x op= e  means  x = x op e *)
Lemma compound_desugar_var funcs k x o e s :
  exec funcs (S (S k)) (SAssign (LVar x) (Some o) e) s =
  exec funcs (S (S (S k))) (SAssign (LVar x) None (EBin o (EVar x) e)) s.
Proof.
  rewrite exec_compound_eq, exec_assign_eq, eval_bin_eq, eval_var_eq.
  generalize (eval funcs (S k) e). intros E. cbn [lval_target]. unfold bind, ret, lift, fst, snd.
  destruct (m_read x [] s) as [c s1]. destruct c; try reflexivity.
  destruct (E s1) as [c2 s2]. destruct c2; try reflexivity.
  all: try (destruct (arith o a a0); reflexivity).
Qed.

(* literal-index element form, the one the implementation's desugaring supports *)
Lemma compound_desugar_elem funcs k x i o e s :
  exec funcs (S (S (S k))) (SAssign (LIdx x [ENum i]) (Some o) e) s =
  exec funcs (S (S (S (S k)))) (SAssign (LIdx x [ENum i]) None (EBin o (EIdx x [ENum i]) e)) s.
Proof.
  rewrite exec_compound_eq, exec_assign_eq, eval_bin_eq, eval_idx_lit_eq.
  generalize (eval funcs (S (S k)) e). intros E.
  change (lval_target (eval funcs (S (S k))) (LIdx x [ENum i])) with (is_ <- (v <- ret i ;; vs <- ret [] ;; ret (v :: vs)) ;; ret (x, is_)).
  change (lval_target (eval funcs (S (S (S k)))) (LIdx x [ENum i])) with (is_ <- (v <- ret i ;; vs <- ret [] ;; ret (v :: vs)) ;; ret (x, is_)).
  unfold bind, ret, lift, fst, snd.
  destruct (m_read x [i] s) as [c s1]. destruct c; try reflexivity.
  destruct (E s1) as [c2 s2]. destruct c2; try reflexivity.
  all: try (destruct (arith o a a0); reflexivity).
Qed.
