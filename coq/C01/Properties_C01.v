(* C01 - property theorems only (proofs in Lang/*.v, C01/ArithPaths.v, C01/CoreLemmas.v).
   Ref = the fuelled reference interpreter [Lang.Sem.eval/exec] and [Lang.Print.run]. *)
From Coq Require Import List ZArith Bool Arith.
From Cb Require Import Lang.Syntax Lang.Sem Lang.Respect Lang.Theorems Lang.Print Lang.FuelMono C01.ArithPaths C01.CoreLemmas C01.Structs.
Import ListNotations.
Local Open Scope Z_scope.

Theorem run_deterministic : forall fuel p r1 r2, run fuel p = r1 -> run fuel p = r2 -> r1 = r2.
Proof. exact run_deterministic_l. Qed.
Print Assumptions run_deterministic.

(* fuel is only a termination device: once a run ends without exhausting it, any larger fuel gives
   exactly the same transcript and outcome - the meaning of a program does not depend on the fuel *)
Theorem run_fuel_independent : forall n m p out oc, (n <= m)%nat ->
  run n p = (out, oc) -> oc <> Failed ENoFuel -> run m p = (out, oc).
Proof. exact run_fuel_independent_l. Qed.
Print Assumptions run_fuel_independent.

Theorem run_meaning_unique : forall n m p o1 c1 o2 c2,
  run n p = (o1, c1) -> run m p = (o2, c2) -> c1 <> Failed ENoFuel -> c2 <> Failed ENoFuel -> o1 = o2 /\ c1 = c2.
Proof.
  intros n m p o1 c1 o2 c2 H1 H2 N1 N2. destruct (Nat.le_ge_cases n m) as [L|L].
  - rewrite (run_fuel_independent_l n m p o1 c1 L H1 N1) in H2. injection H2 as <- <-. auto.
  - rewrite (run_fuel_independent_l m n p o2 c2 L H2 N2) in H1. injection H1 as <- <-. auto.
Qed.
Print Assumptions run_meaning_unique.

Theorem evaluation_fuel_monotone : forall funcs n m, (n <= m)%nat ->
  (forall e, le_m (eval funcs n e) (eval funcs m e)) /\ (forall s, le_m (exec funcs n s) (exec funcs m s)).
Proof. exact fuel_monotone. Qed.
Print Assumptions evaluation_fuel_monotone.

(* For every function table, fuel, expression / statement and start state: the output after the
   evaluation extends the output before it - nothing already delivered is ever taken back. *)
Theorem output_monotone : forall funcs n,
  (forall e, respects out_ext (eval funcs n e)) /\ (forall st, respects out_ext (exec funcs n st)).
Proof. exact output_monotone_l. Qed.
Print Assumptions output_monotone.

(* A runtime error ends the run at the failing statement: whatever follows it in the program
   contributes nothing (same final state, hence same transcript), and the outcome is the error. *)
Theorem error_cuts_output : forall ex ss1 ss2 s e s',
  exec_list ex ss1 s = (Fail e, s') -> exec_list ex (ss1 ++ ss2) s = (Fail e, s').
Proof. exact error_cuts_run. Qed.
Print Assumptions error_cuts_output.

Theorem div_truncates : forall a b q, arith Div a b = Val q -> b <> 0 /\ q = Z.quot a b /\ a = b * q + Z.rem a b.
Proof. exact Theorems.div_truncates. Qed.
Print Assumptions div_truncates.

Theorem rem_sign_of_dividend : forall a b r, arith Mod a b = Val r ->
  b <> 0 /\ r = Z.rem a b /\ Z.abs r < Z.abs b /\ (r = 0 \/ Z.sgn r = Z.sgn a).
Proof. exact Theorems.rem_sign_of_dividend. Qed.
Print Assumptions rem_sign_of_dividend.

Theorem shr_arithmetic : forall a n r, arith Shr a n = Val r -> 0 <= n < 64 /\ r = a / 2 ^ n.
Proof. exact Theorems.shr_arithmetic. Qed.
Print Assumptions shr_arithmetic.

Theorem division_by_zero_is_error : forall a, arith Div a 0 = Fail EDiv0 /\ arith Mod a 0 = Fail EDiv0.
Proof. exact div0_is_error. Qed.
Print Assumptions division_by_zero_is_error.

(* both evaluators of the implementation (wrap-around int64 path, long-double typed path) return
   exactly the mathematically exact result whenever that result fits 64 bits *)
Theorem arith_paths_agree : forall o a b r,
  arith o a b = Val r -> eval_i64 o a b = MVal r /\ eval_ld o a b = MVal r.
Proof. exact arith_paths_agree_l. Qed.
Print Assumptions arith_paths_agree.

Theorem div0_paths_agree : forall o a b,
  arith o a b = Fail EDiv0 -> eval_i64 o a b = MDiv0 /\ eval_ld o a b = MDiv0.
Proof. exact div0_paths_agree_l. Qed.
Print Assumptions div0_paths_agree.

(* `continue` and a normal end of the body both go on with the for-update; `break` and errors do not *)
Theorem continue_runs_update : forall body next s s',
  (body s = (Cnt, s') -> loop_step body next s = next s') /\
  (body s = (Val tt, s') -> loop_step body next s = next s') /\
  (body s = (Brk, s') -> loop_step body next s = (Val tt, s')) /\
  (forall e, body s = (Fail e, s') -> loop_step body next s = (Fail e, s')).
Proof.
  intros. repeat split; intros; [apply loop_step_continue|apply loop_step_normal|apply loop_step_break|apply loop_step_error]; assumption.
Qed.
Print Assumptions continue_runs_update.

Theorem for_loop_shape : forall funcs k init c upd body,
  exec funcs (S k) (SFor init c upd body) =
  (m_push_scope ;;;
   finally (exec_list (exec funcs k) init ;;;
            x <- eval funcs k c ;;
            if x =? 0 then ret tt
            else loop_step (in_block (exec funcs k) body)
                           (exec_list (exec funcs k) upd ;;; exec funcs k (SFor [] c upd body))) pop_scope_st).
Proof. exact for_unfold. Qed.
Print Assumptions for_loop_shape.

Theorem compound_desugar_equiv : forall funcs k x o e s,
  exec funcs (S (S k)) (SAssign (LVar x) (Some o) e) s =
  exec funcs (S (S (S k))) (SAssign (LVar x) None (EBin o (EVar x) e)) s.
Proof. exact compound_desugar_var. Qed.
Print Assumptions compound_desugar_equiv.

Theorem compound_desugar_equiv_element : forall funcs k x i o e s,
  exec funcs (S (S (S k))) (SAssign (LIdx x [ENum i]) (Some o) e) s =
  exec funcs (S (S (S (S k)))) (SAssign (LIdx x [ENum i]) None (EBin o (EIdx x [ENum i]) e)) s.
Proof. exact compound_desugar_elem. Qed.
Print Assumptions compound_desugar_equiv_element.

(* ---- plain structs: a struct variable is the group of its member cells [mkey x j] ---- *)
Theorem struct_members_are_distinct_cells : forall x j x' j', (j < 8)%nat -> (j' < 8)%nat ->
  mkey x j = mkey x' j' -> x = x' /\ j = j'.
Proof. exact mkey_injective_l. Qed.
Print Assumptions struct_members_are_distinct_cells.

Theorem struct_members_disjoint_from_plain_variables : forall x j y, (y < 1000)%nat -> mkey x j <> y.
Proof. exact mkey_not_plain_l. Qed.
Print Assumptions struct_members_disjoint_from_plain_variables.

(* `a = b;` on structs means the member-by-member, cell-by-cell assignments a.m_j[i..] = b.m_j[i..] *)
Theorem struct_copy_is_memberwise_assignment : forall funcs k n x y flds s,
  exec funcs (S n) (SCopy x y flds) s = exec_list (exec funcs (S (S (S k)))) (copy_stmts x y 0 flds) s.
Proof. exact struct_copy_desugar_l. Qed.
Print Assumptions struct_copy_is_memberwise_assignment.

(* a store to one member changes no other member of any struct variable (a copy stays independent) ... *)
Theorem struct_member_store_is_private : forall x j idx v s s' x' j' idx',
  (j < 8)%nat -> (j' < 8)%nat -> (x <> x' \/ j <> j') ->
  m_write (mkey x j) idx v s = (Val tt, s') ->
  m_read (mkey x' j') idx' s' = (fst (m_read (mkey x' j') idx' s), s').
Proof. exact struct_member_store_private_l. Qed.
Print Assumptions struct_member_store_is_private.

(* ... and no plain variable *)
Theorem struct_member_store_leaves_plain_variables : forall x j idx v s s' y idx',
  (y < 1000)%nat -> m_write (mkey x j) idx v s = (Val tt, s') ->
  m_read y idx' s' = (fst (m_read y idx' s), s').
Proof. exact struct_member_store_leaves_plain_l. Qed.
Print Assumptions struct_member_store_leaves_plain_variables.

(* a freshly declared member reads 0 at every index inside its shape (and is a bounds error outside) *)
Theorem struct_member_starts_zeroed : forall t c dims idx s s',
  m_declare false false t c dims [] s = (Val tt, s') ->
  fst (m_read c idx s') = Val 0 \/ fst (m_read c idx s') = Fail EBounds.
Proof. exact member_declared_reads_zero_l. Qed.
Print Assumptions struct_member_starts_zeroed.

(* non-vacuity for the struct theorems: declare two structs, store, copy, store to the source, read the copy *)
Example sample_struct_run :
  let tl := {| base := TLong; uns := false |} in
  let fl := [ {| fty := tl; fdims := [] |}; {| fty := tl; fdims := [2%nat] |} ] in
  let p := {| pglobals := []; pfuncs := [];
              pmain := [ SStruct 1%nat 2%nat fl; SStruct 1%nat 3%nat fl;
                         SAssign (LVar (mkey 2%nat 0%nat)) None (ENum 5); SAssign (LIdx (mkey 2%nat 1%nat) [ENum 1]) None (ENum 7);
                         SCopy 3%nat 2%nat fl;
                         SAssign (LVar (mkey 2%nat 0%nat)) None (ENum 100);
                         SPrint true [EVar (mkey 3%nat 0%nat); EIdx (mkey 3%nat 1%nat) [ENum 1]; EVar (mkey 2%nat 0%nat); EIdx (mkey 3%nat 1%nat) [ENum 0]];
                         SPrint true [EIdx (mkey 3%nat 1%nat) [ENum 2]] ] |} in
  run 100 p = ([OInt 5; OSp; OInt 7; OSp; OInt 100; OSp; OInt 0; ONl], Failed EBounds).
Proof. vm_compute. reflexivity. Qed.

(* non-vacuity: a program that prints, loops with continue, and then fails *)
Example sample_run :
  let p := {| pglobals := []; pfuncs := [];
              pmain := [ SFor [SDecl false false {| base := TInt; uns := false |} 1%nat (Some (ENum 0))]
                              (EBin Lt (EVar 1%nat) (ENum 3)) [SIncDec false true (LVar 1%nat)]
                              [ SIf (EBin Eq (EVar 1%nat) (ENum 1)) [SContinue] []; SPrint true [EVar 1%nat] ];
                         SPrint true [EBin Div (ENum 1) (ENum 0)];
                         SPrint true [ENum 9] ] |} in
  run 100 p = ([OInt 0; ONl; OInt 2; ONl], Failed EDiv0).
Proof. vm_compute. reflexivity. Qed.
