(* C01 - the integer tail of the typed evaluator: theorems about the dispatch chain that ends
   BinaryUnaryTypedHelpers::evaluate_binary_op_typed (binary_unary.cpp), GENERATED from the C++ text into
   C01/Gen_TypedChain.v by translators/cxx_pure.py (target typed_chain).  Variables the chain reads from the code before
   it (left_int, right_int, left_quad, right_quad, prefer_integral_result) are parameters of the generated function,
   pure boolean observations of the operands are boolean parameters named by their source text (both sorted by name), and
   calls of the local result builders are returned uninterpreted ([RCall tag values]). *)
From Coq Require Import ZArith Bool String List Lia ZifyBool.
From Cb Require Import Cxx.Cxx Cxx.CxxLemmas C01.Gen_TypedChain C01.HelpersGen.
From Cb Require Lang.Syntax Lang.Sem C01.ArithPaths.
Import ListNotations.
Local Open Scope string_scope.
Local Open Scope Z_scope.
Ltac Zify.zify_post_hook ::= Z.to_euclidean_division_equations.

Module S := Cb.Lang.Syntax.
Module R := Cb.Lang.Sem.
Module P := Cb.C01.ArithPaths.

(* integer operands a, b: what the code before the chain establishes -
   left_int = a, right_int = b (as_numeric), left_quad = (long double) a, right_quad = (long double) b (as_quad; exact: an
   int64 has at most 63 significant bits), prefer_integral_result = true, no operand is a string or floating, the inferred
   type is not a floating type, truthy(v) = (v != 0).  The string comparisons are never consulted (their value is irrelevant). *)
Definition chain_args (a b : Z) (tl tr s : bool) : list (string * value) :=
  [("left_int", (TLong, a)); ("left_quad", (TLDouble, a)); ("prefer_integral_result", (TBool, 1));
   ("right_int", (TLong, b)); ("right_quad", (TLDouble, b));
   ("inferred_type.type_info == TYPE_DOUBLE", (TBool, 0)); ("inferred_type.type_info == TYPE_FLOAT", (TBool, 0));
   ("inferred_type.type_info == TYPE_QUAD", (TBool, 0));
   ("left_value.is_floating()", (TBool, 0)); ("left_value.is_string()", (TBool, 0));
   ("left_value.string_value != right_value.string_value", (TBool, b2z s));
   ("left_value.string_value < right_value.string_value", (TBool, b2z s));
   ("left_value.string_value <= right_value.string_value", (TBool, b2z s));
   ("left_value.string_value == right_value.string_value", (TBool, b2z s));
   ("left_value.string_value > right_value.string_value", (TBool, b2z s));
   ("left_value.string_value >= right_value.string_value", (TBool, b2z s));
   ("right_value.is_floating()", (TBool, 0)); ("right_value.is_string()", (TBool, 0));
   ("truthy(left_value)", (TBool, b2z tl)); ("truthy(right_value)", (TBool, b2z tr))].

(* what the chain returns on integer operands: the result builder it calls and the argument values it passes *)
Definition numeric (q : Z) : result := RCall "make_numeric_typed_value" [(TLDouble, q); (TBool, 1)].
Definition integer (z : Z) : result := RCall "make_integer_typed_value" [(TLong, z)].
Definition boolean (c : bool) : result := RCall "make_bool_typed_value" [(TBool, b2z c)].
Definition chain_expected (o : S.binop) (a b : Z) : result :=
  match o with
  | S.Add => numeric (ld_round (a + b)) | S.Sub => numeric (ld_round (a - b)) | S.Mul => numeric (ld_round (a * b))
  | S.Div => if b =? 0 then RThrow "Division by zero"
             else if (a =? R.int64_min) && (b =? -1) then RThrow "Arithmetic overflow in division" else integer (Z.quot a b)
  | S.Mod => if b =? 0 then RThrow "Modulo by zero" else if b =? -1 then integer 0 else integer (Z.rem a b)
  | S.BAnd => integer (Z.land a b) | S.BOr => integer (Z.lor a b) | S.BXor => integer (Z.lxor a b)
  | S.Shl => integer (P.wrap64 (a * 2 ^ (b mod 64))) | S.Shr => integer (Z.shiftr a (b mod 64))
  | S.Lt => boolean (a <? b) | S.Le => boolean (a <=? b) | S.Gt => boolean (b <? a) | S.Ge => boolean (b <=? a)
  | S.Eq => boolean (a =? b) | S.Ne => boolean (negb (a =? b))
  end.

Lemma ld_round_same z : ld_round z = P.ld_round z.
Proof. reflexivity. Qed.
Lemma ld_exact a : R.in64 a = true -> ld_round a = a.
Proof. intros H. rewrite ld_round_same. apply P.ld_round_id. exact H. Qed.

Lemma flag_lo (c : bool) : (0 <=? (if c then 1 else 0)) = true.
Proof. destruct c; reflexivity. Qed.
Lemma flag_hi (c : bool) : ((if c then 1 else 0) <=? 1) = true.
Proof. destruct c; reflexivity. Qed.

(* the decision tree of the chain on integer operands, argument tests discharged *)
Ltac open_chain Ha Hb :=
  let Ha1 := fresh "Ha1" in let Ha2 := fresh "Ha2" in let Hb1 := fresh "Hb1" in let Hb2 := fresh "Hb2" in
  destruct (in64_bounds _ Ha) as [Ha1 Ha2]; destruct (in64_bounds _ Hb) as [Hb1 Hb2];
  unfold chain_args; cxx_tree; rewrite ?(ld_exact _ Ha), ?(ld_exact _ Hb), ?Z.eqb_refl, ?Ha1, ?Ha2, ?Hb1, ?Hb2, ?flag_lo, ?flag_hi;
  cbv beta iota; fold_consts; rewrite ?(sconv64_id _ Ha1 Ha2), ?(sconv64_id _ Hb1 Hb2), ?(ld_exact _ Ha), ?(ld_exact _ Hb); fold_nonzero.

Section Chain.
Variables a b : Z.
Hypothesis Ha : R.in64 a = true.
Hypothesis Hb : R.in64 b = true.

Ltac chain_leaves := unfold numeric, integer, boolean; cbn [b2z]; try reflexivity; try (exfalso; lia).

Lemma chain_add tl tr s : run fn_evaluate_binary_op_typed_chain "+" (chain_args a b tl tr s) = numeric (ld_round (a + b)).
Proof. open_chain Ha Hb; reflexivity. Qed.
Lemma chain_sub tl tr s : run fn_evaluate_binary_op_typed_chain "-" (chain_args a b tl tr s) = numeric (ld_round (a - b)).
Proof. open_chain Ha Hb; reflexivity. Qed.
Lemma chain_mul tl tr s : run fn_evaluate_binary_op_typed_chain "*" (chain_args a b tl tr s) = numeric (ld_round (a * b)).
Proof. open_chain Ha Hb; reflexivity. Qed.
Lemma chain_div tl tr s : run fn_evaluate_binary_op_typed_chain "/" (chain_args a b tl tr s) = chain_expected S.Div a b.
Proof.
  open_chain Ha Hb; cbn [chain_expected]; unfold R.int64_min; cxx_cases; cbn [andb]; chain_leaves.
Qed.
Lemma chain_mod tl tr s : run fn_evaluate_binary_op_typed_chain "%" (chain_args a b tl tr s) = chain_expected S.Mod a b.
Proof.
  open_chain Ha Hb; cbn [chain_expected]; cxx_cases; chain_leaves.
Qed.
Lemma chain_band tl tr s : run fn_evaluate_binary_op_typed_chain "&" (chain_args a b tl tr s) = integer (Z.land a b).
Proof. open_chain Ha Hb; reflexivity. Qed.
Lemma chain_bor tl tr s : run fn_evaluate_binary_op_typed_chain "|" (chain_args a b tl tr s) = integer (Z.lor a b).
Proof. open_chain Ha Hb; reflexivity. Qed.
Lemma chain_bxor tl tr s : run fn_evaluate_binary_op_typed_chain "^" (chain_args a b tl tr s) = integer (Z.lxor a b).
Proof. open_chain Ha Hb; reflexivity. Qed.
Lemma chain_shl tl tr s : run fn_evaluate_binary_op_typed_chain "<<" (chain_args a b tl tr s) = integer (P.wrap64 (a * 2 ^ (b mod 64))).
Proof.
  open_chain Ha Hb; rewrite !count_mod64; cxx_cases; chain_leaves;
    unfold integer; do 4 f_equal; rewrite Z.mod_mod, Z.mul_mod_idemp_l by lia; unfold P.wrap64; lia.
Qed.
Lemma chain_shr tl tr s : run fn_evaluate_binary_op_typed_chain ">>" (chain_args a b tl tr s) = integer (Z.shiftr a (b mod 64)).
Proof.
  open_chain Ha Hb; rewrite !count_mod64; cxx_cases; chain_leaves;
    rewrite Z.shiftr_div_pow2 by lia; reflexivity.
Qed.
Lemma chain_eq tl tr s : run fn_evaluate_binary_op_typed_chain "==" (chain_args a b tl tr s) = boolean (a =? b).
Proof. open_chain Ha Hb; reflexivity. Qed.
Lemma chain_ne tl tr s : run fn_evaluate_binary_op_typed_chain "!=" (chain_args a b tl tr s) = boolean (negb (a =? b)).
Proof. open_chain Ha Hb; reflexivity. Qed.
Lemma chain_lt tl tr s : run fn_evaluate_binary_op_typed_chain "<" (chain_args a b tl tr s) = boolean (a <? b).
Proof. open_chain Ha Hb; reflexivity. Qed.
Lemma chain_gt tl tr s : run fn_evaluate_binary_op_typed_chain ">" (chain_args a b tl tr s) = boolean (b <? a).
Proof. open_chain Ha Hb; reflexivity. Qed.
Lemma chain_le tl tr s : run fn_evaluate_binary_op_typed_chain "<=" (chain_args a b tl tr s) = boolean (a <=? b).
Proof. open_chain Ha Hb; reflexivity. Qed.
Lemma chain_ge tl tr s : run fn_evaluate_binary_op_typed_chain ">=" (chain_args a b tl tr s) = boolean (b <=? a).
Proof. open_chain Ha Hb; reflexivity. Qed.
(* && and || are decided on the truthiness of the operands (the short-circuit happened before the chain) *)
Lemma chain_land tl tr s : run fn_evaluate_binary_op_typed_chain "&&" (chain_args a b tl tr s) = boolean (tl && tr).
Proof. destruct tl, tr; open_chain Ha Hb; reflexivity. Qed.
Lemma chain_lor tl tr s : run fn_evaluate_binary_op_typed_chain "||" (chain_args a b tl tr s) = boolean (tl || tr).
Proof. destruct tl, tr; open_chain Ha Hb; reflexivity. Qed.

Lemma chain_results_l o tl tr s :
  run fn_evaluate_binary_op_typed_chain (spelling o) (chain_args a b tl tr s) = chain_expected o a b.
Proof.
  destruct o; cbn [spelling chain_expected].
  - apply chain_add. - apply chain_sub. - apply chain_mul. - apply chain_div. - apply chain_mod.
  - apply chain_band. - apply chain_bor. - apply chain_bxor. - apply chain_shl. - apply chain_shr.
  - apply chain_lt. - apply chain_le. - apply chain_gt. - apply chain_ge. - apply chain_eq. - apply chain_ne.
Qed.
End Chain.

(* what the result builders do with their arguments when the operands are integers (binary_unary.cpp, the three local
   closures; hand-read): make_numeric_typed_value(q, true) stores static_cast<int64_t>(q) - on x86-64 an out-of-range
   conversion yields INT64_MIN ([P.cast64]); make_integer_typed_value(z) stores z; make_bool_typed_value(c) stores 0 / 1 *)
Definition builders (r : result) : P.mres :=
  match r with
  | RCall "make_numeric_typed_value" [(TLDouble, q); (TBool, 1)] => P.MVal (P.cast64 q)
  | RCall "make_integer_typed_value" [(TLong, z)] => P.MVal z
  | RCall "make_bool_typed_value" [(TBool, z)] => P.MVal z
  | RThrow "Division by zero" | RThrow "Modulo by zero" => P.MDiv0
  | RThrow "Arithmetic overflow in division" => P.MOvf
  | _ => P.MUB
  end.

(* the generated chain followed by the builders IS the hand-written model eval_ld of ArithPaths.v *)
Lemma typed_chain_is_eval_ld_l o a b tl tr s : R.in64 a = true -> R.in64 b = true ->
  builders (run fn_evaluate_binary_op_typed_chain (spelling o) (chain_args a b tl tr s)) = P.eval_ld o a b.
Proof.
  intros Ha Hb. rewrite chain_results_l by assumption.
  destruct o; cbn [chain_expected P.eval_ld P.eval_i64]; unfold numeric, integer, boolean; rewrite <- ?ld_round_same;
    repeat match goal with |- context [if ?c then _ else _] => destruct c end; reflexivity.
Qed.

Lemma typed_path_matches_reference_l o a b r tl tr s : R.in64 a = true -> R.in64 b = true ->
  R.arith o a b = R.Val r -> builders (run fn_evaluate_binary_op_typed_chain (spelling o) (chain_args a b tl tr s)) = P.MVal r.
Proof.
  intros Ha Hb H. rewrite typed_chain_is_eval_ld_l by assumption. apply P.arith_paths_agree_l in H as [_ H]. exact H.
Qed.

(* no undefined behaviour in the chain on integer operands, for the sixteen operators *)
Lemma chain_ub_free_l o a b tl tr s : R.in64 a = true -> R.in64 b = true ->
  match run fn_evaluate_binary_op_typed_chain (spelling o) (chain_args a b tl tr s) with
  | RCall _ _ | RThrow _ => True | _ => False end.
Proof.
  intros Ha Hb. rewrite chain_results_l by assumption.
  destruct o; cbn [chain_expected]; unfold numeric, integer, boolean;
    repeat match goal with |- context [if ?c then _ else _] => destruct c end; exact I.
Qed.
