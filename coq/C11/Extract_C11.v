(* Extraction of the C11 model to OCaml (ExtrOcamlBasic + ExtrOcamlString only; N/Z/nat stay inductive). *)
From Coq Require Import Extraction ExtrOcamlBasic ExtrOcamlString.
From Cb Require Import C11.Model C11.Context.
Extraction Language OCaml.
Extraction "C11/c11_model.ml" instantiate clone subst_node generate_cache_key build_map
  substitute_generic_type_name subst_name3 call_cached call_pinned
  uses_child_outside uses_scalar_outside cloned_child_fields subst_child_fields s2l
  resolve_complex_type resolve_type_in_context impl_type_args fresh_inst find_impl_for_struct run run_main run_calls run_mono run_main_mono run_calls_mono.
