(* GENERATED on every run by translators/clone_fields.py from
     src/common/ast.h  (struct ASTNode)
     src/backend/interpreter/evaluator/functions/generic_instantiation.cpp  (clone_ast_node, substitute_type_parameters)
   Do not edit: the theorems of Properties_C11.v about these lists are statements about the
   current C++ text. *)
From Coq Require Import String List.
Import ListNotations.
Local Open Scope string_scope.

(* (a) members of struct ASTNode, in declaration order *)
Definition ast_ptr_fields : list string := ["left"; "right"; "third"; "condition"; "init_expr"; "update_expr"; "body"; "array_index"; "array_size_expr"; "try_body"; "catch_body"; "finally_body"; "throw_expr"; "switch_expr"; "else_body"; "case_body"; "match_expr"; "range_start"; "range_end"; "default_value"; "lambda_body"; "cast_expr"; "new_array_size"; "delete_expr"; "sizeof_expr"].
Definition ast_vec_fields : list string := ["children"; "parameters"; "arguments"; "statements"; "array_dimensions"; "array_indices"; "impl_static_variables"; "cases"; "case_values"; "lambda_params"; "interpolation_segments"].
Definition ast_indirect_fields : list string := ["match_arms"].
Definition ast_scalar_fields : list string := ["type_info"; "location"; "is_const"; "is_static"; "is_impl_static"; "is_array"; "is_array_return"; "is_private_method"; "is_async"; "is_private_member"; "is_default_member"; "is_pointer"; "pointer_depth"; "pointer_base_type_name"; "pointer_base_type"; "is_reference"; "is_rvalue_reference"; "is_unsigned"; "is_function_address"; "function_address_name"; "int_value"; "double_value"; "quad_value"; "is_float_literal"; "literal_type"; "literal_text"; "str_value"; "name"; "type_name"; "original_type_name"; "return_type_name"; "op"; "return_types"; "array_size"; "array_type_info"; "is_pointer_array_access"; "module_name"; "import_items"; "import_aliases"; "is_exported"; "is_default_export"; "import_path"; "exception_var"; "exception_type"; "qualified_name"; "is_qualified_call"; "is_arrow_call"; "enum_name"; "enum_member"; "enum_definition"; "union_name"; "union_definition"; "member_chain"; "interface_name"; "struct_name"; "function_pointer_type"; "is_function_pointer"; "function_pointer_value"; "array_pointer_type"; "is_array_pointer"; "is_pointer_const_qualifier"; "is_pointee_const_qualifier"; "has_default_value"; "first_default_param_index"; "is_constructor"; "is_destructor"; "constructor_struct_name"; "is_async_function"; "is_await_expression"; "is_discard"; "internal_name"; "is_lambda"; "is_lambda_call"; "lambda_return_type"; "lambda_return_type_name"; "is_generic"; "type_parameters"; "type_arguments"; "generic_base_name"; "is_type_parameter"; "type_parameter_name"; "interface_bounds"; "is_type_parameter_access"; "type_parameter_context"; "is_interpolation_text"; "is_interpolation_expr"; "interpolation_format"; "foreign_module_decl"; "foreign_function_decl"; "cast_target_type"; "cast_type_info"; "new_type_name"; "new_type_info"; "is_array_new"; "sizeof_type_name"; "sizeof_type_info"].

(* (b) members copied by clone_ast_node *)
Definition cloned_ptr_fields : list string := ["sizeof_expr"; "cast_expr"; "left"; "right"; "condition"; "init_expr"; "lambda_body"; "body"].
Definition cloned_vec_fields : list string := ["statements"; "parameters"; "arguments"; "cases"].
Definition cloned_scalar_fields : list string := ["name"; "op"; "int_value"; "double_value"; "str_value"; "type_name"; "type_info"; "return_type_name"; "is_unsigned"; "is_const"; "is_static"; "is_pointee_const_qualifier"; "is_pointer"; "pointer_depth"; "pointer_base_type_name"; "is_array"; "is_reference"; "is_generic"; "type_parameters"; "type_arguments"; "sizeof_type_name"; "cast_target_type"; "cast_type_info"].

(* (c) members rewritten / descended into by substitute_type_parameters *)
Definition subst_string_fields : list string := ["type_name"; "return_type_name"; "pointer_base_type_name"; "sizeof_type_name"; "cast_target_type"].
Definition subst_ptr_fields : list string := ["sizeof_expr"; "cast_expr"; "left"; "right"; "condition"; "init_expr"; "lambda_body"; "body"].
Definition subst_vec_fields : list string := ["statements"; "parameters"; "arguments"; "cases"].
