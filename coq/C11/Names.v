(* C11 - the textual type rewriting of substitute_generic_type_name refines structural substitution:
   for every well-formed type expression t (any nesting depth, any arity),
       substitute_generic_type_name m (show t) = show (tsubst m t)
   and no bound type parameter survives in tsubst m t.  The fuel of Model.subst_generic is shown
   sufficient (it is the length of the name). *)
From Coq Require Import String Ascii List Bool Arith ZArith NArith Lia.
Import ListNotations.
From Cb Require Import C11.Gen_CloneFields C11.Model C11.Cache.
Local Open Scope list_scope.

(* ------------------------------------------------------------------ Spec: type expressions *)
Inductive ty : Type :=
| TName (n : str)
| TApp (n : str) (args : list ty).

Section TyInd.
  Variable P : ty -> Prop.
  Hypothesis HN : forall n, P (TName n).
  Hypothesis HA : forall n args, Forall P args -> P (TApp n args).
  Fixpoint ty_ind' (t : ty) : P t :=
    match t with
    | TName n => HN n
    | TApp n args =>
        HA n args ((fix go (l : list ty) : Forall P l :=
                      match l with [] => Forall_nil _ | a :: r => Forall_cons a (ty_ind' a) (go r) end) args)
    end.
End TyInd.

Definition sep : str := [c_comma; c_sp].

(* how the parser spells a type expression: Pair<int, Box<long>> *)
Fixpoint show (t : ty) : str :=
  match t with
  | TName n => n
  | TApp n args => n ++ [c_lt] ++ join_with sep (map show args) ++ [c_gt]
  end.

(* structural substitution of type parameters (the hand-written copy) *)
Fixpoint tsubst (m : tmap) (t : ty) : ty :=
  match t with
  | TName n => TName (map_or_self m n)
  | TApp n args => TApp n (map (tsubst m) args)
  end.

Definition plain (c : ascii) : Prop := c <> c_lt /\ c <> c_gt /\ c <> c_comma.

(* an identifier-like name: non-empty, no '<' '>' ',' and no blank *)
Definition clean (n : str) : Prop := n <> [] /\ Forall (fun c => plain c /\ is_blank c = false) n.

Fixpoint wf (t : ty) : Prop :=
  match t with
  | TName n => clean n
  | TApp n args => clean n /\ args <> [] /\ (fix all (l : list ty) : Prop :=
                                              match l with [] => True | a :: r => wf a /\ all r end) args
  end.

Lemma wf_app_forall : forall n args, wf (TApp n args) -> clean n /\ args <> [] /\ Forall wf args.
Proof.
  intros n args [Hc [Hn Ha]]. split; [exact Hc|]. split; [exact Hn|]. clear Hn.
  induction args as [|a r IH]; [constructor|].
  destruct Ha as [Ha Hr]. constructor; [exact Ha | apply IH; exact Hr].
Qed.

(* ------------------------------------------------------------------ character facts *)
Lemma eqb_neq : forall a b, a <> b -> Ascii.eqb a b = false.
Proof. intros a b H. apply Ascii.eqb_neq. exact H. Qed.

Lemma blank_chars : is_blank c_lt = false /\ is_blank c_gt = false /\ is_blank c_comma = false /\ is_blank c_sp = true.
Proof. repeat split; reflexivity. Qed.

Lemma plain_sp : plain c_sp.
Proof. unfold plain. repeat split; discriminate. Qed.

(* ------------------------------------------------------------------ the splitter on inert text *)
Lemma split_plain_run : forall w rest d cur acc,
  Forall plain w ->
  split_params (w ++ rest) d cur acc = split_params rest d (cur ++ w) acc.
Proof.
  induction w as [|c w IH]; intros rest d cur acc Hw; simpl.
  - rewrite app_nil_r. reflexivity.
  - inversion Hw as [|? ? [H1 [H2 H3]] Hw']; subst.
    rewrite (eqb_neq _ _ H1), (eqb_neq _ _ H2), (eqb_neq _ _ H3). simpl.
    rewrite IH by exact Hw'. rewrite <- app_assoc. reflexivity.
Qed.

Lemma clean_plain : forall n, clean n -> Forall plain n.
Proof. intros n [_ H]. eapply Forall_impl; [|exact H]. simpl. tauto. Qed.


Lemma split_step_plain : forall c rest d cur acc, plain c ->
  split_params (c :: rest) d cur acc = split_params rest d (cur ++ [c]) acc.
Proof. intros. apply (split_plain_run [c] rest d cur acc). constructor; [assumption|constructor]. Qed.

Lemma split_step_comma_deep : forall rest d cur acc, (d <> 0)%Z ->
  split_params (c_comma :: rest) d cur acc = split_params rest d (cur ++ [c_comma]) acc.
Proof.
  intros. cbn [split_params]. change (Ascii.eqb c_comma c_lt) with false. change (Ascii.eqb c_comma c_gt) with false.
  change (Ascii.eqb c_comma c_comma) with true. cbv iota.
  assert (E : (d =? 0)%Z = false) by (apply Z.eqb_neq; assumption). rewrite E. reflexivity.
Qed.

Lemma split_step_comma_top : forall rest cur acc,
  split_params (c_comma :: rest) 0%Z cur acc = split_params rest 0%Z [] (push_trimmed acc cur).
Proof. intros. reflexivity. Qed.

Lemma split_step_lt : forall rest d cur acc,
  split_params (c_lt :: rest) d cur acc = split_params rest (d + 1)%Z (cur ++ [c_lt]) acc.
Proof. intros. reflexivity. Qed.

Lemma split_step_gt : forall rest d cur acc,
  split_params (c_gt :: rest) d cur acc = split_params rest (d - 1)%Z (cur ++ [c_gt]) acc.
Proof. intros. reflexivity. Qed.

Lemma join_cons2 : forall a b r,
  join_with sep (map show (a :: b :: r)) = show a ++ c_comma :: c_sp :: join_with sep (map show (b :: r)).
Proof. intros. reflexivity. Qed.

(* scanning the spelling of a well-formed type at any depth >= 0 never splits and returns to the
   same depth; inside brackets (depth >= 1) the same holds for a whole ", "-joined list *)
Lemma split_join_inert : forall (l : list ty),
  Forall (fun t => forall rest d cur acc, (0 <= d)%Z ->
            split_params (show t ++ rest) d cur acc = split_params rest d (cur ++ show t) acc) l ->
  forall rest d cur acc, (1 <= d)%Z ->
    split_params (join_with sep (map show l) ++ rest) d cur acc =
    split_params rest d (cur ++ join_with sep (map show l)) acc.
Proof.
  induction l as [|a r IH]; intros Hl rest d cur acc Hd.
  - simpl. rewrite app_nil_r. reflexivity.
  - inversion Hl as [|? ? Ha Hr]; subst. destruct r as [|b r].
    + simpl. apply Ha. lia.
    + rewrite join_cons2. rewrite <- app_assoc. rewrite Ha by lia.
      rewrite <- !app_comm_cons.
      rewrite split_step_comma_deep by lia.
      rewrite (split_step_plain c_sp) by exact plain_sp.
      rewrite (IH Hr) by exact Hd.
      f_equal. rewrite <- !app_assoc. reflexivity.
Qed.

Lemma split_show_inert : forall t, wf t ->
  forall rest d cur acc, (0 <= d)%Z ->
    split_params (show t ++ rest) d cur acc = split_params rest d (cur ++ show t) acc.
Proof.
  induction t as [n | n args IH] using ty_ind'; intros Hwf rest d cur acc Hd.
  - simpl. apply split_plain_run. apply clean_plain. exact Hwf.
  - apply wf_app_forall in Hwf. destruct Hwf as [Hc [Hne Hargs]].
    assert (Hall : Forall (fun t => forall rest d cur acc, (0 <= d)%Z ->
              split_params (show t ++ rest) d cur acc = split_params rest d (cur ++ show t) acc) args).
    { rewrite Forall_forall in *. intros a Ha. apply IH; auto. }
    change (show (TApp n args)) with (n ++ c_lt :: (join_with sep (map show args) ++ [c_gt])).
    rewrite <- app_assoc. rewrite split_plain_run by (apply clean_plain; exact Hc).
    rewrite <- app_comm_cons. rewrite split_step_lt.
    rewrite <- app_assoc. rewrite (split_join_inert args Hall) by lia.
    rewrite <- app_comm_cons. simpl app at 1. rewrite split_step_gt.
    replace (d + 1 - 1)%Z with d by lia.
    f_equal. rewrite <- !app_assoc. reflexivity.
Qed.

(* ------------------------------------------------------------------ trimming *)
Definition starts_nonblank (w : str) : Prop := exists a w', w = a :: w' /\ is_blank a = false.
Definition ends_nonblank (w : str) : Prop := exists w' z, w = w' ++ [z] /\ is_blank z = false.

Lemma drop_blanks_prefix : forall bl w,
  Forall (fun c => is_blank c = true) bl -> starts_nonblank w -> drop_blanks (bl ++ w) = w.
Proof.
  induction bl as [|b bl IH]; intros w Hb [a [w' [Hw Ha]]]; simpl.
  - subst w. simpl. rewrite Ha. reflexivity.
  - inversion Hb as [|? ? Hb1 Hb2]; subst. rewrite Hb1. apply IH; auto. exists a, w'. auto.
Qed.

Lemma trim_blanks_prefix : forall bl w,
  Forall (fun c => is_blank c = true) bl -> starts_nonblank w -> ends_nonblank w ->
  trim (bl ++ w) = Some w.
Proof.
  intros bl w Hb Hs He. unfold trim. rewrite drop_blanks_prefix by assumption.
  destruct Hs as [a [w' [Hw Ha]]]. rewrite Hw. rewrite <- Hw.
  destruct He as [w'' [z [Hw2 Hz]]]. rewrite Hw2.
  rewrite rev_app_distr. simpl rev at 2. simpl app at 1. cbn [drop_blanks]. rewrite Hz.
  simpl rev. rewrite rev_involutive. reflexivity.
Qed.

Lemma clean_starts : forall n rest, clean n -> starts_nonblank (n ++ rest).
Proof.
  intros [|a n] rest [Hne H]; [congruence|]. inversion H as [|? ? [_ Ha] _]; subst.
  exists a, (n ++ rest). auto.
Qed.

Lemma clean_ends : forall n, clean n -> ends_nonblank n.
Proof.
  intros n [Hne H]. destruct (exists_last Hne) as [w' [z Hw]]. exists w', z. split; [exact Hw|].
  rewrite Forall_forall in H. apply H. rewrite Hw. apply in_or_app. right. left. reflexivity.
Qed.

Lemma show_edges : forall t, wf t -> starts_nonblank (show t) /\ ends_nonblank (show t).
Proof.
  intros [n | n args] Hwf.
  - simpl. split; [rewrite <- (app_nil_r n); apply clean_starts | apply clean_ends]; exact Hwf.
  - apply wf_app_forall in Hwf. destruct Hwf as [Hc _]. simpl. split.
    + apply clean_starts. exact Hc.
    + exists (n ++ [c_lt] ++ join_with sep (map show args)), c_gt. split.
      * rewrite <- !app_assoc. reflexivity.
      * reflexivity.
Qed.

(* ------------------------------------------------------------------ the top-level split *)
Lemma split_top_level : forall l, Forall wf l -> l <> [] ->
  forall cur acc, Forall (fun c => is_blank c = true) cur ->
    split_params (join_with sep (map show l)) 0%Z cur acc = acc ++ map show l.
Proof.
  induction l as [|a r IH]; intros Hl Hne cur acc Hcur; [congruence|].
  inversion Hl as [|? ? Ha Hr]; subst.
  destruct (show_edges a Ha) as [Hs He].
  assert (Hnz : cur ++ show a <> []).
  { destruct Hs as [x [w' [Hw _]]]. rewrite Hw. destruct cur; discriminate. }
  destruct r as [|b r].
  - simpl. rewrite <- (app_nil_r (show a)) at 1.
    rewrite split_show_inert by (auto; lia). simpl.
    destruct (cur ++ show a) eqn:E; [congruence|]. rewrite <- E.
    unfold push_trimmed. rewrite trim_blanks_prefix by assumption. reflexivity.
  - rewrite join_cons2. rewrite split_show_inert by (auto; lia).
    rewrite split_step_comma_top. rewrite (split_step_plain c_sp) by exact plain_sp.
    unfold push_trimmed. rewrite trim_blanks_prefix by assumption.
    rewrite IH; auto; try discriminate.
    + rewrite <- app_assoc. reflexivity.
    + simpl. constructor; [reflexivity | constructor].
Qed.

(* ------------------------------------------------------------------ find / rfind / substr *)
Lemma find_char_app : forall c n rest, ~ In c n -> find_char c (n ++ c :: rest) = Some (List.length n).
Proof.
  intros c. induction n as [|a n IH]; intros rest H; simpl.
  - rewrite Ascii.eqb_refl. reflexivity.
  - assert (Ha : Ascii.eqb a c = false). { apply Ascii.eqb_neq. intros E. apply H. left. exact E. }
    rewrite Ha. rewrite IH; [reflexivity|]. intros Hin. apply H. right. exact Hin.
Qed.

Lemma find_char_none : forall c n, ~ In c n -> find_char c n = None.
Proof.
  intros c. induction n as [|a n IH]; intros H; simpl; [reflexivity|].
  assert (Ha : Ascii.eqb a c = false). { apply Ascii.eqb_neq. intros E. apply H. left. exact E. }
  rewrite Ha, IH; [reflexivity|]. intros Hin. apply H. right. exact Hin.
Qed.

Lemma rfind_char_last : forall c w, rfind_char c (w ++ [c]) = Some (List.length w).
Proof.
  intros c w. unfold rfind_char. rewrite rev_app_distr. simpl. rewrite Ascii.eqb_refl.
  rewrite app_length. simpl. f_equal. lia.
Qed.

Lemma clean_no_lt : forall n, clean n -> ~ In c_lt n.
Proof.
  intros n [_ H] Hin. rewrite Forall_forall in H. destruct (H _ Hin) as [[H1 _] _]. congruence.
Qed.

(* lengths *)
Lemma show_len_in_join : forall l a, In a l -> List.length (show a) <= List.length (join_with sep (map show l)).
Proof.
  induction l as [|b r IH]; intros a Hin; [contradiction|].
  destruct r as [|c r].
  - destruct Hin as [->|[]]. simpl. lia.
  - change (join_with sep (map show (b :: c :: r))) with (show b ++ sep ++ join_with sep (map show (c :: r))).
    rewrite !app_length. destruct Hin as [->|Hin]; [lia|]. specialize (IH a Hin). lia.
Qed.

(* ------------------------------------------------------------------ the refinement *)
Lemma subst_generic_refines : forall m t, wf t ->
  forall fuel, List.length (show t) <= fuel -> subst_generic fuel m (show t) = show (tsubst m t).
Proof.
  intros m. induction t as [n | n args IH] using ty_ind'; intros Hwf fuel Hf.
  - simpl. destruct fuel; simpl; rewrite (find_char_none c_lt n (clean_no_lt n Hwf)); reflexivity.
  - apply wf_app_forall in Hwf. destruct Hwf as [Hc [Hne Hargs]].
    set (J := join_with sep (map show args)).
    assert (Es : show (TApp n args) = n ++ c_lt :: (J ++ [c_gt])) by reflexivity.
    assert (Es2 : show (TApp n args) = (n ++ c_lt :: J) ++ [c_gt]).
    { rewrite Es. rewrite <- app_assoc. reflexivity. }
    assert (Hlen : List.length (show (TApp n args)) = List.length n + 1 + List.length J + 1).
    { rewrite Es. rewrite app_length. simpl. rewrite app_length. simpl. lia. }
    destruct fuel as [|f]; [lia|].
    unfold subst_generic; fold subst_generic.
    rewrite Es at 1. rewrite (find_char_app c_lt n (J ++ [c_gt]) (clean_no_lt n Hc)).
    rewrite Es2 at 1. rewrite rfind_char_last.
    assert (Hgt : List.length (n ++ c_lt :: J) = List.length n + 1 + List.length J).
    { rewrite app_length. simpl. lia. }
    rewrite Hgt.
    assert (Hlt : (List.length n + 1 + List.length J <? List.length n) = false) by (apply Nat.ltb_ge; lia).
    rewrite Hlt.
    replace (List.length n + 1 + List.length J - List.length n - 1) with (List.length J) by lia.
    rewrite Es.
    assert (Hskip : skipn (List.length n + 1) (n ++ c_lt :: J ++ [c_gt]) = J ++ [c_gt]).
    { replace (n ++ c_lt :: J ++ [c_gt]) with ((n ++ [c_lt]) ++ (J ++ [c_gt])) by (rewrite <- app_assoc; reflexivity).
      rewrite skipn_app. replace (List.length n + 1) with (List.length (n ++ [c_lt])) by (rewrite app_length; simpl; lia).
      rewrite skipn_all. rewrite Nat.sub_diag. reflexivity. }
    rewrite Hskip.
    assert (Hf1 : firstn (List.length J) (J ++ [c_gt]) = J).
    { rewrite firstn_app, firstn_all, Nat.sub_diag. simpl. apply app_nil_r. }
    assert (Hf2 : firstn (List.length n) (n ++ c_lt :: J ++ [c_gt]) = n).
    { rewrite firstn_app, firstn_all, Nat.sub_diag. simpl. apply app_nil_r. }
    rewrite Hf1, Hf2.
    unfold J at 1. rewrite (split_top_level args Hargs Hne [] []) by constructor. simpl app at 1.
    rewrite map_map.
    assert (Hm : map (fun x => subst_generic f m (show x)) args = map (fun x => show (tsubst m x)) args).
    { apply map_ext_in. intros a Ha. rewrite Forall_forall in IH, Hargs. apply IH; auto.
      pose proof (show_len_in_join args a Ha). fold J in H. lia. }
    rewrite Hm. simpl tsubst. simpl show. rewrite map_map. reflexivity.
Qed.

Lemma substitute_generic_type_name_refines_l : forall m t, wf t ->
  substitute_generic_type_name m (show t) = show (tsubst m t).
Proof. intros m t H. unfold substitute_generic_type_name. apply subst_generic_refines; auto. Qed.

(* any fuel at least the length gives the same answer: the fuel never runs out *)
Lemma subst_generic_fuel_l : forall m t fuel, wf t -> List.length (show t) <= fuel ->
  subst_generic fuel m (show t) = substitute_generic_type_name m (show t).
Proof.
  intros. rewrite substitute_generic_type_name_refines_l by assumption. apply subst_generic_refines; assumption.
Qed.

(* ------------------------------------------------------------------ no parameter survives *)
(* a type parameter occurs in t when one of its leaves is that name *)
Fixpoint mentions (ps : list str) (t : ty) : Prop :=
  match t with
  | TName n => In n ps
  | TApp _ args => (fix any (l : list ty) : Prop := match l with [] => False | a :: r => mentions ps a \/ any r end) args
  end.

Lemma mentions_app : forall ps n args, mentions ps (TApp n args) <-> Exists (mentions ps) args.
Proof.
  intros ps n args. simpl. induction args as [|a r IH]; split; intros H.
  - contradiction.
  - inversion H.
  - destruct H as [H|H]; [left; exact H | right; apply IH; exact H].
  - inversion H; subst; [left; assumption | right; apply IH; assumption].
Qed.

(* the map binds every parameter, and no bound value is itself a parameter name *)
Definition binds_all (m : tmap) (ps : list str) : Prop := forall p, In p ps -> lookup m p <> None.
Definition range_closed (m : tmap) (ps : list str) : Prop := forall p v, lookup m p = Some v -> ~ In v ps.

Lemma tsubst_total_l : forall m ps t, binds_all m ps -> range_closed m ps -> ~ mentions ps (tsubst m t).
Proof.
  intros m ps t Hb Hr. induction t as [n | n args IH] using ty_ind'.
  - simpl. unfold map_or_self. destruct (lookup m n) as [v|] eqn:E.
    + apply (Hr n v E).
    + intros Hin. apply (Hb n Hin E).
  - simpl tsubst. rewrite mentions_app. intros Hex. apply Exists_exists in Hex.
    destruct Hex as [x [Hx Hm]]. apply in_map_iff in Hx. destruct Hx as [a [Ha Hin]]. subst x.
    rewrite Forall_forall in IH. exact (IH a Hin Hm).
Qed.

(* the 3-way dispatch agrees with the structural substitution as soon as a bare name has no '_' *)
Definition no_underscore_leaf (t : ty) : Prop :=
  match t with TName n => ~ In c_us n | TApp _ _ => True end.

Lemma has_char_false : forall c s, ~ In c s -> has_char c s = false.
Proof. intros. unfold has_char. rewrite find_char_none; auto. Qed.

Lemma subst_name3_refines_l : forall m t, wf t -> no_underscore_leaf t ->
  subst_name3 m (show t) = show (tsubst m t).
Proof.
  intros m t Hwf Hu. unfold subst_name3. destruct t as [n | n args].
  - simpl show. rewrite (has_char_false c_lt n (clean_no_lt n Hwf)).
    rewrite (has_char_false c_us n Hu). apply (substitute_generic_type_name_refines_l m (TName n) Hwf).
  - pose proof (wf_app_forall _ _ Hwf) as [Hc _].
    assert (Hf : has_char c_lt (show (TApp n args)) = true).
    { unfold has_char. simpl show. rewrite (find_char_app c_lt n _ (clean_no_lt n Hc)). reflexivity. }
    rewrite Hf. apply substitute_generic_type_name_refines_l. exact Hwf.
Qed.

Lemma subst_total_l : forall m ps t, wf t -> binds_all m ps -> range_closed m ps ->
  exists t', substitute_generic_type_name m (show t) = show t' /\ ~ mentions ps t'.
Proof.
  intros m ps t Hwf Hb Hr. exists (tsubst m t). split.
  - apply substitute_generic_type_name_refines_l. exact Hwf.
  - apply tsubst_total_l; assumption.
Qed.
