(* C11 - Mech model of generic instantiation.

   Mirrors, function by function,
     src/backend/interpreter/evaluator/functions/generic_instantiation.cpp
       substitute_normalized_generic_type, substitute_generic_type_name, generate_cache_key,
       get_cached_instance / cache_instance, clone_ast_node, substitute_type_parameters,
       instantiate_generic_function
     src/common/type_alias.cpp  parse_type_from_string   (empty alias registry)
     src/backend/interpreter/evaluator/functions/call_impl.cpp:1315-1410  (the cache is switched off there)

   An ASTNode is modelled as a node kind, its scalar members as an association list
   member-name -> value text (absent = the value a freshly constructed ASTNode has), and its child
   members as an ordered list of (member-name, child): a unique_ptr member contributes at most one
   pair, a vector member one pair per element, in order.  WHICH members clone_ast_node copies and
   substitute_type_parameters visits is not written here: it is read from Gen_CloneFields.v, which
   translators/clone_fields.py regenerates from the current C++ text on every run.

   Definitions only (total, computable, extractable). *)
From Coq Require Import String Ascii List Bool Arith ZArith NArith.
Import ListNotations.
From Cb Require Import C11.Gen_CloneFields.
Local Open Scope list_scope.

Definition str := list ascii.

Fixpoint s2l (s : string) : str :=
  match s with EmptyString => [] | String a r => a :: s2l r end.

Definition str_eqb (a b : str) : bool := if list_eq_dec ascii_dec a b then true else false.

Definition in_list (f : string) (l : list string) : bool := existsb (String.eqb f) l.

(* ------------------------------------------------------------------ std::string helpers *)
Definition c_lt : ascii := "<"%char.
Definition c_gt : ascii := ">"%char.
Definition c_comma : ascii := ","%char.
Definition c_us : ascii := "_"%char.
Definition c_sp : ascii := " "%char.
Definition c_tab : ascii := "009"%char.
Definition c_nl : ascii := "010"%char.

(* s.find(c) *)
Fixpoint find_char (c : ascii) (s : str) : option nat :=
  match s with
  | [] => None
  | a :: r => if Ascii.eqb a c then Some 0 else option_map S (find_char c r)
  end.

(* s.rfind(c) *)
Definition rfind_char (c : ascii) (s : str) : option nat :=
  match find_char c (rev s) with
  | None => None
  | Some i => Some (List.length s - 1 - i)
  end.

Definition has_char (c : ascii) (s : str) : bool :=
  match find_char c s with Some _ => true | None => false end.

Definition is_blank (a : ascii) : bool := Ascii.eqb a c_sp || Ascii.eqb a c_tab.

Fixpoint drop_blanks (s : str) : str :=
  match s with
  | a :: r => if is_blank a then drop_blanks r else s
  | [] => []
  end.

(* start = find_first_not_of(" \t"); end = find_last_not_of(" \t");
   if (start != npos) push_back(substr(start, end - start + 1)) *)
Definition trim (s : str) : option str :=
  match drop_blanks s with
  | [] => None
  | t => Some (rev (drop_blanks (rev t)))
  end.

Definition push_trimmed (acc : list str) (cur : str) : list str :=
  match trim cur with Some t => acc ++ [t] | None => acc end.

(* the comma splitter of substitute_generic_type_name (depth is a C++ int: it may go negative) *)
Fixpoint split_params (s : str) (depth : Z) (cur : str) (acc : list str) : list str :=
  match s with
  | [] => match cur with [] => acc | _ => push_trimmed acc cur end
  | c :: r =>
      if Ascii.eqb c c_lt then split_params r (depth + 1)%Z (cur ++ [c]) acc
      else if Ascii.eqb c c_gt then split_params r (depth - 1)%Z (cur ++ [c]) acc
      else if Ascii.eqb c c_comma && (depth =? 0)%Z then split_params r depth [] (push_trimmed acc cur)
      else split_params r depth (cur ++ [c]) acc
  end.

(* result += ", " between the parameters *)
Fixpoint join_with (sep : str) (l : list str) : str :=
  match l with
  | [] => []
  | [x] => x
  | x :: r => x ++ sep ++ join_with sep r
  end.

(* std::map<std::string,std::string>: built by `type_map[p] = a` in order, so a later binding of the
   same key wins; modelled as a list searched from the most recent binding *)
Definition tmap := list (str * str).

Fixpoint lookup (m : tmap) (k : str) : option str :=
  match m with
  | [] => None
  | (k', v) :: r => if str_eqb k k' then Some v else lookup r k
  end.

Definition map_or_self (m : tmap) (s : str) : str :=
  match lookup m s with Some v => v | None => s end.

(* substitute_generic_type_name; the recursion is on a proper substring of the argument, `fuel`
   (the length of the outermost name) is never exhausted: Subst.subst_generic_fuel *)
Fixpoint subst_generic (fuel : nat) (m : tmap) (s : str) : str :=
  match find_char c_lt s with
  | None => map_or_self m s
  | Some lt =>
      match rfind_char c_gt s with
      | None => s
      | Some gt =>
          match fuel with
          | 0 => s
          | S f =>
              let base := firstn lt s in
              (* substr(lt+1, gt-lt-1): the count is a size_t, it wraps when gt < lt *)
              let params_str := if gt <? lt then skipn (lt + 1) s
                                else firstn (gt - lt - 1) (skipn (lt + 1) s) in
              let params := split_params params_str 0%Z [] [] in
              base ++ [c_lt] ++ join_with [c_comma; c_sp] (map (subst_generic f m) params) ++ [c_gt]
          end
      end
  end.

Definition substitute_generic_type_name (m : tmap) (s : str) : str :=
  subst_generic (List.length s) m s.

(* substitute_normalized_generic_type: split at '_' (empty parts dropped), first part kept,
   the others looked up *)
Fixpoint split_us (s cur : str) (acc : list str) : list str :=
  match s with
  | [] => match cur with [] => acc | _ => acc ++ [cur] end
  | c :: r =>
      if Ascii.eqb c c_us
      then match cur with [] => split_us r [] acc | _ => split_us r [] (acc ++ [cur]) end
      else split_us r (cur ++ [c]) acc
  end.

Definition substitute_normalized_generic_type (m : tmap) (s : str) : str :=
  match split_us s [] [] with
  | [] => s
  | p0 :: ps => p0 ++ concat (map (fun p => c_us :: map_or_self m p) ps)
  end.

(* the three-way dispatch used for type_name / return_type_name / pointer_base_type_name *)
Definition subst_name3 (m : tmap) (s : str) : str :=
  if has_char c_lt s then substitute_generic_type_name m s
  else if has_char c_us s then substitute_normalized_generic_type m s
  else substitute_generic_type_name m s.

(* parse_type_from_string with an empty alias registry: resolve_alias answers TYPE_INT.
   Values are the numeric TypeInfo codes as decimal text. *)
Definition parse_type (s : str) : str :=
  if str_eqb s (s2l "void") then s2l "0"
  else if str_eqb s (s2l "tiny") then s2l "1"
  else if str_eqb s (s2l "short") then s2l "2"
  else if str_eqb s (s2l "int") then s2l "3"
  else if str_eqb s (s2l "long") then s2l "4"
  else if str_eqb s (s2l "string") then s2l "6"
  else if str_eqb s (s2l "char") then s2l "5"
  else if str_eqb s (s2l "bool") then s2l "7"
  else s2l "3".

(* ------------------------------------------------------------------ nodes *)
Definition scalars := list (string * str).

Inductive node : Type :=
  Node (kind : N) (sc : scalars) (kids : list (string * node)).

Definition kind_of (n : node) : N := match n with Node k _ _ => k end.
Definition scalars_of (n : node) : scalars := match n with Node _ s _ => s end.
Definition kids_of (n : node) : list (string * node) := match n with Node _ _ k => k end.

Fixpoint sget (f : string) (sc : scalars) : str :=
  match sc with
  | [] => []
  | (g, v) :: r => if String.eqb f g then v else sget f r
  end.

(* assignment to a member: replaces the value text, or adds the member when it had its default *)
Fixpoint sset (f : string) (v : str) (sc : scalars) : scalars :=
  match sc with
  | [] => [(f, v)]
  | (g, w) :: r => if String.eqb f g then (g, v) :: r else (g, w) :: sset f v r
  end.

Definition sdel (f : string) (sc : scalars) : scalars :=
  filter (fun p => negb (String.eqb f (fst p))) sc.

Definition cloned_child_fields : list string := cloned_ptr_fields ++ cloned_vec_fields ++ cloned_indirect_fields.
Definition subst_child_fields : list string := subst_ptr_fields ++ subst_vec_fields ++ subst_indirect_fields.
Definition ast_child_fields : list string := ast_ptr_fields ++ ast_vec_fields ++ ast_indirect_fields.

(* A MatchArm (element of match_arms) is carried as a pseudo node of kind 9998 with the arm's own
   members as scalars and its body as the child "body"; the member-wise copy loop of clone_ast_node
   copies all four *)
Definition arm_kind : N := 9998%N.
Definition arm_fields : list string := ["pattern_type"; "variant_name"; "bindings"; "enum_type_name"]%string.
Definition arms_copied : bool := in_list "match_arms" cloned_indirect_fields.
Definition arms_visited : bool := in_list "match_arms" subst_indirect_fields.

Definition copied_scalar_fields : list string :=
  cloned_scalar_fields ++ (if arms_copied then arm_fields else []).
(* every member name a well-formed tree can carry as a scalar *)
Definition node_scalar_fields : list string := ast_scalar_fields ++ arm_fields.

Definition keep_scalar (p : string * str) : bool := in_list (fst p) copied_scalar_fields.
Definition keep_child (p : string * node) : bool := in_list (fst p) cloned_child_fields.

(* clone_ast_node: a fresh ASTNode(node_type); the listed scalars copied; the listed children
   cloned recursively; everything else keeps the constructor's default (= absent) *)
Fixpoint clone (n : node) : node :=
  match n with
  | Node k sc kids =>
      Node k (filter keep_scalar sc)
           (filter keep_child (map (fun p => (fst p, clone (snd p))) kids))
  end.

(* one rewritten string member, with the 3-way dispatch (use3) or the plain one, and the TypeInfo
   member recomputed from it when the new name is non-empty and has neither '<' nor '_' *)
Fixpoint split_nl (s cur : str) : list str :=
  match s with
  | [] => [cur]
  | c :: r => if Ascii.eqb c c_nl then cur :: split_nl r [] else split_nl r (cur ++ [c])
  end.

(* a std::vector<std::string> member is carried as its elements joined by '\n'; absent = empty *)
Definition strvec (s : str) : list str := match s with [] => [] | _ => split_nl s [] end.

(* parse_type_from_string knows the name: a builtin type (or a typedef: none in the empty registry) *)
Definition known_type (s : str) : bool := str_eqb s (s2l "int") || negb (str_eqb (parse_type s) (s2l "3")).

Definition rewrite_member (m : tmap) (f : string) (use3 : bool) (recompute : option string) (guarded : bool)
           (sc : scalars) : scalars :=
  if negb (in_list f subst_string_fields) then sc else
  match sget f sc with
  | [] => sc
  | old =>
      let new := if use3 then subst_name3 m old else substitute_generic_type_name m old in
      let sc1 := sset f new sc in
      match recompute with
      | None => sc1
      | Some g =>
          match new with
          | [] => sc1
          | _ => if has_char c_lt new || has_char c_us new then sc1
                 else if guarded
                      then (if negb (str_eqb new old) && known_type new then sset g (parse_type new) sc1 else sc1)
                      else sset g (parse_type new) sc1
          end
      end
  end.

(* new T: rewritten with the plain rewriting; new_type_info follows when the name changed and has no '<' *)
Definition rewrite_new_type (m : tmap) (sc : scalars) : scalars :=
  if negb (in_list "new_type_name" subst_string_fields) then sc else
  match sget "new_type_name" sc with
  | [] => sc
  | old =>
      let new := substitute_generic_type_name m old in
      if str_eqb new old then sc
      else let sc1 := sset "new_type_name" new sc in
           if has_char c_lt new then sc1 else sset "new_type_info" (parse_type new) sc1
  end.

(* for (auto &x : node->f) x = substitute_generic_type_name(x, type_map);   (type_arguments) *)
Definition rewrite_strvec (m : tmap) (f : string) (sc : scalars) : scalars :=
  if negb (in_list f subst_strvec_fields) then sc else
  match sget f sc with
  | [] => sc
  | v => sset f (join_with [c_nl] (map (substitute_generic_type_name m) (strvec v))) sc
  end.

(* arm.enum_type_name = substitute_generic_type_name(arm.enum_type_name, type_map), on the arm pseudo node *)
Definition rewrite_arm (m : tmap) (sc : scalars) : scalars :=
  if negb arms_visited then sc else
  match sget "enum_type_name" sc with
  | [] => sc
  | old => sset "enum_type_name" (substitute_generic_type_name m old) sc
  end.

(* the scalar part of substitute_type_parameters, in the order of the C++ text *)
Definition subst_scalars (m : tmap) (sc : scalars) : scalars :=
  let sc := rewrite_member m "type_name" true (Some "type_info"%string) subst_type_info_guarded sc in
  let sc := rewrite_member m "return_type_name" true None false sc in
  let sc := rewrite_member m "pointer_base_type_name" true (Some "pointer_base_type"%string) false sc in
  let sc := rewrite_member m "sizeof_type_name" false None false sc in
  let sc := rewrite_member m "cast_target_type" false None false sc in
  let sc := rewrite_new_type m sc in
  let sc := rewrite_strvec m "type_arguments" sc in
  rewrite_arm m sc.

Definition visit_child (p : string * node) : bool := in_list (fst p) subst_child_fields.

(* substitute_type_parameters *)
Fixpoint subst_node (m : tmap) (n : node) : node :=
  match n with
  | Node k sc kids =>
      Node k (subst_scalars m sc)
           (map (fun p => if visit_child p then (fst p, subst_node m (snd p)) else p) kids)
  end.

(* ------------------------------------------------------------------ instantiate_generic_function *)
Definition build_map (tps targs : list str) : tmap :=
  fold_left (fun m p => p :: m) (combine tps targs) [].

Definition digit (n : nat) : ascii := ascii_of_nat (48 + n).

Fixpoint dec_fuel (fuel n : nat) (acc : str) : str :=
  match fuel with
  | 0 => acc
  | S f => let acc' := digit (n mod 10) :: acc in
           if n / 10 =? 0 then acc' else dec_fuel f (n / 10) acc'
  end.

Definition dec (n : nat) : str := dec_fuel (S n) n [].

Inductive result : Type := Ok (n : node) | Err (msg : str).

Definition null_kind : N := 9999%N.

Definition instantiate (f : node) (targs : list str) : result :=
  match f with
  | Node k sc kids =>
      if N.eqb k null_kind || negb (str_eqb (sget "is_generic" sc) (s2l "1"))
      then Err (s2l "instantiate_generic_function: not a generic function")
      else
        let tps := strvec (sget "type_parameters" sc) in
        if negb (List.length tps =? List.length targs)
        then Err (s2l "Type argument count mismatch: expected " ++ dec (List.length tps) ++
                  s2l ", got " ++ dec (List.length targs))
        else
          match subst_node (build_map tps targs) (clone f) with
          | Node k' sc' kids' => Ok (Node k' (sdel "type_parameters" (sdel "is_generic" sc')) kids')
          end
  end.

(* ------------------------------------------------------------------ cache *)
Definition generate_cache_key (fname : str) (targs : list str) : str :=
  fname ++ [c_lt] ++ join_with [c_comma] targs ++ [c_gt].

(* std::map<std::string, unique_ptr<ASTNode>>: operator[]= overwrites; newest binding first *)
Definition cache := list (str * node).

Fixpoint get_cached_instance (c : cache) (key : str) : option node :=
  match c with
  | [] => None
  | (k, v) :: r => if str_eqb key k then Some v else get_cached_instance r key
  end.

Definition cache_instance (c : cache) (key : str) (v : node) : cache := (key, v) :: c.

(* call_impl.cpp:1315-1410 as it is today: `cached_func = nullptr`, nothing is stored *)
Definition call_pinned (c : cache) (fname : str) (f : node) (targs : list str) : cache * result :=
  (c, instantiate f targs).

(* the same code with the two commented-out cache lines switched back on:
   hit -> clone_ast_node(cached); miss -> instantiate, store, use *)
Definition call_cached (c : cache) (fname : str) (f : node) (targs : list str) : cache * result :=
  let key := generate_cache_key fname targs in
  match get_cached_instance c key with
  | Some v => (c, Ok (clone v))
  | None =>
      match instantiate f targs with
      | Ok i => (cache_instance c key i, Ok i)
      | Err e => (c, Err e)
      end
  end.

(* ------------------------------------------------------------------ classification used by the harness *)
(* every child member name used anywhere in the tree *)
Fixpoint child_fields_used (n : node) : list string :=
  match n with
  | Node _ _ kids => concat (map (fun p => fst p :: child_fields_used (snd p)) kids)
  end.

Fixpoint scalar_fields_used (n : node) : list string :=
  match n with
  | Node _ sc kids => map fst sc ++ concat (map (fun p => scalar_fields_used (snd p)) kids)
  end.

Definition uses_child_outside (allowed : list string) (n : node) : list string :=
  nodup string_dec (filter (fun f => negb (in_list f allowed)) (child_fields_used n)).

Definition uses_scalar_outside (allowed : list string) (n : node) : list string :=
  nodup string_dec (filter (fun f => negb (in_list f allowed)) (scalar_fields_used n)).
