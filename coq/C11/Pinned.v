(* C11 - what was recorded about the pinned tree (commit fff2972 + hooks), written by hand from the
   output of translators/clone_fields.py on that tree.  These lists are NOT regenerated: the
   theorems of Properties_C11.v compare the regenerated tables of Gen_CloneFields.v against them, so
   a member that clone_ast_node newly fails to copy (or a new member of ASTNode it ignores) breaks
   a proof obligation, while a repair (a member that is now copied) does not. *)
From Coq Require Import String List.
Import ListNotations.
Local Open Scope string_scope.

(* child members of ASTNode that clone_ast_node does not copy: 17 of 25 unique_ptr members *)
Definition recorded_missing_ptr : list string :=
    ["third"; "update_expr"; "array_index"; "array_size_expr"; "try_body"; "catch_body";
     "finally_body"; "throw_expr"; "switch_expr"; "else_body"; "case_body"; "match_expr";
     "range_start"; "range_end"; "default_value"; "new_array_size"; "delete_expr"].

(* 7 of 11 vector members *)
Definition recorded_missing_vec : list string :=
    ["children"; "array_dimensions"; "array_indices"; "impl_static_variables"; "case_values";
     "lambda_params"; "interpolation_segments"].

(* vector<MatchArm>: every arm owns a body *)
Definition recorded_missing_indirect : list string :=
    ["match_arms"].

Definition recorded_missing_children : list string :=
  recorded_missing_ptr ++ recorded_missing_vec ++ recorded_missing_indirect.

(* scalar members of ASTNode that clone_ast_node does not copy: 73 of 96 *)
Definition recorded_missing_scalar : list string :=
    ["location"; "is_impl_static"; "is_array_return"; "is_private_method"; "is_async";
     "is_private_member"; "is_default_member"; "pointer_base_type"; "is_rvalue_reference";
     "is_function_address"; "function_address_name"; "quad_value"; "is_float_literal";
     "literal_type"; "literal_text"; "original_type_name"; "return_types"; "array_size";
     "array_type_info"; "is_pointer_array_access"; "module_name"; "import_items"; "import_aliases";
     "is_exported"; "is_default_export"; "import_path"; "exception_var"; "exception_type";
     "qualified_name"; "is_qualified_call"; "is_arrow_call"; "enum_name"; "enum_member";
     "enum_definition"; "union_name"; "union_definition"; "member_chain"; "interface_name";
     "struct_name"; "function_pointer_type"; "is_function_pointer"; "function_pointer_value";
     "array_pointer_type"; "is_array_pointer"; "is_pointer_const_qualifier"; "has_default_value";
     "first_default_param_index"; "is_constructor"; "is_destructor"; "constructor_struct_name";
     "is_async_function"; "is_await_expression"; "is_discard"; "internal_name"; "is_lambda";
     "is_lambda_call"; "lambda_return_type"; "lambda_return_type_name"; "generic_base_name";
     "is_type_parameter"; "type_parameter_name"; "interface_bounds"; "is_type_parameter_access";
     "type_parameter_context"; "is_interpolation_text"; "is_interpolation_expr";
     "interpolation_format"; "foreign_module_decl"; "foreign_function_decl"; "new_type_name";
     "new_type_info"; "is_array_new"; "sizeof_type_info"].

(* the string members substitute_type_parameters rewrites *)
Definition recorded_subst_strings : list string :=
    ["type_name"; "return_type_name"; "pointer_base_type_name"; "sizeof_type_name";
     "cast_target_type"].

(* Spec judgment: the members of ASTNode that carry a type name which may mention a type parameter *)
Definition type_carrying_fields : list string :=
  ["type_name"; "original_type_name"; "return_type_name"; "pointer_base_type_name"; "exception_type";
   "new_type_name"; "sizeof_type_name"; "cast_target_type"; "lambda_return_type_name"; "type_arguments"].

(* ... of which these are not rewritten on the pinned tree *)
Definition recorded_unrewritten : list string :=
  ["original_type_name"; "exception_type"; "new_type_name"; "lambda_return_type_name"; "type_arguments"].
