(* C11 - what is recorded about the tree after the repairs 211b7a0 (clone_ast_node copies every child and
   scalar member) and d25f4a4 (substitute_type_parameters visits every child, rewrites new_type_name and
   type_arguments, recomputes type_info only for a rewritten builtin/typedef name).  Hand-written, never
   regenerated: the theorems of Properties_C11.v compare the regenerated tables of Gen_CloneFields.v against
   these lists. *)
From Coq Require Import String List.
Import ListNotations.
Local Open Scope string_scope.

(* the string members substitute_type_parameters rewrites *)
Definition recorded_subst_strings : list string :=
  ["type_name"; "return_type_name"; "pointer_base_type_name"; "sizeof_type_name"; "cast_target_type"; "new_type_name"].

(* ... and the string-vector member *)
Definition recorded_subst_strvecs : list string := ["type_arguments"].

(* Spec judgment: the members of ASTNode that carry a type name which may mention a type parameter *)
Definition type_carrying_fields : list string :=
  ["type_name"; "original_type_name"; "return_type_name"; "pointer_base_type_name"; "exception_type";
   "new_type_name"; "sizeof_type_name"; "cast_target_type"; "lambda_return_type_name"; "type_arguments"].

(* ... of which these are still not rewritten (original_type_name is informational; exception_type and
   lambda_return_type_name belong to constructs outside the generated grammar) *)
Definition recorded_unrewritten : list string :=
  ["original_type_name"; "exception_type"; "lambda_return_type_name"].
