(* C11 - table facts about the regenerated lists, and the witnesses of the laws the code does
   not satisfy.  Every witness is the AST the repository's own parser builds for the Cb text quoted
   next to it (as dumped by harness/cpp/c11_driver.cpp); the harness replays the same text on the
   real binary (known_findings/C11.json). *)
From Coq Require Import String Ascii List Bool Arith NArith Lia.
Import ListNotations.
From Cb Require Import C11.Gen_CloneFields C11.Model C11.Pinned C11.Tree C11.Cache C11.Names.
Local Open Scope list_scope.

(* ------------------------------------------------------------------ boolean reflection for the tables *)
Definition incl_b (a b : list string) : bool := forallb (fun f => in_list f b) a.

Lemma in_list_In : forall f l, in_list f l = true <-> In f l.
Proof.
  intros f l. unfold in_list. rewrite existsb_exists. split.
  - intros [x [Hx He]]. apply String.eqb_eq in He. subst. exact Hx.
  - intros H. exists f. split; [exact H | apply String.eqb_refl].
Qed.

Lemma incl_b_incl : forall a b, incl_b a b = true <-> incl a b.
Proof.
  intros a b. unfold incl_b, incl. rewrite forallb_forall. split.
  - intros H x Hx. apply in_list_In. apply H. exact Hx.
  - intros H x Hx. apply in_list_In. apply H. exact Hx.
Qed.

Definition missing (all copied : list string) : list string :=
  filter (fun f => negb (in_list f copied)) all.

(* ------------------------------------------------------------------ the tables *)
Lemma clone_complete_l : incl ast_child_fields cloned_child_fields.
Proof. apply incl_b_incl. vm_compute. reflexivity. Qed.

Lemma clone_scalars_complete_l : incl ast_scalar_fields cloned_scalar_fields.
Proof. apply incl_b_incl. vm_compute. reflexivity. Qed.

Lemma node_scalars_copied_l : incl node_scalar_fields copied_scalar_fields.
Proof. apply incl_b_incl. vm_compute. reflexivity. Qed.

Lemma cloned_fields_exist_l :
  incl cloned_ptr_fields ast_ptr_fields /\ incl cloned_vec_fields ast_vec_fields /\
  incl cloned_indirect_fields ast_indirect_fields /\ incl cloned_scalar_fields ast_scalar_fields.
Proof. repeat split; apply incl_b_incl; vm_compute; reflexivity. Qed.

Lemma subst_visits_every_cloned_child_l : incl cloned_child_fields subst_child_fields.
Proof. apply incl_b_incl. vm_compute. reflexivity. Qed.

Lemma inst_fields_complete_l : incl ast_child_fields inst_child_fields.
Proof. apply incl_b_incl. vm_compute. reflexivity. Qed.

Lemma subst_strings_recorded_l :
  incl recorded_subst_strings subst_string_fields /\ incl recorded_subst_strvecs subst_strvec_fields /\
  subst_type_info_guarded = true.
Proof. repeat split; try (apply incl_b_incl; vm_compute; reflexivity). Qed.

Lemma subst_complete_refuted_l : ~ incl type_carrying_fields (subst_string_fields ++ subst_strvec_fields).
Proof. intros H. apply incl_b_incl in H. vm_compute in H. discriminate. Qed.

Lemma subst_unrewritten_recorded_l :
  incl (missing type_carrying_fields (subst_string_fields ++ subst_strvec_fields)) recorded_unrewritten.
Proof. apply incl_b_incl. vm_compute. reflexivity. Qed.

Lemma inst_fields_are_cloned_l : inst_child_fields = cloned_child_fields.
Proof. vm_compute. reflexivity. Qed.

(* ------------------------------------------------------------------ complete clone / instantiate *)
Lemma clone_id_all_l : forall n,
  kids_within ast_child_fields n = true -> scalars_within node_scalar_fields n = true -> clone n = n.
Proof. exact (clone_id_complete_l clone_complete_l node_scalars_copied_l). Qed.

Lemma instantiate_is_mono_all_l : forall f targs r, instantiate f targs = Ok r ->
  kids_within ast_child_fields f = true -> scalars_within node_scalar_fields f = true ->
  r = clear_generic (mono (build_map (type_params_of f) targs) f).
Proof. exact (instantiate_is_mono_complete_l inst_fields_complete_l node_scalars_copied_l). Qed.

(* ------------------------------------------------------------------ witnesses *)
Definition S (s : string) : str := s2l s.
Definition var (x : string) : node := Node 1 [("name"%string, S x)] [].
Definition param (x ty : string) : node :=
  Node 32 [("pointer_base_type_name"%string, S ty); ("name"%string, S x); ("type_name"%string, S ty)] [].

(*  T max<T>(T a, T b) { return a > b ? a : b; }     (former finding C11-clone-third-segv, now in corpus/c11.json) *)
Definition w_max : node :=
  Node 31 [("is_generic"%string, S "1"); ("name"%string, S "max"); ("return_type_name"%string, S "T");
           ("type_parameters"%string, S "T")]
    [("body"%string,
       Node 58 [] [("statements"%string,
         Node 20 [] [("left"%string,
           Node 7 [] [("left"%string, Node 5 [("op"%string, S ">")] [("left"%string, var "a"); ("right"%string, var "b")]);
                      ("right"%string, var "a");
                      ("third"%string, var "b")])])]);
     ("parameters"%string, param "a" "T");
     ("parameters"%string, param "b" "T")].

Definition m_T_int : tmap := build_map [S "T"] [S "int"].

(* the instantiated max<int> keeps the else-operand of ?: and has int parameters *)
Lemma max_keeps_third_l : forall r, instantiate w_max [S "int"] = Ok r ->
  child_fields_used r = child_fields_used w_max.
Proof. intros r E. vm_compute in E. inversion E. subst r. vm_compute. reflexivity. Qed.

(* spellings the parser produces for which the textual rewriting still fails:
     T* p          -> type_name "T*" is left alone  (harmless: the base type name, which is what is read, is rewritten)
     T[3] a        -> type_name "T[3]" is left alone
     Pair<A, B>* q -> "Pair<int, string>"            (the '*' is lost) *)
Lemma subst_total_refuted_l :
  subst_name3 m_T_int (S "T*") = S "T*" /\
  subst_name3 m_T_int (S "T[3]") = S "T[3]" /\
  subst_name3 (build_map [S "A"; S "B"] [S "int"; S "string"]) (S "Pair<A, B>*") = S "Pair<int, string>".
Proof. repeat split; vm_compute; reflexivity. Qed.

(* g<T>(x) inside f<T>: the call's type_arguments are rewritten (former finding C11-nested-type-arguments) *)
Lemma nested_type_arguments_rewritten_l :
  subst_node (build_map [S "T"; S "U"] [S "long"; S "Box<int>"])
     (Node 46 [("name"%string, S "g"); ("type_arguments"%string, s2l "T" ++ [c_nl] ++ s2l "Pair<U, T>")] []) =
  Node 46 [("name"%string, S "g"); ("type_arguments"%string, s2l "long" ++ [c_nl] ++ s2l "Pair<Box<int>, long>")] [].
Proof. vm_compute. reflexivity. Qed.

(* a local of a user struct type keeps TYPE_STRUCT (12); a local of the type parameter bound to a struct keeps the
   parser's type_info (-1) and is resolved through its rewritten type_name; bound to a builtin it gets that type
   (former findings C11-subst-struct-local / C11-subst-struct-typearg-local) *)
Lemma struct_local_type_info_kept_l :
  sget "type_info" (scalars_of (subst_node m_T_int
      (Node 28 [("type_info"%string, S "12"); ("name"%string, S "p"); ("type_name"%string, S "P")] []))) = S "12" /\
  scalars_of (subst_node (build_map [S "T"] [S "P"])
      (Node 28 [("type_info"%string, S "-1"); ("name"%string, S "r"); ("type_name"%string, S "T")] [])) =
    [("type_info"%string, S "-1"); ("name"%string, S "r"); ("type_name"%string, S "P")] /\
  scalars_of (subst_node (build_map [S "T"] [S "long"])
      (Node 28 [("type_info"%string, S "-1"); ("name"%string, S "r"); ("type_name"%string, S "T")] [])) =
    [("type_info"%string, S "4"); ("name"%string, S "r"); ("type_name"%string, S "long")].
Proof. repeat split; vm_compute; reflexivity. Qed.

(* without the hypotheses the key is not injective *)
Lemma cache_key_injective_refuted_l :
  generate_cache_key (S "f") [S "a,b"] = generate_cache_key (S "f") [S "a"; S "b"] /\
  generate_cache_key (S "f<a>") [S "b"] = generate_cache_key (S "f") [S "a><b"].
Proof. split; vm_compute; reflexivity. Qed.
