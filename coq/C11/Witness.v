(* C11 - table facts about the regenerated lists, and the witnesses of the laws the pinned code does
   not satisfy.  Every witness is the AST the repository's own parser builds for the Cb text quoted
   next to it (as dumped by harness/cpp/c11_driver.cpp); the harness replays the same text on the
   real binary (known_findings/C11.json). *)
From Coq Require Import String Ascii List Bool Arith NArith Lia.
Import ListNotations.
From Cb Require Import C11.Gen_CloneFields C11.Model C11.Pinned C11.Tree C11.Cache C11.Names.
Local Open Scope list_scope.

(* ------------------------------------------------------------------ boolean reflection for the tables *)
Definition incl_b (a b : list string) : bool := forallb (fun f => in_list f b) a.

Lemma in_list_In : forall f l, in_list f l = true <-> In f l.
Proof.
  intros f l. unfold in_list. rewrite existsb_exists. split.
  - intros [x [Hx He]]. apply String.eqb_eq in He. subst. exact Hx.
  - intros H. exists f. split; [exact H | apply String.eqb_refl].
Qed.

Lemma incl_b_incl : forall a b, incl_b a b = true <-> incl a b.
Proof.
  intros a b. unfold incl_b, incl. rewrite forallb_forall. split.
  - intros H x Hx. apply in_list_In. apply H. exact Hx.
  - intros H x Hx. apply in_list_In. apply H. exact Hx.
Qed.

Definition missing (all copied : list string) : list string :=
  filter (fun f => negb (in_list f copied)) all.

(* ------------------------------------------------------------------ the tables *)
Lemma clone_complete_refuted_l : ~ incl ast_child_fields cloned_child_fields.
Proof. intros H. apply incl_b_incl in H. vm_compute in H. discriminate. Qed.

Lemma clone_scalars_complete_refuted_l : ~ incl ast_scalar_fields cloned_scalar_fields.
Proof. intros H. apply incl_b_incl in H. vm_compute in H. discriminate. Qed.

Lemma clone_missing_children_recorded_l :
  incl (missing ast_child_fields cloned_child_fields) recorded_missing_children.
Proof. apply incl_b_incl. vm_compute. reflexivity. Qed.

Lemma clone_missing_scalars_recorded_l :
  incl (missing ast_scalar_fields cloned_scalar_fields) recorded_missing_scalar.
Proof. apply incl_b_incl. vm_compute. reflexivity. Qed.

Lemma cloned_fields_exist_l :
  incl cloned_ptr_fields ast_ptr_fields /\ incl cloned_vec_fields ast_vec_fields /\
  incl cloned_scalar_fields ast_scalar_fields.
Proof. repeat split; apply incl_b_incl; vm_compute; reflexivity. Qed.

Lemma subst_visits_every_cloned_child_l : incl cloned_child_fields subst_child_fields.
Proof. apply incl_b_incl. vm_compute. reflexivity. Qed.

Lemma subst_strings_recorded_l : incl recorded_subst_strings subst_string_fields.
Proof. apply incl_b_incl. vm_compute. reflexivity. Qed.

Lemma subst_complete_refuted_l : ~ incl type_carrying_fields subst_string_fields.
Proof. intros H. apply incl_b_incl in H. vm_compute in H. discriminate. Qed.

Lemma subst_unrewritten_recorded_l :
  incl (missing type_carrying_fields subst_string_fields) recorded_unrewritten.
Proof. apply incl_b_incl. vm_compute. reflexivity. Qed.

(* with the table as it is, instantiate = monomorphise exactly on the trees that use only copied
   children: inst_child_fields is all of cloned_child_fields *)
Lemma inst_fields_are_cloned_l : inst_child_fields = cloned_child_fields.
Proof. vm_compute. reflexivity. Qed.

(* ------------------------------------------------------------------ witnesses *)
Definition S (s : string) : str := s2l s.
Definition var (x : string) : node := Node 1 [("name"%string, S x)] [].
Definition param (x ty : string) : node :=
  Node 32 [("pointer_base_type_name"%string, S ty); ("name"%string, S x); ("type_name"%string, S ty)] [].

(*  T max<T>(T a, T b) { return a > b ? a : b; }        (DESIGN section 7 #19, docs example) *)
Definition w_max : node :=
  Node 31 [("is_generic"%string, S "1"); ("name"%string, S "max"); ("return_type_name"%string, S "T");
           ("type_parameters"%string, S "T")]
    [("body"%string,
       Node 58 [] [("statements"%string,
         Node 20 [] [("left"%string,
           Node 7 [] [("left"%string, Node 5 [("op"%string, S ">")] [("left"%string, var "a"); ("right"%string, var "b")]);
                      ("right"%string, var "a");
                      ("third"%string, var "b")])])]);
     ("parameters"%string, param "a" "T");
     ("parameters"%string, param "b" "T")].

Definition m_T_int : tmap := build_map [S "T"] [S "int"].

Lemma clone_id_refuted_l : exists n, clone n <> n.
Proof.
  exists w_max. intros H. apply (f_equal child_fields_used) in H. vm_compute in H. discriminate.
Qed.

Lemma instantiate_is_mono_refuted_l : exists f targs r,
  instantiate f targs = Ok r /\
  r <> clear_generic (mono (build_map (type_params_of f) targs) (strip f)).
Proof.
  exists w_max, [S "int"].
  destruct (instantiate w_max [S "int"]) as [r|e] eqn:E; [|vm_compute in E; discriminate].
  exists r. split; [reflexivity|].
  intros H. apply (f_equal child_fields_used) in H.
  assert (Hr : child_fields_used r =
               ["body"; "statements"; "left"; "left"; "left"; "right"; "right"; "parameters"; "parameters"]%string).
  { vm_compute in E. inversion E. vm_compute. reflexivity. }
  rewrite Hr in H. vm_compute in H. discriminate.
Qed.

(* the instantiated max<int> has lost the else-operand of ?: *)
Lemma max_loses_third_l : forall r, instantiate w_max [S "int"] = Ok r ->
  ~ In "third"%string (child_fields_used r) /\ In "third"%string (child_fields_used w_max).
Proof.
  intros r E. vm_compute in E. inversion E. subst r. split.
  - vm_compute. intuition discriminate.
  - vm_compute. tauto.
Qed.

(* spellings the parser produces for which the textual rewriting fails:
     T* p          -> type_name "T*" is left alone                      (a parameter survives)
     Pair<A, B>* q -> "Pair<int, string>"                                (the '*' is lost)
     T[3] a        -> type_name "T[3]" is left alone
     g<T>(x)       -> the call's type_arguments ["T"] are not rewritten  (not a rewritten member) *)
Lemma subst_total_refuted_l :
  subst_name3 m_T_int (S "T*") = S "T*" /\
  subst_name3 m_T_int (S "T[3]") = S "T[3]" /\
  subst_name3 (build_map [S "A"; S "B"] [S "int"; S "string"]) (S "Pair<A, B>*") = S "Pair<int, string>" /\
  subst_node m_T_int (Node 46 [("name"%string, S "g"); ("type_arguments"%string, S "T")] []) =
    Node 46 [("name"%string, S "g"); ("type_arguments"%string, S "T")] [].
Proof. repeat split; vm_compute; reflexivity. Qed.

(* a local of a user struct type P inside ANY generic function: substitute_type_parameters
   recomputes type_info from the (unchanged) name through parse_type_from_string, which answers
   TYPE_INT (3) for a struct name; the parser had TYPE_STRUCT (12):   T f<T>(T a) { P p; ... } *)
Lemma struct_local_type_info_clobbered_l :
  sget "type_info" (scalars_of (subst_node m_T_int
      (Node 28 [("type_info"%string, S "12"); ("name"%string, S "p"); ("type_name"%string, S "P")] []))) = S "3".
Proof. vm_compute. reflexivity. Qed.

(* without the hypotheses the key is not injective *)
Lemma cache_key_injective_refuted_l :
  generate_cache_key (S "f") [S "a,b"] = generate_cache_key (S "f") [S "a"; S "b"] /\
  generate_cache_key (S "f<a>") [S "b"] = generate_cache_key (S "f") [S "a><b"].
Proof. split; vm_compute; reflexivity. Qed.

(* switching the cache back on as written (hit -> clone_ast_node(cached)) makes the second use of
   f<long> differ from the first: pointer_base_type, recomputed by the substitution, is not among
   the members clone_ast_node copies.      T f<T>(T a) { return a; }   f<long>(1); f<long>(1); *)
Definition w_id : node :=
  Node 31 [("is_generic"%string, S "1"); ("name"%string, S "f"); ("return_type_name"%string, S "T");
           ("type_parameters"%string, S "T")]
    [("body"%string, Node 58 [] [("statements"%string, Node 20 [] [("left"%string, var "a")])]);
     ("parameters"%string, param "a" "T")].

Lemma nth_use_cached_refuted_l : exists tbl h r1 r2,
  nth_error h 0 = nth_error h 1 /\
  run_cached tbl [] h = [r1; r2] /\ r1 <> r2.
Proof.
  exists (fun _ => w_id), [(S "f", [S "long"]); (S "f", [S "long"])].
  destruct (run_cached (fun _ => w_id) [] [(S "f", [S "long"]); (S "f", [S "long"])]) as [|r1 [|r2 [|]]] eqn:E;
    try (vm_compute in E; discriminate).
  exists r1, r2. split; [reflexivity|]. split; [reflexivity|].
  vm_compute in E. inversion E. subst r1 r2. intros H. inversion H.
Qed.
