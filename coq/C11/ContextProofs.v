(* C11 - the run-time type context of generic impl blocks (Context.v):
     - stack discipline: under the push/pop protocol of the method-call path every method body runs under the
       context of the instance it belongs to, whoever calls it (another instantiation of the same block included),
       at any nesting depth, after any history; the caller's context is back when the callee returns (normally or
       by an early return);
     - the instance registry is transparent: whatever was instantiated before, a struct type name gets the
       instance (block, type map) it would get from an empty registry;
     - resolve_complex_type on the spelling of a flat type expression is structural substitution;
     - deferred statements: in the code the defers still pending when a method body is left run AFTER the pop of its
       context (under the caller's); the stack semantics equals the fixed-context semantics in that order for every
       program, and equals the hand-specialised copy for every program whose defers are run by the closing top-level
       return; refuted beyond (finding C11-impl-defer-after-context-pop);
     - refuted with witnesses: nested arguments, a local spelled over a parameter, late deferred statements. *)
From Coq Require Import String Ascii List Bool Arith ZArith NArith Lia.
Import ListNotations.
From Cb Require Import C11.Gen_CloneFields C11.Model C11.Cache C11.Names C11.Context.
Local Open Scope list_scope.

(* ------------------------------------------------------------------ (1) stack discipline *)
Lemma resolve_in_context_cur : forall st s,
  resolve_type_in_context st s = resolve_cur (get_current_type_context st) s.
Proof. reflexivity. Qed.

Lemma obs_all_cur : forall st l, obs_all st l = obs_cur (get_current_type_context st) l.
Proof. reflexivity. Qed.

(* a run under the stack and a run under fixed contexts tell the same story, and the stack is back *)
Definition agree (x : res) (y : mres) (st : stack) : Prop :=
  r_out x = q_out y /\ r_cache x = q_cache y /\ r_flag x = q_flag y /\ r_pend x = q_pend y /\ r_stack x = st.

Lemma agree_stop : forall st ic fl dfs,
  agree (stop st ic fl dfs) (mstop true (get_current_type_context st) ic fl dfs) st.
Proof. intros. unfold agree, stop, mstop. cbn. repeat split. Qed.

Ltac use_agree H :=
  let H1 := fresh "H" in let H2 := fresh "H" in let H3 := fresh "H" in let H4 := fresh "H" in let H5 := fresh "H" in
  destruct H as [H1 [H2 [H3 [H4 H5]]]].

(* Mech refines the fixed-context semantics IN THE ORDER OF THE CODE (late = true), for every program *)
Lemma run_refines_mono_l : forall fuel P st ic env n dfs b,
  agree (run fuel P st ic env n dfs b) (run_mono true fuel P (get_current_type_context st) ic env n dfs b) st.
Proof.
  induction fuel as [|f IH]; intros P st ic env n dfs b.
  - unfold agree. cbn. repeat split.
  - destruct b as [|a r].
    + unfold agree. cbn. repeat split.
    + destruct a as [ty|v ty|v m|v m|g|k|ty| |].
      * (* AObs *)
        cbn [run run_mono].
        pose proof (IH P st ic env n dfs r) as H. use_agree H.
        unfold agree. cbn [r_out r_cache r_flag r_stack r_pend q_out q_cache q_flag q_pend].
        rewrite H0, H1, H2, H3, H4. repeat split.
      * (* ADecl *)
        cbn [run run_mono]. apply IH.
      * (* ACall *)
        cbn [run run_mono].
        destruct (lookup env v) as [rty|]; [|apply agree_stop].
        destruct (enter P ic rty m) as [[[ic1 pushed] md]|]; [|apply agree_stop].
        destruct pushed as [c|].
        -- (* a generic instance: its context is pushed, and popped whatever the outcome *)
           pose proof (IH P (push_type_context c st) ic1 ((self_name, rty) :: m_params md) (pred n) [] (m_body md)) as H.
           change (get_current_type_context (push_type_context c st)) with (Some c) in H. use_agree H.
           rewrite H4. change (pop_type_context (push_type_context c st)) with st.
           rewrite obs_all_cur. rewrite H3, <- H2.
           destruct (flag_err (r_flag (run f P (push_type_context c st) ic1 ((self_name, rty) :: m_params md)
                                          (pred n) [] (m_body md)))) eqn:E.
           ++ unfold agree, mstop.
              cbn [r_out r_cache r_flag r_stack r_pend q_out q_cache q_flag q_pend].
              rewrite H0, H1, app_nil_r. repeat split.
           ++ rewrite H1.
              pose proof (IH P st (q_cache (run_mono true f P (Some c) ic1 ((self_name, rty) :: m_params md) (pred n) []
                                                   (m_body md))) env n dfs r) as G. use_agree G.
              unfold agree. cbn [r_out r_cache r_flag r_stack r_pend q_out q_cache q_flag q_pend].
              rewrite H0, H, H5, H6, H7, H8. repeat split.
        -- (* a plain struct: nothing is pushed *)
           pose proof (IH P st ic1 ((self_name, rty) :: m_params md) (pred n) [] (m_body md)) as H. use_agree H.
           rewrite H4. rewrite obs_all_cur. rewrite H3, <- H2.
           destruct (flag_err (r_flag (run f P st ic1 ((self_name, rty) :: m_params md) (pred n) [] (m_body md)))) eqn:E.
           ++ unfold agree, mstop.
              cbn [r_out r_cache r_flag r_stack r_pend q_out q_cache q_flag q_pend].
              rewrite H0, H1, app_nil_r. repeat split.
           ++ rewrite H1.
              pose proof (IH P st (q_cache (run_mono true f P (get_current_type_context st) ic1
                                                   ((self_name, rty) :: m_params md) (pred n) [] (m_body md))) env n dfs r) as G.
              use_agree G.
              unfold agree. cbn [r_out r_cache r_flag r_stack r_pend q_out q_cache q_flag q_pend].
              rewrite H0, H, H5, H6, H7, H8. repeat split.
      * (* ATry *)
        cbn [run run_mono].
        destruct (lookup env v) as [rty|]; [|apply agree_stop].
        destruct (enter P ic rty m) as [[[ic1 pushed] md]|]; [|apply IH].
        destruct pushed as [c|].
        -- pose proof (IH P (push_type_context c st) ic1 ((self_name, rty) :: m_params md) (pred n) [] (m_body md)) as H.
           change (get_current_type_context (push_type_context c st)) with (Some c) in H. use_agree H.
           rewrite H4. change (pop_type_context (push_type_context c st)) with st.
           rewrite obs_all_cur. rewrite H3, H1.
           pose proof (IH P st (q_cache (run_mono true f P (Some c) ic1 ((self_name, rty) :: m_params md) (pred n) []
                                                (m_body md))) env n dfs r) as G. use_agree G.
           unfold agree. cbn [r_out r_cache r_flag r_stack r_pend q_out q_cache q_flag q_pend].
           rewrite H0, H, H5, H6, H7, H8. repeat split.
        -- pose proof (IH P st ic1 ((self_name, rty) :: m_params md) (pred n) [] (m_body md)) as H. use_agree H.
           rewrite H4. rewrite obs_all_cur. rewrite H3, H1.
           pose proof (IH P st (q_cache (run_mono true f P (get_current_type_context st) ic1
                                                ((self_name, rty) :: m_params md) (pred n) [] (m_body md))) env n dfs r) as G.
           use_agree G.
           unfold agree. cbn [r_out r_cache r_flag r_stack r_pend q_out q_cache q_flag q_pend].
           rewrite H0, H, H5, H6, H7, H8. repeat split.
      * (* AFn *)
        cbn [run run_mono].
        destruct (enter_fn P g) as [md|]; [|apply agree_stop].
        pose proof (IH P st ic (m_params md) (pred n) [] (m_body md)) as H. use_agree H.
        rewrite H4. rewrite obs_all_cur. rewrite H3, <- H2.
        destruct (flag_err (r_flag (run f P st ic (m_params md) (pred n) [] (m_body md)))) eqn:E.
        -- unfold agree, mstop.
           cbn [r_out r_cache r_flag r_stack r_pend q_out q_cache q_flag q_pend].
           rewrite H0, H1, app_nil_r. repeat split.
        -- rewrite H1.
           pose proof (IH P st (q_cache (run_mono true f P (get_current_type_context st) ic (m_params md) (pred n) []
                                                (m_body md))) env n dfs r) as G. use_agree G.
           unfold agree. cbn [r_out r_cache r_flag r_stack r_pend q_out q_cache q_flag q_pend].
           rewrite H0, H, H5, H6, H7, H8. repeat split.
      * (* ARetIf *)
        cbn [run run_mono]. destruct (n <=? k); [apply agree_stop | apply IH].
      * (* ADefer *)
        cbn [run run_mono]. apply IH.
      * (* AEnd *)
        cbn [run run_mono]. apply agree_stop.
      * (* AFail *)
        cbn [run run_mono]. apply agree_stop.
Qed.

(* the stack is the same after ANY outcome of any body: normal end, early return, run-time error, fuel *)
Lemma stack_restored_l : forall fuel P st ic env n dfs b, r_stack (run fuel P st ic env n dfs b) = st.
Proof. intros. apply run_refines_mono_l. Qed.

(* a caller that catches the callee's error finds its own context again *)
Lemma try_restores_context_l : forall fuel P st ic env n v m ty,
  resolve_type_in_context (stack_after_try fuel P st ic env n v m) ty = resolve_type_in_context st ty.
Proof. intros. unfold stack_after_try. rewrite stack_restored_l. reflexivity. Qed.

(* ------------------------------------------------------------------ (1b) deferred statements *)
(* In the hand-specialised copy a deferred statement observes its own body's context whenever it runs
   (run_mono false); in the code the defers still pending when a body is left run after the pop of its context
   (run_mono true = run, above).  The two agree for every program whose bodies register a defer only where nothing
   but plain statements follows: then every body with a pending defer ends in its closing top-level return, which
   runs the defers before the context is popped. *)
Definition simple_act (a : act) : bool :=
  match a with AObs _ | ADecl _ _ | ADefer _ => true | _ => false end.

Fixpoint defers_early (b : list act) : bool :=
  match b with
  | [] => true
  | ADefer _ :: r => forallb simple_act r
  | _ :: r => defers_early r
  end.

Definition method_ok (km : str * method) : bool := defers_early (m_body (snd km)).
Definition block_ok (blk : block) : bool := forallb method_ok (b_methods blk).
Definition prog_defers_early (P : program) : bool := forallb block_ok P.

Lemma mono_false_pend_nil : forall fuel P cur ic env n dfs b,
  q_pend (run_mono false fuel P cur ic env n dfs b) = [].
Proof.
  induction fuel as [|f IH]; intros P cur ic env n dfs b; [reflexivity|].
  destruct b as [|a r]; [reflexivity|].
  destruct a as [ty|v ty|v m|v m|g|k|ty| |]; cbn [run_mono].
  - cbn [q_pend]. apply IH.
  - apply IH.
  - destruct (lookup env v) as [rty|]; [|reflexivity].
    destruct (enter P ic rty m) as [[[ic1 pushed] md]|]; [|reflexivity].
    match goal with |- context [flag_err (q_flag ?x)] => destruct (flag_err (q_flag x)) end; [reflexivity|].
    cbn [q_pend]. apply IH.
  - destruct (lookup env v) as [rty|]; [|reflexivity].
    destruct (enter P ic rty m) as [[[ic1 pushed] md]|]; [|apply IH].
    cbn [q_pend]. apply IH.
  - destruct (enter_fn P g) as [md|]; [|reflexivity].
    match goal with |- context [flag_err (q_flag ?x)] => destruct (flag_err (q_flag x)) end; [reflexivity|].
    cbn [q_pend]. apply IH.
  - destruct (n <=? k); [reflexivity | apply IH].
  - apply IH.
  - reflexivity.
  - reflexivity.
Qed.

Lemma lookup_method_ok : forall ms m md,
  forallb method_ok ms = true -> lookup_method ms m = Some md -> defers_early (m_body md) = true.
Proof.
  induction ms as [|[k v] r IH]; intros m md Hok H; simpl in H; [discriminate|].
  simpl in Hok. apply andb_true_iff in Hok. destruct Hok as [Hv Hr].
  destruct (str_eqb m k).
  - inversion H; subst. exact Hv.
  - eapply IH; eassumption.
Qed.

Lemma find_plain_in : forall P name b, find_plain P name = Some b -> In b P.
Proof.
  induction P as [|b0 r IH]; intros name b H; simpl in H; [discriminate|].
  destruct (str_eqb (b_base b0) name && (List.length (b_params b0) =? 0)).
  - inversion H; subst. left. reflexivity.
  - right. eapply IH. exact H.
Qed.

Lemma enter_method_ok : forall P ic rty m ic1 pushed md,
  prog_defers_early P = true -> enter P ic rty m = Some (ic1, pushed, md) -> defers_early (m_body md) = true.
Proof.
  intros P ic rty m ic1 pushed md Hok. unfold prog_defers_early in Hok. rewrite forallb_forall in Hok. unfold enter.
  destruct (has_char c_lt rty).
  - destruct (find_impl_for_struct P ic rty) as [ic2 [i|]]; [|discriminate].
    destruct (nth_error P (i_block i)) as [b|] eqn:E; [|discriminate].
    destruct (lookup_method (b_methods b) m) as [md0|] eqn:L; [|discriminate].
    intros H. inversion H; subst.
    eapply lookup_method_ok; [|exact L]. apply Hok. eapply nth_error_In. exact E.
  - destruct (find_plain P rty) as [b|] eqn:E; [|discriminate].
    destruct (lookup_method (b_methods b) m) as [md0|] eqn:L; [|discriminate].
    intros H. inversion H; subst.
    eapply lookup_method_ok; [|exact L]. apply Hok. eapply find_plain_in. exact E.
Qed.

Lemma enter_fn_method_ok : forall P g md,
  prog_defers_early P = true -> enter_fn P g = Some md -> defers_early (m_body md) = true.
Proof.
  intros P g md Hok. unfold prog_defers_early in Hok. rewrite forallb_forall in Hok. unfold enter_fn.
  destruct (find_plain P g) as [b|] eqn:E; [|discriminate].
  intros L. eapply lookup_method_ok; [|exact L]. apply Hok. eapply find_plain_in. exact E.
Qed.

Lemma mstop_nil : forall late cur ic fl, mstop late cur ic fl [] = mstop false cur ic fl [].
Proof. intros [|] cur ic fl; reflexivity. Qed.

(* the order of the code and the hand-specialised copy coincide on such programs *)
Lemma defers_early_same : forall fuel P cur ic env n dfs b,
  prog_defers_early P = true ->
  (dfs = [] /\ defers_early b = true) \/ forallb simple_act b = true ->
  run_mono true fuel P cur ic env n dfs b = run_mono false fuel P cur ic env n dfs b.
Proof.
  induction fuel as [|f IH]; intros P cur ic env n dfs b HP Hb; [reflexivity|].
  destruct b as [|a r]; [reflexivity|].
  destruct Hb as [[Hd Hb]|Hb].
  - subst dfs.
    destruct a as [ty|v ty|v m|v m|g|k|ty| |]; cbn [run_mono]; cbn [defers_early] in Hb.
    + rewrite (IH P cur ic env n [] r HP); [reflexivity | left; split; [reflexivity | exact Hb]].
    + apply IH; [exact HP | left; split; [reflexivity | exact Hb]].
    + destruct (lookup env v) as [rty|]; [|reflexivity].
      destruct (enter P ic rty m) as [[[ic1 pushed] md]|] eqn:E; [|reflexivity].
      rewrite (IH P (match pushed with Some c => Some c | None => cur end) ic1 ((self_name, rty) :: m_params md) (pred n) []
                  (m_body md) HP);
        [|left; split; [reflexivity | eapply enter_method_ok; eassumption]].
      rewrite mstop_nil.
      match goal with |- context [flag_err (q_flag ?x)] => destruct (flag_err (q_flag x)) end; [reflexivity|].
      rewrite (IH P cur _ env n [] r HP); [reflexivity | left; split; [reflexivity | exact Hb]].
    + destruct (lookup env v) as [rty|]; [|reflexivity].
      destruct (enter P ic rty m) as [[[ic1 pushed] md]|] eqn:E;
        [|apply IH; [exact HP | left; split; [reflexivity | exact Hb]]].
      rewrite (IH P (match pushed with Some c => Some c | None => cur end) ic1 ((self_name, rty) :: m_params md) (pred n) []
                  (m_body md) HP);
        [|left; split; [reflexivity | eapply enter_method_ok; eassumption]].
      rewrite (IH P cur _ env n [] r HP); [reflexivity | left; split; [reflexivity | exact Hb]].
    + destruct (enter_fn P g) as [md|] eqn:E; [|reflexivity].
      rewrite (IH P cur ic (m_params md) (pred n) [] (m_body md) HP);
        [|left; split; [reflexivity | eapply enter_fn_method_ok; eassumption]].
      rewrite mstop_nil.
      match goal with |- context [flag_err (q_flag ?x)] => destruct (flag_err (q_flag x)) end; [reflexivity|].
      rewrite (IH P cur _ env n [] r HP); [reflexivity | left; split; [reflexivity | exact Hb]].
    + destruct (n <=? k); [reflexivity|].
      apply IH; [exact HP | left; split; [reflexivity | exact Hb]].
    + apply IH; [exact HP | right; exact Hb].
    + reflexivity.
    + reflexivity.
  - cbn [forallb] in Hb. apply andb_true_iff in Hb. destruct Hb as [Ha Hr].
    destruct a as [ty|v ty|v m|v m|g|k|ty| |]; try discriminate Ha; cbn [run_mono].
    + rewrite (IH P cur ic env n dfs r HP); [reflexivity | right; exact Hr].
    + apply IH; [exact HP | right; exact Hr].
    + apply IH; [exact HP | right; exact Hr].
Qed.

(* Mech = the hand-specialised copy, for every such program *)
Lemma run_refines_hand_copy_l : forall fuel P st ic env n b,
  prog_defers_early P = true -> defers_early b = true ->
  r_out (run fuel P st ic env n [] b) = q_out (run_mono false fuel P (get_current_type_context st) ic env n [] b) /\
  r_cache (run fuel P st ic env n [] b) = q_cache (run_mono false fuel P (get_current_type_context st) ic env n [] b) /\
  r_flag (run fuel P st ic env n [] b) = q_flag (run_mono false fuel P (get_current_type_context st) ic env n [] b) /\
  r_stack (run fuel P st ic env n [] b) = st.
Proof.
  intros fuel P st ic env n b HP Hb.
  pose proof (run_refines_mono_l fuel P st ic env n [] b) as H. destruct H as [H1 [H2 [H3 [_ H5]]]].
  rewrite (defers_early_same fuel P (get_current_type_context st) ic env n [] b HP) in H1, H2, H3
    by (left; split; [reflexivity | exact Hb]).
  repeat split; assumption.
Qed.

(* ------------------------------------------------------------------ (2) the instance registry *)
Definition cache_ok (P : program) (ic : icache) : Prop :=
  forall name i, lookup_inst ic name = Some i -> fresh_inst P name = Some i.

Lemma cache_ok_nil : forall P, cache_ok P [].
Proof. intros P name i H. discriminate. Qed.

Lemma lookup_inst_app : forall ic name k v,
  lookup_inst (ic ++ [(k, v)]) name =
  match lookup_inst ic name with Some i => Some i | None => if str_eqb name k then Some v else None end.
Proof.
  induction ic as [|[k0 v0] r IH]; intros name k v; simpl.
  - reflexivity.
  - destruct (str_eqb name k0); [reflexivity | apply IH].
Qed.

Lemma find_impl_sound : forall P ic name,
  cache_ok P ic ->
  cache_ok P (fst (find_impl_for_struct P ic name)) /\ snd (find_impl_for_struct P ic name) = fresh_inst P name.
Proof.
  intros P ic name Hok. unfold find_impl_for_struct.
  destruct (lookup_inst ic name) as [i|] eqn:E.
  - simpl. split; [exact Hok | symmetry; apply Hok; exact E].
  - destruct (fresh_inst P name) as [i|] eqn:F; simpl.
    + split; [|reflexivity]. destruct (i_generic i); [|exact Hok].
      intros nm j Hj. rewrite lookup_inst_app in Hj.
      destruct (lookup_inst ic nm) as [j0|] eqn:E2.
      * inversion Hj; subst. apply Hok. exact E2.
      * destruct (str_eqb nm name) eqn:E3; [|discriminate].
        apply str_eqb_eq in E3. subst nm. inversion Hj; subst. exact F.
    + split; [exact Hok | reflexivity].
Qed.

Lemma enter_cache_ok : forall P ic rty m ic1 pushed md,
  cache_ok P ic -> enter P ic rty m = Some (ic1, pushed, md) -> cache_ok P ic1.
Proof.
  intros P ic rty m ic1 pushed md Hok. unfold enter.
  destruct (has_char c_lt rty).
  - pose proof (find_impl_sound P ic rty Hok) as [Hc _].
    destruct (find_impl_for_struct P ic rty) as [ic2 [i|]]; [|discriminate].
    destruct (nth_error P (i_block i)) as [b|]; [|discriminate].
    destruct (lookup_method (b_methods b) m); [|discriminate].
    intros H. inversion H; subst. exact Hc.
  - destruct (find_plain P rty) as [b|]; [|discriminate].
    destruct (lookup_method (b_methods b) m); [|discriminate].
    intros H. inversion H; subst. exact Hok.
Qed.

(* the context a method body runs under depends on the receiver's struct type name only *)
Lemma enter_pushes_fresh : forall P ic rty m ic1 c md,
  cache_ok P ic -> enter P ic rty m = Some (ic1, Some c, md) ->
  exists i, fresh_inst P rty = Some i /\ i_generic i = true /\ c = i_map i.
Proof.
  intros P ic rty m ic1 c md Hok. unfold enter.
  destruct (has_char c_lt rty).
  - pose proof (find_impl_sound P ic rty Hok) as [_ Hs].
    destruct (find_impl_for_struct P ic rty) as [ic2 [i|]]; [|discriminate].
    simpl in Hs.
    destruct (nth_error P (i_block i)) as [b|]; [|discriminate].
    destruct (lookup_method (b_methods b) m); [|discriminate].
    destruct (i_generic i) eqn:G; [|discriminate].
    intros H. inversion H; subst. exists i. split; [symmetry; exact Hs | split; [exact G | reflexivity]].
  - destruct (find_plain P rty) as [b|]; [|discriminate].
    destruct (lookup_method (b_methods b) m); discriminate.
Qed.

Lemma run_cache_ok : forall fuel P st ic env n dfs b,
  cache_ok P ic -> cache_ok P (r_cache (run fuel P st ic env n dfs b)).
Proof.
  induction fuel as [|f IH]; intros P st ic env n dfs b Hok.
  - exact Hok.
  - destruct b as [|a r]; [exact Hok|].
    destruct a as [ty|v ty|v m|v m|g|k|ty| |]; cbn [run].
    + cbn [r_cache]. apply IH. exact Hok.
    + apply IH. exact Hok.
    + destruct (lookup env v) as [rty|]; [|exact Hok].
      destruct (enter P ic rty m) as [[[ic1 pushed] md]|] eqn:E; [|exact Hok].
      pose proof (enter_cache_ok _ _ _ _ _ _ _ Hok E) as Hok1.
      match goal with |- context [flag_err (r_flag ?x)] => destruct (flag_err (r_flag x)) end.
      * cbn [r_cache]. apply IH. exact Hok1.
      * cbn [r_cache]. apply IH. apply IH. exact Hok1.
    + destruct (lookup env v) as [rty|]; [|exact Hok].
      destruct (enter P ic rty m) as [[[ic1 pushed] md]|] eqn:E; [|apply IH; exact Hok].
      pose proof (enter_cache_ok _ _ _ _ _ _ _ Hok E) as Hok1.
      cbn [r_cache]. apply IH. apply IH. exact Hok1.
    + destruct (enter_fn P g) as [md|]; [|exact Hok].
      match goal with |- context [flag_err (r_flag ?x)] => destruct (flag_err (r_flag x)) end.
      * cbn [r_cache]. apply IH. exact Hok.
      * cbn [r_cache]. apply IH. apply IH. exact Hok.
    + destruct (n <=? k); [exact Hok | apply IH; exact Hok].
    + apply IH. exact Hok.
    + exact Hok.
    + exact Hok.
Qed.

Lemma run_calls_cache_ok : forall fuel P calls ic,
  cache_ok P ic -> Forall (fun x => cache_ok P (r_cache x)) (run_calls fuel P ic calls).
Proof.
  induction calls as [|[[rty m] n] r IH]; intros ic Hok; simpl.
  - constructor.
  - assert (H : cache_ok P (r_cache (run_main fuel P ic rty m n))) by (apply run_cache_ok; exact Hok).
    constructor; [exact H | apply IH; exact H].
Qed.

(* n-th use like the first, instances independent: after any sequence of calls from main (each with any
   nesting inside), the registry answers for every struct type name what an empty registry answers *)
Lemma registry_transparent_l : forall fuel P calls name,
  let ic := match rev (run_calls fuel P [] calls) with [] => [] | x :: _ => r_cache x end in
  snd (find_impl_for_struct P ic name) = snd (find_impl_for_struct P [] name).
Proof.
  intros fuel P calls name ic.
  assert (Hok : cache_ok P ic).
  { unfold ic. pose proof (run_calls_cache_ok fuel P calls [] (cache_ok_nil P)) as HF.
    apply Forall_rev in HF. destruct (rev (run_calls fuel P [] calls)) as [|x r].
    - apply cache_ok_nil.
    - inversion HF; assumption. }
  destruct (find_impl_sound P ic name Hok) as [_ H1].
  destruct (find_impl_sound P [] name (cache_ok_nil P)) as [_ H2].
  rewrite H1, H2. reflexivity.
Qed.

(* ------------------------------------------------------------------ (3) resolve_complex_type on flat types *)
Inductive fty : Type :=
| FName (n : str)
| FApp (b : str) (args : list str)
| FPtr (n : str)
| FArr (n : str) (dims : str).

Definition show_f (t : fty) : str :=
  match t with
  | FName n => n
  | FApp b a => b ++ [c_lt] ++ join_with sep a ++ [c_gt]
  | FPtr n => n ++ [c_star]
  | FArr n d => n ++ c_lbr :: d
  end.

(* structural substitution (the hand-written copy) *)
Definition fsubst (c : tctx) (t : fty) : fty :=
  match t with
  | FName n => FName (resolve_type c n)
  | FApp b a => FApp b (map (resolve_type c) a)
  | FPtr n => FPtr (resolve_type c n)
  | FArr n d => FArr (resolve_type c n) d
  end.

Definition ident_char (a : ascii) : Prop :=
  a <> c_lt /\ a <> c_gt /\ a <> c_comma /\ a <> c_sp /\ a <> c_star /\ a <> c_lbr /\ a <> c_tab.
Definition ident (n : str) : Prop := n <> [] /\ Forall ident_char n.

Definition wf_f (t : fty) : Prop :=
  match t with
  | FName n => ident n
  | FApp b a => ident b /\ a <> [] /\ Forall ident a
  | FPtr n => ident n
  | FArr n d => ident n /\ ~ In c_lt d /\ ~ In c_star d
  end.

(* no type parameter is bound to the empty text *)
Definition values_nonempty (c : tctx) : Prop := forall k v, lookup c k = Some v -> v <> [].

Lemma ident_notin : forall n a, ident n -> ~ ident_char a -> ~ In a n.
Proof.
  intros n a [_ H] Ha Hin. rewrite Forall_forall in H. apply Ha. apply H. exact Hin.
Qed.

Ltac not_ident := let H := fresh in intros H; unfold ident_char in H; tauto.

Lemma ident_no_lt : forall n, ident n -> ~ In c_lt n.
Proof. intros n H. apply ident_notin; [exact H | not_ident]. Qed.
Lemma ident_no_comma : forall n, ident n -> ~ In c_comma n.
Proof. intros n H. apply ident_notin; [exact H | not_ident]. Qed.
Lemma ident_no_star : forall n, ident n -> ~ In c_star n.
Proof. intros n H. apply ident_notin; [exact H | not_ident]. Qed.
Lemma ident_no_lbr : forall n, ident n -> ~ In c_lbr n.
Proof. intros n H. apply ident_notin; [exact H | not_ident]. Qed.

Lemma resolve_nonempty : forall c n, values_nonempty c -> n <> [] -> resolve_type c n <> [].
Proof.
  intros c n Hv Hn. unfold resolve_type, map_or_self. destruct (lookup c n) eqn:E; [eapply Hv; exact E | exact Hn].
Qed.

Lemma drop_sp_ident : forall n rest, ident n -> drop_sp (n ++ rest) = n ++ rest.
Proof.
  intros [|a n] rest [Hn Hf]; [congruence|]. inversion Hf as [|? ? Ha _]; subst. simpl.
  rewrite (eqb_neq a c_sp); [reflexivity | unfold ident_char in Ha; tauto].
Qed.

Lemma strip_sp_end_ident : forall n, ident n -> strip_sp_end n = n.
Proof.
  intros n [Hn Hf]. unfold strip_sp_end.
  destruct (rev n) as [|z w] eqn:E.
  - apply (f_equal (@rev ascii)) in E. rewrite rev_involutive in E. simpl in E. congruence.
  - assert (Hz : In z n) by (apply in_rev; rewrite E; left; reflexivity).
    rewrite Forall_forall in Hf. specialize (Hf z Hz). simpl.
    rewrite (eqb_neq z c_sp); [|unfold ident_char in Hf; tauto].
    rewrite <- E. apply rev_involutive.
Qed.

Lemma until_comma_app : forall n rest, ~ In c_comma n ->
  until_comma (n ++ c_comma :: rest) = (n, Some rest).
Proof.
  induction n as [|a n IH]; intros rest Hn; simpl.
  - change (Ascii.eqb c_comma c_comma) with true. reflexivity.
  - rewrite (eqb_neq a c_comma); [|intros E; apply Hn; left; exact E].
    rewrite IH; [reflexivity | intros H; apply Hn; right; exact H].
Qed.

Lemma until_comma_none : forall n, ~ In c_comma n -> until_comma n = (n, None).
Proof.
  induction n as [|a n IH]; intros Hn; simpl; [reflexivity|].
  rewrite (eqb_neq a c_comma); [|intros E; apply Hn; left; exact E].
  rewrite IH; [reflexivity | intros H; apply Hn; right; exact H].
Qed.

Lemma drop_sp_idem : forall s, drop_sp (drop_sp s) = drop_sp s.
Proof.
  induction s as [|a s IH]; simpl; [reflexivity|].
  destruct (Ascii.eqb a c_sp) eqn:E; [exact IH | simpl; rewrite E; reflexivity].
Qed.

Lemma rc_params_drop : forall fuel c s acc, rc_params fuel c (drop_sp s) acc = rc_params fuel c s acc.
Proof. intros [|f] c s acc; cbn [rc_params]; [reflexivity | rewrite drop_sp_idem; reflexivity]. Qed.

Definition joined (acc rest : str) : str := match acc with [] => rest | _ => acc ++ sep ++ rest end.

Lemma join_sep_cons2 : forall (x y : str) r, join_with sep (x :: y :: r) = x ++ c_comma :: c_sp :: join_with sep (y :: r).
Proof. reflexivity. Qed.

Lemma rc_params_join : forall c a, values_nonempty c -> Forall ident a -> a <> [] ->
  forall fuel acc, List.length (join_with sep a) < fuel ->
  rc_params fuel c (join_with sep a) acc = joined acc (join_with sep (map (resolve_type c) a)).
Proof.
  intros c a Hv. induction a as [|x r IH]; intros Hf Hne fuel acc Hlen; [congruence|].
  inversion Hf as [|? ? Hx Hr]; subst.
  destruct fuel as [|f]; [lia|].
  destruct r as [|y r'].
  - (* the last parameter *)
    cbn [join_with map]. cbn [rc_params].
    pose proof (drop_sp_ident x [] Hx) as D. rewrite app_nil_r in D. rewrite D.
    destruct x as [|x0 xs] eqn:Ex; [destruct Hx; congruence|]. rewrite <- Ex in *.
    assert (Hx' : ident x) by exact Hx.
    rewrite Ex at 1. rewrite <- Ex.
    rewrite (until_comma_none x (ident_no_comma x Hx')).
    rewrite (strip_sp_end_ident x Hx'). unfold joined. destruct acc; reflexivity.
  - rewrite join_sep_cons2. cbn [rc_params].
    rewrite (drop_sp_ident x _ Hx).
    destruct x as [|x0 xs] eqn:Ex; [destruct Hx; congruence|]. rewrite <- Ex in *.
    assert (Hx' : ident x) by exact Hx.
    assert (Hshape : x ++ c_comma :: c_sp :: join_with sep (y :: r') = x0 :: (xs ++ c_comma :: c_sp :: join_with sep (y :: r')))
      by (rewrite Ex; reflexivity).
    rewrite Hshape at 1. rewrite <- Hshape.
    rewrite (until_comma_app x _ (ident_no_comma x Hx')).
    rewrite (strip_sp_end_ident x Hx').
    change (c_sp :: join_with sep (y :: r')) with ([c_sp] ++ join_with sep (y :: r')).
    rewrite <- (rc_params_drop f c ([c_sp] ++ join_with sep (y :: r'))).
    change (drop_sp ([c_sp] ++ join_with sep (y :: r'))) with (drop_sp (join_with sep (y :: r'))).
    rewrite rc_params_drop.
    rewrite IH; [|exact Hr|discriminate|].
    + pose proof (resolve_nonempty c x Hv (proj1 Hx')) as Hrx.
      change (map (resolve_type c) (x :: y :: r')) with (resolve_type c x :: resolve_type c y :: map (resolve_type c) r').
      rewrite join_sep_cons2.
      change (map (resolve_type c) (y :: r')) with (resolve_type c y :: map (resolve_type c) r').
      unfold joined, sep.
      destruct acc as [|a0 acc0].
      * destruct (resolve_type c x) as [|r0 rs] eqn:Er; [congruence|]. reflexivity.
      * destruct ((a0 :: acc0) ++ [c_comma; c_sp] ++ resolve_type c x) as [|z zs] eqn:Ez; [discriminate|].
        rewrite <- Ez. rewrite <- !app_assoc. reflexivity.
    + rewrite join_sep_cons2 in Hlen. rewrite app_length in Hlen. simpl in Hlen. simpl. lia.
Qed.

Lemma find_char_app_none : forall ch n rest, ~ In ch n ->
  find_char ch (n ++ rest) = option_map (fun i => List.length n + i) (find_char ch rest).
Proof.
  induction n as [|a n IH]; intros rest Hn; simpl.
  - destruct (find_char ch rest); reflexivity.
  - rewrite (eqb_neq a ch); [|intros E; apply Hn; left; exact E].
    rewrite IH; [|intros H; apply Hn; right; exact H].
    destruct (find_char ch rest); reflexivity.
Qed.

Lemma firstn_app_exact : forall (x y : str), firstn (List.length x) (x ++ y) = x.
Proof. intros. rewrite firstn_app, Nat.sub_diag, firstn_all. simpl. apply app_nil_r. Qed.

Lemma skipn_app_exact : forall (x y : str), skipn (List.length x) (x ++ y) = y.
Proof. intros. rewrite skipn_app, Nat.sub_diag, skipn_all. reflexivity. Qed.

Lemma resolve_flat_is_structural_l : forall c t, values_nonempty c -> wf_f t ->
  resolve_complex_type c (show_f t) = show_f (fsubst c t).
Proof.
  intros c t Hv Hw. destruct t as [n|b a|n|n d]; simpl in Hw; unfold resolve_complex_type, show_f, fsubst.
  - (* a plain name *)
    rewrite (find_char_none c_lt n (ident_no_lt n Hw)). unfold resolve_suffixed.
    rewrite (find_char_none c_star n (ident_no_star n Hw)), (find_char_none c_lbr n (ident_no_lbr n Hw)). reflexivity.
  - (* Base<a, b> *)
    destruct Hw as [Hb [Hne Ha]].
    set (J := join_with sep a).
    change (b ++ [c_lt] ++ J ++ [c_gt]) with (b ++ c_lt :: (J ++ [c_gt])).
    rewrite (find_char_app c_lt b _ (ident_no_lt b Hb)).
    replace (b ++ c_lt :: J ++ [c_gt]) with ((b ++ c_lt :: J) ++ [c_gt]) by (rewrite <- app_assoc; reflexivity).
    rewrite rfind_char_last.
    replace ((b ++ c_lt :: J) ++ [c_gt]) with (b ++ c_lt :: (J ++ [c_gt])) by (rewrite <- app_assoc; reflexivity).
    assert (L : List.length (b ++ c_lt :: J) = List.length b + 1 + List.length J) by (rewrite app_length; simpl; lia).
    rewrite L.
    assert (E1 : (List.length b + 1 + List.length J <? List.length b) = false) by (apply Nat.ltb_ge; lia).
    rewrite E1.
    rewrite firstn_app_exact.
    replace (b ++ c_lt :: J ++ [c_gt]) with ((b ++ [c_lt]) ++ (J ++ [c_gt])) by (rewrite <- app_assoc; reflexivity).
    assert (L2 : List.length b + 1 = List.length (b ++ [c_lt])) by (rewrite app_length; simpl; lia).
    rewrite L2. rewrite skipn_app_exact.
    replace (List.length (b ++ [c_lt]) + List.length J - List.length b - 1) with (List.length J)
      by (rewrite app_length; simpl; lia).
    rewrite firstn_app_exact.
    replace (List.length (b ++ [c_lt]) + List.length J + 1) with (List.length ((b ++ [c_lt]) ++ J ++ [c_gt]))
      by (rewrite !app_length; simpl; lia).
    rewrite skipn_all. rewrite app_nil_r.
    unfold J. rewrite (rc_params_join c a Hv Ha Hne); [|lia]. reflexivity.
  - (* T* *)
    assert (Hn : ~ In c_lt (n ++ [c_star])).
    { intros H. apply in_app_or in H. destruct H as [H|[H|[]]]; [exact (ident_no_lt n Hw H) | discriminate]. }
    rewrite (find_char_none c_lt _ Hn). unfold resolve_suffixed.
    rewrite (find_char_app c_star n [] (ident_no_star n Hw)).
    rewrite firstn_app_exact, skipn_app_exact. reflexivity.
  - (* T[3] *)
    destruct Hw as [Hi [Hd1 Hd2]].
    assert (Hn : ~ In c_lt (n ++ c_lbr :: d)).
    { intros H. apply in_app_or in H. destruct H as [H|[H|H]]; [exact (ident_no_lt n Hi H) | discriminate | exact (Hd1 H)]. }
    rewrite (find_char_none c_lt _ Hn). unfold resolve_suffixed.
    assert (Hs : ~ In c_star (n ++ c_lbr :: d)).
    { intros H. apply in_app_or in H. destruct H as [H|[H|H]]; [exact (ident_no_star n Hi H) | discriminate | exact (Hd2 H)]. }
    rewrite (find_char_none c_star _ Hs).
    rewrite (find_char_app c_lbr n d (ident_no_lbr n Hi)).
    rewrite firstn_app_exact, skipn_app_exact. reflexivity.
Qed.


(* ------------------------------------------------------------------ (3b) the type arguments of a struct type name *)
(* for EVERY well-formed type expression Base<t1, ..., tk> (Names.wf: any nesting depth, any arity inside):
   the arguments find_impl_for_struct cuts out are the spellings of t1 ... tk *)
Lemma impl_type_args_nested_l : forall b args, wf (TApp b args) ->
  impl_type_args (show (TApp b args)) = Some (b, map show args).
Proof.
  intros b args Hwf. apply wf_app_forall in Hwf. destruct Hwf as [Hb [Hne Ha]].
  unfold impl_type_args. cbn [show].
  set (J := join_with sep (map show args)).
  change (b ++ [c_lt] ++ J ++ [c_gt]) with (b ++ c_lt :: (J ++ [c_gt])).
  rewrite (find_char_app c_lt b _ (clean_no_lt b Hb)).
  replace (b ++ c_lt :: J ++ [c_gt]) with ((b ++ c_lt :: J) ++ [c_gt]) by (rewrite <- app_assoc; reflexivity).
  rewrite rfind_char_last.
  replace ((b ++ c_lt :: J) ++ [c_gt]) with (b ++ c_lt :: (J ++ [c_gt])) by (rewrite <- app_assoc; reflexivity).
  assert (L : List.length (b ++ c_lt :: J) = List.length b + 1 + List.length J) by (rewrite app_length; simpl; lia).
  rewrite L.
  assert (E1 : (List.length b + 1 + List.length J <? List.length b) = false) by (apply Nat.ltb_ge; lia).
  rewrite E1. rewrite firstn_app_exact.
  replace (b ++ c_lt :: J ++ [c_gt]) with ((b ++ [c_lt]) ++ (J ++ [c_gt])) by (rewrite <- app_assoc; reflexivity).
  assert (L2 : List.length b + 1 = List.length (b ++ [c_lt])) by (rewrite app_length; simpl; lia).
  rewrite L2. rewrite skipn_app_exact.
  replace (List.length (b ++ [c_lt]) + List.length J - List.length b - 1) with (List.length J)
    by (rewrite app_length; simpl; lia).
  rewrite firstn_app_exact.
  unfold J. rewrite (split_top_level args Ha Hne [] []); [reflexivity | constructor].
Qed.

(* the instance of Base<t1, ..., tk>: the first generic impl of Base with k parameters, parameter i bound to the
   spelling of ti - a nested or tuple-typed argument (Cell<Duo<int, long>>) is ONE argument *)
Lemma fresh_inst_nested_l : forall P b args k blk, wf (TApp b args) ->
  find_generic P b (List.length args) = Some (k, blk) ->
  fresh_inst P (show (TApp b args)) =
  Some {| i_block := k; i_map := build_map (b_params blk) (map show args);
          i_generic := negb (strs_eqb (map show args) (b_params blk)) |}.
Proof.
  intros P b args k blk Hwf Hg. unfold fresh_inst. rewrite (impl_type_args_nested_l b args Hwf).
  apply wf_app_forall in Hwf. destruct Hwf as [_ [Hne _]].
  rewrite <- (map_length show args) in Hg.
  destruct (map show args) as [|x r] eqn:E; [destruct args; [congruence | discriminate]|].
  rewrite Hg. reflexivity.
Qed.

(* ------------------------------------------------------------------ (4) refuted, with witnesses *)
Definition w_T : str := s2l "T".
Definition w_ctx_int : tctx := [(w_T, s2l "int")].

(* a nested generic argument is looked up as ONE name: the parameter inside stays *)
Lemma resolve_nested_refuted_l :
  resolve_complex_type w_ctx_int (s2l "Box<Cell<T>>") = s2l "Box<Cell<T>>" /\
  resolve_complex_type w_ctx_int (s2l "Box<Cell<T>>") <> s2l "Box<Cell<int>>".
Proof. split; [vm_compute; reflexivity | vm_compute; discriminate]. Qed.

Definition w_bytes : method := {| m_params := []; m_body := [AObs w_T] |}.
Definition w_cell : block := {| b_base := s2l "Cell"; b_params := [w_T]; b_methods := [(s2l "bytes", w_bytes)] |}.

(* repaired finding C11-impl-tuple-type-argument (d6bac56): Cell<Duo<int, long>> has ONE type argument *)
Lemma tuple_type_argument_example_l :
  impl_type_args (s2l "Cell<Duo<int, long>>") = Some (s2l "Cell", [s2l "Duo<int, long>"]) /\
  fresh_inst [w_cell] (s2l "Cell<Duo<int, long>>") =
    Some {| i_block := 0; i_map := [(w_T, s2l "Duo<int, long>")]; i_generic := true |} /\
  fresh_inst [w_cell] (s2l "Cell<Box<long>>") = Some {| i_block := 0; i_map := [(w_T, s2l "Box<long>")]; i_generic := true |}.
Proof. repeat split; vm_compute; reflexivity. Qed.

(* repaired finding C11-try-leaks-type-context (70336ad): a caller of Cell<int> that catches the error of a
   Cell<long> callee observes int before and after *)
Definition w_fail : method := {| m_params := []; m_body := [AObs w_T; AFail] |}.
Definition w_try : method :=
  {| m_params := [(s2l "o", s2l "Cell<long>")];
     m_body := [AObs w_T; ATry (s2l "o") (s2l "fail"); AObs w_T] |}.
Definition w_cell2 : block :=
  {| b_base := s2l "Cell"; b_params := [w_T];
     b_methods := [(s2l "bytes", w_bytes); (s2l "fail", w_fail); (s2l "tr", w_try)] |}.

Lemma try_example_l :
  r_out (run_main 20 [w_cell2] [] (s2l "Cell<int>") (s2l "tr") 3) = [s2l "int"; s2l "long"; s2l "int"] /\
  r_flag (run_main 20 [w_cell2] [] (s2l "Cell<int>") (s2l "tr") 3) = FNorm.
Proof. split; vm_compute; reflexivity. Qed.

(* known finding C11-impl-local-struct-of-T: a local declared `Box<T> l;` inside a method of Cell<T> keeps the struct
   type name "Box<T>"; a method of impl ... for Box<E> called on it runs with E bound to the TEXT "T" (which the pushed
   context cannot resolve further: sizeof falls back to 8) - the hand-specialised copy of Cell<short> observes short *)
Definition w_E : str := s2l "E".
Definition w_m0 : method := {| m_params := []; m_body := [AObs w_E] |}.
Definition w_box : block := {| b_base := s2l "Box"; b_params := [w_E]; b_methods := [(s2l "m0", w_m0)] |}.
Definition w_loc : method :=
  {| m_params := []; m_body := [ADecl (s2l "l") (s2l "Box<T>"); ACall (s2l "l") (s2l "m0")] |}.
Definition w_cell4 : block := {| b_base := s2l "Cell"; b_params := [w_T]; b_methods := [(s2l "loc", w_loc)] |}.

Lemma local_of_parameter_type_refuted_l :
  r_out (run_main 20 [w_cell4; w_box] [] (s2l "Cell<short>") (s2l "loc") 3) = [s2l "T"] /\
  r_out (run_main 20 [w_cell4; w_box] [] (s2l "Cell<short>") (s2l "loc") 3) <> [s2l "short"].
Proof. split; [vm_compute; reflexivity | vm_compute; discriminate]. Qed.

(* the hypothesis of stack discipline and flat resolution is satisfiable: a method of Cell<int> that calls a
   method of Cell<long> and then observes T again *)
Definition w_cross : method :=
  {| m_params := [(s2l "o", s2l "Cell<long>")];
     m_body := [AObs w_T; ACall (s2l "o") (s2l "bytes"); AObs w_T; ADecl (s2l "c") (s2l "Cell<T>");
                ACall (s2l "c") (s2l "bytes")] |}.
Definition w_cell3 : block :=
  {| b_base := s2l "Cell"; b_params := [w_T]; b_methods := [(s2l "bytes", w_bytes); (s2l "cross", w_cross)] |}.

Lemma cross_instantiation_example_l :
  r_out (run_main 20 [w_cell3] [] (s2l "Cell<int>") (s2l "cross") 3) = [s2l "int"; s2l "long"; s2l "int"; s2l "int"] /\
  r_stack (run_main 20 [w_cell3] [] (s2l "Cell<int>") (s2l "cross") 3) = [].
Proof. split; vm_compute; reflexivity. Qed.

(* known finding C11-impl-defer-after-context-pop: a deferred statement of a generic impl method that is still pending
   when the body is left (return inside a nested block, end of a void method, run-time error) runs after the method's
   type context was popped.  `late` of Cell<long>, called from a method of Cell<short>: the deferred sizeof(T) observes
   short, the hand-specialised copy observes long. *)
Definition w_late : method := {| m_params := []; m_body := [ADefer w_T; ARetIf 5] |}.
Definition w_outer : method :=
  {| m_params := [(s2l "o", s2l "Cell<long>")]; m_body := [ACall (s2l "o") (s2l "late"); AObs w_T] |}.
Definition w_void : method := {| m_params := []; m_body := [ADefer w_T; AObs w_T; AEnd] |}.
Definition w_top : method := {| m_params := []; m_body := [ADefer w_T; AObs w_T] |}.
Definition w_cell5 : block :=
  {| b_base := s2l "Cell"; b_params := [w_T];
     b_methods := [(s2l "late", w_late); (s2l "outer", w_outer); (s2l "void", w_void); (s2l "top", w_top)] |}.

Lemma deferred_statement_context_refuted_l :
  r_out (run_main 20 [w_cell5] [] (s2l "Cell<short>") (s2l "outer") 3) = [s2l "short"; s2l "short"] /\
  q_out (run_main_mono 20 [w_cell5] [] (s2l "Cell<short>") (s2l "outer") 3) = [s2l "long"; s2l "short"] /\
  (* from main no context is left at all: the parameter stays unresolved *)
  r_out (run_main 20 [w_cell5] [] (s2l "Cell<long>") (s2l "void") 3) = [s2l "long"; s2l "T"] /\
  q_out (run_main_mono 20 [w_cell5] [] (s2l "Cell<long>") (s2l "void") 3) = [s2l "long"; s2l "long"] /\
  prog_defers_early [w_cell5] = false.
Proof. repeat split; vm_compute; reflexivity. Qed.

(* the hypothesis of run_refines_hand_copy_l is satisfiable by a program that defers: a defer followed by plain
   statements and the closing top-level return runs under the method's own context *)
Definition w_outer2 : method :=
  {| m_params := [(s2l "o", s2l "Cell<long>")]; m_body := [ACall (s2l "o") (s2l "top"); AObs w_T] |}.
Definition w_cell6 : block :=
  {| b_base := s2l "Cell"; b_params := [w_T]; b_methods := [(s2l "top", w_top); (s2l "outer", w_outer2)] |}.

Lemma defer_top_level_example_l :
  prog_defers_early [w_cell6] = true /\
  r_out (run_main 20 [w_cell6] [] (s2l "Cell<short>") (s2l "outer") 3) = [s2l "long"; s2l "long"; s2l "short"].
Proof. split; vm_compute; reflexivity. Qed.
