(* C11 - Mech model of the RUN-TIME type context of generic impl blocks.

   A generic impl block is not instantiated by clone + substitute (that is for generic functions, Model.v): its
   methods are the ONE generic AST shared by all instantiations, and the type parameters are resolved while
   the method runs, through a stack of TypeContext records.  Mirrors, function by function,

     src/common/ast.h                     TypeContext::resolve_type, TypeContext::resolve_complex_type,
                                          ImplDefinition::get_type_context
     src/backend/interpreter/core/interpreter.h
                                          push_type_context, pop_type_context, get_current_type_context,
                                          resolve_type_in_context
     src/backend/interpreter/managers/types/interfaces.cpp
                                          find_impl_for_struct: exact match among the registered impls, else the
                                          type arguments cut out of the struct type name (at the top-level commas
                                          only, with a bracket depth counter; repair d6bac56), the generic impl
                                          with that base name and that many parameters,
                                          type_map[param] = argument, the new instance appended to impl_definitions_
     src/backend/interpreter/evaluator/functions/call_impl.cpp (evaluate_function_call_impl, method-call path)
                                          receiver struct type name contains '<'  ->  find_impl_for_struct;
                                          generic instance -> push_type_context(impl_def->get_type_context());
                                          body; manual pops at the normal end and at the head of the
                                          ReturnException handler (each clears type_context_pushed), and the
                                          TypeContextGuard declared next to type_context_pushed pops on every other
                                          exit of the call (any other exception = a run-time error; repair 70336ad);
                                          only THEN interpreter_.pop_scope() leaves the method's scope
     src/backend/interpreter/core/cleanup.cpp
                                          pop_scope -> pop_defer_scope (the scope's pending defers run here),
                                          execute_pre_return_cleanup (a `return` runs the innermost defer level first)

   A method body is abstracted to the statements that read or change the type context: an observation of a type
   name (sizeof(ty), new ty: everything that goes through resolve_type_in_context), the declaration of a
   struct-typed local, a method call on a variable, a function call, an early return, a run-time error, and a
   deferred observation (`defer println(sizeof(ty));`: user code that runs when the scope is left, i.e. at a point
   of the call protocol that the other statements cannot reach).

   Definitions only (total, computable, extractable). *)
From Coq Require Import String Ascii List Bool Arith ZArith NArith.
Import ListNotations.
From Cb Require Import C11.Gen_CloneFields C11.Model.
Local Open Scope list_scope.

Definition c_star : ascii := "*"%char.
Definition c_lbr : ascii := "["%char.

(* ------------------------------------------------------------------ TypeContext (ast.h) *)
(* std::map<std::string,std::string> type_map, filled by type_map[p] = a in order: Model.tmap / Model.build_map *)
Definition tctx := tmap.

(* TypeContext::resolve_type *)
Definition resolve_type (c : tctx) (s : str) : str := map_or_self c s.

Fixpoint drop_sp (s : str) : str :=
  match s with
  | a :: r => if Ascii.eqb a c_sp then drop_sp r else s
  | [] => []
  end.

(* while (!param.empty() && param.back() == ' ') param.pop_back(); *)
Definition strip_sp_end (s : str) : str := rev (drop_sp (rev s)).

(* params.find(',', start): the text before the next comma, and what follows it (None = npos) *)
Fixpoint until_comma (s : str) : str * option str :=
  match s with
  | [] => ([], None)
  | a :: r => if Ascii.eqb a c_comma then ([], Some r)
              else let '(x, y) := until_comma r in (a :: x, y)
  end.

(* the parameter loop of resolve_complex_type: every ',' splits (no bracket depth), blanks (' ' only) are
   skipped in front of a parameter and removed behind it, each parameter goes through resolve_type - NOT
   through resolve_complex_type: a nested generic argument is looked up as one name.  The separator is added
   `if (!resolved_params.empty())`: a test on the accumulated TEXT. *)
Fixpoint rc_params (fuel : nat) (c : tctx) (s : str) (acc : str) : str :=
  match fuel with
  | 0 => acc
  | S f =>
      match drop_sp s with
      | [] => acc
      | s1 =>
          let '(p, rest) := until_comma s1 in
          let r := resolve_type c (strip_sp_end p) in
          let acc' := match acc with [] => r | _ => acc ++ [c_comma; c_sp] ++ r end in
          match rest with
          | None => acc'
          | Some s2 => rc_params f c s2 acc'
          end
      end
  end.

(* the `T*` and `T[]` branches and the plain fall-back *)
Definition resolve_suffixed (c : tctx) (s : str) : str :=
  match find_char c_star s with
  | Some i => resolve_type c (firstn i s) ++ skipn i s
  | None =>
      match find_char c_lbr s with
      | Some i => resolve_type c (firstn i s) ++ skipn i s
      | None => resolve_type c s
      end
  end.

(* TypeContext::resolve_complex_type *)
Definition resolve_complex_type (c : tctx) (s : str) : str :=
  match find_char c_lt s with
  | None => resolve_suffixed c s
  | Some lt =>
      match rfind_char c_gt s with
      | None => resolve_suffixed c s
      | Some gt =>
          let base := firstn lt s in
          (* substr(lt + 1, gt - lt - 1): the count is a size_t, it wraps when gt < lt *)
          let params := if gt <? lt then skipn (lt + 1) s else firstn (gt - lt - 1) (skipn (lt + 1) s) in
          let suffix := skipn (gt + 1) s in
          base ++ [c_lt] ++ rc_params (S (List.length params)) c params [] ++ [c_gt] ++ suffix
      end
  end.

(* ------------------------------------------------------------------ the stack (interpreter.h) *)
(* std::vector<TypeContext> type_context_stack_: back() is the head of the list *)
Definition stack := list tctx.

Definition push_type_context (c : tctx) (st : stack) : stack := c :: st.
(* if (!empty()) pop_back(); *)
Definition pop_type_context (st : stack) : stack := tl st.
Definition get_current_type_context (st : stack) : option tctx := hd_error st.

(* what a reader of the context sees for a type name, given the current context (None = nullptr) *)
Definition resolve_cur (cur : option tctx) (s : str) : str :=
  match cur with
  | None => s
  | Some c => resolve_complex_type c s
  end.

(* Interpreter::resolve_type_in_context *)
Definition resolve_type_in_context (st : stack) (s : str) : str := resolve_cur (get_current_type_context st) s.

(* ------------------------------------------------------------------ programs *)
Inductive act : Type :=
| AObs (ty : str)            (* sizeof(ty) / new ty / ...: the name resolved in the current context is observed *)
| ADecl (v ty : str)         (* `ty v;` a struct-typed local: its struct type name is the declared text AS WRITTEN
                                (declaration.cpp: var.struct_type_name = node->type_name; only a pointer to a generic
                                struct goes through resolve_type_in_context) *)
| ACall (v m : str)          (* v.m(n - 1, ...) on a parameter, a local or self *)
| ATry (v m : str)           (* Result<..> r = try v.m(n - 1, ...): a run-time error of the callee is caught, the caller goes on *)
| AFn (g : str)              (* g(n - 1, ...): a plain function, or an instance of a generic function (its body is
                                the substituted copy Model.instantiate builds): nothing is pushed or popped, the
                                body runs under whatever context is on the stack *)
| ARetIf (k : nat)           (* if (n <= k) { return ...; }: a return inside a nested block *)
| ADefer (ty : str)          (* defer println(sizeof(ty)); at the top level of the body: registered in the defer level
                                of the method's scope, executed when that scope is left *)
| AEnd                       (* the body of a void method falls off its end (written as the last statement); a body
                                that simply ends, [], ends with a top-level `return ...;` *)
| AFail.                     (* a run-time error (division by zero, ...): a C++ exception that is no ReturnException *)

Record method : Type := { m_params : list (str * str); m_body : list act }.

(* an impl block: `impl I<P...> for Base<P...>` (b_params non-empty) or `impl I for Base` (b_params = []) *)
Record block : Type := { b_base : str; b_params : list str; b_methods : list (str * method) }.

Definition program := list block.

Fixpoint lookup_method (ms : list (str * method)) (m : str) : option method :=
  match ms with
  | [] => None
  | (k, v) :: r => if str_eqb m k then Some v else lookup_method r m
  end.

(* ------------------------------------------------------------------ find_impl_for_struct (interfaces.cpp) *)
(* base name and type arguments cut out of "Base<a, b>": '<' by find, '>' by rfind, then a character loop with
   an int bracket depth ('<' ++, '>' --, both kept in the argument): a ',' at depth 0 ends an argument; each
   argument trimmed of blanks and tabs, all-blank arguments dropped.  This is the loop of
   substitute_generic_type_name: Model.split_params *)
Definition impl_type_args (s : str) : option (str * list str) :=
  match find_char c_lt s with
  | None => None
  | Some lt =>
      match rfind_char c_gt s with
      | None => Some (firstn lt s, [])
      | Some gt =>
          let a := if gt <? lt then skipn (lt + 1) s else firstn (gt - lt - 1) (skipn (lt + 1) s) in
          Some (firstn lt s, split_params a 0%Z [] [])
      end
  end.

(* the first generic impl block with this base name and this many type parameters, and its position
   (the position stands for ImplDefinition::impl_node, the AST shared by all instances of the block) *)
Fixpoint find_generic_from (k : nat) (P : program) (base : str) (n : nat) : option (nat * block) :=
  match P with
  | [] => None
  | b :: r =>
      if str_eqb (b_base b) base && negb (List.length (b_params b) =? 0) && (List.length (b_params b) =? n)
      then Some (k, b) else find_generic_from (S k) r base n
  end.

Definition find_generic := find_generic_from 0.

Fixpoint find_plain (P : program) (name : str) : option block :=
  match P with
  | [] => None
  | b :: r => if str_eqb (b_base b) name && (List.length (b_params b) =? 0) then Some b else find_plain r name
  end.

(* what find_impl_for_struct answers: the block, the type_parameter_map, and is_generic_instance *)
Record inst : Type := { i_block : nat; i_map : tctx; i_generic : bool }.

Fixpoint strs_eqb (a b : list str) : bool :=
  match a, b with
  | [], [] => true
  | x :: r, y :: s => str_eqb x y && strs_eqb r s
  | _, _ => false
  end.

(* the instances appended to impl_definitions_ so far, searched by exact struct type name *)
Definition icache := list (str * inst).

Fixpoint lookup_inst (ic : icache) (name : str) : option inst :=
  match ic with
  | [] => None
  | (k, v) :: r => if str_eqb name k then Some v else lookup_inst r name
  end.

(* the instance find_impl_for_struct builds for a struct type name when nothing is registered yet.  When the type
   arguments are the block's own parameters ("Cell<T>" asked of impl ... for Cell<T>: a local declared with the
   generic spelling inside the block) the instantiated names are the generic impl's own names, the search among
   the registered impls finds the GENERIC impl itself and answers it: is_generic_instance is false *)
Definition fresh_inst (P : program) (name : str) : option inst :=
  match impl_type_args name with
  | None => None
  | Some (_, []) => None
  | Some (base, args) =>
      match find_generic P base (List.length args) with
      | None => None
      | Some (k, b) => Some {| i_block := k; i_map := build_map (b_params b) args;
                               i_generic := negb (strs_eqb args (b_params b)) |}
      end
  end.

Definition find_impl_for_struct (P : program) (ic : icache) (name : str) : icache * option inst :=
  match lookup_inst ic name with
  | Some i => (ic, Some i)
  | None =>
      match fresh_inst P name with
      | Some i => (if i_generic i then ic ++ [(name, i)] else ic, Some i)
      | None => (ic, None)
      end
  end.

(* ------------------------------------------------------------------ the method-call path (call_impl.cpp) *)
(* which method runs for `v.m(...)` on a receiver of struct type rty, and the context pushed for it:
   a name with '<' goes through find_impl_for_struct and pushes the context of a generic INSTANCE; a plain struct,
   and the generic impl itself, push nothing (the callee then runs under whatever context the caller left on
   the stack) *)
Definition enter (P : program) (ic : icache) (rty m : str) : option (icache * option tctx * method) :=
  if has_char c_lt rty then
    match find_impl_for_struct P ic rty with
    | (ic1, Some i) =>
        match nth_error P (i_block i) with
        | Some b => match lookup_method (b_methods b) m with
                    | Some md => Some (ic1, if i_generic i then Some (i_map i) else None, md)
                    | None => None
                    end
        | None => None
        end
    | (_, None) => None
    end
  else
    match find_plain P rty with
    | Some b => match lookup_method (b_methods b) m with
                | Some md => Some (ic, None, md)
                | None => None
                end
    | None => None
    end.

(* a function is carried as a block without parameters whose only method has this name *)
Definition fn_method : str := s2l "()".

Definition enter_fn (P : program) (g : str) : option method :=
  match find_plain P g with
  | Some b => lookup_method (b_methods b) fn_method
  | None => None
  end.

Inductive flag : Type := FNorm | FRet | FErr.

Definition flag_err (f : flag) : bool := match f with FErr => true | _ => false end.

(* r_pend: the deferred statements of the body's own (method-level) scope that were NOT run when the body was left
   (most recent first): the caller of the body runs them when it pops the scope - see ACall below *)
Record res : Type := { r_out : list str; r_stack : stack; r_cache : icache; r_flag : flag; r_pend : list str }.

Definition self_name : str := s2l "self".

(* the body is left with its scope-exit statements still pending *)
Definition stop (st : stack) (ic : icache) (fl : flag) (pend : list str) : res :=
  {| r_out := []; r_stack := st; r_cache := ic; r_flag := fl; r_pend := pend |}.

(* deferred `println(sizeof(ty))` statements executed under a stack, last registered first *)
Definition obs_all (st : stack) (dfs : list str) : list str := map (resolve_type_in_context st) dfs.

(* Mech: the body of a method under the type-context stack.  fuel bounds the number of statements executed;
   dfs = the deferred statements registered so far in the body's scope, most recent first.

   Scope exit (call_impl.cpp, evaluate_function_call_impl; core/cleanup.cpp):
     - a `return` statement at the TOP level of the body runs execute_pre_return_cleanup() before it throws the
       ReturnException: the defers of the innermost defer level = the method scope are executed there, while the
       method's own context is still on the stack;
     - a `return` inside a nested block (`if (...) { return ...; }`) finds the BLOCK's (empty) level innermost, the
       method-level defers stay registered; falling off the end of a void method and a run-time error leave them
       registered as well.  They are executed by interpreter_.pop_scope() -> pop_defer_scope(), which on every one
       of these paths comes AFTER the type context was popped: the manual pop at the normal end (before the self
       write-back), the manual pop at the head of `catch (const ReturnException &)`, and for any other exception
       ~TypeContextGuard (declared inside the function-level try block, so it runs before the `catch (...)`
       handler that pops the scope).  The pending defers are therefore executed under the CALLER's stack. *)
Fixpoint run (fuel : nat) (P : program) (st : stack) (ic : icache) (env : list (str * str)) (n : nat)
         (dfs : list str) (b : list act) : res :=
  match fuel with
  | 0 => stop st ic FErr []
  | S f =>
      match b with
      | [] =>
          (* the closing top-level `return ...;` *)
          {| r_out := obs_all st dfs; r_stack := st; r_cache := ic; r_flag := FNorm; r_pend := [] |}
      | AObs ty :: r =>
          let x := run f P st ic env n dfs r in
          {| r_out := resolve_type_in_context st ty :: r_out x; r_stack := r_stack x; r_cache := r_cache x;
             r_flag := r_flag x; r_pend := r_pend x |}
      | ADecl v ty :: r => run f P st ic ((v, ty) :: env) n dfs r
      | ADefer ty :: r => run f P st ic env n (ty :: dfs) r
      | ARetIf k :: r =>
          if n <=? k then stop st ic FRet dfs
          else run f P st ic env n dfs r
      | AEnd :: _ => stop st ic FNorm dfs
      | AFail :: _ => stop st ic FErr dfs
      | AFn g :: r =>
          match enter_fn P g with
          | None => stop st ic FErr dfs
          | Some md =>
              let x := run f P st ic (m_params md) (pred n) [] (m_body md) in
              let late := obs_all (r_stack x) (r_pend x) in
              if flag_err (r_flag x)
              then {| r_out := r_out x ++ late; r_stack := r_stack x; r_cache := r_cache x; r_flag := FErr; r_pend := dfs |}
              else
                let y := run f P (r_stack x) (r_cache x) env n dfs r in
                {| r_out := r_out x ++ late ++ r_out y; r_stack := r_stack y; r_cache := r_cache y; r_flag := r_flag y;
                   r_pend := r_pend y |}
          end
      | ACall v m :: r =>
          match lookup env v with
          | None => stop st ic FErr dfs
          | Some rty =>
              match enter P ic rty m with
              | None => stop st ic FErr dfs
              | Some (ic1, pushed, md) =>
                  let st1 := match pushed with Some c => push_type_context c st | None => st end in
                  let x := run f P st1 ic1 ((self_name, rty) :: m_params md) (pred n) [] (m_body md) in
                  (* the manual pops / ~TypeContextGuard: whatever the outcome *)
                  let st2 := match pushed with Some _ => pop_type_context (r_stack x) | None => r_stack x end in
                  (* pop_scope() of the callee's scope, after the pop of its context *)
                  let late := obs_all st2 (r_pend x) in
                  if flag_err (r_flag x)
                  then {| r_out := r_out x ++ late; r_stack := st2; r_cache := r_cache x; r_flag := FErr; r_pend := dfs |}
                  else
                    let y := run f P st2 (r_cache x) env n dfs r in
                    {| r_out := r_out x ++ late ++ r_out y; r_stack := r_stack y; r_cache := r_cache y; r_flag := r_flag y;
                       r_pend := r_pend y |}
              end
          end
      | ATry v m :: r =>
          match lookup env v with
          | None => stop st ic FErr dfs
          | Some rty =>
              match enter P ic rty m with
              | None =>
                  (* "Undefined function": a run-time error as well, caught by the try *)
                  run f P st ic env n dfs r
              | Some (ic1, pushed, md) =>
                  let st1 := match pushed with Some c => push_type_context c st | None => st end in
                  let x := run f P st1 ic1 ((self_name, rty) :: m_params md) (pred n) [] (m_body md) in
                  let st2 := match pushed with Some _ => pop_type_context (r_stack x) | None => r_stack x end in
                  let late := obs_all st2 (r_pend x) in
                  let y := run f P st2 (r_cache x) env n dfs r in
                  {| r_out := r_out x ++ late ++ r_out y; r_stack := r_stack y; r_cache := r_cache y; r_flag := r_flag y;
                     r_pend := r_pend y |}
              end
          end
      end
  end.

(* Spec: the same program where every method body runs under ONE fixed context, the one of the instance
   the method belongs to (the hand-specialised copy: the type parameters of a body are bound once, by the
   instantiation, whoever calls it and whatever ran before).  A plain struct's method and a function have no
   context of their own and inherit `cur` (the model keeps the dynamic scoping of the code there).

   late = false: the hand-specialised copy proper - a deferred statement belongs to its body and observes the
   body's context whenever it runs.  late = true: the order of the code - the defers still pending when a body is left
   are observed under the context of the CALLER's instance. *)
Record mres : Type := { q_out : list str; q_cache : icache; q_flag : flag; q_pend : list str }.

Definition obs_cur (cur : option tctx) (dfs : list str) : list str := map (resolve_cur cur) dfs.

Definition mstop (late : bool) (cur : option tctx) (ic : icache) (fl : flag) (dfs : list str) : mres :=
  if late then {| q_out := []; q_cache := ic; q_flag := fl; q_pend := dfs |}
  else {| q_out := obs_cur cur dfs; q_cache := ic; q_flag := fl; q_pend := [] |}.

Fixpoint run_mono (late : bool) (fuel : nat) (P : program) (cur : option tctx) (ic : icache) (env : list (str * str))
         (n : nat) (dfs : list str) (b : list act) : mres :=
  match fuel with
  | 0 => {| q_out := []; q_cache := ic; q_flag := FErr; q_pend := [] |}
  | S f =>
      match b with
      | [] => {| q_out := obs_cur cur dfs; q_cache := ic; q_flag := FNorm; q_pend := [] |}
      | AObs ty :: r =>
          let x := run_mono late f P cur ic env n dfs r in
          {| q_out := resolve_cur cur ty :: q_out x; q_cache := q_cache x; q_flag := q_flag x; q_pend := q_pend x |}
      | ADecl v ty :: r => run_mono late f P cur ic ((v, ty) :: env) n dfs r
      | ADefer ty :: r => run_mono late f P cur ic env n (ty :: dfs) r
      | ARetIf k :: r =>
          if n <=? k then mstop late cur ic FRet dfs
          else run_mono late f P cur ic env n dfs r
      | AEnd :: _ => mstop late cur ic FNorm dfs
      | AFail :: _ => mstop late cur ic FErr dfs
      | AFn g :: r =>
          match enter_fn P g with
          | None => mstop late cur ic FErr dfs
          | Some md =>
              let x := run_mono late f P cur ic (m_params md) (pred n) [] (m_body md) in
              let lt := obs_cur cur (q_pend x) in
              if flag_err (q_flag x)
              then
                let z := mstop late cur (q_cache x) FErr dfs in
                {| q_out := q_out x ++ lt ++ q_out z; q_cache := q_cache z; q_flag := FErr; q_pend := q_pend z |}
              else
                let y := run_mono late f P cur (q_cache x) env n dfs r in
                {| q_out := q_out x ++ lt ++ q_out y; q_cache := q_cache y; q_flag := q_flag y; q_pend := q_pend y |}
          end
      | ACall v m :: r =>
          match lookup env v with
          | None => mstop late cur ic FErr dfs
          | Some rty =>
              match enter P ic rty m with
              | None => mstop late cur ic FErr dfs
              | Some (ic1, pushed, md) =>
                  let cur1 := match pushed with Some c => Some c | None => cur end in
                  let x := run_mono late f P cur1 ic1 ((self_name, rty) :: m_params md) (pred n) [] (m_body md) in
                  let lt := obs_cur cur (q_pend x) in
                  if flag_err (q_flag x)
                  then
                    let z := mstop late cur (q_cache x) FErr dfs in
                    {| q_out := q_out x ++ lt ++ q_out z; q_cache := q_cache z; q_flag := FErr; q_pend := q_pend z |}
                  else
                    let y := run_mono late f P cur (q_cache x) env n dfs r in
                    {| q_out := q_out x ++ lt ++ q_out y; q_cache := q_cache y; q_flag := q_flag y; q_pend := q_pend y |}
              end
          end
      | ATry v m :: r =>
          match lookup env v with
          | None => mstop late cur ic FErr dfs
          | Some rty =>
              match enter P ic rty m with
              | None => run_mono late f P cur ic env n dfs r
              | Some (ic1, pushed, md) =>
                  let cur1 := match pushed with Some c => Some c | None => cur end in
                  let x := run_mono late f P cur1 ic1 ((self_name, rty) :: m_params md) (pred n) [] (m_body md) in
                  let lt := obs_cur cur (q_pend x) in
                  let y := run_mono late f P cur (q_cache x) env n dfs r in
                  {| q_out := q_out x ++ lt ++ q_out y; q_cache := q_cache y; q_flag := q_flag y; q_pend := q_pend y |}
              end
          end
      end
  end.

(* a call from main (empty stack, no context) on a variable of struct type rty *)
Definition run_main (fuel : nat) (P : program) (ic : icache) (rty m : str) (n : nat) : res :=
  run fuel P [] ic [(self_name, rty)] (S n) [] [ACall self_name m].

(* the same call in the hand-specialised copy *)
Definition run_main_mono (fuel : nat) (P : program) (ic : icache) (rty m : str) (n : nat) : mres :=
  run_mono false fuel P None ic [(self_name, rty)] (S n) [] [ACall self_name m].

Fixpoint run_calls_mono (fuel : nat) (P : program) (ic : icache) (calls : list (str * str * nat)) : list mres :=
  match calls with
  | [] => []
  | (rty, m, n) :: r =>
      let x := run_main_mono fuel P ic rty m n in
      x :: run_calls_mono fuel P (q_cache x) r
  end.

(* a sequence of calls from main, the instance registry carried along: (receiver type, method, n) *)
Fixpoint run_calls (fuel : nat) (P : program) (ic : icache) (calls : list (str * str * nat)) : list res :=
  match calls with
  | [] => []
  | (rty, m, n) :: r =>
      let x := run_main fuel P ic rty m n in
      x :: run_calls fuel P (r_cache x) r
  end.

(* the stack a caller finds after `try v.m(...)`, whatever happened in the callee *)
Definition stack_after_try (fuel : nat) (P : program) (st : stack) (ic : icache) (env : list (str * str)) (n : nat)
           (v m : str) : stack :=
  r_stack (run fuel P st ic env n [] [ACall v m]).
