(* C11 - lemmas about clone / substitute on trees: clone = strip o prune, the trees on which clone is
   the identity, and instantiate = monomorphise on the trees whose child members are all copied
   and visited.  All statements are for every tree (structural induction, no depth bound). *)
From Coq Require Import String Ascii List Bool Arith NArith Lia.
Import ListNotations.
From Cb Require Import C11.Gen_CloneFields C11.Model.
Local Open Scope list_scope.

(* ------------------------------------------------------------------ induction on nodes *)
Section NodeInd.
  Variable P : node -> Prop.
  Hypothesis H : forall k sc kids, Forall (fun p => P (snd p)) kids -> P (Node k sc kids).
  Fixpoint node_ind' (n : node) : P n :=
    match n with
    | Node k sc kids =>
        H k sc kids
          ((fix go (l : list (string * node)) : Forall (fun p => P (snd p)) l :=
              match l with
              | [] => Forall_nil _
              | p :: r => Forall_cons p (node_ind' (snd p)) (go r)
              end) kids)
    end.
End NodeInd.

(* ------------------------------------------------------------------ Spec-side tree functions *)
(* forget the scalar members clone_ast_node does not copy, keep every child *)
Fixpoint strip (n : node) : node :=
  match n with
  | Node k sc kids => Node k (filter keep_scalar sc) (map (fun p => (fst p, strip (snd p))) kids)
  end.

(* forget the child members clone_ast_node does not copy, keep every scalar *)
Fixpoint prune (n : node) : node :=
  match n with
  | Node k sc kids => Node k sc (filter keep_child (map (fun p => (fst p, prune (snd p))) kids))
  end.

(* the hand-monomorphised copy: the per-node type rewriting applied to EVERY node of the tree,
   every member kept *)
Fixpoint mono (m : tmap) (n : node) : node :=
  match n with
  | Node k sc kids => Node k (subst_scalars m sc) (map (fun p => (fst p, mono m (snd p))) kids)
  end.

(* every child member used anywhere in the tree is in `allowed` *)
Fixpoint kids_within (allowed : list string) (n : node) : bool :=
  match n with
  | Node _ _ kids => forallb (fun p => in_list (fst p) allowed && kids_within allowed (snd p)) kids
  end.

(* every scalar member used anywhere in the tree is in `allowed` *)
Fixpoint scalars_within (allowed : list string) (n : node) : bool :=
  match n with
  | Node _ sc kids => forallb (fun p => in_list (fst p) allowed) sc &&
                      forallb (fun p => scalars_within allowed (snd p)) kids
  end.

(* the child members that are both copied by clone_ast_node and visited by substitute_type_parameters *)
Definition inst_child_fields : list string :=
  filter (fun f => in_list f subst_child_fields) cloned_child_fields.

Lemma in_inst_child_fields : forall f,
  in_list f inst_child_fields = true ->
  in_list f cloned_child_fields = true /\ in_list f subst_child_fields = true.
Proof.
  intros f. unfold inst_child_fields, in_list.
  rewrite !existsb_exists. intros [x [Hin Heq]].
  apply filter_In in Hin. destruct Hin as [Hin Hs].
  apply String.eqb_eq in Heq. subst x. split.
  - exists f. split; [exact Hin | apply String.eqb_refl].
  - apply existsb_exists. exact Hs.
Qed.

(* ------------------------------------------------------------------ list helpers *)
Lemma filter_map_fst {A B : Type} (g : A -> B) (q : string -> bool) (l : list (string * A)) :
  filter (fun p => q (fst p)) (map (fun p => (fst p, g (snd p))) l) =
  map (fun p => (fst p, g (snd p))) (filter (fun p => q (fst p)) l).
Proof.
  induction l as [|p r IH]; simpl; [reflexivity|].
  destruct (q (fst p)); simpl; rewrite IH; reflexivity.
Qed.

Lemma filter_all {A : Type} (q : A -> bool) (l : list A) :
  forallb q l = true -> filter q l = l.
Proof.
  induction l as [|a r IH]; simpl; [reflexivity|].
  intros H. apply andb_true_iff in H. destruct H as [Ha Hr]. rewrite Ha, IH by exact Hr. reflexivity.
Qed.

Lemma map_ext_Forall {A B : Type} (g h : A -> B) (l : list A) :
  Forall (fun a => g a = h a) l -> map g l = map h l.
Proof. induction 1; simpl; congruence. Qed.

Lemma filter_idem {A : Type} (q : A -> bool) (l : list A) : filter q (filter q l) = filter q l.
Proof.
  induction l as [|a r IH]; simpl; [reflexivity|].
  destruct (q a) eqn:E; simpl; [rewrite E, IH|]; auto.
Qed.

Lemma forallb_filter {A : Type} (q : A -> bool) (l : list A) : forallb q (filter q l) = true.
Proof.
  induction l as [|a r IH]; simpl; [reflexivity|].
  destruct (q a) eqn:E; simpl; [rewrite E|]; auto.
Qed.

(* ------------------------------------------------------------------ clone = strip o prune *)
Lemma clone_strip_prune_l : forall n, clone n = strip (prune n).
Proof.
  induction n as [k sc kids IH] using node_ind'. simpl. f_equal.
  unfold keep_child.
  rewrite (filter_map_fst clone (fun f => in_list f cloned_child_fields)).
  rewrite (filter_map_fst prune (fun f => in_list f cloned_child_fields)).
  rewrite map_map. simpl.
  apply map_ext_Forall.
  apply Forall_forall. intros p Hp. apply filter_In in Hp. destruct Hp as [Hp _].
  rewrite Forall_forall in IH. rewrite (IH p Hp). reflexivity.
Qed.

Lemma prune_id_l : forall n, kids_within cloned_child_fields n = true -> prune n = n.
Proof.
  induction n as [k sc kids IH] using node_ind'. simpl. intros Hc. f_equal.
  assert (Hm : map (fun p => (fst p, prune (snd p))) kids = kids).
  { rewrite <- (map_id kids) at 2. apply map_ext_Forall.
    rewrite Forall_forall in *. intros p Hp.
    rewrite forallb_forall in Hc. specialize (Hc p Hp). apply andb_true_iff in Hc.
    rewrite (IH p Hp) by tauto. destruct p; reflexivity. }
  rewrite Hm. apply filter_all.
  rewrite forallb_forall in *. intros p Hp. specialize (Hc p Hp). apply andb_true_iff in Hc.
  unfold keep_child. tauto.
Qed.

Lemma strip_id_l : forall n, scalars_within copied_scalar_fields n = true -> strip n = n.
Proof.
  induction n as [k sc kids IH] using node_ind'. simpl. intros Hc.
  apply andb_true_iff in Hc. destruct Hc as [Hs Hk]. f_equal.
  - apply filter_all. exact Hs.
  - rewrite <- (map_id kids) at 2. apply map_ext_Forall.
    rewrite Forall_forall in *. intros p Hp.
    rewrite forallb_forall in Hk. rewrite (IH p Hp) by auto. destruct p; reflexivity.
Qed.

(* clone is the identity exactly on what it copies: trees that use only copied members *)
Lemma clone_id_l : forall n,
  kids_within cloned_child_fields n = true -> scalars_within copied_scalar_fields n = true ->
  clone n = n.
Proof.
  intros n Hk Hs. rewrite clone_strip_prune_l, prune_id_l by exact Hk. apply strip_id_l. exact Hs.
Qed.

Lemma clone_within_l : forall n,
  kids_within cloned_child_fields (clone n) = true /\
  scalars_within copied_scalar_fields (clone n) = true.
Proof.
  induction n as [k sc kids IH] using node_ind'. simpl. split.
  - apply forallb_forall. intros p Hp. apply filter_In in Hp. destruct Hp as [Hp Hk].
    apply in_map_iff in Hp. destruct Hp as [q [Hq Hin]]. subst p. simpl.
    rewrite Forall_forall in IH. destruct (IH q Hin) as [H1 _].
    unfold keep_child in Hk. simpl in Hk. rewrite Hk, H1. reflexivity.
  - apply andb_true_iff. split.
    + apply forallb_filter.
    + apply forallb_forall. intros p Hp. apply filter_In in Hp. destruct Hp as [Hp _].
      apply in_map_iff in Hp. destruct Hp as [q [Hq Hin]]. subst p. simpl.
      rewrite Forall_forall in IH. destruct (IH q Hin) as [_ H2]. exact H2.
Qed.

Lemma clone_idempotent_l : forall n, clone (clone n) = clone n.
Proof. intros n. destruct (clone_within_l n) as [H1 H2]. apply clone_id_l; assumption. Qed.

(* ------------------------------------------------------------------ instantiate = monomorphise *)
Lemma subst_clone_is_mono_l : forall m n,
  kids_within inst_child_fields n = true ->
  subst_node m (clone n) = mono m (strip n).
Proof.
  intros m. induction n as [k sc kids IH] using node_ind'. simpl. intros Hc. f_equal.
  rewrite forallb_forall in Hc.
  assert (Hall : forallb keep_child (map (fun p => (fst p, clone (snd p))) kids) = true).
  { apply forallb_forall. intros p Hp. apply in_map_iff in Hp. destruct Hp as [q [Hq Hin]]. subst p.
    unfold keep_child. simpl. specialize (Hc q Hin). apply andb_true_iff in Hc.
    destruct Hc as [Hc _]. apply in_inst_child_fields in Hc. tauto. }
  rewrite (filter_all _ _ Hall). rewrite !map_map.
  apply map_ext_Forall. rewrite Forall_forall in *. intros p Hp.
  specialize (Hc p Hp). apply andb_true_iff in Hc. destruct Hc as [Hf Hk].
  apply in_inst_child_fields in Hf. unfold visit_child. cbn [fst snd].
  destruct Hf as [_ Hf]. rewrite Hf. rewrite (IH p Hp Hk). reflexivity.
Qed.

Definition clear_generic (n : node) : node :=
  match n with
  | Node k sc kids => Node k (sdel "type_parameters" (sdel "is_generic" sc)) kids
  end.

Definition type_params_of (f : node) : list str := strvec (sget "type_parameters" (scalars_of f)).

Lemma instantiate_ok_shape : forall f targs r,
  instantiate f targs = Ok r ->
  r = clear_generic (subst_node (build_map (type_params_of f) targs) (clone f)) /\
  List.length (type_params_of f) = List.length targs.
Proof.
  intros [k sc kids] targs r. unfold instantiate, type_params_of. simpl scalars_of.
  destruct (N.eqb k null_kind || negb (str_eqb (sget "is_generic" sc) (s2l "1"))); [discriminate|].
  destruct (List.length (strvec (sget "type_parameters" sc)) =? List.length targs) eqn:E; simpl; [|discriminate].
  apply Nat.eqb_eq in E.
  destruct (subst_node (build_map (strvec (sget "type_parameters" sc)) targs) (clone (Node k sc kids)))
    as [k' sc' kids'] eqn:Es.
  intros Hr. inversion Hr; subst r. split; [reflexivity|exact E].
Qed.

Lemma instantiate_is_mono_l : forall f targs r,
  instantiate f targs = Ok r ->
  kids_within inst_child_fields f = true ->
  r = clear_generic (mono (build_map (type_params_of f) targs) (strip f)).
Proof.
  intros f targs r Hi Hc. apply instantiate_ok_shape in Hi. destruct Hi as [Hr _].
  rewrite Hr, subst_clone_is_mono_l by exact Hc. reflexivity.
Qed.

(* instantiation is a function of (function AST, type arguments) only: no hidden state *)
Lemma call_pinned_pure : forall c1 c2 fn f targs,
  snd (call_pinned c1 fn f targs) = snd (call_pinned c2 fn f targs) /\
  fst (call_pinned c1 fn f targs) = c1.
Proof. intros. unfold call_pinned. simpl. split; reflexivity. Qed.

(* ------------------------------------------------------------------ monotonicity in the allowed members *)
Lemma in_list_incl : forall a b f, incl a b -> in_list f a = true -> in_list f b = true.
Proof.
  intros a b f H. unfold in_list. rewrite !existsb_exists. intros [x [Hx He]]. exists x. split; [apply H; exact Hx | exact He].
Qed.

Lemma kids_within_mono : forall a b, incl a b -> forall n, kids_within a n = true -> kids_within b n = true.
Proof.
  intros a b Hab. induction n as [k sc kids IH] using node_ind'. simpl. rewrite !forallb_forall.
  intros H p Hp. specialize (H p Hp). apply andb_true_iff in H. destruct H as [H1 H2].
  rewrite Forall_forall in IH. rewrite (in_list_incl a b _ Hab H1), (IH p Hp H2). reflexivity.
Qed.

Lemma scalars_within_mono : forall a b, incl a b -> forall n, scalars_within a n = true -> scalars_within b n = true.
Proof.
  intros a b Hab. induction n as [k sc kids IH] using node_ind'. simpl. intros H.
  apply andb_true_iff in H. destruct H as [H1 H2]. apply andb_true_iff. split.
  - rewrite forallb_forall in *. intros p Hp. apply (in_list_incl a b _ Hab). apply H1. exact Hp.
  - rewrite forallb_forall in *. intros p Hp. rewrite Forall_forall in IH. apply (IH p Hp). apply H2. exact Hp.
Qed.

(* when the tables say that every member is copied and visited: clone is the identity and instantiate is the
   hand-monomorphised copy on EVERY tree built from members of ASTNode *)
Lemma clone_id_complete_l :
  incl ast_child_fields cloned_child_fields -> incl node_scalar_fields copied_scalar_fields ->
  forall n, kids_within ast_child_fields n = true -> scalars_within node_scalar_fields n = true -> clone n = n.
Proof.
  intros Hc Hs n Hk Hsc. apply clone_id_l.
  - apply (kids_within_mono _ _ Hc). exact Hk.
  - apply (scalars_within_mono _ _ Hs). exact Hsc.
Qed.

Lemma strip_id_complete_l :
  incl node_scalar_fields copied_scalar_fields ->
  forall n, scalars_within node_scalar_fields n = true -> strip n = n.
Proof. intros Hs n H. apply strip_id_l. apply (scalars_within_mono _ _ Hs). exact H. Qed.

Lemma instantiate_is_mono_complete_l :
  incl ast_child_fields inst_child_fields -> incl node_scalar_fields copied_scalar_fields ->
  forall f targs r, instantiate f targs = Ok r ->
    kids_within ast_child_fields f = true -> scalars_within node_scalar_fields f = true ->
    r = clear_generic (mono (build_map (type_params_of f) targs) f).
Proof.
  intros Hc Hs f targs r Hi Hk Hsc.
  rewrite <- (strip_id_complete_l Hs f Hsc) at 2.
  apply instantiate_is_mono_l; [exact Hi|]. apply (kids_within_mono _ _ Hc). exact Hk.
Qed.
