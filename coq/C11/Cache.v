(* C11 - the instantiation cache: generate_cache_key is injective on (function name, type-argument
   tuple) for names without '<' and type arguments that are non-empty and comma-free, hence a cache
   hit can only return the instance built for the same function and the same tuple, after any
   history of calls.  (call_impl.cpp has the cache switched off today; the theorems cover the code
   path that is commented out there, and the trivial purity of the path that is live.) *)
From Coq Require Import String Ascii List Bool Arith NArith Lia.
Import ListNotations.
From Cb Require Import C11.Gen_CloneFields C11.Model.
Local Open Scope list_scope.

Definition no_char (c : ascii) (s : str) : Prop := ~ In c s.
Definition good_targ (s : str) : Prop := s <> [] /\ no_char c_comma s.
Definition good_call (fn : str) (targs : list str) : Prop := no_char c_lt fn /\ Forall good_targ targs.

Lemma str_eqb_eq : forall a b, str_eqb a b = true <-> a = b.
Proof. intros a b. unfold str_eqb. destruct (list_eq_dec ascii_dec a b); split; congruence. Qed.

Lemma str_eqb_refl : forall a, str_eqb a a = true.
Proof. intros. apply str_eqb_eq. reflexivity. Qed.

(* x ++ c :: t determines x and t when c does not occur in x (nor in the other prefix) *)
Lemma split_at_first : forall (c : ascii) x y t u,
  ~ In c x -> ~ In c y -> x ++ c :: t = y ++ c :: u -> x = y /\ t = u.
Proof.
  intros c. induction x as [|a x IH]; intros [|b y] t u Hx Hy E; simpl in *.
  - inversion E. auto.
  - inversion E; subst. exfalso. apply Hy. left. reflexivity.
  - inversion E; subst. exfalso. apply Hx. left. reflexivity.
  - inversion E; subst. destruct (IH y t u) as [Ex Et]; auto. subst. auto.
Qed.

(* a tail of a comma join: empty, or a comma followed by anything *)
Definition tail_shape (t : str) : Prop := t = [] \/ exists t', t = c_comma :: t'.

Lemma prefix_comma_free : forall x y t u,
  no_char c_comma x -> no_char c_comma y -> tail_shape t -> tail_shape u ->
  x ++ t = y ++ u -> x = y /\ t = u.
Proof.
  induction x as [|a x IH]; intros [|b y] t u Hx Hy Ht Hu E; simpl in *.
  - auto.
  - subst t. destruct Ht as [Ht|[t' Ht]]; [discriminate|]. inversion Ht; subst.
    exfalso. apply Hy. left. reflexivity.
  - subst u. destruct Hu as [Hu|[u' Hu]]; [discriminate|]. inversion Hu; subst.
    exfalso. apply Hx. left. reflexivity.
  - inversion E; subst. destruct (IH y t u) as [Ex Et]; auto.
    + intros H. apply Hx. right. exact H.
    + intros H. apply Hy. right. exact H.
    + subst. auto.
Qed.

Lemma join_comma_cons : forall x r,
  join_with [c_comma] (x :: r) = x ++ match r with [] => [] | _ => c_comma :: join_with [c_comma] r end.
Proof. intros x [|y r]; simpl; [rewrite app_nil_r|]; reflexivity. Qed.

Lemma join_comma_inj : forall a b,
  Forall good_targ a -> Forall good_targ b ->
  join_with [c_comma] a = join_with [c_comma] b -> a = b.
Proof.
  induction a as [|x r IH]; intros [|y s] Ha Hb E.
  - reflexivity.
  - exfalso. rewrite join_comma_cons in E. inversion Hb as [|? ? [Hy _] _]; subst.
    destruct y; [congruence|]. simpl in E. discriminate.
  - exfalso. rewrite join_comma_cons in E. inversion Ha as [|? ? [Hx _] _]; subst.
    destruct x; [congruence|]. simpl in E. discriminate.
  - rewrite !join_comma_cons in E.
    inversion Ha as [|? ? [_ Hx] Hr]; subst. inversion Hb as [|? ? [_ Hy] Hs]; subst.
    apply prefix_comma_free in E; auto.
    + destruct E as [E1 E2]. subst y. destruct r as [|r0 r], s as [|s0 s]; try discriminate.
      * reflexivity.
      * inversion E2 as [E3]. f_equal. apply IH; auto.
    + destruct r; [left; reflexivity | right; eexists; reflexivity].
    + destruct s; [left; reflexivity | right; eexists; reflexivity].
Qed.

Lemma cache_key_injective_l : forall f1 a1 f2 a2,
  good_call f1 a1 -> good_call f2 a2 ->
  generate_cache_key f1 a1 = generate_cache_key f2 a2 -> f1 = f2 /\ a1 = a2.
Proof.
  intros f1 a1 f2 a2 [H1 G1] [H2 G2] E. unfold generate_cache_key in E. simpl in E.
  apply split_at_first in E; auto. destruct E as [Ef E]. split; [exact Ef|].
  apply app_inv_tail in E. apply join_comma_inj; auto.
Qed.

(* ------------------------------------------------------------------ histories of calls *)
Section Histories.
  (* the program's generic functions: function name -> its AST (find_function) *)
  Variable tbl : str -> node.

  Definition call := (str * list str)%type.

  Fixpoint run_cached (c : cache) (h : list call) : list result :=
    match h with
    | [] => []
    | (fn, ta) :: r => let cr := call_cached c fn (tbl fn) ta in snd cr :: run_cached (fst cr) r
    end.

  Fixpoint run_pinned (c : cache) (h : list call) : list result :=
    match h with
    | [] => []
    | (fn, ta) :: r => let cr := call_pinned c fn (tbl fn) ta in snd cr :: run_pinned (fst cr) r
    end.

  (* every cached instance is the instance of the (name, tuple) its key was made from *)
  Definition cache_ok (c : cache) : Prop :=
    forall key v, get_cached_instance c key = Some v ->
      exists fn ta, good_call fn ta /\ key = generate_cache_key fn ta /\ instantiate (tbl fn) ta = Ok v.

  (* what a call may answer: the instance of exactly this function at exactly this tuple (fresh, or
     a clone of it on a hit), or the error instantiation itself gives *)
  Definition answer_ok (cl : call) (r : result) : Prop :=
    match r with
    | Ok x => exists i, instantiate (tbl (fst cl)) (snd cl) = Ok i /\ (x = i \/ x = clone i)
    | Err e => instantiate (tbl (fst cl)) (snd cl) = Err e
    end.

  Lemma cache_ok_empty : cache_ok [].
  Proof. intros key v H. discriminate. Qed.

  Lemma call_cached_step : forall c fn ta,
    cache_ok c -> good_call fn ta ->
    cache_ok (fst (call_cached c fn (tbl fn) ta)) /\ answer_ok (fn, ta) (snd (call_cached c fn (tbl fn) ta)).
  Proof.
    intros c fn ta Hc Hg. unfold call_cached.
    destruct (get_cached_instance c (generate_cache_key fn ta)) as [v|] eqn:Eg.
    - simpl. split; [exact Hc|].
      destruct (Hc _ _ Eg) as [fn' [ta' [Hg' [Ek Hi]]]].
      apply cache_key_injective_l in Ek; auto. destruct Ek; subst fn' ta'.
      exists v. split; [exact Hi | right; reflexivity].
    - destruct (instantiate (tbl fn) ta) as [i|e] eqn:Ei; simpl.
      + split.
        * intros key v. unfold cache_instance. simpl.
          destruct (str_eqb key (generate_cache_key fn ta)) eqn:Ek.
          -- intros Hv. inversion Hv; subst v. apply str_eqb_eq in Ek.
             exists fn, ta. auto.
          -- apply Hc.
        * exists i. auto.
      + split; [exact Hc | exact Ei].
  Qed.

  Lemma run_cached_sound : forall h c,
    cache_ok c -> Forall (fun cl => good_call (fst cl) (snd cl)) h ->
    Forall2 answer_ok h (run_cached c h).
  Proof.
    induction h as [|[fn ta] r IH]; intros c Hc Hg; simpl.
    - constructor.
    - inversion Hg as [|? ? Hg1 Hg2]; subst. simpl in Hg1.
      destruct (call_cached_step c fn ta Hc Hg1) as [Hc' Ha].
      constructor; [exact Ha | apply IH; assumption].
  Qed.

  Lemma run_pinned_spec : forall h c,
    run_pinned c h = map (fun cl => instantiate (tbl (fst cl)) (snd cl)) h.
  Proof. induction h as [|[fn ta] r IH]; intros c; simpl; [reflexivity | rewrite IH; reflexivity]. Qed.

  Lemma nth_use_like_first_l : forall h c i j cl r1 r2,
    nth_error h i = Some cl -> nth_error h j = Some cl ->
    nth_error (run_pinned c h) i = Some r1 -> nth_error (run_pinned c h) j = Some r2 -> r1 = r2.
  Proof.
    intros h c i j cl r1 r2 Hi Hj H1 H2. rewrite run_pinned_spec in H1, H2.
    rewrite (map_nth_error _ _ _ Hi) in H1. rewrite (map_nth_error _ _ _ Hj) in H2. congruence.
  Qed.
End Histories.

Lemma instances_independent_l : forall tbl h,
  Forall (fun cl => good_call (fst cl) (snd cl)) h ->
  Forall2 (answer_ok tbl) h (run_cached tbl [] h).
Proof. intros tbl h H. apply run_cached_sound; [apply cache_ok_empty | exact H]. Qed.

(* when clone_ast_node is the identity on every instance, the cached path answers exactly what the live path answers *)
Lemma run_cached_exact_l : forall tbl h,
  (forall fn ta i, instantiate (tbl fn) ta = Ok i -> clone i = i) ->
  Forall (fun cl => good_call (fst cl) (snd cl)) h ->
  run_cached tbl [] h = run_pinned tbl [] h.
Proof.
  intros tbl h Hid Hg. pose proof (instances_independent_l tbl h Hg) as H.
  rewrite run_pinned_spec. revert H. generalize (run_cached tbl [] h). clear Hg.
  induction h as [|cl r IH]; intros l H; inversion H; subst; simpl; [reflexivity|].
  f_equal; [|apply IH; assumption].
  match goal with Ha : answer_ok _ _ _ |- _ => unfold answer_ok in Ha end.
  destruct y as [x|e].
  - destruct H2 as [i [Hi [Hx|Hx]]]; subst x; rewrite Hi; [reflexivity|]. rewrite (Hid _ _ _ Hi). reflexivity.
  - symmetry. exact H2.
Qed.
