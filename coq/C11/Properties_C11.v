(* C11 - property theorems only.  Statements are about the Mech model of generic_instantiation.cpp
   (Model.v) and about the member tables regenerated from the current C++ text
   (Gen_CloneFields.v); proofs are in Tree.v / Names.v / Cache.v / Witness.v. *)
From Coq Require Import String Ascii List Bool Arith ZArith NArith.
Import ListNotations.
From Cb Require Import C11.Gen_CloneFields C11.Model C11.Pinned C11.Tree C11.Cache C11.Names C11.Witness C11.Context C11.ContextProofs.
Local Open Scope list_scope.

(* ---------------------------------------------------------------- (1) the generated tables *)

(* clone_complete: clone_ast_node copies every child member of ASTNode (25 pointers, 11 vectors, the bodies of
   match_arms).  It was refuted on the pinned tree (8 of 25, 4 of 11, 0 of 1: DESIGN section 7 #21) and holds since
   repair 211b7a0; a member that is (again) not copied, or a new child member of ASTNode that clone_ast_node
   ignores, breaks this obligation. *)
Theorem clone_complete : incl ast_child_fields cloned_child_fields.
Proof. exact clone_complete_l. Qed.
Print Assumptions clone_complete.

(* the same for the 96 scalar members (23 were copied on the pinned tree) *)
Theorem clone_scalars_complete : incl ast_scalar_fields cloned_scalar_fields.
Proof. exact clone_scalars_complete_l. Qed.
Print Assumptions clone_scalars_complete.

(* the translator is consistent: what clone_ast_node copies are members of ASTNode of that kind *)
Theorem cloned_fields_exist :
  incl cloned_ptr_fields ast_ptr_fields /\ incl cloned_vec_fields ast_vec_fields /\
  incl cloned_indirect_fields ast_indirect_fields /\ incl cloned_scalar_fields ast_scalar_fields.
Proof. exact cloned_fields_exist_l. Qed.
Print Assumptions cloned_fields_exist.

(* substitute_type_parameters descends into every child clone_ast_node copies - hence into every child of ASTNode *)
Theorem subst_visits_every_cloned_child : incl cloned_child_fields subst_child_fields.
Proof. exact subst_visits_every_cloned_child_l. Qed.
Print Assumptions subst_visits_every_cloned_child.

Theorem subst_visits_every_child : incl ast_child_fields inst_child_fields.
Proof. exact inst_fields_complete_l. Qed.
Print Assumptions subst_visits_every_child.

(* it rewrites the six recorded type-name members and type_arguments, and recomputes type_info only for a rewritten name *)
Theorem subst_strings_recorded :
  incl recorded_subst_strings subst_string_fields /\ incl recorded_subst_strvecs subst_strvec_fields /\
  subst_type_info_guarded = true.
Proof. exact subst_strings_recorded_l. Qed.
Print Assumptions subst_strings_recorded.

(* not every type-carrying member is rewritten: original_type_name, exception_type, lambda_return_type_name - and nothing else *)
Theorem subst_complete_refuted : ~ incl type_carrying_fields (subst_string_fields ++ subst_strvec_fields).
Proof. exact subst_complete_refuted_l. Qed.
Print Assumptions subst_complete_refuted.

Theorem subst_unrewritten_recorded :
  incl (missing type_carrying_fields (subst_string_fields ++ subst_strvec_fields)) recorded_unrewritten.
Proof. exact subst_unrewritten_recorded_l. Qed.
Print Assumptions subst_unrewritten_recorded.

(* ---------------------------------------------------------------- (2) clone on every tree *)

(* clone_ast_node = forget the uncopied children (prune), then forget the uncopied scalars (strip): for any tables *)
Theorem clone_is_strip_of_prune : forall n, clone n = strip (prune n).
Proof. exact clone_strip_prune_l. Qed.
Print Assumptions clone_is_strip_of_prune.

(* for any tables: clone is the identity on every tree that uses only copied members *)
Theorem clone_id_partial : forall n,
  kids_within cloned_child_fields n = true -> scalars_within copied_scalar_fields n = true ->
  clone n = n.
Proof. exact clone_id_l. Qed.
Print Assumptions clone_id_partial.

(* clone_id: on the current tables clone_ast_node is the identity on EVERY tree built from members of ASTNode
   (any size, any depth; a MatchArm carries its four own members).  Refuted on the pinned tree. *)
Theorem clone_id : forall n,
  kids_within ast_child_fields n = true -> scalars_within node_scalar_fields n = true -> clone n = n.
Proof. exact clone_id_all_l. Qed.
Print Assumptions clone_id.

Theorem clone_result_uses_only_copied_members : forall n,
  kids_within cloned_child_fields (clone n) = true /\
  scalars_within copied_scalar_fields (clone n) = true.
Proof. exact clone_within_l. Qed.
Print Assumptions clone_result_uses_only_copied_members.

Theorem clone_idempotent : forall n, clone (clone n) = clone n.
Proof. exact clone_idempotent_l. Qed.
Print Assumptions clone_idempotent.

(* ---------------------------------------------------------------- (3) instantiate = monomorphise *)

(* for any tables: on every function AST whose child members are all copied and visited, instantiation is the
   hand-monomorphised copy of the function minus its uncopied scalar members *)
Theorem instantiate_is_monomorphise_partial : forall f targs r,
  instantiate f targs = Ok r ->
  kids_within inst_child_fields f = true ->
  r = clear_generic (mono (build_map (type_params_of f) targs) (strip f)).
Proof. exact instantiate_is_mono_l. Qed.
Print Assumptions instantiate_is_monomorphise_partial.

(* instantiate_is_monomorphise: on the current tables, for EVERY generic function AST built from members of ASTNode
   (every statement and expression kind, any size and depth) and any type arguments, what
   instantiate_generic_function returns is the hand-monomorphised copy: the per-node type rewriting applied to every
   node, every member kept, the generic marks cleared.  Refuted on the pinned tree (max<T> lost the else-operand of
   ?:).  What remains outside: `mono` uses the code's own per-node rewriting, whose agreement with structural
   substitution is (4) - with its three refuted spellings - and the execution of the result is tied by twin runs. *)
Theorem instantiate_is_monomorphise : forall f targs r,
  instantiate f targs = Ok r ->
  kids_within ast_child_fields f = true -> scalars_within node_scalar_fields f = true ->
  r = clear_generic (mono (build_map (type_params_of f) targs) f).
Proof. exact instantiate_is_mono_all_l. Qed.
Print Assumptions instantiate_is_monomorphise.

(* the former witness: max<int> keeps all its children *)
Theorem max_instance_keeps_every_child : forall r, instantiate w_max [S "int"] = Ok r ->
  child_fields_used r = child_fields_used w_max.
Proof. exact max_keeps_third_l. Qed.
Print Assumptions max_instance_keeps_every_child.

(* ---------------------------------------------------------------- (4) the textual type rewriting *)

(* substitute_generic_type_name on the spelling of a well-formed type expression (identifier-like
   names, any nesting, any arity) is structural substitution; the fuel of the model never runs out *)
Theorem subst_name_is_structural : forall m t, wf t ->
  substitute_generic_type_name m (show t) = show (tsubst m t).
Proof. exact substitute_generic_type_name_refines_l. Qed.
Print Assumptions subst_name_is_structural.

Theorem subst_name_fuel_sufficient : forall m t fuel, wf t -> List.length (show t) <= fuel ->
  subst_generic fuel m (show t) = substitute_generic_type_name m (show t).
Proof. exact subst_generic_fuel_l. Qed.
Print Assumptions subst_name_fuel_sufficient.

(* the 3-way dispatch used for type_name / return_type_name / pointer_base_type_name agrees, as soon
   as a bare name has no '_' *)
Theorem subst_name3_is_structural : forall m t, wf t -> no_underscore_leaf t ->
  subst_name3 m (show t) = show (tsubst m t).
Proof. exact subst_name3_refines_l. Qed.
Print Assumptions subst_name3_is_structural.

(* subst_total: when the map binds every type parameter to a name that is not itself a parameter,
   no parameter survives in the rewritten spelling of a well-formed type *)
Theorem subst_total : forall m ps t, wf t -> binds_all m ps -> range_closed m ps ->
  exists t', substitute_generic_type_name m (show t) = show t' /\ ~ mentions ps t'.
Proof. exact subst_total_l. Qed.
Print Assumptions subst_total.

(* ... but for the spellings T*, T[3] a parameter survives and Pair<A, B>* loses its suffix *)
Theorem subst_total_refuted :
  subst_name3 m_T_int (S "T*") = S "T*" /\
  subst_name3 m_T_int (S "T[3]") = S "T[3]" /\
  subst_name3 (build_map [S "A"; S "B"] [S "int"; S "string"]) (S "Pair<A, B>*") = S "Pair<int, string>".
Proof. exact subst_total_refuted_l. Qed.
Print Assumptions subst_total_refuted.

(* the type_arguments of a nested generic call are rewritten element by element *)
Theorem nested_type_arguments_rewritten :
  subst_node (build_map [S "T"; S "U"] [S "long"; S "Box<int>"])
     (Node 46 [("name"%string, S "g"); ("type_arguments"%string, s2l "T" ++ [c_nl] ++ s2l "Pair<U, T>")] []) =
  Node 46 [("name"%string, S "g"); ("type_arguments"%string, s2l "long" ++ [c_nl] ++ s2l "Pair<Box<int>, long>")] [].
Proof. exact nested_type_arguments_rewritten_l. Qed.
Print Assumptions nested_type_arguments_rewritten.

(* a struct-typed local keeps TYPE_STRUCT; a T-typed local keeps the parser's type_info when T is bound to a struct and
   gets the builtin's when T is bound to a builtin (these three are checked instances, not a law for all nodes) *)
Theorem struct_local_type_info_kept :
  sget "type_info" (scalars_of (subst_node m_T_int
      (Node 28 [("type_info"%string, S "12"); ("name"%string, S "p"); ("type_name"%string, S "P")] []))) = S "12" /\
  scalars_of (subst_node (build_map [S "T"] [S "P"])
      (Node 28 [("type_info"%string, S "-1"); ("name"%string, S "r"); ("type_name"%string, S "T")] [])) =
    [("type_info"%string, S "-1"); ("name"%string, S "r"); ("type_name"%string, S "P")] /\
  scalars_of (subst_node (build_map [S "T"] [S "long"])
      (Node 28 [("type_info"%string, S "-1"); ("name"%string, S "r"); ("type_name"%string, S "T")] [])) =
    [("type_info"%string, S "4"); ("name"%string, S "r"); ("type_name"%string, S "long")].
Proof. exact struct_local_type_info_kept_l. Qed.
Print Assumptions struct_local_type_info_kept.

(* ---------------------------------------------------------------- (5) cache key, independence, n-th use *)

(* hypothesis (stated): function names without '<', type arguments non-empty and without ',' *)
Theorem cache_key_injective : forall f1 a1 f2 a2,
  good_call f1 a1 -> good_call f2 a2 ->
  generate_cache_key f1 a1 = generate_cache_key f2 a2 -> f1 = f2 /\ a1 = a2.
Proof. exact cache_key_injective_l. Qed.
Print Assumptions cache_key_injective.

Theorem cache_key_injective_needs_hypothesis :
  generate_cache_key (S "f") [S "a,b"] = generate_cache_key (S "f") [S "a"; S "b"] /\
  generate_cache_key (S "f<a>") [S "b"] = generate_cache_key (S "f") [S "a><b"].
Proof. exact cache_key_injective_refuted_l. Qed.
Print Assumptions cache_key_injective_needs_hypothesis.

(* instances_independent: with the cache switched on, after ANY history of calls, every call answers
   with the instance of its own function at its own type-argument tuple (fresh, or a clone of it),
   never with one built for another tuple (Box<int> vs Box<long>, f<int,long> vs f<long,int>) *)
Theorem instances_independent : forall tbl h,
  Forall (fun cl => good_call (fst cl) (snd cl)) h ->
  Forall2 (answer_ok tbl) h (run_cached tbl [] h).
Proof. exact instances_independent_l. Qed.
Print Assumptions instances_independent.

(* nth_use_like_first, on the code path that is live (cache off): in any history, two uses of the
   same function at the same tuple get the same instance *)
Theorem nth_use_like_first : forall tbl h c i j cl r1 r2,
  nth_error h i = Some cl -> nth_error h j = Some cl ->
  nth_error (run_pinned tbl c h) i = Some r1 -> nth_error (run_pinned tbl c h) j = Some r2 -> r1 = r2.
Proof. exact nth_use_like_first_l. Qed.
Print Assumptions nth_use_like_first.

(* with clone_ast_node the identity on the instances (clone_id), switching the cache back on as written
   (hit -> clone_ast_node(cached)) answers exactly what the live path answers, in any history *)
Theorem cached_path_equals_live_path : forall tbl h,
  (forall fn ta i, instantiate (tbl fn) ta = Ok i -> clone i = i) ->
  Forall (fun cl => good_call (fst cl) (snd cl)) h ->
  run_cached tbl [] h = run_pinned tbl [] h.
Proof. exact run_cached_exact_l. Qed.
Print Assumptions cached_path_equals_live_path.

(* the hypotheses are satisfiable *)
Example good_call_example : good_call (S "f") [S "int"; S "Box<long>"].
Proof.
  split.
  - vm_compute. intuition discriminate.
  - repeat constructor; try discriminate; vm_compute; intuition discriminate.
Qed.

Example wf_example : wf (TApp (S "Pair") [TName (S "A"); TApp (S "Box") [TName (S "B")]]).
Proof.
  assert (Hc : forall s, s <> [] -> forallb (fun c => negb (Ascii.eqb c c_lt) && negb (Ascii.eqb c c_gt) &&
                 negb (Ascii.eqb c c_comma) && negb (is_blank c)) s = true -> clean s).
  { intros s Hne H. split; [exact Hne|]. rewrite forallb_forall in H. apply Forall_forall. intros c Hin.
    specialize (H c Hin). repeat (apply andb_true_iff in H; destruct H as [H ?]).
    unfold plain. repeat split; try (intros E; subst c; discriminate).
    destruct (is_blank c); [discriminate | reflexivity]. }
  simpl. repeat split; try discriminate; apply Hc; try discriminate; reflexivity.
Qed.

(* ---------------------------------------------------------------- (6) generic impl blocks: the run-time type context *)

(* Stack discipline of the method-call path (call_impl.cpp: push_type_context(impl_def->get_type_context()) before the
   body; the manual pops at the normal end / at the head of the ReturnException handler and the TypeContextGuard pop on
   every exit - repair 70336ad; the method's scope, with its pending defers, is left after that pop).  For EVERY program
   of impl blocks - deferred statements, void methods, nested returns and run-time errors included -, every stack the
   call starts from, every registry of instances, every body and every depth of nesting (fuel): what the body
   observes under the stack equals what it observes when each method body is given, once and for all, the context of
   the instance it belongs to (run_mono: a callee of another instantiation of the SAME block gets its own map, not the
   caller's), the statements keeping the order in which the code runs them (late = true: a deferred statement still
   pending when its body is left is observed by the caller's frame); the registry, the outcome and the pending defers
   agree; and the stack is exactly the stack it started from after ANY outcome - normal end, early return, run-time
   error (caught by a `try` of some caller or not), exhausted fuel. *)
Theorem impl_context_stack_discipline : forall fuel P st ic env n dfs b,
  r_out (run fuel P st ic env n dfs b) = q_out (run_mono true fuel P (get_current_type_context st) ic env n dfs b) /\
  r_cache (run fuel P st ic env n dfs b) = q_cache (run_mono true fuel P (get_current_type_context st) ic env n dfs b) /\
  r_flag (run fuel P st ic env n dfs b) = q_flag (run_mono true fuel P (get_current_type_context st) ic env n dfs b) /\
  r_pend (run fuel P st ic env n dfs b) = q_pend (run_mono true fuel P (get_current_type_context st) ic env n dfs b) /\
  r_stack (run fuel P st ic env n dfs b) = st.
Proof. exact run_refines_mono_l. Qed.
Print Assumptions impl_context_stack_discipline.

(* The property itself for impl blocks - a generic method behaves like its hand-specialised copy (run_mono false: every
   statement of a body, deferred or not, observes the context of the body's own instance) - for every program in which
   a defer is followed by plain statements only, so that the closing top-level return runs it (defers_early; calls,
   nested returns, errors, void methods are free everywhere else).  _partial: without that hypothesis the code violates
   it, see deferred_statement_context_refuted. *)
Theorem impl_methods_equal_hand_copy_partial : forall fuel P st ic env n b,
  prog_defers_early P = true -> defers_early b = true ->
  r_out (run fuel P st ic env n [] b) = q_out (run_mono false fuel P (get_current_type_context st) ic env n [] b) /\
  r_cache (run fuel P st ic env n [] b) = q_cache (run_mono false fuel P (get_current_type_context st) ic env n [] b) /\
  r_flag (run fuel P st ic env n [] b) = q_flag (run_mono false fuel P (get_current_type_context st) ic env n [] b) /\
  r_stack (run fuel P st ic env n [] b) = st.
Proof. exact run_refines_hand_copy_l. Qed.
Print Assumptions impl_methods_equal_hand_copy_partial.

(* known finding C11-impl-defer-after-context-pop: `defer println(sizeof(T));` in a method of Cell<long> that returns from
   inside an `if` block, called by a method of Cell<short>, observes short (hand-specialised copy: long); in a void method
   called from main it observes the unresolved name T (copy: long) *)
Theorem deferred_statement_context_refuted :
  r_out (run_main 20 [w_cell5] [] (S "Cell<short>") (S "outer") 3) = [S "short"; S "short"] /\
  q_out (run_main_mono 20 [w_cell5] [] (S "Cell<short>") (S "outer") 3) = [S "long"; S "short"] /\
  r_out (run_main 20 [w_cell5] [] (S "Cell<long>") (S "void") 3) = [S "long"; S "T"] /\
  q_out (run_main_mono 20 [w_cell5] [] (S "Cell<long>") (S "void") 3) = [S "long"; S "long"] /\
  prog_defers_early [w_cell5] = false.
Proof. exact deferred_statement_context_refuted_l. Qed.
Print Assumptions deferred_statement_context_refuted.

(* replaces error_leaves_context_refuted (finding C11-try-leaks-type-context, repaired by 70336ad) *)
Theorem impl_context_restored_after_any_outcome : forall fuel P st ic env n dfs b,
  r_stack (run fuel P st ic env n dfs b) = st.
Proof. exact stack_restored_l. Qed.
Print Assumptions impl_context_restored_after_any_outcome.

Theorem try_restores_context : forall fuel P st ic env n v m ty,
  resolve_type_in_context (stack_after_try fuel P st ic env n v m) ty = resolve_type_in_context st ty.
Proof. exact try_restores_context_l. Qed.
Print Assumptions try_restores_context.

(* the context pushed for a method call is the type map of the instance of the RECEIVER's struct type name,
   as an empty registry would build it - in every registry reachable by running programs *)
Theorem impl_context_is_receivers_instance : forall P ic rty m ic1 c md,
  cache_ok P ic -> enter P ic rty m = Some (ic1, Some c, md) ->
  exists i, fresh_inst P rty = Some i /\ i_generic i = true /\ c = i_map i.
Proof. exact enter_pushes_fresh. Qed.
Print Assumptions impl_context_is_receivers_instance.

Theorem impl_registry_reachable_ok : forall fuel P calls ic,
  cache_ok P ic -> Forall (fun x => cache_ok P (r_cache x)) (run_calls fuel P ic calls).
Proof. exact run_calls_cache_ok. Qed.
Print Assumptions impl_registry_reachable_ok.

(* instances of impl blocks are independent and the n-th use is like the first: after ANY sequence of calls from
   main (any nesting inside, any order of instantiations, failing calls included) a struct type name gets the
   instance it gets from an empty registry *)
Theorem impl_instances_independent : forall fuel P calls name,
  let ic := match rev (run_calls fuel P [] calls) with [] => [] | x :: _ => r_cache x end in
  snd (find_impl_for_struct P ic name) = snd (find_impl_for_struct P [] name).
Proof. exact registry_transparent_l. Qed.
Print Assumptions impl_instances_independent.

(* replaces impl_type_args_nested_refuted (finding C11-impl-tuple-type-argument, repaired by d6bac56) and the flat
   special case: for EVERY well-formed type expression Base<t1, ..., tk> - arguments of any nesting depth and arity,
   Cell<Duo<int, Box<long>>> included - find_impl_for_struct cuts out exactly the spellings of t1 ... tk *)
Theorem impl_type_args_nested : forall b args, wf (TApp b args) ->
  impl_type_args (show (TApp b args)) = Some (b, map show args).
Proof. exact impl_type_args_nested_l. Qed.
Print Assumptions impl_type_args_nested.

(* ... and the instance is the first generic impl of Base with k parameters, parameter i bound to the spelling of ti *)
Theorem impl_instance_binds_parameters : forall P b args k blk, wf (TApp b args) ->
  find_generic P b (List.length args) = Some (k, blk) ->
  fresh_inst P (show (TApp b args)) =
  Some {| i_block := k; i_map := build_map (b_params blk) (map show args);
          i_generic := negb (strs_eqb (map show args) (b_params blk)) |}.
Proof. exact fresh_inst_nested_l. Qed.
Print Assumptions impl_instance_binds_parameters.

(* TypeContext::resolve_complex_type on the spelling of a flat type expression (T, Base<A, B>, T*, T[3]) is
   structural substitution, provided no parameter is bound to the empty text *)
Theorem resolve_flat_is_structural : forall c t, values_nonempty c -> wf_f t ->
  resolve_complex_type c (show_f t) = show_f (fsubst c t).
Proof. exact resolve_flat_is_structural_l. Qed.
Print Assumptions resolve_flat_is_structural.

(* ... and not beyond (ast.h is unchanged): a nested generic argument keeps its parameter *)
Theorem resolve_nested_refuted :
  resolve_complex_type w_ctx_int (S "Box<Cell<T>>") = S "Box<Cell<T>>" /\
  resolve_complex_type w_ctx_int (S "Box<Cell<T>>") <> S "Box<Cell<int>>".
Proof. exact resolve_nested_refuted_l. Qed.
Print Assumptions resolve_nested_refuted.

(* known finding C11-impl-local-struct-of-T *)
Theorem local_of_parameter_type_refuted :
  r_out (run_main 20 [w_cell4; w_box] [] (S "Cell<short>") (S "loc") 3) = [S "T"] /\
  r_out (run_main 20 [w_cell4; w_box] [] (S "Cell<short>") (S "loc") 3) <> [S "short"].
Proof. exact local_of_parameter_type_refuted_l. Qed.
Print Assumptions local_of_parameter_type_refuted.

Example tuple_type_argument_example :
  impl_type_args (S "Cell<Duo<int, long>>") = Some (S "Cell", [S "Duo<int, long>"]) /\
  fresh_inst [w_cell] (S "Cell<Duo<int, long>>") =
    Some {| i_block := 0; i_map := [(w_T, S "Duo<int, long>")]; i_generic := true |} /\
  fresh_inst [w_cell] (S "Cell<Box<long>>") = Some {| i_block := 0; i_map := [(w_T, S "Box<long>")]; i_generic := true |}.
Proof. exact tuple_type_argument_example_l. Qed.

Example try_example :
  r_out (run_main 20 [w_cell2] [] (S "Cell<int>") (S "tr") 3) = [S "int"; S "long"; S "int"] /\
  r_flag (run_main 20 [w_cell2] [] (S "Cell<int>") (S "tr") 3) = FNorm.
Proof. exact try_example_l. Qed.

(* the hypothesis of impl_methods_equal_hand_copy_partial is satisfiable by a program that defers *)
Example defer_top_level_example :
  prog_defers_early [w_cell6] = true /\
  r_out (run_main 20 [w_cell6] [] (S "Cell<short>") (S "outer") 3) = [S "long"; S "long"; S "short"].
Proof. exact defer_top_level_example_l. Qed.

Example cross_instantiation_example :
  r_out (run_main 20 [w_cell3] [] (S "Cell<int>") (S "cross") 3) = [S "int"; S "long"; S "int"; S "int"] /\
  r_stack (run_main 20 [w_cell3] [] (S "Cell<int>") (S "cross") 3) = [].
Proof. exact cross_instantiation_example_l. Qed.

Example wf_f_example : wf_f (FApp (S "Duo") [S "A"; S "long"]) /\ values_nonempty [(S "A", S "int")].
Proof.
  assert (Hi : forall s, s <> [] -> forallb (fun a => negb (Ascii.eqb a c_lt) && negb (Ascii.eqb a c_gt) &&
                 negb (Ascii.eqb a c_comma) && negb (Ascii.eqb a c_sp) && negb (Ascii.eqb a c_star) &&
                 negb (Ascii.eqb a c_lbr) && negb (Ascii.eqb a c_tab)) s = true -> ident s).
  { intros s Hne H. split; [exact Hne|]. rewrite forallb_forall in H. apply Forall_forall. intros a Hin.
    specialize (H a Hin). repeat (apply andb_true_iff in H; destruct H as [H ?]).
    unfold ident_char. repeat split; intros E; subst a; discriminate. }
  split.
  - cbn [wf_f]. split; [apply Hi; [discriminate | reflexivity] | split; [discriminate|]].
    constructor; [apply Hi; [discriminate | reflexivity] | constructor; [apply Hi; [discriminate | reflexivity] | constructor]].
  - intros k v H. cbn [lookup] in H. destruct (str_eqb k (S "A")); [|discriminate H].
    inversion H; subst v. intros E. vm_compute in E. discriminate E.
Qed.
