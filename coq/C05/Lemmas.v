(* C05 - the remaining property lemmas (short corollaries and the refutation witnesses). *)
From Coq Require Import List ZArith Bool Lia.
Import ListNotations.
From Cb Require Import C05.Model C05.FlatIndex C05.Access C05.Machine.
Local Open Scope Z_scope.

Lemma flat_index_inside_buffer_l : forall dims idxs k, calc_flat dims idxs = Some k -> 0 <= k < size dims.
Proof. intros dims idxs k H. apply calc_flat_some_iff_l in H. destruct H as [H ->]. apply row_major_bounds; exact H. Qed.

Lemma flat_index_injective_l : forall dims a b k,
  calc_flat dims a = Some k -> calc_flat dims b = Some k -> a = b.
Proof.
  intros dims a b k Ha Hb. apply calc_flat_some_iff_l in Ha, Hb. destruct Ha as [Ia ->], Hb as [Ib E].
  eapply row_major_inj; eauto.
Qed.

Lemma flat_index_surjective_l : forall dims k, positive_dims dims -> 0 <= k < size dims ->
  calc_flat dims (unflat dims k) = Some k /\
  (forall idxs, in_range dims idxs -> unflat dims (row_major dims idxs) = idxs).
Proof.
  intros dims k Hp Hk. split; [|apply unflat_row_major].
  destruct (unflat_spec dims Hp k Hk) as [Hin E]. apply calc_flat_some_iff_l. auto.
Qed.

Lemma access_accepted_iff_every_index_in_range_l : forall ak m dims idxs,
  supported ak dims -> Forall int_range idxs ->
  ((exists k, resolve ak m dims (size dims) idxs = inl k) <-> in_range dims idxs) /\
  (forall k, resolve ak m dims (size dims) idxs = inl k -> k = row_major dims idxs /\ 0 <= k < size dims).
Proof.
  intros ak m dims idxs Hs Hi. destruct (resolve_accepts_iff_l ak m dims idxs Hs Hi) as [A B].
  split; [exact A|]. intros k H. split; [apply B; exact H|eapply resolve_lt_size_l; eauto].
Qed.

Lemma access_cells_are_a_bijection_l : forall ak m dims, supported ak dims ->
  (forall a b k, Forall int_range a -> Forall int_range b ->
     resolve ak m dims (size dims) a = inl k -> resolve ak m dims (size dims) b = inl k -> a = b) /\
  (positive_dims dims -> Forall int_range dims -> forall k, 0 <= k < size dims ->
     exists idxs, Forall int_range idxs /\ in_range dims idxs /\ resolve ak m dims (size dims) idxs = inl k).
Proof.
  intros ak m dims Hs. split.
  - intros a b k Ha Hb. apply resolve_injective_l; assumption.
  - intros Hp Hd k Hk. apply resolve_surjective_l; assumption.
Qed.

Lemma narrowed_index_accepted_refuted_l :
  exists ak m dims idxs k, supported ak dims /\ ~ in_range dims idxs /\
                           resolve ak m dims (size dims) idxs = inl k.
Proof.
  exists ANamed, Wr, [2; 3], [4294967297; 1], 4. split; [exact I|]. split.
  - cbn [in_range]. lia.
  - vm_compute. reflexivity.
Qed.

Lemma narrowed_index_1d_write_accepted_refuted_l :
  ~ in_range [4] [4294967297] /\ resolve ANamed Wr [4] 4 [4294967297] = inl 1 /\
  resolve ANamed Rd [4] 4 [4294967297] = inr EBounds.
Proof. split; [cbn [in_range]; lia|]. split; vm_compute; reflexivity. Qed.

Lemma member_rank3_in_range_rejected_refuted_l :
  exists dims idxs, in_range dims idxs /\ resolve AMember Rd dims (size dims) idxs = inr EBounds /\
                    resolve AMember Wr dims (size dims) idxs = inl 0.
Proof. exists [2; 2; 3], [0; 0; 0]. split; [cbn [in_range]; lia|]. split; reflexivity. Qed.

Lemma pointer_stays_inside_array_l : forall ak dims base ops s, wf dims s ->
  wf dims (snd (run_checked ak dims base ops s)) /\ wf dims (snd (run_plain ak dims base ops s)).
Proof. intros. split; [apply run_checked_wf|apply run_plain_wf]; assumption. Qed.

Lemma machine_refines_shadow_array_l : forall ak dims base ops s ss,
  env_ok ak dims base -> Forall (op_ok dims) ops -> wf dims s -> R dims s ss ->
  Forall2 same (fst (run_plain ak dims base ops s)) (fst (srun_plain dims ops ss)) /\
  R dims (snd (run_plain ak dims base ops s)) (snd (srun_plain dims ops ss)).
Proof. intros. apply run_plain_refines_l; assumption. Qed.

Lemma checked_machine_refines_shadow_array_l : forall ak dims base ops s ss,
  env_ok ak dims base -> Forall (op_ok dims) ops -> wf dims s -> R dims s ss ->
  Forall2 same (fst (run_checked ak dims base ops s)) (fst (srun_checked dims ops ss)) /\
  R dims (snd (run_checked ak dims base ops s)) (snd (srun_checked dims ops ss)).
Proof. intros. apply run_checked_refines_l; assumption. Qed.

Lemma checked_access_is_err_iff_rejected_l : forall ak dims base ops s ss,
  env_ok ak dims base -> Forall (op_ok dims) ops -> wf dims s -> R dims s ss ->
  List.length (fst (run_checked ak dims base ops s)) = List.length ops /\
  Forall2 (fun r r' => (exists e, r = RErr e) <-> r' = None)
          (fst (run_checked ak dims base ops s)) (fst (srun_checked dims ops ss)).
Proof. intros. split; [apply run_checked_length|apply checked_err_iff_rejected_l; assumption]. Qed.

Lemma rejection_is_classified_out_of_bounds_l : forall ak m dims stor idxs e b,
  List.length idxs = List.length dims -> resolve ak m dims stor idxs = inr e ->
  classify e b = VIndexOutOfBounds \/ (ak = AMember /\ m = Rd /\ rank1 dims = true).
Proof.
  intros ak m dims stor idxs e b L H. destruct (resolve_err_class_l ak m dims stor idxs e L H) as [->|H1]; auto.
Qed.

Lemma pointer_arithmetic_wraps_refuted_l : forall base n e, base_ok base n -> 0 <= e -> e + 1 < n ->
  exists k, ~ (0 <= e + k < n) /\ ptr_arith base n e true k = Some (e + 1).
Proof.
  intros base n e Hb He Hn. exists (2305843009213693952 + 1). split; [unfold base_ok, two64 in Hb; lia|].
  apply ptr_arith_wrap_l; assumption.
Qed.

Lemma pointer_index_into_multidim_rejected_refuted_l :
  exists dims s, wf dims s /\ snd (step ANamed dims 4096 s ODeref) = RVal 6 /\
                 snd (step ANamed dims 4096 s (OPtrRead 0)) = RErr EBounds.
Proof. exists [2; 3], (mkst [1; 2; 3; 4; 5; 6] (Some 5)). split; [split; cbn; lia|]. split; reflexivity. Qed.

Lemma builtin_array_get_never_rejects_refuted_l : forall n heap,
  exists idx, ~ (0 <= idx < n) /\ (forall e, builtin_get heap idx <> RErr e) /\
              (forall v e, snd (builtin_set heap idx v) <> RErr e).
Proof.
  intros n heap. exists (-1). split; [lia|]. split; intros; cbn; discriminate.
Qed.
