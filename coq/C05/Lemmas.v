(* C05 - the remaining property lemmas (short corollaries and the refutation witnesses). *)
From Coq Require Import List ZArith Bool Lia.
Import ListNotations.
From Cb Require Import C05.Model C05.FlatIndex C05.Access C05.Machine.
Local Open Scope Z_scope.

Lemma flat_index_inside_buffer_l : forall dims idxs k, calc_flat dims idxs = Some k -> 0 <= k < size dims.
Proof. intros dims idxs k H. apply calc_flat_some_iff_l in H. destruct H as [H ->]. apply row_major_bounds; exact H. Qed.

Lemma flat_index_injective_l : forall dims a b k,
  calc_flat dims a = Some k -> calc_flat dims b = Some k -> a = b.
Proof.
  intros dims a b k Ha Hb. apply calc_flat_some_iff_l in Ha, Hb. destruct Ha as [Ia ->], Hb as [Ib E].
  eapply row_major_inj; eauto.
Qed.

Lemma flat_index_surjective_l : forall dims k, positive_dims dims -> 0 <= k < size dims ->
  calc_flat dims (unflat dims k) = Some k /\
  (forall idxs, in_range dims idxs -> unflat dims (row_major dims idxs) = idxs).
Proof.
  intros dims k Hp Hk. split; [|apply unflat_row_major].
  destruct (unflat_spec dims Hp k Hk) as [Hin E]. apply calc_flat_some_iff_l. auto.
Qed.

Lemma access_accepted_iff_every_index_in_range_l : forall ak m dims idxs,
  dims_fit dims ->
  ((exists k, resolve ak m dims (size dims) idxs = inl k) <-> in_range dims idxs) /\
  (forall k, resolve ak m dims (size dims) idxs = inl k -> k = row_major dims idxs /\ 0 <= k < size dims).
Proof.
  intros ak m dims idxs Hd. destruct (resolve_accepts_iff_l ak m dims idxs Hd) as [A B].
  split; [exact A|]. intros k H. split; [apply B; exact H|eapply resolve_lt_size_l; eauto].
Qed.

Lemma access_cells_are_a_bijection_l : forall ak m dims, dims_fit dims ->
  (forall a b k, resolve ak m dims (size dims) a = inl k -> resolve ak m dims (size dims) b = inl k -> a = b) /\
  (positive_dims dims -> forall k, 0 <= k < size dims ->
     exists idxs, in_range dims idxs /\ resolve ak m dims (size dims) idxs = inl k).
Proof.
  intros ak m dims Hd. split.
  - intros a b k. apply resolve_injective_l; assumption.
  - intros Hp k Hk. apply resolve_surjective_l; assumption.
Qed.

(* the witnesses of the former int truncation (fixed by ff8053c) are rejected at every site *)
Lemma former_narrowing_witnesses_rejected_l :
  resolve ANamed Wr [2; 3] 6 [4294967297; 1] = inr EBounds /\ resolve ANamed Rd [2; 3] 6 [1; -4294967295] = inr EBounds /\
  resolve ANamed Wr [4] 4 [4294967297] = inr EBounds /\ resolve AMember Wr [4] 4 [4294967297] = inr EBounds /\
  resolve AMember Rd [4] 4 [4294967297] = inr EOther /\ resolve AMember Wr [2; 3] 6 [4294967297; 1] = inr EBounds /\
  snd (step ANamed [4] 4096 (mkst [1; 2; 3; 4] (Some 0)) (OPtrWrite 4294967297 9)) = RErr EBounds /\
  snd (step ANamed [2; 3] 4096 (mkst [1; 2; 3; 4; 5; 6] None) (OAddr [4294967297; 1])) = RErr EBounds.
Proof. repeat split; vm_compute; reflexivity. Qed.

(* the witness of the former rank-3 struct-member defect: read and write address cell 0 / the last cell *)
Lemma member_rank3_access_accepted_l :
  resolve AMember Rd [2; 2; 3] 12 [0; 0; 0] = inl 0 /\ resolve AMember Wr [2; 2; 3] 12 [0; 0; 0] = inl 0 /\
  resolve AMember Rd [2; 2; 3] 12 [1; 1; 2] = inl 11 /\ resolve AMember Rd [2; 2; 3] 12 [1; 2; 0] = inr EBounds.
Proof. repeat split; vm_compute; reflexivity. Qed.

Lemma pointer_stays_inside_array_l : forall ak dims base ops s, wf dims s ->
  wf dims (snd (run_checked ak dims base ops s)) /\ wf dims (snd (run_plain ak dims base ops s)).
Proof. intros. split; [apply run_checked_wf|apply run_plain_wf]; assumption. Qed.

Lemma machine_refines_shadow_array_l : forall ak dims base ops s ss,
  env_ok dims base -> wf dims s -> R dims s ss ->
  Forall2 same (fst (run_plain ak dims base ops s)) (fst (srun_plain dims ops ss)) /\
  R dims (snd (run_plain ak dims base ops s)) (snd (srun_plain dims ops ss)).
Proof. intros. apply run_plain_refines_l; assumption. Qed.

Lemma checked_machine_refines_shadow_array_l : forall ak dims base ops s ss,
  env_ok dims base -> wf dims s -> R dims s ss ->
  Forall2 same (fst (run_checked ak dims base ops s)) (fst (srun_checked dims ops ss)) /\
  R dims (snd (run_checked ak dims base ops s)) (snd (srun_checked dims ops ss)).
Proof. intros. apply run_checked_refines_l; assumption. Qed.

Lemma checked_access_is_err_iff_rejected_l : forall ak dims base ops s ss,
  env_ok dims base -> wf dims s -> R dims s ss ->
  List.length (fst (run_checked ak dims base ops s)) = List.length ops /\
  Forall2 (fun r r' => (exists e, r = RErr e) <-> r' = None)
          (fst (run_checked ak dims base ops s)) (fst (srun_checked dims ops ss)).
Proof. intros. split; [apply run_checked_length|apply checked_err_iff_rejected_l; assumption]. Qed.

Lemma rejection_is_classified_out_of_bounds_l : forall ak m dims stor idxs e b,
  List.length idxs = List.length dims -> resolve ak m dims stor idxs = inr e ->
  classify e b = VIndexOutOfBounds \/ (ak = AMember /\ m = Rd /\ rank1 dims = true).
Proof.
  intros ak m dims stor idxs e b L H. destruct (resolve_err_class_l ak m dims stor idxs e L H) as [->|H1]; auto.
Qed.

(* the witness of the former offset*8 wrap (fixed by 2bd3a28): p + (2^61 + 1) is rejected, from every position *)
Lemma pointer_huge_offset_rejected_l : forall base n e plus k,
  max_ptr_offset < k \/ k < - max_ptr_offset -> ptr_arith base n e plus k = None.
Proof. exact ptr_arith_huge_rejected_l. Qed.

(* the witness of the former p[k]-into-N-D defect: p = &m[1][2] on int[2][3]; p[0], p[-3], p[-5] read cells, p[1] is outside *)
Lemma pointer_index_into_multidim_reads_cell_l :
  let s := mkst [1; 2; 3; 4; 5; 6] (Some 5) in
  snd (step ANamed [2; 3] 4096 s (OPtrRead 0)) = RVal 6 /\ snd (step ANamed [2; 3] 4096 s (OPtrRead (-3))) = RVal 3 /\
  snd (step ANamed [2; 3] 4096 s (OPtrRead (-5))) = RVal 1 /\ snd (step ANamed [2; 3] 4096 s (OPtrRead 1)) = RErr EBounds /\
  cells (fst (step ANamed [2; 3] 4096 s (OPtrWrite (-2) 9))) = [1; 2; 3; 9; 5; 6].
Proof. repeat split; vm_compute; reflexivity. Qed.

Lemma builtin_array_get_never_rejects_refuted_l : forall n heap,
  exists idx, ~ (0 <= idx < n) /\ (forall e, builtin_get heap idx <> RErr e) /\
              (forall v e, snd (builtin_set heap idx v) <> RErr e).
Proof.
  intros n heap. exists (-1). split; [lia|]. split; intros; cbn; discriminate.
Qed.
