(* C05 - theorems about the definition GENERATED from the C++ text of Variable::calculate_flat_index
   (src/backend/interpreter/core/interpreter.h -> C05/Gen_FlatIndex.v by translators/cxx_pure.py, re-run by ./check C05 on
   every run; meaning of the generated term: Cxx/Cxx.v - a for loop over two std::vector<int>, executed with fuel).

   Main result [generated_is_model_l]: for ALL dimension vectors with extents >= 1 whose product fits an int (and whose
   number fits an int) and ALL vectors of int indices, the generated function returns / throws exactly what the hand-written
   model Model.calc_flat says - so every theorem of Properties_C05.v about calc_flat speaks about the C++ text as it is now.
   The proof is an induction over the loop ([loop_generic]: the state (i, multiplier, flat_index) after the dimensions
   n .. rank-1 have been consumed is the state of Model.flat_rev; stated once for any loop whose condition and body satisfy
   [cond_ok] / [body_ok], because the same loop exists in several copies - FlatIndexCopiesGen.v), the loop body and the code
   around the loop are evaluated symbolically from the generated term ([cxx_norm] decision trees).  When the C++ text changes, Gen_FlatIndex.v changes
   and these proofs are re-checked against it. *)
From Coq Require Import ZArith Bool String List Lia ZifyBool.
From Cb Require Import Cxx.Cxx Cxx.CxxLemmas C05.Gen_FlatIndex.
From Cb Require C05.Model C05.FlatIndex C05.Lemmas.
Import ListNotations.
Local Open Scope string_scope.
Local Open Scope Z_scope.

Module M := Cb.C05.Model.
Module F := Cb.C05.FlatIndex.
Module L := Cb.C05.Lemmas.

(* ------------------------------------------------------------------ how the function is called *)
Definition fn : vfn := fn_calculate_flat_index.
(* the two vectors it reads: its parameter and the [size] fields of this->array_type_info.dimensions *)
Definition vargs (dims idxs : list Z) : vecs :=
  [("indices", (TInt, idxs)); ("array_type_info.dimensions[].size", (TInt, dims))].
Definition call (fuel : nat) (dims idxs : list Z) : result := run_vec fuel fn "" (vargs dims idxs) [].

(* what Model.calc_flat says, with the text of the exception *)
Definition expected (dims idxs : list Z) : result :=
  match M.calc_flat dims idxs with
  | Some k => RVal (TInt, k)
  | None => RThrow (if Nat.eqb (List.length idxs) (List.length dims) then "Array index out of bounds"
                    else "Dimension mismatch in array access")
  end.

(* side conditions.  The C++ computes flat_index and multiplier in int; after the last iteration multiplier is the product
   of ALL extents (it is computed although it is never used), so that product must fit an int; extents >= 1 make every
   partial product at most the full one.  The rank is converted to int (static_cast<int>(indices.size())). *)
Definition int_max : Z := 2147483647.
Definition is_int (z : Z) : Prop := -2147483648 <= z <= 2147483647.
Definition extents_ok (dims : list Z) : Prop :=
  Forall (fun d => 1 <= d) dims /\ M.size dims <= int_max /\ Z.of_nat (List.length dims) <= int_max.
(* the indices are ints (the elements of a std::vector<int>) and the vector is one that can exist *)
Definition indices_ok (idxs : list Z) : Prop :=
  Forall is_int idxs /\ Z.of_nat (List.length idxs) <= 9223372036854775807.

(* ------------------------------------------------------------------ lists *)
Lemma firstn_snoc {A} (d : A) (l : list A) : forall n, (n < List.length l)%nat -> firstn (S n) l = (firstn n l ++ [nth n l d])%list.
Proof.
  induction l as [|a l IH]; intros n Hn; [cbn in Hn; lia|].
  destruct n as [|n]; [reflexivity|]. cbn [List.length] in Hn. rewrite firstn_cons, IH by lia. reflexivity.
Qed.
Lemma Forall_nth_Z (P : Z -> Prop) (l : list Z) n : Forall P l -> (n < List.length l)%nat -> P (nth n l 0).
Proof. intros H Hn. rewrite Forall_forall in H. apply H, nth_In, Hn. Qed.
Lemma vec_nth_nat l n : vec_nth l (Z.of_nat n) = nth n l 0.
Proof. unfold vec_nth. rewrite Nat2Z.id. reflexivity. Qed.
Lemma size_firstn_pos dims n : Forall (fun d => 1 <= d) dims -> 1 <= M.size (firstn n dims).
Proof.
  intros H. revert n. induction H as [|d ds Hd _ IH]; intros n.
  - destruct n; cbn [firstn M.size]; lia.
  - destruct n as [|n]; cbn [firstn M.size]; [lia|]. specialize (IH n). nia.
Qed.
Lemma forallb_int l : Forall is_int l -> forallb (in_range TInt) l = true.
Proof.
  induction 1 as [|x l Hx _ IH]; [reflexivity|]. cbn [forallb]. rewrite IH, andb_true_r.
  apply in_range_iff; [reflexivity|exact Hx].
Qed.
Lemma vec_ok_int l : Forall is_int l -> Z.of_nat (List.length l) <= 9223372036854775807 -> vec_ok TInt l = true.
Proof.
  intros H Hl. unfold vec_ok. rewrite forallb_int by exact H. cbn [andb]. unfold vec_len. cbn [tmax]. lia.
Qed.
Lemma extents_are_ints dims : extents_ok dims -> Forall is_int dims.
Proof.
  intros (Hp & Hs & _). unfold int_max in Hs. revert Hs. induction Hp as [|d ds Hd Hp IH]; intros Hs; [constructor|].
  cbn [M.size] in Hs. pose proof (size_firstn_pos ds (List.length ds) Hp) as P. rewrite firstn_all in P.
  constructor; [unfold is_int; nia|]. apply IH. nia.
Qed.

Lemma bind_vargs dims idxs : extents_ok dims -> indices_ok idxs ->
  bind_vecs (v_vecs fn) (vargs dims idxs) = Some (vargs dims idxs).
Proof.
  intros Hd [Hi Hl]. pose proof (extents_are_ints dims Hd) as Hdi. destruct Hd as (_ & _ & Hr). unfold int_max in Hr.
  cbn -[vec_ok]. rewrite (vec_ok_int idxs Hi Hl), (vec_ok_int dims Hdi) by lia. reflexivity.
Qed.

(* ------------------------------------------------------------------ arithmetic of the conversions *)
(* conversion to int of a representable value *)
Lemma sconv32_id a : is_int a -> (a - -2147483648) mod 4294967296 + -2147483648 = a.
Proof. unfold is_int. intros H. rewrite Z.mod_small; lia. Qed.
(* conversion to int64_t of a representable value *)
Lemma sconv64_id a : -9223372036854775808 <= a <= 9223372036854775807 ->
  (a - -9223372036854775808) mod 18446744073709551616 + -9223372036854775808 = a.
Proof. intros H. rewrite Z.mod_small; lia. Qed.
(* conversion to size_t of a non-negative int *)
Lemma uconv64_id a : 0 <= a <= 2147483647 -> a mod 18446744073709551616 = a.
Proof. intros H. apply Z.mod_small. lia. Qed.

(* decide the tests of a decision tree from the hypotheses, innermost test first; split where they do not decide *)
Ltac decide_test :=
  match goal with
  | |- context [if ?c then _ else _] =>
      lazymatch c with context [if _ then _ else _] => fail | _ => idtac end;
      first [ let H := fresh in assert (H : c = true) by lia; rewrite H; clear H
            | let H := fresh in assert (H : c = false) by lia; rewrite H; clear H ];
      cbv beta iota
  end.
Ltac decide_tests := repeat (fold_consts; decide_test).

(* ------------------------------------------------------------------ the loop, cut out of the generated body *)
Fixpoint first_while (s : stmt) : option (expr * stmt) :=
  match s with
  | SWhile c b => Some (c, b)
  | SSeq a b | SIf _ a b => match first_while a with Some x => Some x | None => first_while b end
  | SBlock a => first_while a
  | _ => None
  end.
Definition fi_cond : expr :=
  Eval cbv in match first_while (f_body (v_fn fn)) with Some (c, _) => c | None => ELit TBool 0 end.
Definition fi_body : stmt :=
  Eval cbv in match first_while (f_body (v_fn fn)) with Some (_, b) => b | None => SSkip end.

(* ------------------------------------------------------------------ the loop, once for all its copies *)
(* which dimension is reported: the last one whose index is outside (the loop runs from the last dimension to the first);
   on the reversed lists, k = the number of the dimension at the head *)
Fixpoint bad_rev (ds xs : list Z) (k : Z) : Z :=
  match ds, xs with
  | d :: ds', x :: xs' => if (x <? 0) || (d <=? x) then k else bad_rev ds' xs' (k - 1)
  | _, _ => k
  end.
Definition last_bad_dim (dims idxs : list Z) : Z := bad_rev (rev dims) (rev idxs) (Z.of_nat (List.length dims) - 1).

Section GenericLoop.
Variables (ve : vecs) (fuel : nat) (sp : string * string) (rt : ity) (c : expr) (b : stmt).
(* the state (i, multiplier, flat_index) as an environment; the text of the exception thrown in dimension i; the largest value
   of the type the accumulators have; the extents and the indices *)
Variables (st : Z -> Z -> Z -> env) (msg : Z -> string) (hi : Z) (dims idxs : list Z).
Hypothesis st_leave : forall i m f i' m' f', leave (st i m f) (st i' m' f') = st i' m' f'.
(* the condition is i >= 0 *)
Hypothesis cond_ok : forall i m f, -1 <= i <= 2147483647 ->
  eval ve sp (st i m f) c = EV (TBool, if 0 <=? i then 1 else 0).
(* one iteration (with the step --i): the bounds test of dimension n, then the two updates - provided they stay inside the type *)
Hypothesis body_ok : forall n m f, (n < List.length dims)%nat -> 0 <= f <= hi -> 0 <= m <= hi ->
  (0 <= nth n idxs 0 < nth n dims 0 ->
   0 <= nth n idxs 0 * m <= hi /\ 0 <= f + nth n idxs 0 * m <= hi /\ 0 <= m * nth n dims 0 <= hi) ->
  exec ve fuel sp rt (st (Z.of_nat n) m f) b =
  if (nth n idxs 0 <? 0) || (nth n dims 0 <=? nth n idxs 0) then ODone (RThrow (msg (Z.of_nat n)))
  else ONext (st (Z.of_nat n - 1) (m * nth n dims 0) (f + nth n idxs 0 * m)).
Hypothesis Hlen : List.length idxs = List.length dims.
Hypothesis Hpos : Forall (fun d => 1 <= d) dims.
Hypothesis Hrank : Z.of_nat (List.length dims) <= 2147483647.

(* the invariant: when the dimensions n .. rank-1 have been consumed (i = n - 1) with 0 <= flat_index < multiplier and
   multiplier * (product of the remaining extents) still inside the type, the rest of the loop is Model.flat_rev on the
   remaining dimensions, last one first.  S n evaluations of the condition are needed. *)
Lemma loop_generic : forall n k f m, (n <= List.length dims)%nat ->
  0 <= f < m -> m * M.size (firstn n dims) <= hi ->
  while_loop ve fuel sp rt c b (S n + k) (st (Z.of_nat n - 1) m f) =
  match M.flat_rev (rev (firstn n dims)) (rev (firstn n idxs)) f m with
  | Some r => ONext (st (-1) (m * M.size (firstn n dims)) r)
  | None => ODone (RThrow (msg (bad_rev (rev (firstn n dims)) (rev (firstn n idxs)) (Z.of_nat n - 1))))
  end.
Proof.
  induction n as [|n IH]; intros k f m Hn Hf Hm.
  - cbn [firstn rev M.flat_rev M.size Nat.add]. rewrite while_loop_S, cond_ok by lia.
    cbn [lift nonzero Z.of_nat Z.sub Z.opp Z.add Z.leb Z.compare]. replace (m * 1) with m by lia. reflexivity.
  - pose proof (size_firstn_pos dims n Hpos) as P.
    assert (Hnd : (n < List.length dims)%nat) by lia. assert (Hni : (n < List.length idxs)%nat) by lia.
    rewrite (firstn_snoc 0 dims n Hnd), (firstn_snoc 0 idxs n Hni), !rev_unit in *.
    pose proof (body_ok n m f Hnd) as Hbody.
    set (d := nth n dims 0) in *. set (x := nth n idxs 0) in *.
    assert (Hd1 : 1 <= d) by (apply (Forall_nth_Z (fun d => 1 <= d)); assumption).
    rewrite F.size_app in Hm |- *. cbn [M.size] in Hm |- *.
    replace (Z.of_nat (S n) - 1) with (Z.of_nat n) by lia.
    change (S (S n) + k)%nat with (S (S n + k)). rewrite while_loop_S, cond_ok by lia.
    replace (0 <=? Z.of_nat n) with true by lia. cbn [lift nonzero].
    assert (Hmd : m * d <= hi).
    { assert (m * d * 1 <= m * d * M.size (firstn n dims)) by (apply Z.mul_le_mono_nonneg_l; nia). lia. }
    assert (Hdm : d <= m * d) by nia. assert (Hmm : m <= m * d) by nia.
    assert (Hstep : 0 <= x < d -> 0 <= x * m /\ x * m <= m * d - m) by (intros; split; nia).
    rewrite Hbody by (try lia; intros Hx; specialize (Hstep Hx); lia).
    cbn [M.flat_rev bad_rev]. destruct ((x <? 0) || (d <=? x)) eqn:E; [reflexivity|].
    apply orb_false_iff in E as [E1 E2]. rewrite st_leave.
    specialize (Hstep ltac:(lia)).
    rewrite IH by (try lia; nia).
    replace (m * d * M.size (firstn n dims)) with (m * (M.size (firstn n dims) * (d * 1))) by ring. reflexivity.
Qed.
End GenericLoop.

(* ------------------------------------------------------------------ tactics for the copies of the loop
   [open_body]: the decision tree of the loop body in state (i, m, f), conversions of the atoms removed;
   [close_body]: decide its tests (the caller has split on the two index tests and supplied the bounds). *)
Ltac conv_atom a :=
  rewrite ?(sconv32_id a) by (unfold is_int; lia); rewrite ?(sconv64_id a) by lia;
  rewrite ?(Z.mod_small a 18446744073709551616) by lia.
Ltac conv_atoms i x d m f := conv_atom i; conv_atom x; conv_atom d; conv_atom m; conv_atom f; fold_consts.
Ltac conv_compounds i x d m f :=
  conv_atom (x * m); conv_atom (f + x * m); conv_atom (m * d); conv_atom (i - 1); fold_consts.

(* ------------------------------------------------------------------ Variable::calculate_flat_index *)
(* the state of the loop: the three locals, innermost declaration first *)
Definition st (i m f : Z) : env := [("i", (TInt, i)); ("multiplier", (TInt, m)); ("flat_index", (TInt, f))].

Section Loop.
Variables (dims idxs : list Z) (fuel : nat).
Let ve := vargs dims idxs.
Let sp : string * string := ("", "").

(* the condition i >= 0 *)
Lemma cond_spec i m f : -1 <= i <= 2147483647 ->
  eval ve sp (st i m f) fi_cond = EV (TBool, if 0 <=? i then 1 else 0).
Proof.
  intros Hi. rewrite eval_as_tree. unfold fi_cond, ve, vargs, st. cxx_norm.
  conv_atom i. fold_consts. reflexivity.
Qed.

Hypothesis Hlen : List.length idxs = List.length dims.
Hypothesis Hidx : Forall is_int idxs.
Hypothesis Hext : extents_ok dims.

(* one iteration: the bounds test of dimension n, the two updates, --i *)
Lemma body_spec n m f : (n < List.length dims)%nat -> 0 <= f <= int_max -> 0 <= m <= int_max ->
  (0 <= nth n idxs 0 < nth n dims 0 ->
   0 <= nth n idxs 0 * m <= int_max /\ 0 <= f + nth n idxs 0 * m <= int_max /\ 0 <= m * nth n dims 0 <= int_max) ->
  exec ve fuel sp TInt (st (Z.of_nat n) m f) fi_body =
  if (nth n idxs 0 <? 0) || (nth n dims 0 <=? nth n idxs 0) then ODone (RThrow "Array index out of bounds")
  else ONext (st (Z.of_nat n - 1) (m * nth n dims 0) (f + nth n idxs 0 * m)).
Proof.
  intros Hn Hf Hm Hb. pose proof (extents_are_ints dims Hext) as Hdi. destruct Hext as (_ & _ & Hrank).
  assert (Ix : is_int (nth n idxs 0)) by (apply Forall_nth_Z; [assumption|lia]).
  assert (Id : is_int (nth n dims 0)) by (apply Forall_nth_Z; assumption).
  remember (nth n idxs 0) as x eqn:Ex. remember (nth n dims 0) as d eqn:Ed. remember (Z.of_nat n) as i eqn:Ei.
  assert (Hx : vec_nth idxs i = x) by (subst i x; apply vec_nth_nat).
  assert (Hd : vec_nth dims i = d) by (subst i d; apply vec_nth_nat).
  assert (Hi1 : 0 <= i < Z.of_nat (List.length dims)) by lia.
  assert (Hi2 : i < Z.of_nat (List.length idxs)) by lia.
  rewrite exec_as_tree. unfold fi_body, ve, vargs, st. cxx_norm. unfold vec_len.
  unfold int_max, is_int in *. conv_atom i. rewrite Hx, Hd.
  conv_atoms i x d m f.
  destruct (x <? 0) eqn:E1; cbv beta iota; cbn [orb]; [decide_tests; reflexivity|].
  destruct (d <=? x) eqn:E2; cbv beta iota; [decide_tests; reflexivity|].
  destruct Hb as (B1 & B2 & B3); [lia|].
  conv_compounds i x d m f. decide_tests. conv_compounds i x d m f. reflexivity.
Qed.

Lemma loop_spec : forall n k f m, (n <= List.length dims)%nat ->
  0 <= f < m -> m * M.size (firstn n dims) <= int_max ->
  while_loop ve fuel sp TInt fi_cond fi_body (S n + k) (st (Z.of_nat n - 1) m f) =
  match M.flat_rev (rev (firstn n dims)) (rev (firstn n idxs)) f m with
  | Some r => ONext (st (-1) (m * M.size (firstn n dims)) r)
  | None => ODone (RThrow "Array index out of bounds")
  end.
Proof.
  destruct Hext as (Hpos & Hsize & Hrank). unfold int_max in Hrank.
  apply (loop_generic ve fuel sp TInt fi_cond fi_body st (fun _ => "Array index out of bounds") int_max dims idxs);
    try assumption; [reflexivity|apply cond_spec|apply body_spec].
Qed.
End Loop.

(* ------------------------------------------------------------------ the whole function *)
Lemma generated_is_model_l dims idxs fuel : extents_ok dims -> indices_ok idxs -> (List.length dims < fuel)%nat ->
  call fuel dims idxs = expected dims idxs.
Proof.
  intros Hd Hi Hfuel. pose proof Hd as (Hpos & Hsize & Hrank). pose proof Hi as (Hint & Hilen). unfold int_max in *.
  unfold call. rewrite run_vec_as_tree by (apply bind_vargs; assumption).
  cxx_vtree. unfold expected, M.calc_flat, vec_len.
  destruct (Nat.eqb (List.length dims) (List.length idxs)) eqn:E.
  - (* as many indices as dimensions: the loop *)
    apply Nat.eqb_eq in E. rewrite <- E, Nat.eqb_refl.
    rewrite !(sconv32_id (Z.of_nat (List.length dims))) by (unfold is_int; lia).
    decide_tests.
    rewrite !(sconv32_id (Z.of_nat (List.length dims) - 1)) by (unfold is_int; lia).
    unfold whileK. rewrite exec_while.
    change (SSeq _ _) with fi_body. change (EBin BGe _ _) with fi_cond.
    change [("i", (TInt, Z.of_nat (List.length dims) - 1)); ("multiplier", (TInt, 1)); ("flat_index", (TInt, 0))]
      with (st (Z.of_nat (List.length dims) - 1) 1 0).
    change [("indices", (TInt, idxs)); ("array_type_info.dimensions[].size", (TInt, dims))] with (vargs dims idxs).
    assert (Hfu : fuel = (S (List.length dims) + (fuel - S (List.length dims)))%nat) by lia.
    set (W := while_loop (vargs dims idxs) fuel ("", "") TInt fi_cond fi_body). rewrite Hfu. subst W.
    rewrite (loop_spec dims idxs fuel (eq_sym E) Hint Hd) by (rewrite ?firstn_all; unfold int_max; lia).
    replace (firstn (List.length dims) idxs) with idxs by (rewrite E; symmetry; apply firstn_all).
    rewrite firstn_all.
    destruct (M.flat_rev (rev dims) (rev idxs) 0 1) as [r|] eqn:R; [|reflexivity].
    assert (Hr : 0 <= r < M.size dims).
    { apply (L.flat_index_inside_buffer_l dims idxs). unfold M.calc_flat. rewrite E, Nat.eqb_refl. exact R. }
    unfold st. cbv -[Z.add Z.sub Z.mul Z.modulo M.size]. rewrite sconv32_id by (unfold is_int; lia). reflexivity.
  - (* rank mismatch *)
    rewrite Nat.eqb_sym, E. apply Nat.eqb_neq in E.
    rewrite !Z.mod_small by lia. decide_tests. reflexivity.
Qed.

(* ------------------------------------------------------------------ consequences for the generated function *)
Definition well_defined (r : result) : Prop :=
  match r with RVal (TInt, z) => is_int z | RThrow _ => True | _ => False end.

Lemma generated_ub_free_l dims idxs fuel : extents_ok dims -> indices_ok idxs -> (List.length dims < fuel)%nat ->
  well_defined (call fuel dims idxs).
Proof.
  intros Hd Hi Hf. rewrite generated_is_model_l by assumption. unfold expected.
  destruct (M.calc_flat dims idxs) as [k|] eqn:E; cbn [well_defined]; [|exact I].
  apply L.flat_index_inside_buffer_l in E. destruct Hd as (_ & Hs & _). unfold is_int, int_max in *. lia.
Qed.

Lemma generated_accepts_iff_l dims idxs fuel k : extents_ok dims -> indices_ok idxs -> (List.length dims < fuel)%nat ->
  (call fuel dims idxs = RVal (TInt, k) <-> F.in_range dims idxs /\ k = F.row_major dims idxs).
Proof.
  intros Hd Hi Hf. rewrite generated_is_model_l by assumption. unfold expected.
  rewrite <- F.calc_flat_some_iff_l. destruct (M.calc_flat dims idxs) as [r|].
  - split; intros H; [injection H as ->; reflexivity|injection H as ->; reflexivity].
  - split; discriminate.
Qed.

Lemma generated_rejects_l dims idxs fuel : extents_ok dims -> indices_ok idxs -> (List.length dims < fuel)%nat ->
  (call fuel dims idxs = RThrow "Dimension mismatch in array access" <-> List.length idxs <> List.length dims) /\
  (call fuel dims idxs = RThrow "Array index out of bounds" <->
   List.length idxs = List.length dims /\ ~ F.in_range dims idxs).
Proof.
  intros Hd Hi Hf. rewrite generated_is_model_l by assumption. unfold expected.
  destruct (M.calc_flat dims idxs) as [r|] eqn:E.
  - apply F.calc_flat_some_iff_l in E as [Hin _]. pose proof (F.in_range_length _ _ Hin).
    split; (split; [discriminate|]); [intros; congruence|tauto].
  - apply F.calc_flat_none_iff in E. destruct (Nat.eqb (List.length idxs) (List.length dims)) eqn:N.
    + apply Nat.eqb_eq in N. split; (split; [try discriminate; auto|]); [intros; congruence|reflexivity].
    + apply Nat.eqb_neq in N. split; (split; [try discriminate; auto|]); [reflexivity|tauto].
Qed.

Lemma generated_injective_l dims a b fuel k : extents_ok dims -> indices_ok a -> indices_ok b -> (List.length dims < fuel)%nat ->
  call fuel dims a = RVal (TInt, k) -> call fuel dims b = RVal (TInt, k) -> a = b.
Proof.
  intros Hd Ha Hb Hf Ea Eb. apply generated_accepts_iff_l in Ea, Eb; try assumption.
  destruct Ea as [Ia ->], Eb as [Ib E]. eapply F.row_major_inj; eauto.
Qed.

Lemma in_range_indices_ok dims idxs : extents_ok dims -> F.in_range dims idxs -> indices_ok idxs.
Proof.
  intros Hd Hin. pose proof (extents_are_ints dims Hd) as Hdi. destruct Hd as (_ & _ & Hr). unfold int_max in Hr. split.
  - assert (H : Forall F.int_range idxs).
    { eapply F.in_range_int; [|exact Hin]. eapply Forall_impl; [|exact Hdi]. unfold is_int, F.int_range, M.two31. intros; lia. }
    eapply Forall_impl; [|exact H]. unfold is_int, F.int_range, M.two31. intros; lia.
  - rewrite <- (F.in_range_length _ _ Hin). lia.
Qed.

Lemma generated_surjective_l dims fuel k : extents_ok dims -> (List.length dims < fuel)%nat -> 0 <= k < M.size dims ->
  indices_ok (F.unflat dims k) /\ call fuel dims (F.unflat dims k) = RVal (TInt, k).
Proof.
  intros Hd Hf Hk. assert (Hp : F.positive_dims dims).
  { destruct Hd as (Hp & _). rewrite Forall_forall in Hp. intros d Hin. specialize (Hp d Hin). lia. }
  destruct (F.unflat_spec dims Hp k Hk) as [Hin E].
  pose proof (in_range_indices_ok _ _ Hd Hin) as Hi. split; [exact Hi|].
  apply generated_accepts_iff_l; auto.
Qed.

(* outside the side conditions: two extents whose product does not fit an int - the last `multiplier *= extent` (whose result
   is never used) is a signed overflow, although every index is in range and the flat index itself (0) is tiny *)
Lemma generated_overflow_refuted_l :
  exists dims idxs, Forall (fun d => 1 <= d <= int_max) dims /\ F.in_range dims idxs /\ int_max < M.size dims /\
                    call 3 dims idxs = RUB ub_mul.
Proof.
  exists [46341; 46341], [0; 0]. split; [repeat constructor; unfold int_max; lia|].
  split; [cbn; lia|]. split; vm_compute; reflexivity.
Qed.

(* without enough fuel nothing is said *)
Lemma fuel_needed : call 2 [2; 3] [1; 2] = RNoFuel /\ call 3 [2; 3] [1; 2] = RVal (TInt, 5).
Proof. split; vm_compute; reflexivity. Qed.
