(* C05 - lemmas about Variable::calculate_flat_index ([calc_flat]) and the int conversion. *)
From Coq Require Import List ZArith Bool Lia.
Import ListNotations.
From Cb Require Import C05.Model.
Local Open Scope Z_scope.

(* ---------- the property's vocabulary ---------- *)
(* every index inside its declared dimension (and as many indices as dimensions) *)
Fixpoint in_range (dims idxs : list Z) : Prop :=
  match dims, idxs with
  | [], [] => True
  | d :: ds, i :: is_ => 0 <= i < d /\ in_range ds is_
  | _, _ => False
  end.

Fixpoint in_rangeb (dims idxs : list Z) : bool :=
  match dims, idxs with
  | [], [] => true
  | d :: ds, i :: is_ => (0 <=? i) && (i <? d) && in_rangeb ds is_
  | _, _ => false
  end.

(* the row-major cell: sum_k i_k * prod_{j>k} d_j *)
Fixpoint row_major (dims idxs : list Z) : Z :=
  match dims, idxs with
  | d :: ds, i :: is_ => i * size ds + row_major ds is_
  | _, _ => 0
  end.

(* the inverse: the index tuple of flat cell k *)
Fixpoint unflat (dims : list Z) (k : Z) : list Z :=
  match dims with
  | [] => []
  | d :: ds => (k / size ds) :: unflat ds (k mod size ds)
  end.

Definition int_range (i : Z) : Prop := - two31 <= i < two31.
Definition positive_dims (dims : list Z) : Prop := forall d, In d dims -> 0 < d.

Lemma in_rangeb_spec dims : forall idxs, in_rangeb dims idxs = true <-> in_range dims idxs.
Proof.
  induction dims as [|d ds IH]; intros [|i is_]; cbn [in_rangeb in_range]; try tauto; try (split; [discriminate|tauto]).
  rewrite !andb_true_iff, IH, Z.leb_le, Z.ltb_lt. tauto.
Qed.

Lemma in_range_dec dims idxs : in_range dims idxs \/ ~ in_range dims idxs.
Proof.
  destruct (in_rangeb dims idxs) eqn:E.
  - left. apply in_rangeb_spec. exact E.
  - right. intros H. apply in_rangeb_spec in H. congruence.
Qed.

Lemma in_range_length dims : forall idxs, in_range dims idxs -> List.length dims = List.length idxs.
Proof.
  induction dims as [|d ds IH]; intros [|i is_]; cbn [in_range List.length]; try tauto.
  intros [_ H]. f_equal. apply IH. exact H.
Qed.

Lemma in_range_pos dims : forall idxs, in_range dims idxs -> positive_dims dims.
Proof.
  induction dims as [|d ds IH]; intros [|i is_]; cbn [in_range]; try tauto.
  - intros _ x [].
  - intros [Hi Hr] x [<-|Hx]; [lia|]. eapply IH; eauto.
Qed.

Lemma size_pos dims : positive_dims dims -> 0 < size dims.
Proof.
  induction dims as [|d ds IH]; intros H; cbn [size]; [lia|].
  assert (0 < d) by (apply H; left; reflexivity).
  assert (0 < size ds) by (apply IH; intros x Hx; apply H; right; exact Hx). nia.
Qed.

Lemma size_app a b : size (a ++ b) = size a * size b.
Proof. induction a as [|x a IH]; cbn [app size]; [lia|]. rewrite IH. lia. Qed.

Lemma size_rev a : size (rev a) = size a.
Proof. induction a as [|x a IH]; cbn [rev size]; [reflexivity|]. rewrite size_app, IH. cbn [size]. lia. Qed.

(* ---------- the loop, on the reversed lists (last dimension first) ---------- *)
Fixpoint rm_rev (dims idxs : list Z) : Z :=
  match dims, idxs with
  | d :: ds, i :: is_ => i + d * rm_rev ds is_
  | _, _ => 0
  end.

Lemma flat_rev_spec dims : forall idxs flat mult,
  (in_range dims idxs -> flat_rev dims idxs flat mult = Some (flat + mult * rm_rev dims idxs)) /\
  (~ in_range dims idxs -> flat_rev dims idxs flat mult = None).
Proof.
  induction dims as [|d ds IH]; intros [|i is_] flat mult; cbn [flat_rev in_range rm_rev]; split;
    try tauto; intros H; try (f_equal; lia).
  - destruct H as [Hi Hr].
    destruct (Z.ltb_spec i 0), (Z.leb_spec d i); cbn [orb]; try lia.
    rewrite (proj1 (IH is_ _ _) Hr). f_equal. lia.
  - destruct (Z.ltb_spec i 0), (Z.leb_spec d i); cbn [orb]; auto.
    apply (proj2 (IH is_ _ _)). intros Hr. apply H. split; [lia|exact Hr].
Qed.

Lemma in_range_app a : forall b c d, List.length a = List.length b ->
  (in_range (a ++ c) (b ++ d) <-> in_range a b /\ in_range c d).
Proof.
  induction a as [|x a IH]; intros [|y b] c d; cbn [List.length app in_range]; try discriminate; try tauto.
  intros E. injection E as E. rewrite (IH b c d E). tauto.
Qed.

Lemma in_range_rev dims : forall idxs, List.length dims = List.length idxs ->
  (in_range (rev dims) (rev idxs) <-> in_range dims idxs).
Proof.
  induction dims as [|d ds IH]; intros [|i is_]; cbn [List.length rev in_range]; try discriminate; try tauto.
  intros E. injection E as E.
  rewrite in_range_app by (rewrite !rev_length; exact E).
  rewrite (IH is_ E). cbn [in_range]. tauto.
Qed.

Lemma rm_rev_app a : forall b x y, List.length a = List.length b ->
  rm_rev (a ++ [x]) (b ++ [y]) = rm_rev a b + size a * y.
Proof.
  induction a as [|d a IH]; intros [|i b] x y; cbn [List.length app rm_rev size]; try discriminate; try lia.
  intros E. injection E as E. rewrite (IH b x y E). lia.
Qed.

Lemma rm_rev_rev dims : forall idxs, List.length dims = List.length idxs ->
  rm_rev (rev dims) (rev idxs) = row_major dims idxs.
Proof.
  induction dims as [|d ds IH]; intros [|i is_]; cbn [List.length rev rm_rev row_major]; try discriminate; try reflexivity.
  intros E. injection E as E.
  rewrite rm_rev_app by (rewrite !rev_length; exact E).
  rewrite (IH is_ E), size_rev. lia.
Qed.

(* ---------- calc_flat: accepted exactly on the in-range tuples, with the row-major value ---------- *)
Lemma calc_flat_some_iff_l dims idxs k :
  calc_flat dims idxs = Some k <-> in_range dims idxs /\ k = row_major dims idxs.
Proof.
  unfold calc_flat. destruct (Nat.eqb (List.length dims) (List.length idxs)) eqn:E.
  - apply Nat.eqb_eq in E.
    destruct (in_range_dec (rev dims) (rev idxs)) as [Hin|Hnot].
    + rewrite (proj1 (flat_rev_spec _ _ 0 1) Hin), (rm_rev_rev _ _ E).
      rewrite (in_range_rev _ _ E) in Hin. split.
      * intros H. split; [exact Hin|]. assert (H2 : 0 + 1 * row_major dims idxs = k) by congruence. lia.
      * intros [_ ->]. f_equal. lia.
    + rewrite (proj2 (flat_rev_spec _ _ 0 1) Hnot). rewrite (in_range_rev _ _ E) in Hnot.
      split; [discriminate|tauto].
  - apply Nat.eqb_neq in E. split; [discriminate|].
    intros [H _]. apply in_range_length in H. contradiction.
Qed.

Lemma calc_flat_none_iff dims idxs : calc_flat dims idxs = None <-> ~ in_range dims idxs.
Proof.
  destruct (calc_flat dims idxs) as [k|] eqn:E.
  - apply calc_flat_some_iff_l in E. split; [discriminate|tauto].
  - split; [|reflexivity]. intros _ H.
    assert (calc_flat dims idxs = Some (row_major dims idxs)) by (apply calc_flat_some_iff_l; auto). congruence.
Qed.

Lemma row_major_bounds dims : forall idxs, in_range dims idxs -> 0 <= row_major dims idxs < size dims.
Proof.
  induction dims as [|d ds IH]; intros [|i is_]; cbn [in_range row_major size]; try tauto; try lia.
  intros [Hi Hr]. specialize (IH _ Hr). nia.
Qed.

Lemma row_major_inj dims : forall a b, in_range dims a -> in_range dims b ->
  row_major dims a = row_major dims b -> a = b.
Proof.
  induction dims as [|d ds IH]; intros [|i a] [|j b]; cbn [in_range row_major]; try tauto.
  intros [Hi Ha] [Hj Hb] E.
  pose proof (row_major_bounds _ _ Ha). pose proof (row_major_bounds _ _ Hb).
  assert (i = j) by nia. subst j.
  f_equal. apply IH; auto. lia.
Qed.

Lemma unflat_spec dims : positive_dims dims -> forall k, 0 <= k < size dims ->
  in_range dims (unflat dims k) /\ row_major dims (unflat dims k) = k.
Proof.
  induction dims as [|d ds IH]; intros Hpos k Hk; cbn [size] in Hk; cbn [unflat in_range row_major].
  - split; [exact I|lia].
  - assert (Hd : 0 < d) by (apply Hpos; left; reflexivity).
    assert (Hds : positive_dims ds) by (intros x Hx; apply Hpos; right; exact Hx).
    pose proof (size_pos _ Hds) as Hs.
    destruct (IH Hds (k mod size ds)) as [Hr E]; [apply Z.mod_pos_bound; lia|].
    split; [split; [|exact Hr]|].
    + split; [apply Z.div_pos; lia|]. apply Z.div_lt_upper_bound; lia.
    + rewrite E. rewrite (Z.div_mod k (size ds)) at 3 by lia. lia.
Qed.

Lemma unflat_row_major dims : forall idxs, in_range dims idxs -> unflat dims (row_major dims idxs) = idxs.
Proof.
  intros idxs H. pose proof (in_range_pos _ _ H) as Hp. pose proof (row_major_bounds _ _ H) as Hb.
  destruct (unflat_spec dims Hp _ Hb) as [Hr E].
  eapply row_major_inj; eauto.
Qed.

(* ---------- Variable::index_to_int and static_cast<int>(int64_t) ---------- *)
(* declared extents are C++ ints *)
Definition dims_fit (dims : list Z) : Prop := Forall (fun d => d <= two31) dims.

Lemma index_to_int_spec i j : index_to_int i = Some j <-> int_range i /\ j = i.
Proof.
  unfold index_to_int, int_range.
  destruct (Z.ltb_spec i (- two31)) as [A|A], (Z.leb_spec two31 i) as [B|B]; cbn [orb]; split; intros G;
    try discriminate; try (destruct G as [? ->]; try lia; reflexivity).
  injection G as <-. split; [lia|reflexivity].
Qed.

Lemma index_to_int_none i : index_to_int i = None <-> ~ int_range i.
Proof.
  destruct (index_to_int i) as [j|] eqn:E.
  - apply index_to_int_spec in E. split; [discriminate|tauto].
  - split; [|reflexivity]. intros _ H. assert (index_to_int i = Some i) by (apply index_to_int_spec; auto). congruence.
Qed.

Lemma all_to_int_spec idxs : forall l, all_to_int idxs = Some l <-> Forall int_range idxs /\ l = idxs.
Proof.
  induction idxs as [|i r IH]; intros l; cbn [all_to_int].
  - split; [intros H; injection H as <-; split; [constructor|reflexivity]|intros [_ ->]; reflexivity].
  - destruct (index_to_int i) as [i'|] eqn:E.
    + apply index_to_int_spec in E. destruct E as [Hi ->].
      destruct (all_to_int r) as [r'|] eqn:F.
      * destruct (proj1 (IH r') eq_refl) as [Hr ->].
        split; [intros H; injection H as <-; split; [constructor; assumption|reflexivity]|intros [_ ->]; reflexivity].
      * split; [discriminate|]. intros [H ->]. inversion H; subst.
        assert (G : @None (list Z) = Some r) by (apply IH; auto). discriminate G.
    + apply index_to_int_none in E. split; [discriminate|]. intros [H _]. inversion H; subst. contradiction.
Qed.

Lemma all_to_int_none idxs : all_to_int idxs = None <-> ~ Forall int_range idxs.
Proof.
  destruct (all_to_int idxs) as [l|] eqn:E.
  - apply all_to_int_spec in E. split; [discriminate|tauto].
  - split; [|reflexivity]. intros _ H. assert (all_to_int idxs = Some idxs) by (apply all_to_int_spec; auto). congruence.
Qed.

Lemma in_range_fits dims : forall idxs, dims_fit dims -> in_range dims idxs -> Forall int_range idxs.
Proof.
  induction dims as [|d ds IH]; intros [|i is_] Hd H; cbn [in_range] in H; try tauto; try (constructor; fail).
  inversion Hd; subst. destruct H as [Hi Hr]. constructor; [unfold int_range, two31 in *; lia|]. apply IH; auto.
Qed.

Lemma dims_fit_of_size dims : positive_dims dims -> size dims < two31 -> dims_fit dims.
Proof.
  induction dims as [|d ds IH]; intros Hp Hs; [constructor|].
  assert (Hd : 0 < d) by (apply Hp; left; reflexivity).
  assert (Hds : positive_dims ds) by (intros x Hx; apply Hp; right; exact Hx).
  pose proof (size_pos _ Hds) as P. cbn [size] in Hs.
  constructor; [nia|]. apply IH; [exact Hds|nia].
Qed.

(* ---------- static_cast<int>(int64_t) ---------- *)
Lemma narrow32_id i : int_range i -> narrow32 i = i.
Proof. unfold int_range, narrow32, two31, two32. intros H. rewrite Z.mod_small by lia. lia. Qed.

Lemma narrow32_range i : int_range (narrow32 i).
Proof.
  unfold int_range, narrow32, two31, two32.
  pose proof (Z.mod_pos_bound (i + 2147483648) 4294967296). lia.
Qed.

Lemma narrow32_periodic i k : narrow32 (i + k * two32) = narrow32 i.
Proof. unfold narrow32, two32. replace (i + k * 4294967296 + two31) with (i + two31 + k * 4294967296) by lia.
  rewrite Z.mod_add by lia. reflexivity. Qed.

Lemma map_narrow32_id idxs : Forall int_range idxs -> map narrow32 idxs = idxs.
Proof. induction 1 as [|i l Hi _ IH]; cbn [map]; [reflexivity|]. rewrite narrow32_id, IH; auto. Qed.

Lemma conv_all_id b idxs : Forall int_range idxs -> conv_all b idxs = Some idxs.
Proof. destruct b; cbn [conv_all]; [|reflexivity]. intros H. apply all_to_int_spec. auto. Qed.

Lemma conv_all_some b idxs l : conv_all b idxs = Some l -> l = idxs.
Proof. destruct b; cbn [conv_all]; [|congruence]. intros H. apply all_to_int_spec in H. tauto. Qed.

Lemma conv_all_none b idxs : conv_all b idxs = None -> ~ Forall int_range idxs.
Proof. destruct b; cbn [conv_all]; [|discriminate]. apply all_to_int_none. Qed.

Lemma in_range_int dims : forall idxs, Forall int_range dims -> in_range dims idxs -> Forall int_range idxs.
Proof.
  induction dims as [|d ds IH]; intros [|i is_] Hd H; cbn [in_range] in H; try tauto.
  inversion Hd; subst. destruct H as [Hi Hr]. constructor; [unfold int_range in *; lia|]. apply IH; auto.
Qed.
