(* C05 - property theorems about Variable::calculate_flat_index, stated about the definition GENERATED from its current C++
   text (C05/Gen_FlatIndex.v, written by translators/cxx_pure.py from clang's AST on every run of ./check C05; meaning of
   the generated term: Cxx/Cxx.v; proofs: C05/FlatIndexGen.v, Cxx/CxxLemmas.v).

   [call fuel dims idxs] = run_vec fuel fn_calculate_flat_index "" [indices := idxs; array_type_info.dimensions[].size := dims] []
   is the C++17 meaning of v.calculate_flat_index(idxs) on a Variable whose array_type_info.dimensions have the sizes dims:
   RVal (TInt, k) (returned value) | RThrow (text of the std::runtime_error) | RUB (undefined behaviour) | RNoFuel (the for
   loop needed more than [fuel] evaluations of its condition) | RFallOff | RStuck.
   Side conditions (FlatIndexGen.v): [extents_ok dims] = every extent >= 1, the product of ALL extents <= INT_MAX (the C++
   computes flat_index and multiplier in int, and after the last iteration multiplier IS that product), the rank <= INT_MAX
   (static_cast<int>(indices.size())); [indices_ok idxs] = every index is an int (the vector is a std::vector<int>) and the
   vector has at most PTRDIFF_MAX elements.  Nothing else is assumed: any rank, any indices (negative, too large, too few,
   too many).  Fuel: rank + 1 evaluations of the loop condition suffice. *)
From Coq Require Import List ZArith Bool String.
From Cb Require Import Cxx.Cxx C05.Gen_FlatIndex C05.FlatIndexGen C05.FlatIndexCopiesGen.
From Cb Require C05.Model C05.FlatIndex.
Import ListNotations.
Local Open Scope string_scope.
Local Open Scope Z_scope.

(* The generated function IS the hand-written model the other C05 theorems are about: same value, same rejection, and the
   text of the exception says which of the two tests failed. *)
Theorem generated_flat_index_is_model : forall dims idxs fuel,
  extents_ok dims -> indices_ok idxs -> (List.length dims < fuel)%nat ->
  call fuel dims idxs =
  match Model.calc_flat dims idxs with
  | Some k => RVal (TInt, k)
  | None => RThrow (if Nat.eqb (List.length idxs) (List.length dims) then "Array index out of bounds"
                    else "Dimension mismatch in array access")
  end.
Proof. exact generated_is_model_l. Qed.
Print Assumptions generated_flat_index_is_model.

(* No undefined behaviour (signed overflow of += *= -- and of the rank conversion, operator[] outside a vector), the loop
   terminates within rank + 1 tests, the function returns an int or throws std::runtime_error. *)
Theorem generated_flat_index_ub_free : forall dims idxs fuel,
  extents_ok dims -> indices_ok idxs -> (List.length dims < fuel)%nat ->
  match call fuel dims idxs with
  | RVal (TInt, z) => -2147483648 <= z <= 2147483647
  | RThrow _ => True
  | _ => False
  end.
Proof. exact generated_ub_free_l. Qed.
Print Assumptions generated_flat_index_ub_free.

(* ... and the side condition on the product is needed: extents 46341 x 46341 (each an int, product 2147488281 > INT_MAX),
   indices (0, 0): the last `multiplier *= extent`, whose result is never used, overflows *)
Theorem generated_flat_index_overflow_refuted :
  exists dims idxs, Forall (fun d => 1 <= d <= int_max) dims /\ FlatIndex.in_range dims idxs /\ int_max < Model.size dims /\
                    call 3 dims idxs = RUB ub_mul.
Proof. exact generated_overflow_refuted_l. Qed.
Print Assumptions generated_flat_index_overflow_refuted.

(* flat_index_accepts_exactly_in_range, for the generated function: it returns k iff there are as many indices as
   dimensions, each inside its dimension, and k is the row-major cell *)
Theorem generated_flat_index_accepts_exactly_in_range : forall dims idxs fuel k,
  extents_ok dims -> indices_ok idxs -> (List.length dims < fuel)%nat ->
  (call fuel dims idxs = RVal (TInt, k) <-> FlatIndex.in_range dims idxs /\ k = FlatIndex.row_major dims idxs).
Proof. exact (fun dims idxs fuel k => generated_accepts_iff_l dims idxs fuel k). Qed.
Print Assumptions generated_flat_index_accepts_exactly_in_range.

(* which exception: rank mismatch / some index outside its dimension *)
Theorem generated_flat_index_rejections : forall dims idxs fuel,
  extents_ok dims -> indices_ok idxs -> (List.length dims < fuel)%nat ->
  (call fuel dims idxs = RThrow "Dimension mismatch in array access" <-> List.length idxs <> List.length dims) /\
  (call fuel dims idxs = RThrow "Array index out of bounds" <->
   List.length idxs = List.length dims /\ ~ FlatIndex.in_range dims idxs).
Proof. exact generated_rejects_l. Qed.
Print Assumptions generated_flat_index_rejections.

(* flat_index_injective / flat_index_surjective, for the generated function: a bijection between the in-range tuples and
   the cells 0 .. size - 1 *)
Theorem generated_flat_index_injective : forall dims a b fuel k,
  extents_ok dims -> indices_ok a -> indices_ok b -> (List.length dims < fuel)%nat ->
  call fuel dims a = RVal (TInt, k) -> call fuel dims b = RVal (TInt, k) -> a = b.
Proof. exact generated_injective_l. Qed.
Print Assumptions generated_flat_index_injective.

Theorem generated_flat_index_surjective : forall dims fuel k,
  extents_ok dims -> (List.length dims < fuel)%nat -> 0 <= k < Model.size dims ->
  indices_ok (FlatIndex.unflat dims k) /\ call fuel dims (FlatIndex.unflat dims k) = RVal (TInt, k).
Proof. exact generated_surjective_l. Qed.
Print Assumptions generated_flat_index_surjective.

(* ---- the copies of the loop that bypass calculate_flat_index: the `if (!var.array_dimensions.empty())` branch of
        ArrayManager::setMultidimensionalArrayElement (int64_t and double overloads), getMultidimensionalStringArrayElement,
        setMultidimensionalStringArrayElement ([int_copies], computing in int) and getMultidimensionalArrayElementTyped
        (computing in size_t), each cut out of its function and regenerated on every run (managers/arrays/manager.cpp).
        [call_copy f fuel raw dims idxs]: the branch entered with indices = raw (int64_t: only their number is used),
        int_indices = idxs, var.array_dimensions = dims. ---- *)
Theorem generated_member_branches_are_model : forall f raw dims idxs fuel, In f int_copies ->
  extents_ok dims -> indices_ok idxs -> raw_ok raw idxs -> (List.length dims < fuel)%nat ->
  call_copy f fuel raw dims idxs =
  match Model.calc_flat dims idxs with
  | Some k => RVal (TInt, k)
  | None => RThrow (if Nat.eqb (List.length idxs) (List.length dims) then "Array index out of bounds in struct member access"
                    else "Dimension mismatch in struct member array access")
  end.
Proof. exact int_copies_are_model_l. Qed.
Print Assumptions generated_member_branches_are_model.

(* the read path computes in size_t: no undefined behaviour is possible, and it is the model whenever the product of the
   extents is below 2^64 ([extents_ok64]: extents >= 1 and ints, product <= 2^64 - 1, rank <= INT_MAX) *)
Theorem generated_member_read_branch_is_model : forall raw dims idxs fuel,
  extents_ok64 dims -> indices_ok idxs -> raw_ok raw idxs -> (List.length dims < fuel)%nat ->
  call_copy fn_get_typed_flat fuel raw dims idxs =
  match Model.calc_flat dims idxs with
  | Some k => RVal (TULong, k)
  | None => RThrow (if Nat.eqb (List.length idxs) (List.length dims) then "Array index out of bounds in struct member access"
                    else "Dimension mismatch in struct member array access")
  end.
Proof. exact get_typed_is_model_l. Qed.
Print Assumptions generated_member_read_branch_is_model.

Theorem generated_member_branches_ub_free : forall f raw dims idxs fuel, In f int_copies ->
  extents_ok dims -> indices_ok idxs -> raw_ok raw idxs -> (List.length dims < fuel)%nat ->
  match call_copy f fuel raw dims idxs with
  | RVal (TInt, z) => -2147483648 <= z <= 2147483647
  | RThrow _ => True
  | _ => False
  end.
Proof. exact int_copies_ub_free_l. Qed.
Print Assumptions generated_member_branches_ub_free.

(* 65536 x 65536 cells: the int branches overflow in the unused last product, the size_t branch is fine *)
Theorem generated_member_branches_overflow_refuted :
  call_copy fn_set_int_flat 3 [0; 0] [65536; 65536] [0; 0] = RUB ub_mul /\
  call_copy fn_get_typed_flat 3 [0; 0] [65536; 65536] [0; 0] = RVal (TULong, 0).
Proof. exact int_copies_overflow_refuted_l. Qed.
Print Assumptions generated_member_branches_overflow_refuted.

(* ---- StructOperations::get_struct_member_multidim_array_element (managers/structs/operations.cpp), the read path of
        obj.member[i]...[k], regenerated from the branch that computes the flat index: it compares the int64_t subscripts
        themselves (no conversion to int: [indices64_ok] = any int64_t values), accumulates in size_t and names the offending
        dimension - the last one whose index is outside - in the exception.
        [call_member_read fuel dims idxs]: the branch entered with indices = idxs, member_var->array_dimensions = dims. ---- *)
Theorem generated_member_read_is_model : forall dims idxs fuel,
  extents_ok64 dims -> indices64_ok idxs -> (List.length dims < fuel)%nat ->
  call_member_read fuel dims idxs =
  match Model.calc_flat dims idxs with
  | Some k => RVal (TULong, k)
  | None => RThrow (if Nat.eqb (List.length idxs) (List.length dims)
                    then "Array index out of bounds in dimension " ++ dec_string (last_bad_dim dims idxs)
                    else (("Dimension mismatch: expected " ++ dec_string (Z.of_nat (List.length dims))) ++ " dimensions, got ")
                         ++ dec_string (Z.of_nat (List.length idxs)))
  end.
Proof. exact member_read_is_model_l. Qed.
Print Assumptions generated_member_read_is_model.

(* ---- the read path of float / double / quad arrays (ExpressionEvaluator::evaluate_typed_expression_internal,
        evaluator/core/evaluator.cpp), regenerated from the branch `if (var->is_multidimensional && indices.size() > 1)` up to
        the end of its for loop.  Since fix 3f94fc1 (finding C05-float-array-read-no-per-dimension-check) the loop tests every
        index against its own dimension.  It compares the int64_t subscripts themselves ([indices64_int_ok]: ANY int64_t
        values, their number <= INT_MAX), accumulates in int through long, and multiplies `multiplier` only while d > 0.
        [call_float_read fuel dims idxs]: the branch entered with indices = idxs, var->array_dimensions = dims; the loop runs
        over the SUBSCRIPTS, so the fuel is measured against their number. ---- *)
(* an element read (at least as many subscripts as dimensions): exactly Model.calc_flat - the row-major cell, or the
   rejection "Array index out of bounds" (also for a subscript beyond the last dimension) - never undefined behaviour *)
Theorem generated_float_read_is_model : forall dims idxs fuel,
  extents_ok dims -> indices64_int_ok idxs -> (List.length idxs < fuel)%nat -> (List.length dims <= List.length idxs)%nat ->
  call_float_read fuel dims idxs =
  match Model.calc_flat dims idxs with
  | Some k => RVal (TInt, k)
  | None => RThrow "Array index out of bounds"
  end.
Proof. exact float_read_full_rank_is_model_l. Qed.
Print Assumptions generated_float_read_is_model.

(* accepted exactly when every index lies inside its dimension, and then it is the row-major cell (the law the repaired
   finding broke: the former witness is [generated_float_read_former_witness_rejected] below) *)
Theorem generated_float_read_checks_every_dimension : forall dims idxs fuel k,
  extents_ok dims -> indices64_int_ok idxs -> (List.length idxs < fuel)%nat -> (List.length dims <= List.length idxs)%nat ->
  (call_float_read fuel dims idxs = RVal (TInt, k) <-> FlatIndex.in_range dims idxs /\ k = FlatIndex.row_major dims idxs).
Proof. exact (fun dims idxs fuel k => float_read_accepts_iff_l dims idxs fuel k). Qed.
Print Assumptions generated_float_read_checks_every_dimension.

(* for ANY number of subscripts: the model on the leading dimensions; no undefined behaviour, enough fuel *)
Theorem generated_float_read_any_rank_is_model : forall dims idxs fuel,
  extents_ok dims -> indices64_int_ok idxs -> (List.length idxs < fuel)%nat ->
  call_float_read fuel dims idxs =
  match Model.calc_flat (firstn (List.length idxs) dims) idxs with
  | Some k => RVal (TInt, k)
  | None => RThrow "Array index out of bounds"
  end.
Proof. exact float_read_is_model_l. Qed.
Print Assumptions generated_float_read_any_rank_is_model.

Theorem generated_float_read_ub_free : forall dims idxs fuel,
  extents_ok dims -> indices64_int_ok idxs -> (List.length idxs < fuel)%nat ->
  match call_float_read fuel dims idxs with
  | RVal (TInt, z) => -2147483648 <= z <= 2147483647
  | RThrow _ => True
  | _ => False
  end.
Proof. exact float_read_ub_free_l. Qed.
Print Assumptions generated_float_read_ub_free.

(* was generated_float_read_checks_every_dimension_refuted: on extents (2, 3) the indices (0, 3) yielded the cell of (1, 0) *)
Theorem generated_float_read_former_witness_rejected :
  call_float_read 3 [2; 3] [0; 3] = RThrow "Array index out of bounds" /\ call_float_read 3 [2; 3] [1; 0] = RVal (TInt, 3) /\
  call_float_read 3 [2; 3] [1; -1] = RThrow "Array index out of bounds".
Proof. exact float_read_former_witness_rejected_l. Qed.
Print Assumptions generated_float_read_former_witness_rejected.

(* still open: the branch never compares the number of subscripts with the number of dimensions, so FEWER subscripts than
   dimensions are accepted (the integer paths throw "Dimension mismatch"): two subscripts (1, 0) on extents (2, 3, 2) yield
   cell 3, the cell of (0, 1, 1).  Known finding C05-float-array-read-fewer-subscripts-accepted, confirmed on the real binary
   (double[2][3][2] m; m[0][1][1] = 7.5; println(m[1][0]) prints 7.5). *)
Theorem generated_float_read_rejects_rank_mismatch_refuted :
  exists dims idxs, (List.length idxs < List.length dims)%nat /\ Model.calc_flat dims idxs = None /\
    call_float_read 3 dims idxs = RVal (TInt, FlatIndex.row_major dims [0; 1; 1]).
Proof. exact float_read_fewer_subscripts_refuted_l. Qed.
Print Assumptions generated_float_read_rejects_rank_mismatch_refuted.

(* ---- non-vacuity: the side conditions are satisfiable, fuel is really needed, and concrete calls compute ---- *)
Example side_conditions_example : extents_ok [2; 3; 4] /\ indices_ok [1; 2; 3] /\ indices_ok [1; -7; 2147483647; 0] /\
  indices64_int_ok [1; -9223372036854775808; 9223372036854775807].
Proof.
  unfold extents_ok, indices_ok, indices64_int_ok, is_int, is_int64, int_max. cbn [Model.size List.length Z.of_nat].
  repeat split; try (repeat constructor; cbn; Lia.lia); cbn; Lia.lia.
Qed.

Example calls_example :
  call 4 [2; 3; 4] [1; 2; 3] = RVal (TInt, 23) /\ call 4 [2; 3; 4] [1; 3; 0] = RThrow "Array index out of bounds" /\
  call 4 [2; 3; 4] [1; -1; 0] = RThrow "Array index out of bounds" /\
  call 4 [2; 3; 4] [1; 2] = RThrow "Dimension mismatch in array access" /\ call 1 [] [] = RVal (TInt, 0) /\
  call 3 [2; 3; 4] [1; 2; 3] = RNoFuel.
Proof. repeat split; vm_compute; reflexivity. Qed.
