(* C05 - lemmas about [resolve] (one element access through each site) and pointer arithmetic. *)
From Coq Require Import List ZArith Bool Lia ZifyBool.
Import ListNotations.
From Cb Require Import C05.Model C05.FlatIndex.
Local Open Scope Z_scope.

Definition rank1 (dims : list Z) : bool := match dims with [_] => true | _ => false end.

(* shapes on which the access paths work at all: reads of struct members of rank >= 3 are always rejected *)
Definition supported (ak : akind) (dims : list Z) : Prop :=
  match ak, dims with AMember, _ :: _ :: _ :: _ => False | _, _ => True end.

(* the indices as the site sees them *)
Definition seen (ak : akind) (m : rw) (dims idxs : list Z) : list Z :=
  map (conv (narrows ak (rank1 dims) m)) idxs.

Lemma row_major_1 n i : row_major [n] [i] = i.
Proof. cbn. lia. Qed.

Lemma resolve_inl_iff_l ak m dims idxs k : supported ak dims ->
  (resolve ak m dims (size dims) idxs = inl k <->
   in_range dims (seen ak m dims idxs) /\ k = row_major dims (seen ak m dims idxs)).
Proof.
  intros Hs. unfold seen.
  assert (ND : forall b, rank1 dims = false ->
     ((if negb (Nat.eqb (List.length dims) (List.length idxs)) then inr EOther else
       match calc_flat dims (map (conv b) idxs) with
       | Some f => if f <? size dims then inl f else inr EBounds
       | None => inr EBounds end) = inl k <->
      in_range dims (map (conv b) idxs) /\ k = row_major dims (map (conv b) idxs))).
  { intros b _. destruct (Nat.eqb (List.length dims) (List.length idxs)) eqn:E; cbn [negb].
    - destruct (calc_flat dims (map (conv b) idxs)) as [f|] eqn:F.
      + apply calc_flat_some_iff_l in F. destruct F as [Hin ->].
        pose proof (row_major_bounds _ _ Hin) as Hb.
        destruct (Z.ltb_spec (row_major dims (map (conv b) idxs)) (size dims)); [|lia].
        split; [intros G; split; [exact Hin|congruence]|intros [_ ->]; reflexivity].
      + apply calc_flat_none_iff in F. split; [discriminate|tauto].
    - apply Nat.eqb_neq in E. split; [discriminate|]. intros [H _].
      apply in_range_length in H. rewrite map_length in H. contradiction. }
  destruct dims as [|n [|n2 ds]].
  - (* rank 0 *) cbn [resolve]. destruct ak, m; apply ND; reflexivity.
  - (* rank 1 *) cbn [resolve rank1].
    destruct idxs as [|i [|i2 is_]]; cbn [map in_range]; try (split; [discriminate|tauto]).
    set (i' := conv (narrows ak true m) i).
    rewrite row_major_1.
    destruct (Z.ltb_spec i' 0), (Z.leb_spec n i'); cbn [orb];
      try (split; [discriminate|intros [[? _] _]; lia]).
    split; [intros G; injection G as <-; split; [split; [lia|exact I]|reflexivity]|intros [_ ->]; reflexivity].
  - (* rank >= 2 *) destruct ak.
    + cbn [resolve]. destruct m; apply ND; reflexivity.
    + destruct ds as [|n3 ds]; [|contradiction Hs].
      cbn [resolve]. destruct m; apply ND; reflexivity.
Qed.

Lemma resolve_accepts_iff_l ak m dims idxs : supported ak dims -> Forall int_range idxs ->
  ((exists k, resolve ak m dims (size dims) idxs = inl k) <-> in_range dims idxs) /\
  (forall k, resolve ak m dims (size dims) idxs = inl k -> k = row_major dims idxs).
Proof.
  intros Hs Hi.
  assert (E : seen ak m dims idxs = idxs) by (apply map_conv_id; exact Hi).
  split.
  - split.
    + intros [k H]. apply resolve_inl_iff_l in H; [|exact Hs]. rewrite E in H. tauto.
    + intros H. exists (row_major dims idxs). apply resolve_inl_iff_l; [exact Hs|]. rewrite E. auto.
  - intros k H. apply resolve_inl_iff_l in H; [|exact Hs]. rewrite E in H. tauto.
Qed.

Lemma resolve_exact_iff_l ak m dims idxs k : supported ak dims -> narrows ak (rank1 dims) m = false ->
  (resolve ak m dims (size dims) idxs = inl k <-> in_range dims idxs /\ k = row_major dims idxs).
Proof.
  intros Hs Hn. rewrite resolve_inl_iff_l by exact Hs. unfold seen. rewrite Hn. cbn [conv].
  rewrite map_id. tauto.
Qed.

(* the flat cell is inside the buffer and distinct in-range tuples get distinct cells *)
Lemma resolve_lt_size_l ak m dims idxs k : supported ak dims ->
  resolve ak m dims (size dims) idxs = inl k -> 0 <= k < size dims.
Proof.
  intros Hs H. apply resolve_inl_iff_l in H; [|exact Hs]. destruct H as [Hin ->].
  apply row_major_bounds. exact Hin.
Qed.

Lemma resolve_injective_l ak m dims a b k : supported ak dims -> Forall int_range a -> Forall int_range b ->
  resolve ak m dims (size dims) a = inl k -> resolve ak m dims (size dims) b = inl k -> a = b.
Proof.
  intros Hs Ha Hb H1 H2.
  apply resolve_inl_iff_l in H1; [|exact Hs]. apply resolve_inl_iff_l in H2; [|exact Hs].
  unfold seen in *. rewrite (map_conv_id _ _ Ha) in H1. rewrite (map_conv_id _ _ Hb) in H2.
  destruct H1 as [I1 ->], H2 as [I2 E]. eapply row_major_inj; eauto.
Qed.

Lemma resolve_surjective_l ak m dims k : supported ak dims -> positive_dims dims -> Forall int_range dims ->
  0 <= k < size dims ->
  exists idxs, Forall int_range idxs /\ in_range dims idxs /\ resolve ak m dims (size dims) idxs = inl k.
Proof.
  intros Hs Hp Hd Hk. destruct (unflat_spec dims Hp k Hk) as [Hin E].
  pose proof (in_range_int _ _ Hd Hin) as Hi.
  exists (unflat dims k). split; [exact Hi|]. split; [exact Hin|].
  apply resolve_inl_iff_l; [exact Hs|]. unfold seen. rewrite (map_conv_id _ _ Hi). auto.
Qed.

(* class of the error: "bounds" everywhere except the 1-D struct-member read *)
Lemma resolve_err_class_l ak m dims stor idxs e : List.length idxs = List.length dims ->
  resolve ak m dims stor idxs = inr e -> e = EBounds \/ (ak = AMember /\ m = Rd /\ rank1 dims = true).
Proof.
  intros L.
  assert (ND : (if negb (Nat.eqb (List.length dims) (List.length idxs)) then inr EOther else
       match calc_flat dims (map (conv (narrows ak false m)) idxs) with
       | Some f => if f <? stor then inl f else inr EBounds
       | None => inr EBounds end) = inr e -> e = EBounds).
  { rewrite L, Nat.eqb_refl. cbn [negb]. destruct (calc_flat _ _); [destruct (_ <? _)|]; congruence. }
  destruct dims as [|n [|n2 ds]].
  - cbn [resolve]. destruct ak, m; intros H; left; apply ND; exact H.
  - cbn [resolve rank1]. destruct idxs as [|i [|? ?]]; try discriminate L.
    destruct ((_ <? 0) || (n <=? _)); [|discriminate].
    destruct ak, m; intros H; injection H as <-; auto.
  - destruct ak.
    + cbn [resolve]. destruct m; intros H; left; apply ND; exact H.
    + destruct ds, m; cbn [resolve]; intros H; left; try (apply ND; exact H); congruence.
Qed.

(* ---------- pointer arithmetic on addresses ---------- *)
Definition two60 : Z := 1152921504606846976.
Definition base_ok (base n : Z) : Prop := 0 <= base /\ base + 8 * n <= two64.

Lemma ptr_arith_range base n e plus k e' : ptr_arith base n e plus k = Some e' -> 0 <= e' < n.
Proof.
  unfold ptr_arith. set (na := if plus then _ else _).
  destruct (Z.ltb_spec na base), (Z.leb_spec (base + 8 * n) na); cbn [orb]; try discriminate.
  intros G. injection G as <-.
  split; [apply Z.div_pos; lia|apply Z.div_lt_upper_bound; lia].
Qed.

Ltac Zify.zify_post_hook ::= Z.div_mod_to_equations.

Lemma ptr_arith_ok_l (base n e : Z) (plus : bool) (k : Z) : base_ok base n -> 0 <= e < n -> n < two31 ->
  - two60 <= k <= two60 ->
  let t := if plus then e + k else e - k in
  ptr_arith base n e plus k = if (0 <=? t) && (t <? n) then Some t else None.
Proof.
  intros [Hb1 Hb2] He Hn Hk. cbv zeta. unfold ptr_arith, wrap64, two64, two31, two60 in *.
  destruct plus.
  - destruct (Z.leb_spec 0 (e + k)), (Z.ltb_spec (e + k) n); cbn [andb].
    + assert (E : (base + 8 * e + (k * 8) mod 18446744073709551616) mod 18446744073709551616 = base + 8 * (e + k)) by lia.
      rewrite E.
      destruct (Z.ltb_spec (base + 8 * (e + k)) base), (Z.leb_spec (base + 8 * n) (base + 8 * (e + k))); cbn [orb]; try lia.
      f_equal. replace (base + 8 * (e + k) - base) with ((e + k) * 8) by lia. apply Z.div_mul. lia.
    + set (na := (base + 8 * e + (k * 8) mod 18446744073709551616) mod 18446744073709551616).
      destruct (Z.ltb_spec na base), (Z.leb_spec (base + 8 * n) na); cbn [orb]; try reflexivity.
      exfalso. subst na. lia.
    + set (na := (base + 8 * e + (k * 8) mod 18446744073709551616) mod 18446744073709551616).
      destruct (Z.ltb_spec na base), (Z.leb_spec (base + 8 * n) na); cbn [orb]; try reflexivity.
      exfalso. subst na. lia.
    + lia.
  - destruct (Z.leb_spec 0 (e - k)), (Z.ltb_spec (e - k) n); cbn [andb].
    + assert (E : (base + 8 * e - (k * 8) mod 18446744073709551616) mod 18446744073709551616 = base + 8 * (e - k)) by lia.
      rewrite E.
      destruct (Z.ltb_spec (base + 8 * (e - k)) base), (Z.leb_spec (base + 8 * n) (base + 8 * (e - k))); cbn [orb]; try lia.
      f_equal. replace (base + 8 * (e - k) - base) with ((e - k) * 8) by lia. apply Z.div_mul. lia.
    + set (na := (base + 8 * e - (k * 8) mod 18446744073709551616) mod 18446744073709551616).
      destruct (Z.ltb_spec na base), (Z.leb_spec (base + 8 * n) na); cbn [orb]; try reflexivity.
      exfalso. subst na. lia.
    + set (na := (base + 8 * e - (k * 8) mod 18446744073709551616) mod 18446744073709551616).
      destruct (Z.ltb_spec na base), (Z.leb_spec (base + 8 * n) na); cbn [orb]; try reflexivity.
      exfalso. subst na. lia.
    + lia.
Qed.

(* offset * 8 wraps modulo 2^64: p + (2^61 + 1) is accepted as p + 1 *)
Lemma ptr_arith_wrap_l base n e : base_ok base n -> 0 <= e -> e + 1 < n ->
  ptr_arith base n e true (2305843009213693952 + 1) = Some (e + 1).
Proof.
  unfold base_ok, ptr_arith, wrap64, two64. intros [Hb1 Hb2] He Hn.
  assert (E : (base + 8 * e + ((2305843009213693952 + 1) * 8) mod 18446744073709551616) mod 18446744073709551616
              = base + 8 * (e + 1)) by lia.
  rewrite E.
  destruct (Z.ltb_spec (base + 8 * (e + 1)) base), (Z.leb_spec (base + 8 * n) (base + 8 * (e + 1))); cbn [orb]; try lia.
  f_equal. replace (base + 8 * (e + 1) - base) with ((e + 1) * 8) by lia. apply Z.div_mul. lia.
Qed.
