(* C05 - lemmas about [resolve] (one element access through each site) and pointer arithmetic. *)
From Coq Require Import List ZArith Bool Lia ZifyBool.
Import ListNotations.
From Cb Require Import C05.Model C05.FlatIndex.
Local Open Scope Z_scope.

Definition rank1 (dims : list Z) : bool := match dims with [_] => true | _ => false end.

Lemma row_major_1 n i : row_major [n] [i] = i.
Proof. cbn. lia. Qed.

(* the generic N-D branch of every site *)
Lemma nd_branch_iff b dims idxs k : dims_fit dims ->
  (match conv_all b idxs with
   | None => inr EBounds
   | Some idxs' =>
       if negb (Nat.eqb (List.length dims) (List.length idxs')) then inr EOther else
       match calc_flat dims idxs' with
       | Some f => if f <? size dims then inl f else inr EBounds
       | None => inr EBounds
       end
   end = inl k <-> in_range dims idxs /\ k = row_major dims idxs).
Proof.
  intros Hd. destruct (conv_all b idxs) as [l|] eqn:C.
  - apply conv_all_some in C. subst l.
    destruct (Nat.eqb (List.length dims) (List.length idxs)) eqn:E; cbn [negb].
    + destruct (calc_flat dims idxs) as [f|] eqn:F.
      * apply calc_flat_some_iff_l in F. destruct F as [Hin ->].
        pose proof (row_major_bounds _ _ Hin) as Hb.
        destruct (Z.ltb_spec (row_major dims idxs) (size dims)) as [A|A]; [|lia].
        split; [intros G; split; [exact Hin|congruence]|intros [_ ->]; reflexivity].
      * apply calc_flat_none_iff in F. split; [discriminate|tauto].
    + apply Nat.eqb_neq in E. split; [discriminate|]. intros [G _].
      apply in_range_length in G. contradiction.
  - apply conv_all_none in C. split; [discriminate|]. intros [G _].
    exfalso. apply C. eapply in_range_fits; eauto.
Qed.

(* every site, every integer index: accepted exactly on the in-range tuples, with the row-major cell *)
Lemma resolve_inl_iff_l ak m dims idxs k : dims_fit dims ->
  (resolve ak m dims (size dims) idxs = inl k <-> in_range dims idxs /\ k = row_major dims idxs).
Proof.
  intros Hd.
  destruct dims as [|n [|n2 ds]].
  - cbn [resolve]. apply nd_branch_iff; exact Hd.
  - cbn [resolve].
    destruct idxs as [|i [|i2 is_]]; cbn [in_range]; try (split; [discriminate|tauto]).
    rewrite row_major_1. inversion Hd as [|? ? Hn _]; subst.
    destruct (conv (narrows ak true m) i) as [i'|] eqn:C.
    + assert (i' = i).
      { unfold conv in C. destruct (narrows ak true m); [apply index_to_int_spec in C; tauto|congruence]. }
      subst i'.
      destruct (Z.ltb_spec i 0) as [A|A], (Z.leb_spec n i) as [B|B]; cbn [orb];
        try (split; [discriminate|intros [[? _] _]; lia]).
      split; [intros G; injection G as <-; split; [split; [lia|exact I]|reflexivity]|intros [_ ->]; reflexivity].
    + unfold conv in C. destruct (narrows ak true m); [|discriminate].
      apply index_to_int_none in C. split; [discriminate|]. intros [[G _] _].
      exfalso. apply C. unfold int_range, two31 in *. lia.
  - cbn [resolve]. apply nd_branch_iff; exact Hd.
Qed.

Lemma resolve_accepts_iff_l ak m dims idxs : dims_fit dims ->
  ((exists k, resolve ak m dims (size dims) idxs = inl k) <-> in_range dims idxs) /\
  (forall k, resolve ak m dims (size dims) idxs = inl k -> k = row_major dims idxs).
Proof.
  intros Hd. split.
  - split.
    + intros [k H]. apply resolve_inl_iff_l in H; tauto.
    + intros H. exists (row_major dims idxs). apply resolve_inl_iff_l; auto.
  - intros k H. apply resolve_inl_iff_l in H; tauto.
Qed.

(* the flat cell is inside the buffer and distinct in-range tuples get distinct cells *)
Lemma resolve_lt_size_l ak m dims idxs k : dims_fit dims ->
  resolve ak m dims (size dims) idxs = inl k -> 0 <= k < size dims.
Proof.
  intros Hd H. apply resolve_inl_iff_l in H; auto. destruct H as [Hin ->].
  apply row_major_bounds. exact Hin.
Qed.

Lemma resolve_injective_l ak m dims a b k : dims_fit dims ->
  resolve ak m dims (size dims) a = inl k -> resolve ak m dims (size dims) b = inl k -> a = b.
Proof.
  intros Hd H1 H2.
  apply resolve_inl_iff_l in H1; auto. apply resolve_inl_iff_l in H2; auto.
  destruct H1 as [I1 ->], H2 as [I2 E]. eapply row_major_inj; eauto.
Qed.

Lemma resolve_surjective_l ak m dims k : dims_fit dims -> positive_dims dims ->
  0 <= k < size dims ->
  exists idxs, in_range dims idxs /\ resolve ak m dims (size dims) idxs = inl k.
Proof.
  intros Hd Hp Hk. destruct (unflat_spec dims Hp k Hk) as [Hin E].
  exists (unflat dims k). split; [exact Hin|]. apply resolve_inl_iff_l; auto.
Qed.

(* an index that does not fit an int is rejected at every site (the former truncation) *)
Lemma resolve_rejects_non_int_l ak m dims idxs : dims_fit dims ->
  ~ Forall int_range idxs -> exists e, resolve ak m dims (size dims) idxs = inr e.
Proof.
  intros Hd Hn. destruct (resolve ak m dims (size dims) idxs) as [k|e] eqn:E; [|eauto].
  apply resolve_inl_iff_l in E; auto. destruct E as [Hin _]. exfalso. apply Hn. eapply in_range_fits; eauto.
Qed.

(* class of the error: "bounds" everywhere except the 1-D struct-member read *)
Lemma nd_branch_err b dims stor idxs e : List.length idxs = List.length dims ->
  match conv_all b idxs with
  | None => inr EBounds
  | Some idxs' =>
      if negb (Nat.eqb (List.length dims) (List.length idxs')) then inr EOther else
      match calc_flat dims idxs' with
      | Some f => if f <? stor then @inl Z eclass f else inr EBounds
      | None => inr EBounds end
  end = inr e -> e = EBounds.
Proof.
  intros L. destruct (conv_all b idxs) as [l|] eqn:C; [|congruence].
  apply conv_all_some in C. subst l. rewrite L, Nat.eqb_refl. cbn [negb].
  destruct (calc_flat _ _); [destruct (_ <? _)|]; congruence.
Qed.

Lemma resolve_err_class_l ak m dims stor idxs e : List.length idxs = List.length dims ->
  resolve ak m dims stor idxs = inr e -> e = EBounds \/ (ak = AMember /\ m = Rd /\ rank1 dims = true).
Proof.
  intros L.
  destruct dims as [|n [|n2 ds]].
  - cbn [resolve]. intros H; left; eapply nd_branch_err; eauto.
  - cbn [resolve rank1]. destruct idxs as [|i [|? ?]]; try discriminate L.
    destruct (conv _ i) as [i'|]; [destruct ((_ <? 0) || (n <=? _)); [|discriminate]|];
      destruct ak, m; intros H; injection H as <-; auto.
  - cbn [resolve]. intros H; left; eapply nd_branch_err; eauto.
Qed.

(* ---------- pointer arithmetic on addresses ---------- *)
Definition base_ok (base n : Z) : Prop := 0 <= base /\ base + 8 * n <= two64.

Lemma ptr_arith_range base n e plus k e' : ptr_arith base n e plus k = Some e' -> 0 <= e' < n.
Proof.
  unfold ptr_arith. destruct ((max_ptr_offset <? k) || (k <? - max_ptr_offset)); [discriminate|].
  set (na := if plus then _ else _).
  destruct (Z.ltb_spec na base), (Z.leb_spec (base + 8 * n) na); cbn [orb]; try discriminate.
  intros G. injection G as <-.
  split; [apply Z.div_pos; lia|apply Z.div_lt_upper_bound; lia].
Qed.

Ltac Zify.zify_post_hook ::= Z.div_mod_to_equations.

(* for every offset: accepted iff the target stays inside, and then the target is e +- k *)
Lemma ptr_arith_ok_l (base n e : Z) (plus : bool) (k : Z) : base_ok base n -> 0 <= e < n -> n < two31 ->
  let t := if plus then e + k else e - k in
  ptr_arith base n e plus k = if (0 <=? t) && (t <? n) then Some t else None.
Proof.
  intros [Hb1 Hb2] He Hn. cbv zeta. unfold ptr_arith, wrap64, two64, two31, max_ptr_offset in *.
  destruct (Z.ltb_spec 576460752303423487 k) as [G1|G1], (Z.ltb_spec k (Z.opp 576460752303423487)) as [G2|G2]; cbn [orb].
  - lia.
  - destruct plus.
    + destruct (Z.leb_spec 0 (e + k)), (Z.ltb_spec (e + k) n); cbn [andb]; try reflexivity; lia.
    + destruct (Z.leb_spec 0 (e - k)), (Z.ltb_spec (e - k) n); cbn [andb]; try reflexivity; lia.
  - destruct plus.
    + destruct (Z.leb_spec 0 (e + k)), (Z.ltb_spec (e + k) n); cbn [andb]; try reflexivity; lia.
    + destruct (Z.leb_spec 0 (e - k)), (Z.ltb_spec (e - k) n); cbn [andb]; try reflexivity; lia.
  - destruct plus.
    + destruct (Z.leb_spec 0 (e + k)), (Z.ltb_spec (e + k) n); cbn [andb].
      * assert (E : (base + 8 * e + (k * 8) mod 18446744073709551616) mod 18446744073709551616 = base + 8 * (e + k)) by lia.
        rewrite E.
        destruct (Z.ltb_spec (base + 8 * (e + k)) base), (Z.leb_spec (base + 8 * n) (base + 8 * (e + k))); cbn [orb]; try lia.
        f_equal. replace (base + 8 * (e + k) - base) with ((e + k) * 8) by lia. apply Z.div_mul. lia.
      * set (na := (base + 8 * e + (k * 8) mod 18446744073709551616) mod 18446744073709551616).
        destruct (Z.ltb_spec na base), (Z.leb_spec (base + 8 * n) na); cbn [orb]; try reflexivity.
        exfalso. subst na. lia.
      * set (na := (base + 8 * e + (k * 8) mod 18446744073709551616) mod 18446744073709551616).
        destruct (Z.ltb_spec na base), (Z.leb_spec (base + 8 * n) na); cbn [orb]; try reflexivity.
        exfalso. subst na. lia.
      * lia.
    + destruct (Z.leb_spec 0 (e - k)), (Z.ltb_spec (e - k) n); cbn [andb].
      * assert (E : (base + 8 * e - (k * 8) mod 18446744073709551616) mod 18446744073709551616 = base + 8 * (e - k)) by lia.
        rewrite E.
        destruct (Z.ltb_spec (base + 8 * (e - k)) base), (Z.leb_spec (base + 8 * n) (base + 8 * (e - k))); cbn [orb]; try lia.
        f_equal. replace (base + 8 * (e - k) - base) with ((e - k) * 8) by lia. apply Z.div_mul. lia.
      * set (na := (base + 8 * e - (k * 8) mod 18446744073709551616) mod 18446744073709551616).
        destruct (Z.ltb_spec na base), (Z.leb_spec (base + 8 * n) na); cbn [orb]; try reflexivity.
        exfalso. subst na. lia.
      * set (na := (base + 8 * e - (k * 8) mod 18446744073709551616) mod 18446744073709551616).
        destruct (Z.ltb_spec na base), (Z.leb_spec (base + 8 * n) na); cbn [orb]; try reflexivity.
        exfalso. subst na. lia.
      * lia.
Qed.

(* the former wrap witness: p + (2^61 + 1) is now rejected *)
Lemma ptr_arith_huge_rejected_l base n e plus k : max_ptr_offset < k \/ k < - max_ptr_offset ->
  ptr_arith base n e plus k = None.
Proof.
  intros H. unfold ptr_arith.
  destruct (Z.ltb_spec max_ptr_offset k), (Z.ltb_spec k (- max_ptr_offset)); cbn [orb]; try reflexivity; lia.
Qed.
