(* C05 - the copies of the row-major loop that bypass Variable::calculate_flat_index: the `array_dimensions` branch (struct
   member arrays) of ArrayManager::getMultidimensionalArrayElementTyped, setMultidimensionalArrayElement (int64_t and double
   overloads), getMultidimensionalStringArrayElement and setMultidimensionalStringArrayElement (managers/arrays/manager.cpp).
   Each branch is cut out of its function and translated by translators/cxx_pure.py on every run of ./check C05
   (C05/Gen_FlatIndex.v: fn_get_typed_flat, fn_set_int_flat, fn_set_double_flat, fn_get_string_flat, fn_set_string_flat);
   what the branch reads from the rest of the function are three vectors: `indices` (the int64_t subscripts: only their
   number is used), `int_indices` (the same subscripts after Variable::index_to_int) and `var.array_dimensions`.

   Result: each generated branch computes exactly Model.calc_flat (value, which exception) and is free of undefined
   behaviour - under the side conditions of FlatIndexGen.v for the four branches that compute in int, and for every product of
   extents below 2^64 for the read branch, which computes in size_t.  The induction over the loop is FlatIndexGen.loop_generic.
   Further down: StructOperations::get_struct_member_multidim_array_element (fn_member_read_flat) and the read path of float /
   double / quad arrays in the typed evaluator (fn_float_read_flat, with its own induction fr_loop_spec: its loop has no
   product after the last dimension and no test of the number of subscripts). *)
From Coq Require Import ZArith Bool String List Lia ZifyBool.
From Cb Require Import Cxx.Cxx Cxx.CxxLemmas C05.Gen_FlatIndex C05.FlatIndexGen.
From Cb Require C05.Model C05.FlatIndex C05.Lemmas.
Import ListNotations.
Local Open Scope string_scope.
Local Open Scope Z_scope.

(* ------------------------------------------------------------------ how a branch is entered *)
Definition vargs3 (raw dims idxs : list Z) : vecs :=
  [("indices", (TLong, raw)); ("int_indices", (TInt, idxs)); ("var.array_dimensions", (TInt, dims))].
Definition call_copy (f : vfn) (fuel : nat) (raw dims idxs : list Z) : result := run_vec fuel f "" (vargs3 raw dims idxs) [].

Definition expected_member (t : ity) (dims idxs : list Z) : result :=
  match M.calc_flat dims idxs with
  | Some k => RVal (t, k)
  | None => RThrow (if Nat.eqb (List.length idxs) (List.length dims) then "Array index out of bounds in struct member access"
                    else "Dimension mismatch in struct member array access")
  end.

(* the int64_t subscripts: as many as converted ones, each an int64_t *)
Definition raw_ok (raw idxs : list Z) : Prop :=
  List.length raw = List.length idxs /\ Forall (fun z => -9223372036854775808 <= z <= 9223372036854775807) raw.
(* the read branch computes in size_t: the product of the extents only has to fit 64 bits *)
Definition size_max : Z := 18446744073709551615.
Definition extents_ok64 (dims : list Z) : Prop :=
  Forall (fun d => 1 <= d) dims /\ Forall is_int dims /\ M.size dims <= size_max /\ Z.of_nat (List.length dims) <= int_max.

Lemma forallb_long l : Forall (fun z => -9223372036854775808 <= z <= 9223372036854775807) l -> forallb (in_range TLong) l = true.
Proof.
  induction 1 as [|x l Hx _ IH]; [reflexivity|]. cbn [forallb]. rewrite IH, andb_true_r.
  apply in_range_iff; [reflexivity|exact Hx].
Qed.
Lemma bind_vargs3 f raw dims idxs :
  v_vecs f = [("indices", TLong); ("int_indices", TInt); ("var.array_dimensions", TInt)] ->
  Forall is_int dims -> Z.of_nat (List.length dims) <= int_max -> indices_ok idxs -> raw_ok raw idxs ->
  bind_vecs (v_vecs f) (vargs3 raw dims idxs) = Some (vargs3 raw dims idxs).
Proof.
  intros -> Hdi Hr [Hi Hl] [Hrl Hraw]. unfold int_max in Hr.
  cbn -[vec_ok]. rewrite (vec_ok_int idxs Hi Hl), (vec_ok_int dims Hdi) by lia.
  unfold vec_ok. rewrite (forallb_long raw Hraw). unfold vec_len. cbn [tmax andb].
  replace (Z.of_nat (List.length raw) <=? 9223372036854775807) with true by lia. reflexivity.
Qed.

(* two branches with the same text are the same function *)
Lemma call_copy_ext f g fuel raw dims idxs :
  f_body (v_fn f) = f_body (v_fn g) -> f_params (v_fn f) = f_params (v_fn g) -> f_ret (v_fn f) = f_ret (v_fn g) ->
  f_sparam (v_fn f) = f_sparam (v_fn g) -> v_vecs f = v_vecs g ->
  call_copy f fuel raw dims idxs = call_copy g fuel raw dims idxs.
Proof. unfold call_copy, run_vec. intros -> -> -> -> ->. reflexivity. Qed.

(* ================================================================== the branches that compute in int
   (setMultidimensionalArrayElement, int64_t value) *)
Definition si_cond : expr :=
  Eval cbv in match first_while (f_body (v_fn fn_set_int_flat)) with Some (c, _) => c | None => ELit TBool 0 end.
Definition si_body : stmt :=
  Eval cbv in match first_while (f_body (v_fn fn_set_int_flat)) with Some (_, b) => b | None => SSkip end.

Section IntLoop.
Variables (raw dims idxs : list Z) (fuel : nat).
Let ve := vargs3 raw dims idxs.
Let sp : string * string := ("", "").

Lemma si_cond_spec i m f : -1 <= i <= 2147483647 ->
  eval ve sp (st i m f) si_cond = EV (TBool, if 0 <=? i then 1 else 0).
Proof.
  intros Hi. rewrite eval_as_tree. unfold si_cond, ve, vargs3, st. cxx_norm.
  conv_atom i. fold_consts. reflexivity.
Qed.

Hypothesis Hlen : List.length idxs = List.length dims.
Hypothesis Hidx : Forall is_int idxs.
Hypothesis Hext : extents_ok dims.

Lemma si_body_spec n m f : (n < List.length dims)%nat -> 0 <= f <= int_max -> 0 <= m <= int_max ->
  (0 <= nth n idxs 0 < nth n dims 0 ->
   0 <= nth n idxs 0 * m <= int_max /\ 0 <= f + nth n idxs 0 * m <= int_max /\ 0 <= m * nth n dims 0 <= int_max) ->
  exec ve fuel sp TInt (st (Z.of_nat n) m f) si_body =
  if (nth n idxs 0 <? 0) || (nth n dims 0 <=? nth n idxs 0)
  then ODone (RThrow "Array index out of bounds in struct member access")
  else ONext (st (Z.of_nat n - 1) (m * nth n dims 0) (f + nth n idxs 0 * m)).
Proof.
  intros Hn Hf Hm Hb. pose proof (extents_are_ints dims Hext) as Hdi. destruct Hext as (_ & _ & Hrank).
  assert (Ix : is_int (nth n idxs 0)) by (apply Forall_nth_Z; [assumption|lia]).
  assert (Id : is_int (nth n dims 0)) by (apply Forall_nth_Z; assumption).
  remember (nth n idxs 0) as x eqn:Ex. remember (nth n dims 0) as d eqn:Ed. remember (Z.of_nat n) as i eqn:Ei.
  assert (Hx : vec_nth idxs i = x) by (subst i x; apply vec_nth_nat).
  assert (Hd : vec_nth dims i = d) by (subst i d; apply vec_nth_nat).
  assert (Hi1 : 0 <= i < Z.of_nat (List.length dims)) by lia.
  assert (Hi2 : i < Z.of_nat (List.length idxs)) by lia.
  rewrite exec_as_tree. unfold si_body, ve, vargs3, st. cxx_norm. unfold vec_len.
  unfold int_max, is_int in *. conv_atom i. rewrite Hx, Hd.
  conv_atoms i x d m f.
  destruct (x <? 0) eqn:E1; cbv beta iota; cbn [orb]; [decide_tests; reflexivity|].
  destruct (d <=? x) eqn:E2; cbv beta iota; [decide_tests; reflexivity|].
  destruct Hb as (B1 & B2 & B3); [lia|].
  conv_compounds i x d m f. decide_tests. conv_compounds i x d m f. reflexivity.
Qed.

Lemma si_loop_spec : forall n k f m, (n <= List.length dims)%nat ->
  0 <= f < m -> m * M.size (firstn n dims) <= int_max ->
  while_loop ve fuel sp TInt si_cond si_body (S n + k) (st (Z.of_nat n - 1) m f) =
  match M.flat_rev (rev (firstn n dims)) (rev (firstn n idxs)) f m with
  | Some r => ONext (st (-1) (m * M.size (firstn n dims)) r)
  | None => ODone (RThrow "Array index out of bounds in struct member access")
  end.
Proof.
  destruct Hext as (Hpos & Hsize & Hrank). unfold int_max in Hrank.
  apply (loop_generic ve fuel sp TInt si_cond si_body st (fun _ => "Array index out of bounds in struct member access") int_max dims idxs);
    try assumption; [reflexivity|apply si_cond_spec|apply si_body_spec].
Qed.
End IntLoop.

(* the code around the loop; the same script serves every branch whose loop is (si_cond, si_body) *)
Ltac int_branch_is_model Hd Hi Hr Hfuel :=
  let Hpos := fresh "Hpos" in let Hsize := fresh "Hsize" in let Hrank := fresh "Hrank" in
  let Hint := fresh "Hint" in let Hilen := fresh "Hilen" in let Hrl := fresh "Hrl" in let Hraw := fresh "Hraw" in
  pose proof Hd as (Hpos & Hsize & Hrank); pose proof Hi as (Hint & Hilen); pose proof Hr as (Hrl & Hraw); unfold int_max in *;
  unfold call_copy;
  rewrite run_vec_as_tree by (apply bind_vargs3; [reflexivity|apply extents_are_ints; assumption|unfold int_max; lia|assumption|assumption]);
  cxx_vtree; unfold expected_member, M.calc_flat, vec_len; rewrite Hrl;
  match goal with |- context [Nat.eqb (List.length ?dims) (List.length ?idxs)] =>
    let E := fresh "E" in
    destruct (Nat.eqb (List.length dims) (List.length idxs)) eqn:E;
    [ apply Nat.eqb_eq in E; rewrite <- E, Nat.eqb_refl;
      rewrite !(sconv32_id (Z.of_nat (List.length dims))) by (unfold is_int; lia);
      decide_tests;
      rewrite !(sconv32_id (Z.of_nat (List.length dims) - 1)) by (unfold is_int; lia);
      unfold whileK; rewrite exec_while;
      change (SSeq (SBlock _) _) with si_body; change (EBin BGe _ _) with si_cond;
      change [("i", (TInt, Z.of_nat (List.length dims) - 1)); ("multiplier", (TInt, 1)); ("flat_index", (TInt, 0))]
        with (st (Z.of_nat (List.length dims) - 1) 1 0);
      match goal with |- context [while_loop ?ve ?fuel _ _ _ _ _ _] =>
        let Hfu := fresh "Hfu" in let W := fresh "W" in
        assert (Hfu : fuel = (S (List.length dims) + (fuel - S (List.length dims)))%nat) by lia;
        set (W := while_loop ve fuel ("", "") TInt si_cond si_body); rewrite Hfu; subst W;
        match ve with [(_, (_, ?raw)); _; _] =>
          change ve with (vargs3 raw dims idxs);
          rewrite (si_loop_spec raw dims idxs fuel (eq_sym E) Hint Hd) by (rewrite ?firstn_all; unfold int_max; lia)
        end
      end;
      replace (firstn (List.length dims) idxs) with idxs by (rewrite E; symmetry; apply firstn_all);
      rewrite firstn_all;
      match goal with |- context [M.flat_rev ?a ?b 0 1] =>
        let r := fresh "r" in let R := fresh "R" in
        destruct (M.flat_rev a b 0 1) as [r|] eqn:R; [|reflexivity];
        let Hr' := fresh "Hr" in
        assert (Hr' : 0 <= r < M.size dims)
          by (apply (L.flat_index_inside_buffer_l dims idxs); unfold M.calc_flat; rewrite E, Nat.eqb_refl; exact R);
        unfold st; cbv -[Z.add Z.sub Z.mul Z.modulo M.size]; rewrite sconv32_id by (unfold is_int; lia); reflexivity
      end
    | rewrite Nat.eqb_sym, E; apply Nat.eqb_neq in E;
      rewrite !Z.mod_small by lia; decide_tests; reflexivity ]
  end.

Lemma set_int_is_model_l raw dims idxs fuel : extents_ok dims -> indices_ok idxs -> raw_ok raw idxs ->
  (List.length dims < fuel)%nat ->
  call_copy fn_set_int_flat fuel raw dims idxs = expected_member TInt dims idxs.
Proof. intros Hd Hi Hr Hfuel. int_branch_is_model Hd Hi Hr Hfuel. Qed.

(* getMultidimensionalStringArrayElement: the same loop, no diagnostic call after it *)
Lemma get_string_is_model_l raw dims idxs fuel : extents_ok dims -> indices_ok idxs -> raw_ok raw idxs ->
  (List.length dims < fuel)%nat ->
  call_copy fn_get_string_flat fuel raw dims idxs = expected_member TInt dims idxs.
Proof. intros Hd Hi Hr Hfuel. int_branch_is_model Hd Hi Hr Hfuel. Qed.

(* the double overload of setMultidimensionalArrayElement and setMultidimensionalStringArrayElement: word for word the
   branches above *)
Lemma set_double_is_model_l raw dims idxs fuel : extents_ok dims -> indices_ok idxs -> raw_ok raw idxs ->
  (List.length dims < fuel)%nat ->
  call_copy fn_set_double_flat fuel raw dims idxs = expected_member TInt dims idxs.
Proof.
  intros. rewrite (call_copy_ext fn_set_double_flat fn_set_int_flat) by reflexivity. apply set_int_is_model_l; assumption.
Qed.
Lemma set_string_is_model_l raw dims idxs fuel : extents_ok dims -> indices_ok idxs -> raw_ok raw idxs ->
  (List.length dims < fuel)%nat ->
  call_copy fn_set_string_flat fuel raw dims idxs = expected_member TInt dims idxs.
Proof.
  intros. rewrite (call_copy_ext fn_set_string_flat fn_get_string_flat) by reflexivity. apply get_string_is_model_l; assumption.
Qed.

Definition int_copies : list vfn := [fn_set_int_flat; fn_set_double_flat; fn_get_string_flat; fn_set_string_flat].
Lemma int_copies_are_model_l f raw dims idxs fuel : In f int_copies ->
  extents_ok dims -> indices_ok idxs -> raw_ok raw idxs -> (List.length dims < fuel)%nat ->
  call_copy f fuel raw dims idxs = expected_member TInt dims idxs.
Proof.
  intros Hf. unfold int_copies in Hf. cbn [In] in Hf. destruct Hf as [<- | [<- | [<- | [<- | []]]]].
  - apply set_int_is_model_l. - apply set_double_is_model_l. - apply get_string_is_model_l. - apply set_string_is_model_l.
Qed.

(* ================================================================== the branch that computes in size_t
   (getMultidimensionalArrayElementTyped): unsigned arithmetic cannot overflow into undefined behaviour; it is exact - and so
   equal to the model - as long as the product of the extents is below 2^64 *)
Definition gt_cond : expr :=
  Eval cbv in match first_while (f_body (v_fn fn_get_typed_flat)) with Some (c, _) => c | None => ELit TBool 0 end.
Definition gt_body : stmt :=
  Eval cbv in match first_while (f_body (v_fn fn_get_typed_flat)) with Some (_, b) => b | None => SSkip end.
Definition st64 (i m f : Z) : env := [("i", (TInt, i)); ("multiplier", (TULong, m)); ("flat_index", (TULong, f))].

Section SizeLoop.
Variables (raw dims idxs : list Z) (fuel : nat).
Let ve := vargs3 raw dims idxs.
Let sp : string * string := ("", "").

Lemma gt_cond_spec i m f : -1 <= i <= 2147483647 ->
  eval ve sp (st64 i m f) gt_cond = EV (TBool, if 0 <=? i then 1 else 0).
Proof.
  intros Hi. rewrite eval_as_tree. unfold gt_cond, ve, vargs3, st64. cxx_norm.
  conv_atom i. fold_consts. reflexivity.
Qed.

Hypothesis Hlen : List.length idxs = List.length dims.
Hypothesis Hidx : Forall is_int idxs.
Hypothesis Hext : extents_ok64 dims.

Lemma gt_body_spec n m f : (n < List.length dims)%nat -> 0 <= f <= size_max -> 0 <= m <= size_max ->
  (0 <= nth n idxs 0 < nth n dims 0 ->
   0 <= nth n idxs 0 * m <= size_max /\ 0 <= f + nth n idxs 0 * m <= size_max /\ 0 <= m * nth n dims 0 <= size_max) ->
  exec ve fuel sp TULong (st64 (Z.of_nat n) m f) gt_body =
  if (nth n idxs 0 <? 0) || (nth n dims 0 <=? nth n idxs 0)
  then ODone (RThrow "Array index out of bounds in struct member access")
  else ONext (st64 (Z.of_nat n - 1) (m * nth n dims 0) (f + nth n idxs 0 * m)).
Proof.
  intros Hn Hf Hm Hb. destruct Hext as (_ & Hdi & _ & Hrank).
  assert (Ix : is_int (nth n idxs 0)) by (apply Forall_nth_Z; [assumption|lia]).
  assert (Id : is_int (nth n dims 0)) by (apply Forall_nth_Z; assumption).
  remember (nth n idxs 0) as x eqn:Ex. remember (nth n dims 0) as d eqn:Ed. remember (Z.of_nat n) as i eqn:Ei.
  assert (Hx : vec_nth idxs i = x) by (subst i x; apply vec_nth_nat).
  assert (Hd : vec_nth dims i = d) by (subst i d; apply vec_nth_nat).
  assert (Hi1 : 0 <= i < Z.of_nat (List.length dims)) by lia.
  assert (Hi2 : i < Z.of_nat (List.length idxs)) by lia.
  rewrite exec_as_tree. unfold gt_body, ve, vargs3, st64. cxx_norm. unfold vec_len.
  unfold int_max, size_max, is_int in *. conv_atom i. rewrite Hx, Hd.
  conv_atoms i x d m f.
  destruct (x <? 0) eqn:E1; cbv beta iota; cbn [orb]; [decide_tests; reflexivity|].
  destruct (d <=? x) eqn:E2; cbv beta iota; [decide_tests; reflexivity|].
  destruct Hb as (B1 & B2 & B3); [lia|].
  conv_atoms i x d m f. conv_compounds i x d m f. decide_tests. conv_compounds i x d m f. reflexivity.
Qed.

Lemma gt_loop_spec : forall n k f m, (n <= List.length dims)%nat ->
  0 <= f < m -> m * M.size (firstn n dims) <= size_max ->
  while_loop ve fuel sp TULong gt_cond gt_body (S n + k) (st64 (Z.of_nat n - 1) m f) =
  match M.flat_rev (rev (firstn n dims)) (rev (firstn n idxs)) f m with
  | Some r => ONext (st64 (-1) (m * M.size (firstn n dims)) r)
  | None => ODone (RThrow "Array index out of bounds in struct member access")
  end.
Proof.
  destruct Hext as (Hpos & Hdi & Hsize & Hrank). unfold int_max in Hrank.
  apply (loop_generic ve fuel sp TULong gt_cond gt_body st64 (fun _ => "Array index out of bounds in struct member access") size_max dims idxs);
    try assumption; [reflexivity|apply gt_cond_spec|apply gt_body_spec].
Qed.
End SizeLoop.

Lemma get_typed_is_model_l raw dims idxs fuel : extents_ok64 dims -> indices_ok idxs -> raw_ok raw idxs ->
  (List.length dims < fuel)%nat ->
  call_copy fn_get_typed_flat fuel raw dims idxs = expected_member TULong dims idxs.
Proof.
  intros Hd Hi Hr Hfuel.
  pose proof Hd as (Hpos & Hdi & Hsize & Hrank). pose proof Hi as (Hint & Hilen). pose proof Hr as (Hrl & Hraw).
  unfold int_max, size_max in *. unfold call_copy.
  rewrite run_vec_as_tree by (apply bind_vargs3; [reflexivity|assumption|unfold int_max; lia|assumption|assumption]).
  cxx_vtree. unfold expected_member, M.calc_flat, vec_len. rewrite Hrl.
  destruct (Nat.eqb (List.length dims) (List.length idxs)) eqn:E.
  - apply Nat.eqb_eq in E. rewrite <- E, Nat.eqb_refl.
    rewrite !(sconv32_id (Z.of_nat (List.length dims))) by (unfold is_int; lia).
    decide_tests.
    rewrite !(sconv32_id (Z.of_nat (List.length dims) - 1)) by (unfold is_int; lia).
    unfold whileK. rewrite exec_while.
    change (SSeq (SBlock _) _) with gt_body. change (EBin BGe _ _) with gt_cond.
    change [("i", (TInt, Z.of_nat (List.length dims) - 1)); ("multiplier", (TULong, 1)); ("flat_index", (TULong, 0))]
      with (st64 (Z.of_nat (List.length dims) - 1) 1 0).
    change [("indices", (TLong, raw)); ("int_indices", (TInt, idxs)); ("var.array_dimensions", (TInt, dims))] with (vargs3 raw dims idxs).
    assert (Hfu : fuel = (S (List.length dims) + (fuel - S (List.length dims)))%nat) by lia.
    set (W := while_loop (vargs3 raw dims idxs) fuel ("", "") TULong gt_cond gt_body). rewrite Hfu. subst W.
    rewrite (gt_loop_spec raw dims idxs fuel (eq_sym E) Hint Hd) by (rewrite ?firstn_all; unfold size_max; lia).
    replace (firstn (List.length dims) idxs) with idxs by (rewrite E; symmetry; apply firstn_all).
    rewrite firstn_all.
    destruct (M.flat_rev (rev dims) (rev idxs) 0 1) as [r|] eqn:R; [|reflexivity].
    assert (Hr' : 0 <= r < M.size dims).
    { apply (L.flat_index_inside_buffer_l dims idxs). unfold M.calc_flat. rewrite E, Nat.eqb_refl. exact R. }
    unfold st64. cbv -[Z.add Z.sub Z.mul Z.modulo M.size]. rewrite Z.mod_small by lia. reflexivity.
  - rewrite Nat.eqb_sym, E. apply Nat.eqb_neq in E.
    rewrite !Z.mod_small by lia. decide_tests. reflexivity.
Qed.

(* ------------------------------------------------------------------ consequences *)
Lemma int_copies_ub_free_l f raw dims idxs fuel : In f int_copies ->
  extents_ok dims -> indices_ok idxs -> raw_ok raw idxs -> (List.length dims < fuel)%nat ->
  well_defined (call_copy f fuel raw dims idxs).
Proof.
  intros Hf Hd Hi Hr Hfu. rewrite (int_copies_are_model_l f) by assumption. unfold expected_member.
  destruct (M.calc_flat dims idxs) as [k|] eqn:E; cbn [well_defined]; [|exact I].
  apply L.flat_index_inside_buffer_l in E. destruct Hd as (_ & Hs & _). unfold is_int, int_max in *. lia.
Qed.

(* a struct member with 65536 x 65536 cells: the four int branches overflow, the size_t branch does not *)
Lemma int_copies_overflow_refuted_l :
  call_copy fn_set_int_flat 3 [0; 0] [65536; 65536] [0; 0] = RUB ub_mul /\
  call_copy fn_get_typed_flat 3 [0; 0] [65536; 65536] [0; 0] = RVal (TULong, 0).
Proof. split; vm_compute; reflexivity. Qed.

(* ================================================================== StructOperations::get_struct_member_multidim_array_element
   (managers/structs/operations.cpp): the read path of obj.member[i]...[k].  It compares the int64_t subscripts directly (no
   conversion to int), computes in size_t, and names the dimension in the text of the exception. *)
Definition vargs2 (dims idxs : list Z) : vecs :=
  [("indices", (TLong, idxs)); ("member_var->array_dimensions", (TInt, dims))].
Definition call_member_read (fuel : nat) (dims idxs : list Z) : result := run_vec fuel fn_member_read_flat "" (vargs2 dims idxs) [].
Definition expected_member_read (dims idxs : list Z) : result :=
  match M.calc_flat dims idxs with
  | Some k => RVal (TULong, k)
  | None => RThrow (if Nat.eqb (List.length idxs) (List.length dims)
                    then "Array index out of bounds in dimension " ++ dec_string (last_bad_dim dims idxs)
                    else (("Dimension mismatch: expected " ++ dec_string (Z.of_nat (List.length dims))) ++ " dimensions, got ")
                         ++ dec_string (Z.of_nat (List.length idxs)))
  end.
Definition is_int64 (z : Z) : Prop := -9223372036854775808 <= z <= 9223372036854775807.
Definition indices64_ok (idxs : list Z) : Prop := Forall is_int64 idxs /\ Z.of_nat (List.length idxs) <= 9223372036854775807.

Lemma bind_vargs2 dims idxs : Forall is_int dims -> Z.of_nat (List.length dims) <= int_max -> indices64_ok idxs ->
  bind_vecs (v_vecs fn_member_read_flat) (vargs2 dims idxs) = Some (vargs2 dims idxs).
Proof.
  intros Hdi Hr [Hi Hl]. unfold int_max in Hr.
  cbn -[vec_ok]. rewrite (vec_ok_int dims Hdi) by lia.
  unfold vec_ok. rewrite (forallb_long idxs Hi). unfold vec_len. cbn [tmax andb].
  replace (Z.of_nat (List.length idxs) <=? 9223372036854775807) with true by lia. reflexivity.
Qed.

Definition mr_cond : expr :=
  Eval cbv in match first_while (f_body (v_fn fn_member_read_flat)) with Some (c, _) => c | None => ELit TBool 0 end.
Definition mr_body : stmt :=
  Eval cbv in match first_while (f_body (v_fn fn_member_read_flat)) with Some (_, b) => b | None => SSkip end.
Definition st_d (i m f : Z) : env := [("d", (TInt, i)); ("multiplier", (TULong, m)); ("flat_index", (TULong, f))].
Definition mr_msg (i : Z) : string := "Array index out of bounds in dimension " ++ dec_string i.

Section MemberReadLoop.
Variables (dims idxs : list Z) (fuel : nat).
Let ve := vargs2 dims idxs.
Let sp : string * string := ("", "").

Lemma mr_cond_spec i m f : -1 <= i <= 2147483647 ->
  eval ve sp (st_d i m f) mr_cond = EV (TBool, if 0 <=? i then 1 else 0).
Proof.
  intros Hi. rewrite eval_as_tree. unfold mr_cond, ve, vargs2, st_d. cxx_norm.
  conv_atom i. fold_consts. reflexivity.
Qed.

Hypothesis Hlen : List.length idxs = List.length dims.
Hypothesis Hidx : Forall is_int64 idxs.
Hypothesis Hext : extents_ok64 dims.

Lemma mr_body_spec n m f : (n < List.length dims)%nat -> 0 <= f <= size_max -> 0 <= m <= size_max ->
  (0 <= nth n idxs 0 < nth n dims 0 ->
   0 <= nth n idxs 0 * m <= size_max /\ 0 <= f + nth n idxs 0 * m <= size_max /\ 0 <= m * nth n dims 0 <= size_max) ->
  exec ve fuel sp TULong (st_d (Z.of_nat n) m f) mr_body =
  if (nth n idxs 0 <? 0) || (nth n dims 0 <=? nth n idxs 0)
  then ODone (RThrow (mr_msg (Z.of_nat n)))
  else ONext (st_d (Z.of_nat n - 1) (m * nth n dims 0) (f + nth n idxs 0 * m)).
Proof.
  intros Hn Hf Hm Hb. destruct Hext as (_ & Hdi & _ & Hrank).
  assert (Ix : is_int64 (nth n idxs 0)) by (apply Forall_nth_Z; [assumption|lia]).
  assert (Id : is_int (nth n dims 0)) by (apply Forall_nth_Z; assumption).
  remember (nth n idxs 0) as x eqn:Ex. remember (nth n dims 0) as d eqn:Ed. remember (Z.of_nat n) as i eqn:Ei.
  assert (Hx : vec_nth idxs i = x) by (subst i x; apply vec_nth_nat).
  assert (Hd : vec_nth dims i = d) by (subst i d; apply vec_nth_nat).
  assert (Hi1 : 0 <= i < Z.of_nat (List.length dims)) by lia.
  assert (Hi2 : i < Z.of_nat (List.length idxs)) by lia.
  rewrite exec_as_tree. unfold mr_body, mr_msg, ve, vargs2, st_d. cxx_norm. unfold vec_len.
  unfold int_max, size_max, is_int, is_int64 in *. conv_atom i. rewrite Hx, Hd.
  conv_atoms i x d m f.
  destruct (x <? 0) eqn:E1; cbv beta iota; cbn [orb]; [decide_tests; reflexivity|].
  destruct (d <=? x) eqn:E2; cbv beta iota; [decide_tests; reflexivity|].
  destruct Hb as (B1 & B2 & B3); [lia|].
  conv_atoms i x d m f. conv_compounds i x d m f. decide_tests. conv_compounds i x d m f. reflexivity.
Qed.

Lemma mr_loop_spec : forall n k f m, (n <= List.length dims)%nat ->
  0 <= f < m -> m * M.size (firstn n dims) <= size_max ->
  while_loop ve fuel sp TULong mr_cond mr_body (S n + k) (st_d (Z.of_nat n - 1) m f) =
  match M.flat_rev (rev (firstn n dims)) (rev (firstn n idxs)) f m with
  | Some r => ONext (st_d (-1) (m * M.size (firstn n dims)) r)
  | None => ODone (RThrow (mr_msg (bad_rev (rev (firstn n dims)) (rev (firstn n idxs)) (Z.of_nat n - 1))))
  end.
Proof.
  destruct Hext as (Hpos & Hdi & Hsize & Hrank). unfold int_max in Hrank.
  apply (loop_generic ve fuel sp TULong mr_cond mr_body st_d mr_msg size_max dims idxs);
    try assumption; [reflexivity|apply mr_cond_spec|apply mr_body_spec].
Qed.
End MemberReadLoop.

Lemma member_read_is_model_l dims idxs fuel : extents_ok64 dims -> indices64_ok idxs -> (List.length dims < fuel)%nat ->
  call_member_read fuel dims idxs = expected_member_read dims idxs.
Proof.
  intros Hd Hi Hfuel.
  pose proof Hd as (Hpos & Hdi & Hsize & Hrank). pose proof Hi as (Hint & Hilen).
  unfold int_max, size_max in *. unfold call_member_read.
  rewrite run_vec_as_tree by (apply bind_vargs2; [assumption|unfold int_max; lia|assumption]).
  cxx_vtree. unfold expected_member_read, M.calc_flat, vec_len.
  destruct (Nat.eqb (List.length dims) (List.length idxs)) eqn:E.
  - apply Nat.eqb_eq in E. rewrite <- E, Nat.eqb_refl.
    rewrite !(sconv32_id (Z.of_nat (List.length dims))) by (unfold is_int; lia).
    decide_tests.
    rewrite !(sconv32_id (Z.of_nat (List.length dims) - 1)) by (unfold is_int; lia).
    unfold whileK. rewrite exec_while.
    change (SSeq (SBlock _) _) with mr_body. change (EBin BGe _ _) with mr_cond.
    change [("d", (TInt, Z.of_nat (List.length dims) - 1)); ("multiplier", (TULong, 1)); ("flat_index", (TULong, 0))]
      with (st_d (Z.of_nat (List.length dims) - 1) 1 0).
    change [("indices", (TLong, idxs)); ("member_var->array_dimensions", (TInt, dims))] with (vargs2 dims idxs).
    assert (Hfu : fuel = (S (List.length dims) + (fuel - S (List.length dims)))%nat) by lia.
    set (W := while_loop (vargs2 dims idxs) fuel ("", "") TULong mr_cond mr_body). rewrite Hfu. subst W.
    rewrite (mr_loop_spec dims idxs fuel (eq_sym E) Hint Hd) by (rewrite ?firstn_all; unfold size_max; lia).
    replace (firstn (List.length dims) idxs) with idxs by (rewrite E; symmetry; apply firstn_all).
    rewrite firstn_all. fold (last_bad_dim dims idxs).
    destruct (M.flat_rev (rev dims) (rev idxs) 0 1) as [r|] eqn:R; [|reflexivity].
    assert (Hr' : 0 <= r < M.size dims).
    { apply (L.flat_index_inside_buffer_l dims idxs). unfold M.calc_flat. rewrite E, Nat.eqb_refl. exact R. }
    unfold st_d. cbv -[Z.add Z.sub Z.mul Z.modulo M.size]. rewrite Z.mod_small by lia. reflexivity.
  - rewrite Nat.eqb_sym, E. apply Nat.eqb_neq in E.
    rewrite !Z.mod_small by lia. decide_tests. reflexivity.
Qed.

(* ================================================================== the read path of float / double / quad arrays
   (ExpressionEvaluator::evaluate_typed_expression_internal, evaluator/core/evaluator.cpp; since fix 3f94fc1 every index is
   tested against its own dimension inside the loop).  It compares the int64_t subscripts directly, accumulates in int / long,
   multiplies `multiplier` only while d > 0 (no unused last product) and has NO test of the number of subscripts before the
   loop: a subscript beyond the last dimension is rejected by `d >= array_dimensions.size()`, but FEWER subscripts than
   dimensions are accepted and address the row-major cell of the leading dimensions. *)
Definition vargsF (dims idxs : list Z) : vecs :=
  [("indices", (TLong, idxs)); ("var->array_dimensions", (TInt, dims))].
Definition call_float_read (fuel : nat) (dims idxs : list Z) : result :=
  run_vec fuel fn_float_read_flat "" (vargsF dims idxs) [].
Definition fr_msg : string := "Array index out of bounds".
(* what the branch computes for ANY number of subscripts: the model on the leading dimensions *)
Definition expected_float_read (dims idxs : list Z) : result :=
  match M.calc_flat (firstn (List.length idxs) dims) idxs with
  | Some k => RVal (TInt, k)
  | None => RThrow fr_msg
  end.
(* any int64_t subscripts; their number is converted to int *)
Definition indices64_int_ok (idxs : list Z) : Prop := Forall is_int64 idxs /\ Z.of_nat (List.length idxs) <= int_max.

Lemma bind_vargsF dims idxs : Forall is_int dims -> Z.of_nat (List.length dims) <= int_max -> indices64_int_ok idxs ->
  bind_vecs (v_vecs fn_float_read_flat) (vargsF dims idxs) = Some (vargsF dims idxs).
Proof.
  intros Hdi Hr [Hi Hl]. unfold int_max in Hr, Hl.
  cbn -[vec_ok]. rewrite (vec_ok_int dims Hdi) by lia.
  unfold vec_ok. rewrite (forallb_long idxs Hi). unfold vec_len. cbn [tmax andb].
  replace (Z.of_nat (List.length idxs) <=? 9223372036854775807) with true by lia. reflexivity.
Qed.

Definition fr_cond : expr :=
  Eval cbv in match first_while (f_body (v_fn fn_float_read_flat)) with Some (c, _) => c | None => ELit TBool 0 end.
Definition fr_body : stmt :=
  Eval cbv in match first_while (f_body (v_fn fn_float_read_flat)) with Some (_, b) => b | None => SSkip end.
Definition st_f (i m f : Z) : env := [("d", (TInt, i)); ("multiplier", (TInt, m)); ("flat_index", (TInt, f))].

Section FloatReadLoop.
Variables (dims idxs : list Z) (fuel : nat).
Let ve := vargsF dims idxs.
Let sp : string * string := ("", "").

Lemma fr_cond_spec i m f : -1 <= i <= 2147483647 ->
  eval ve sp (st_f i m f) fr_cond = EV (TBool, if 0 <=? i then 1 else 0).
Proof.
  intros Hi. rewrite eval_as_tree. unfold fr_cond, ve, vargsF, st_f. cxx_norm.
  conv_atom i. fold_consts. reflexivity.
Qed.

Hypothesis Hidx : Forall is_int64 idxs.
Hypothesis Hdi : Forall is_int dims.
Hypothesis Hrank : Z.of_nat (List.length dims) <= int_max.
Hypothesis Hilen : Z.of_nat (List.length idxs) <= int_max.

Lemma fr_body_spec n m f : (n < List.length idxs)%nat -> 0 <= f <= int_max -> 0 <= m <= int_max ->
  ((n < List.length dims)%nat -> 0 <= nth n idxs 0 < nth n dims 0 ->
   0 <= nth n idxs 0 * m <= int_max /\ 0 <= f + nth n idxs 0 * m <= int_max /\ 0 <= m * nth n dims 0 <= int_max) ->
  exec ve fuel sp TInt (st_f (Z.of_nat n) m f) fr_body =
  if (Z.of_nat (List.length dims) <=? Z.of_nat n) || ((nth n idxs 0 <? 0) || (nth n dims 0 <=? nth n idxs 0))
  then ODone (RThrow fr_msg)
  else ONext (st_f (Z.of_nat n - 1) (if 0 <? Z.of_nat n then m * nth n dims 0 else m) (f + nth n idxs 0 * m)).
Proof.
  intros Hn Hf Hm Hb.
  assert (Ix : is_int64 (nth n idxs 0)) by (apply Forall_nth_Z; [assumption|lia]).
  remember (nth n idxs 0) as x eqn:Ex. remember (Z.of_nat n) as i eqn:Ei.
  assert (Hx : vec_nth idxs i = x) by (subst i x; apply vec_nth_nat).
  assert (Hi2 : 0 <= i < Z.of_nat (List.length idxs)) by lia.
  assert (Hi3 : i <= 2147483647) by (unfold int_max in Hilen; lia).
  set (L := Z.of_nat (List.length dims)) in *.
  assert (HL : 0 <= L <= 2147483647) by (unfold int_max in Hrank; lia).
  destruct (L <=? i) eqn:EL; cbn [orb].
  - rewrite exec_as_tree. unfold fr_body, ve, vargsF, st_f. cxx_norm. unfold vec_len. fold L.
    conv_atom L. conv_atom i. conv_atom L. decide_tests. reflexivity.
  - assert (Hnd : (n < List.length dims)%nat) by lia. specialize (Hb Hnd).
    assert (Id : is_int (nth n dims 0)) by (apply Forall_nth_Z; assumption).
    remember (nth n dims 0) as d eqn:Ed.
    assert (Hd : vec_nth dims i = d) by (subst i d; apply vec_nth_nat).
    rewrite exec_as_tree. unfold fr_body, fr_msg, ve, vargsF, st_f. cxx_norm. unfold vec_len. fold L.
    unfold int_max, is_int, is_int64 in *.
    conv_atom L. conv_atom i. conv_atom L. rewrite Hx, Hd.
    conv_atoms i x d m f.
    replace (L <=? i) with false by lia. cbv beta iota.
    destruct (x <? 0) eqn:E1; cbv beta iota; cbn [orb]; [decide_tests; reflexivity|].
    destruct (d <=? x) eqn:E2; cbv beta iota; [decide_tests; reflexivity|].
    destruct Hb as (B1 & B2 & B3); [lia|].
    conv_atoms i x d m f. conv_compounds i x d m f.
    destruct (0 <? i) eqn:E3; cbv beta iota.
    + decide_tests. conv_compounds i x d m f. reflexivity.
    + decide_tests. conv_compounds i x d m f. reflexivity.
Qed.

Hypothesis Hpos : Forall (fun d => 1 <= d) dims.

Lemma fr_loop_spec : forall n k f m, (n <= List.length idxs)%nat -> (n <= List.length dims)%nat ->
  0 <= f < m -> m * M.size (firstn n dims) <= int_max ->
  exists m', while_loop ve fuel sp TInt fr_cond fr_body (S n + k) (st_f (Z.of_nat n - 1) m f) =
  match M.flat_rev (rev (firstn n dims)) (rev (firstn n idxs)) f m with
  | Some r => ONext (st_f (-1) m' r)
  | None => ODone (RThrow fr_msg)
  end.
Proof.
  induction n as [|n IH]; intros k f m Hni Hnd Hf Hm.
  - exists m. cbn [firstn rev M.flat_rev Nat.add]. rewrite while_loop_S, fr_cond_spec by lia.
    cbn [lift nonzero Z.of_nat Z.sub Z.opp Z.add Z.leb Z.compare]. reflexivity.
  - pose proof (size_firstn_pos dims n Hpos) as P.
    assert (Hnd' : (n < List.length dims)%nat) by lia. assert (Hni' : (n < List.length idxs)%nat) by lia.
    rewrite (firstn_snoc 0 dims n Hnd'), (firstn_snoc 0 idxs n Hni'), !rev_unit in *.
    pose proof (fr_body_spec n m f Hni') as Hbody.
    set (d := nth n dims 0) in *. set (x := nth n idxs 0) in *.
    assert (Hd1 : 1 <= d) by (apply (Forall_nth_Z (fun d => 1 <= d)); assumption).
    rewrite F.size_app in Hm. cbn [M.size] in Hm.
    replace (Z.of_nat (S n) - 1) with (Z.of_nat n) by lia.
    change (S (S n) + k)%nat with (S (S n + k)). rewrite while_loop_S, fr_cond_spec by (unfold int_max in *; lia).
    replace (0 <=? Z.of_nat n) with true by lia. cbn [lift nonzero].
    assert (Hmd : m * d <= int_max).
    { assert (m * d * 1 <= m * d * M.size (firstn n dims)) by (apply Z.mul_le_mono_nonneg_l; nia). lia. }
    assert (Hdm : d <= m * d) by nia. assert (Hmm : m <= m * d) by nia.
    assert (Hstep : 0 <= x < d -> 0 <= x * m /\ x * m <= m * d - m) by (intros; split; nia).
    rewrite Hbody by (try lia; intros _ Hx; specialize (Hstep Hx); lia).
    replace (Z.of_nat (List.length dims) <=? Z.of_nat n) with false by lia. cbn [orb M.flat_rev].
    destruct ((x <? 0) || (d <=? x)) eqn:E; [exists m; reflexivity|].
    apply orb_false_iff in E as [E1 E2].
    specialize (Hstep ltac:(lia)).
    destruct (0 <? Z.of_nat n) eqn:E3.
    + destruct (IH k (f + x * m) (m * d)) as [m' IHm]; try lia; try nia.
      exists m'. change (leave (st_f (Z.of_nat n) m f) (st_f (Z.of_nat n - 1) (m * d) (f + x * m))) with (st_f (Z.of_nat n - 1) (m * d) (f + x * m)).
      exact IHm.
    + assert (n = 0)%nat by lia. subst n. exists m.
      change (leave (st_f (Z.of_nat 0) m f) (st_f (Z.of_nat 0 - 1) m (f + x * m))) with (st_f (Z.of_nat 0 - 1) m (f + x * m)).
      cbn [firstn rev M.flat_rev Nat.add]. rewrite while_loop_S, fr_cond_spec by (cbn; lia).
      reflexivity.
Qed.
End FloatReadLoop.

Lemma size_firstn_le dims n : Forall (fun d => 1 <= d) dims -> M.size (firstn n dims) <= M.size dims.
Proof.
  intros H. rewrite <- (firstn_skipn n dims) at 2. rewrite F.size_app.
  pose proof (size_firstn_pos dims n H) as P1.
  assert (P2 : 1 <= M.size (skipn n dims)).
  { assert (Hs : Forall (fun d => 1 <= d) (skipn n dims)).
    { rewrite Forall_forall in *. intros d Hin. apply H. rewrite <- (firstn_skipn n dims). apply in_or_app. right. exact Hin. }
    pose proof (size_firstn_pos (skipn n dims) (List.length (skipn n dims)) Hs) as P. rewrite firstn_all in P. exact P. }
  nia.
Qed.

(* the whole branch, for ANY number of int64_t subscripts *)
Lemma float_read_is_model_l dims idxs fuel : extents_ok dims -> indices64_int_ok idxs -> (List.length idxs < fuel)%nat ->
  call_float_read fuel dims idxs = expected_float_read dims idxs.
Proof.
  intros Hd Hi Hfuel.
  pose proof Hd as (Hpos & Hsize & Hrank). pose proof Hi as (Hint & Hilen).
  pose proof (extents_are_ints dims Hd) as Hdi.
  unfold call_float_read.
  rewrite run_vec_as_tree by (apply bind_vargsF; assumption).
  cxx_vtree. unfold expected_float_read, M.calc_flat, vec_len.
  match goal with |- context [("d", (TInt, ?e))] =>
    assert (Hd0 : e = Z.of_nat (List.length idxs) - 1);
    [ destruct (List.length idxs) as [|n'] eqn:En; [reflexivity|];
      unfold int_max in Hilen; rewrite (Z.mod_small (Z.of_nat (S n'))) by lia; fold_consts;
      rewrite (Z.mod_small (Z.of_nat (S n') - 1)) by lia; rewrite !sconv32_id by (unfold is_int; lia); reflexivity
    | rewrite Hd0; clear Hd0 ]
  end.
  fold_consts. unfold whileK. rewrite exec_while.
  change (SSeq (SBlock _) _) with fr_body. change (EBin BGe _ _) with fr_cond.
  change [("d", (TInt, Z.of_nat (List.length idxs) - 1)); ("multiplier", (TInt, 1)); ("flat_index", (TInt, 0))]
    with (st_f (Z.of_nat (List.length idxs) - 1) 1 0).
  change [("indices", (TLong, idxs)); ("var->array_dimensions", (TInt, dims))] with (vargsF dims idxs).
  assert (Hfu : fuel = (S (List.length idxs) + (fuel - S (List.length idxs)))%nat) by lia.
  set (W := while_loop (vargsF dims idxs) fuel ("", "") TInt fr_cond fr_body). rewrite Hfu. subst W.
  destruct (Nat.leb (List.length idxs) (List.length dims)) eqn:E.
  - apply Nat.leb_le in E.
    destruct (fr_loop_spec dims idxs fuel Hint Hdi Hrank Hilen Hpos (List.length idxs) (fuel - S (List.length idxs)) 0 1) as [m' Hl];
      [lia|exact E|lia| |].
    { pose proof (size_firstn_le dims (List.length idxs) Hpos). lia. }
    rewrite Hl, firstn_all. rewrite firstn_length_le by exact E. rewrite Nat.eqb_refl.
    destruct (M.flat_rev (rev (firstn (List.length idxs) dims)) (rev idxs) 0 1) as [r|] eqn:R; [|reflexivity].
    assert (Hr' : 0 <= r < M.size (firstn (List.length idxs) dims)).
    { apply (L.flat_index_inside_buffer_l _ idxs). unfold M.calc_flat. rewrite firstn_length_le by exact E. rewrite Nat.eqb_refl. exact R. }
    pose proof (size_firstn_le dims (List.length idxs) Hpos). unfold int_max in *.
    unfold st_f. cbv -[Z.add Z.sub Z.mul Z.modulo M.size]. rewrite sconv32_id by (unfold is_int; lia). reflexivity.
  - apply Nat.leb_gt in E.
    destruct (List.length idxs) as [|n] eqn:En; [lia|].
    rewrite firstn_all2 by lia.
    replace (Nat.eqb (List.length dims) (S n)) with false by (symmetry; apply Nat.eqb_neq; lia).
    cbn [Nat.add]. rewrite while_loop_S.
    replace (Z.of_nat (S n) - 1) with (Z.of_nat n) by lia.
    rewrite fr_cond_spec by (unfold int_max in *; lia).
    replace (0 <=? Z.of_nat n) with true by lia. cbn [lift nonzero].
    rewrite (fr_body_spec dims idxs fuel Hint Hdi Hrank) by (rewrite ?En; unfold int_max in *; lia).
    replace (Z.of_nat (List.length dims) <=? Z.of_nat n) with true by lia. reflexivity.
Qed.

(* at least as many subscripts as dimensions (what the type checker guarantees for an element read): the model itself *)
Definition expected_float_read_full (dims idxs : list Z) : result :=
  match M.calc_flat dims idxs with Some k => RVal (TInt, k) | None => RThrow fr_msg end.
Lemma float_read_full_rank_is_model_l dims idxs fuel : extents_ok dims -> indices64_int_ok idxs -> (List.length idxs < fuel)%nat ->
  (List.length dims <= List.length idxs)%nat ->
  call_float_read fuel dims idxs = expected_float_read_full dims idxs.
Proof.
  intros Hd Hi Hf Hl. rewrite float_read_is_model_l by assumption. unfold expected_float_read, expected_float_read_full.
  rewrite firstn_all2 by exact Hl. reflexivity.
Qed.

Lemma float_read_ub_free_l dims idxs fuel : extents_ok dims -> indices64_int_ok idxs -> (List.length idxs < fuel)%nat ->
  well_defined (call_float_read fuel dims idxs).
Proof.
  intros Hd Hi Hf. rewrite float_read_is_model_l by assumption. unfold expected_float_read.
  destruct (M.calc_flat _ idxs) as [k|] eqn:E; cbn [well_defined]; [|exact I].
  apply L.flat_index_inside_buffer_l in E. destruct Hd as (Hp & Hs & _).
  pose proof (size_firstn_le dims (List.length idxs) Hp). unfold is_int, int_max in *. lia.
Qed.

(* accepted iff every index is inside its dimension - given as many subscripts as dimensions *)
Lemma float_read_accepts_iff_l dims idxs fuel k : extents_ok dims -> indices64_int_ok idxs -> (List.length idxs < fuel)%nat ->
  (List.length dims <= List.length idxs)%nat ->
  (call_float_read fuel dims idxs = RVal (TInt, k) <-> F.in_range dims idxs /\ k = F.row_major dims idxs).
Proof.
  intros Hd Hi Hf Hl. rewrite float_read_full_rank_is_model_l by assumption. unfold expected_float_read_full.
  rewrite <- F.calc_flat_some_iff_l. destruct (M.calc_flat dims idxs) as [r|].
  - split; intros H; [injection H as ->; reflexivity|injection H as ->; reflexivity].
  - split; discriminate.
Qed.

(* the witness of the repaired finding C05-float-array-read-no-per-dimension-check (fix 3f94fc1): double[2][3] m; m[0][3] is
   rejected now, m[1][0] is cell 3, m[1][-1] is rejected *)
Lemma float_read_former_witness_rejected_l :
  call_float_read 3 [2; 3] [0; 3] = RThrow fr_msg /\ call_float_read 3 [2; 3] [1; 0] = RVal (TInt, 3) /\
  call_float_read 3 [2; 3] [1; -1] = RThrow fr_msg.
Proof. repeat split; vm_compute; reflexivity. Qed.

(* what is still missing: the number of subscripts is not compared with the number of dimensions.  Two subscripts on extents
   (2, 3, 2) - no element of the array - are accepted and yield cell 3 = the cell of (0, 1, 1) (known finding
   C05-float-array-read-fewer-subscripts-accepted: double[2][3][2] m; m[0][1][1] = 7.5; println(m[1][0]) prints 7.5) *)
Lemma float_read_fewer_subscripts_refuted_l :
  exists dims idxs, (List.length idxs < List.length dims)%nat /\ M.calc_flat dims idxs = None /\
    call_float_read 3 dims idxs = RVal (TInt, F.row_major dims [0; 1; 1]).
Proof. exists [2; 3; 2], [1; 0]. split; [cbn; lia|]. split; vm_compute; reflexivity. Qed.
