(* Extraction of the C05 model to OCaml (ExtrOcamlBasic + ExtrOcamlString only; Z stays inductive). *)
From Coq Require Import Extraction ExtrOcamlBasic ExtrOcamlString ZArith.
From Cb Require Import C05.Model.
Extraction Language OCaml.
Extraction "C05/c05_model.ml" calc_flat narrow32 index_to_int all_to_int resolve ptr_arith step run_plain run_checked classify
  builtin_get size Z.add Z.mul Z.sub Z.div Z.modulo Z.ltb Z.eqb Z.opp.
