(* C05 - Mech model of the array index checks of the Cb interpreter, site by site.
   Integers are [Z]; the conversions the C++ performs are explicit:
     [index_to_int] = Variable::index_to_int (fix ff8053c): an index that does not fit an int is an error
     [narrow32]     = static_cast<int>(int64_t) (two's complement truncation; only the leaf driver still uses it)
     [wrap64]       = uintptr_t / size_t arithmetic (modulo 2^64).
   Everything is total and computable; the extracted code is run against the repository's own
   Variable::calculate_flat_index (leaf driver) and against `main` (generated programs) by
   harness/props/c05.py on every run. No proofs in this file. *)
From Coq Require Import List ZArith Bool.
Import ListNotations.
Local Open Scope Z_scope.

(* ---------- integer conversions ---------- *)
Definition two31 : Z := 2147483648.
Definition two32 : Z := 4294967296.
Definition two64 : Z := 18446744073709551616.
Definition narrow32 (z : Z) : Z := (z + two31) mod two32 - two31.
Definition wrap64 (z : Z) : Z := z mod two64.
(* core/interpreter.h:394 Variable::index_to_int: throw "Array index out of bounds" unless INT32_MIN <= i <= INT32_MAX *)
Definition index_to_int (i : Z) : option Z := if (i <? - two31) || (two31 <=? i) then None else Some i.
Fixpoint all_to_int (idxs : list Z) : option (list Z) :=
  match idxs with
  | [] => Some []
  | i :: r => match index_to_int i, all_to_int r with
              | Some i', Some r' => Some (i' :: r')
              | _, _ => None
              end
  end.
(* INT64_MAX / 16: the guard of fix 2bd3a28 in binary_unary.cpp:290 *)
Definition max_ptr_offset : Z := 576460752303423487.

(* ---------- src/backend/interpreter/core/interpreter.h:393 Variable::calculate_flat_index ----------
   The loop runs from the last dimension to the first with the accumulators (flat_index,
   multiplier); [flat_rev] is that loop over the reversed lists. The same loop (same test, same
   accumulators) is repeated verbatim in managers/arrays/manager.cpp:1347/1467 (array_dimensions
   branch of get/setMultidimensionalArrayElement) and managers/structs/operations.cpp:759. *)
Fixpoint flat_rev (dims idxs : list Z) (flat mult : Z) : option Z :=
  match dims, idxs with
  | [], [] => Some flat
  | d :: ds, i :: is_ =>
      if (i <? 0) || (d <=? i) then None                          (* throw "Array index out of bounds" *)
      else flat_rev ds is_ (flat + i * mult) (mult * d)
  | _, _ => None
  end.

Definition calc_flat (dims idxs : list Z) : option Z :=
  if Nat.eqb (List.length dims) (List.length idxs)                (* else throw "Dimension mismatch" *)
  then flat_rev (rev dims) (rev idxs) 0 1 else None.

Fixpoint size (dims : list Z) : Z := match dims with [] => 1 | d :: ds => d * size ds end.

(* ---------- which array, which direction ---------- *)
Inductive akind := ANamed      (* local / global / parameter arrays: same code paths *)
                 | AMember.    (* array member of a struct variable: obj.member[...] *)
Inductive rw := Rd | Wr.
Inductive eclass := EBounds    (* message contains "bounds": classified IndexOutOfBoundsError *)
                  | EOther.    (* any other runtime_error text: CheckedError / Custom *)

(* Does this site pass the int64 index through Variable::index_to_int before testing it?
   ANamed 1-D read : no  - access/array.cpp:778 (flat_index int64), services/expression_service.cpp:88
   ANamed 1-D write: yes - executors/assignments/simple_assignment.cpp:798, operators/assignment.cpp:152
   ANamed N-D      : yes - managers/arrays/manager.cpp:1343 / 1461 (int_indices)
   AMember 1-D     : yes - access/array.cpp:216, simple_assignment.cpp:662, executors/statement_executor.cpp:440
   AMember N-D read: no  - managers/structs/operations.cpp:760 (int64 compare; any rank: access/array.cpp:71 walks the subscript chain)
   AMember N-D write: yes - manager.cpp:1461
   (before ff8053c these sites truncated with static_cast<int>) *)
Definition narrows (ak : akind) (rank1 : bool) (m : rw) : bool :=
  match ak, rank1, m with
  | ANamed, true, Rd => false
  | AMember, false, Rd => false
  | _, _, _ => true
  end.
Definition conv (b : bool) (i : Z) : option Z := if b then index_to_int i else Some i.
Definition conv_all (b : bool) (idxs : list Z) : option (list Z) := if b then all_to_int idxs else Some idxs.

(* Index resolution of one element access: flat cell or the class of the runtime error.
   [stor] is the length of the value vector (array_values / multidim_array_values); every N-D site
   re-tests the flat index against it after the per-dimension loop. *)
Definition resolve (ak : akind) (m : rw) (dims : list Z) (stor : Z) (idxs : list Z) : Z + eclass :=
  (* AMember 1-D read: get_struct_member_array_element (and index_to_int, inside the same try) throws,
     array.cpp:217 catches and rethrows "Member array element not found: s.d[i]" (no "bounds") *)
  let cls1 := match ak, m with AMember, Rd => EOther | _, _ => EBounds end in
  match dims with
  | [n] =>
      match idxs with
      | [i] =>
          match conv (narrows ak true m) i with
          | None => inr cls1
          | Some i' => if (i' <? 0) || (n <=? i') then inr cls1 else inl i'
          end
      | _ => inr EOther
      end
  | _ =>
          match conv_all (narrows ak false m) idxs with
          | None => inr EBounds                                    (* index_to_int, before the rank test *)
          | Some idxs' =>
              if negb (Nat.eqb (List.length dims) (List.length idxs')) then inr EOther else
              match calc_flat dims idxs' with
              | Some f => if f <? stor then inl f else inr EBounds
              | None => inr EBounds
              end
          end
  end.

(* ---------- pointers into an array (core/pointer_metadata.cpp, operators/binary_unary.cpp:273) ----------
   A pointer made by &a[i] carries element_index, address = base + 8*element_index and the
   range [array_start_addr, array_end_addr) = [base, base + 8*array_size). *)
Definition ptr_arith (base n e : Z) (plus : bool) (k : Z) : option Z :=
  if (max_ptr_offset <? k) || (k <? - max_ptr_offset) then None else      (* fix 2bd3a28: offset * 8 must not wrap *)
  let addr := base + 8 * e in
  let new_addr := if plus then wrap64 (addr + wrap64 (k * 8)) else wrap64 (addr - wrap64 (k * 8)) in
  if (new_addr <? base) || (base + 8 * n <=? new_addr) then None   (* "Pointer arithmetic out of array bounds" *)
  else Some ((new_addr - base) / 8).                               (* new_meta->element_index *)

(* ---------- the array machine ---------- *)
Record st := mkst { cells : list Z; ptr : option Z }.
Inductive res := RVal (v : Z) | RUnit | RErr (e : eclass).

Inductive op :=
| ORead (idxs : list Z)                 (* a[i]...[k] as an rvalue *)
| OWrite (idxs : list Z) (v : Z)        (* a[i]...[k] = v; *)
| OAddr (idxs : list Z)                 (* p = &a[i]...[k];      access/address_ops.cpp:132 *)
| OPtrAdd (k : Z)                       (* p = p + k;            binary_unary.cpp:273 *)
| OPtrSub (k : Z)                       (* p = p - k; *)
| OPtrInc                               (* p++;                  operators/incdec.cpp:219 *)
| OPtrDec                               (* p--; *)
| OPtrRead (k : Z)                      (* p[k]                  access/array.cpp:324 *)
| OPtrWrite (k v : Z)                   (* p[k] = v;             simple_assignment.cpp:797 + core/interpreter.cpp:1705 *)
| ODeref                                (* *p                    pointer_metadata.cpp:94 *)
| ODerefWrite (v : Z)                   (* *p = v;               pointer_metadata.cpp:137 *)
| ODerefAdd (k : Z).                    (* *(p + k) : temporary pointer, p itself unchanged *)

Definition getc (k : Z) (l : list Z) : Z := nth (Z.to_nat k) l 0.
Fixpoint upd_nat (k : nat) (v : Z) (l : list Z) : list Z :=
  match l, k with
  | [], _ => []
  | _ :: r, O => v :: r
  | x :: r, S k' => x :: upd_nat k' v r
  end.
Definition upd (k v : Z) (l : list Z) : list Z := upd_nat (Z.to_nat k) v l.

Definition zlen (l : list Z) : Z := Z.of_nat (List.length l).
(* p[k] tests against the vector that holds the cells: multidim_array_values for N-D arrays, array_values
   otherwise (access/array.cpp:451, core/interpreter.cpp:1783) - one cell per tuple either way *)

Definition step (ak : akind) (dims : list Z) (base : Z) (s : st) (o : op) : st * res :=
  let n := size dims in
  match o with
  | ORead idxs =>
      match resolve ak Rd dims (zlen (cells s)) idxs with
      | inl f => (s, RVal (getc f (cells s)))
      | inr e => (s, RErr e)
      end
  | OWrite idxs v =>
      match resolve ak Wr dims (zlen (cells s)) idxs with
      | inl f => (mkst (upd f v (cells s)) (ptr s), RUnit)
      | inr e => (s, RErr e)
      end
  | OAddr idxs =>
      match dims with
      | [d] =>                                   (* address_ops.cpp:189: int64 test against array_size *)
          match idxs with
          | [i] => if (i <? 0) || (d <=? i) then (s, RErr EBounds) else (mkst (cells s) (Some i), RUnit)
          | _ => (s, RErr EOther)
          end
      | _ =>                                     (* address_ops.cpp:170: index_to_int each + calculate_flat_index *)
          match all_to_int idxs with
          | None => (s, RErr EBounds)
          | Some idxs' =>
              match calc_flat dims idxs' with
              | Some f => (mkst (cells s) (Some f), RUnit)
              | None => (s, RErr EBounds)
              end
          end
      end
  | OPtrAdd k =>
      match ptr s with
      | Some e => match ptr_arith base n e true k with
                  | Some e' => (mkst (cells s) (Some e'), RUnit)
                  | None => (s, RErr EBounds)
                  end
      | None => (s, RErr EOther)
      end
  | OPtrSub k =>
      match ptr s with
      | Some e => match ptr_arith base n e false k with
                  | Some e' => (mkst (cells s) (Some e'), RUnit)
                  | None => (s, RErr EBounds)
                  end
      | None => (s, RErr EOther)
      end
  | OPtrInc =>
      match ptr s with
      | Some e => if n <=? e + 1 then (s, RErr EBounds)           (* "Pointer increment/decrement out of array bounds" *)
                  else (mkst (cells s) (Some (e + 1)), RUnit)
      | None => (s, RErr EOther)
      end
  | OPtrDec =>
      match ptr s with
      | Some e => if e =? 0 then (s, RErr EOther)                 (* "Pointer decrement resulted in negative index" *)
                  else if n <=? e - 1 then (s, RErr EBounds)
                  else (mkst (cells s) (Some (e - 1)), RUnit)
      | None => (s, RErr EOther)
      end
  | OPtrRead k =>
      match ptr s with
      | Some e => let eff := e + k in                             (* meta->element_index + index, int64 *)
                  if (eff <? 0) || (n <=? eff) then (s, RErr EBounds)
                  else (s, RVal (getc eff (cells s)))
      | None => (s, RErr EOther)
      end
  | OPtrWrite k v =>
      match ptr s with
      | Some e => match index_to_int k with                       (* int index = Variable::index_to_int(index_value) *)
                  | None => (s, RErr EBounds)
                  | Some k' =>
                      let eff := e + k' in
                      if (eff <? 0) || (n <=? eff) then (s, RErr EBounds)
                      else (mkst (upd eff v (cells s)) (ptr s), RUnit)
                  end
      | None => (s, RErr EOther)
      end
  | ODeref =>
      match ptr s with
      | Some e => if n <=? e then (s, RErr EBounds) else (s, RVal (getc e (cells s)))
      | None => (s, RErr EOther)
      end
  | ODerefWrite v =>
      match ptr s with
      | Some e => if n <=? e then (s, RErr EBounds) else (mkst (upd e v (cells s)) (ptr s), RUnit)
      | None => (s, RErr EOther)
      end
  | ODerefAdd k =>
      match ptr s with
      | Some e => match ptr_arith base n e true k with
                  | Some e' => if n <=? e' then (s, RErr EBounds) else (s, RVal (getc e' (cells s)))
                  | None => (s, RErr EBounds)
                  end
      | None => (s, RErr EOther)
      end
  end.

(* A program without `checked`: the first rejected access ends the run (exit status 1). *)
Fixpoint run_plain (ak : akind) (dims : list Z) (base : Z) (ops : list op) (s : st) : list res * st :=
  match ops with
  | [] => ([], s)
  | o :: os =>
      let (s', r) := step ak dims base s o in
      match r with
      | RErr _ => ([r], s')
      | _ => let (rs, s'') := run_plain ak dims base os s' in (r :: rs, s'')
      end
  end.

(* Every access wrapped in `checked`/`try` (operators/error_handling.cpp:140-162): the runtime_error
   is caught and turned into an Err value, the run goes on. *)
Fixpoint run_checked (ak : akind) (dims : list Z) (base : Z) (ops : list op) (s : st) : list res * st :=
  match ops with
  | [] => ([], s)
  | o :: os =>
      let (s', r) := step ak dims base s o in
      let (rs, s'') := run_checked ak dims base os s' in (r :: rs, s'')
  end.

(* error_handling.cpp:29 classify_runtime_error, restricted to the two classes the array paths
   produce; is_checked selects the fallback variant. *)
Inductive variant := VIndexOutOfBounds | VChecked | VCustom.
Definition classify (e : eclass) (is_checked : bool) : variant :=
  match e with
  | EBounds => VIndexOutOfBounds
  | EOther => if is_checked then VChecked else VCustom
  end.

(* ---------- functions/call_impl.cpp:2906 array_get_int / 2934 array_set_int ----------
   Raw memory behind a malloc/new pointer; no extent is known to the interpreter. The only tests
   are ptr == 0 and index < 0, and neither raises: a message goes to stderr and 0 is returned. *)
Definition builtin_get (heap : Z -> Z) (index : Z) : res :=
  if index <? 0 then RVal 0 else RVal (heap index).
Definition builtin_set (heap : Z -> Z) (index v : Z) : (Z -> Z) * res :=
  if index <? 0 then (heap, RVal 0) else ((fun j => if j =? index then v else heap j), RVal 0).
