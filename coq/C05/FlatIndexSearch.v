(* C05 - support for harness/props/c05.py, no theorems: when an obligation about C05/Gen_FlatIndex.v no longer checks, the
   harness evaluates the GENERATED function (vm_compute, Cxx/Cxx.v semantics) on the small shapes the check enumerates
   anyway (ranks 1-3, extents 1..5, indices in [-2, extent+2]), on indices at the int boundaries and on rank mismatches, and
   lists the inputs on which it deviates from the hand-written model Model.calc_flat (or reaches undefined behaviour).
   Depends only on Cxx.v, the generated file and Model.v - not on the proofs, which are broken when this is needed. *)
From Coq Require Import ZArith Bool String List.
From Cb Require Import Cxx.Cxx C05.Gen_FlatIndex.
From Cb Require C05.Model.
Import ListNotations.
Local Open Scope string_scope.
Local Open Scope Z_scope.

(* the vector called "indices" gets the indices, every other vector the function reads gets the extents *)
Definition vargs_of (f : vfn) (dims idxs : list Z) : vecs :=
  map (fun p => (fst p, (snd p, if String.eqb (fst p) "indices" then idxs else dims))) (v_vecs f).
Definition gen_call_of (f : vfn) (dims idxs : list Z) : result :=
  run_vec (S (List.length dims)) f "" (vargs_of f dims idxs) [].
Definition model_call_of (oob mismatch : string) (dims idxs : list Z) : result :=
  match Model.calc_flat dims idxs with
  | Some k => RVal (TInt, k)
  | None => RThrow (if Nat.eqb (List.length idxs) (List.length dims) then oob else mismatch)
  end.
Definition gen_call := gen_call_of fn_calculate_flat_index.
Definition model_call := model_call_of "Array index out of bounds" "Dimension mismatch in array access".
(* the copies of the loop in ArrayManager / StructOperations (`...array_dimensions` = extents; `indices` and `int_indices` = the
   indices) *)
Definition is_dims (x : string) : bool :=
  String.eqb x "var.array_dimensions" || String.eqb x "member_var->array_dimensions" || String.eqb x "var->array_dimensions".
Definition vargs_copy (f : vfn) (dims idxs : list Z) : vecs :=
  map (fun p => (fst p, (snd p, if is_dims (fst p) then dims else idxs))) (v_vecs f).
Definition copy_call (f : vfn) (dims idxs : list Z) : result :=
  run_vec (S (List.length dims)) f "" (vargs_copy f dims idxs) [].
Definition copy_model := model_call_of "Array index out of bounds in struct member access" "Dimension mismatch in struct member array access".
Definition copies : list (string * vfn) :=
  [("get_typed", fn_get_typed_flat); ("set_int", fn_set_int_flat); ("set_double", fn_set_double_flat);
   ("get_string", fn_get_string_flat); ("set_string", fn_set_string_flat); ("member_read", fn_member_read_flat);
   ("float_read", fn_float_read_flat)].
(* the float / double / quad read path (evaluator.cpp) has no test of the number of subscripts and one text for every
   rejection: compared with the model on the leading dimensions (Properties_C05_cxx.generated_float_read_any_rank_is_model;
   fewer subscripts than dimensions = known finding C05-float-array-read-fewer-subscripts-accepted, not listed again); its loop
   runs over the subscripts *)
Definition float_call (dims idxs : list Z) : result :=
  run_vec (S (List.length idxs)) fn_float_read_flat "" (vargs_copy fn_float_read_flat dims idxs) [].
Definition float_model (dims idxs : list Z) : result :=
  match Model.calc_flat (firstn (List.length idxs) dims) idxs with
  | Some k => RVal (TInt, k)
  | None => RThrow "Array index out of bounds"
  end.
(* StructOperations names the dimension in its messages: only value / rejection are compared there *)
Definition no_text (r : result) : result := match r with RThrow _ => RThrow "" | r => r end.

(* (tag, value, text): 0 value, 1 exception, 2 undefined behaviour, 3 fell off the end, 4 stuck, 5 other, 8 out of fuel *)
Definition show (r : result) : Z * Z * string :=
  match r with
  | RVal (_, z) => (0, z, "") | RThrow m => (1, 0, m) | RUB w => (2, 0, w) | RFallOff => (3, 0, "") | RStuck w => (4, 0, w)
  | RNoFuel => (8, 0, "") | _ => (5, 0, "")
  end.
Definition same (a b : result) : bool :=
  let '(t1, z1, m1) := show a in let '(t2, z2, m2) := show b in (t1 =? t2) && (z1 =? z2) && String.eqb m1 m2.

Fixpoint upto (lo : Z) (n : nat) : list Z := match n with O => [] | S k => lo :: upto (lo + 1) k end.
Fixpoint product (ls : list (list Z)) : list (list Z) :=
  match ls with
  | [] => [[]]
  | l :: r => flat_map (fun x => map (cons x) (product r)) l
  end.
Definition shapes (maxrank maxext : nat) : list (list Z) :=
  flat_map (fun r => product (repeat (upto 1 maxext) r)) (seq 1 maxrank).
Definition tuples_around (dims : list Z) : list (list Z) :=
  product (map (fun d => upto (-2) (Z.to_nat (d + 5))) dims).
Fixpoint set_nth (n : nat) (v : Z) (l : list Z) : list Z :=
  match l, n with [], _ => [] | _ :: r, O => v :: r | x :: r, S k => x :: set_nth k v r end.
Definition boundary : list Z := [-2147483648; -2147483647; 2147483646; 2147483647].
Definition boundary_tuples (dims : list Z) : list (list Z) :=
  let top := map (fun d => d - 1) dims in
  flat_map (fun p => map (fun b => set_nth p b top) boundary) (seq 0 (List.length dims)).
Definition mismatch_tuples (dims : list Z) : list (list Z) :=
  let zero := map (fun _ => 0) dims in [tl zero; 0 :: zero; []].

Definition cases_of (dims : list Z) : list (list Z) := tuples_around dims ++ boundary_tuples dims ++ mismatch_tuples dims.

(* the first n deviations, smallest shapes first: (extents, indices, generated, model); shape by shape, so that no long list
   is ever built *)
Definition bad_item := (list Z * list Z * (Z * Z * string) * (Z * Z * string))%type.
Section Search.
Variables (gen model : list Z -> list Z -> result).
Fixpoint first_bad (n : nat) (dims : list Z) (ts : list (list Z)) (acc : list bad_item) : nat * list bad_item :=
  match n, ts with
  | O, _ | _, [] => (n, acc)
  | S k, idxs :: r =>
      let g := gen dims idxs in let m := model dims idxs in
      if same g m then first_bad n dims r acc else first_bad k dims r ((dims, idxs, show g, show m) :: acc)
  end.
Definition search_in (minrank maxext n : nat) : Z * list bad_item :=
  let '(evals, _, acc) :=
    fold_left (fun st dims => let '(evals, n, acc) := st in
                              if Nat.eqb n 0 then st else
                              let ts := cases_of dims in
                              let '(n', acc') := first_bad n dims ts acc in
                              (evals + Z.of_nat (List.length ts), n', acc'))
              (filter (fun d => Nat.leb minrank (List.length d)) (shapes 3 maxext)) (0, n, []) in
  (evals, rev acc).
End Search.
Definition search (n : nat) : Z * list bad_item := search_in gen_call model_call 1 5 n.
(* the copies: ranks 2 and 3 (a one-dimensional array never reaches them), extents up to 3 (the int64_t subscripts are given
   the same values as the converted ones; the value type of the size_t branches is not compared) *)
Definition search_copies (n : nat) : list (string * (Z * list bad_item)) :=
  map (fun p => (fst p, if String.eqb (fst p) "member_read"
                        then search_in (fun d i => no_text (copy_call (snd p) d i)) (fun d i => no_text (copy_model d i)) 2 3 n
                        else if String.eqb (fst p) "float_read" then search_in float_call float_model 2 3 n
                        else search_in (copy_call (snd p)) copy_model 2 3 n)) copies.
