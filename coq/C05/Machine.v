(* C05 - the array machine: rejected accesses change nothing, the pointer never leaves the
   array, and the machine refines the shadow-array reading of the property for every
   sequence of operations. *)
From Coq Require Import List ZArith Bool Lia.
Import ListNotations.
From Cb Require Import C05.Model C05.FlatIndex C05.Access.
Local Open Scope Z_scope.

(* ---------- list update ---------- *)
Lemma upd_nat_length k v : forall l, List.length (upd_nat k v l) = List.length l.
Proof. induction k as [|k IH]; intros [|x l]; cbn [upd_nat List.length]; auto. Qed.

Lemma nth_upd_nat_same k v : forall l, (k < List.length l)%nat -> nth k (upd_nat k v l) 0 = v.
Proof.
  induction k as [|k IH]; intros [|x l]; cbn [upd_nat List.length nth]; try lia; auto.
  intros H. apply IH. lia.
Qed.

Lemma nth_upd_nat_other k v : forall j l, k <> j -> nth j (upd_nat k v l) 0 = nth j l 0.
Proof.
  induction k as [|k IH]; intros [|j] [|x l] H; cbn [upd_nat nth]; auto; try congruence.
Qed.

Lemma zlen_upd f v l : zlen (upd f v l) = zlen l.
Proof. unfold zlen, upd. rewrite upd_nat_length. reflexivity. Qed.

Lemma getc_upd_same f v l : 0 <= f < zlen l -> getc f (upd f v l) = v.
Proof. unfold getc, upd, zlen. intros H. apply nth_upd_nat_same. lia. Qed.

Lemma getc_upd_other f g v l : 0 <= f -> 0 <= g -> f <> g -> getc g (upd f v l) = getc g l.
Proof. unfold getc, upd. intros Hf Hg H. apply nth_upd_nat_other. lia. Qed.

(* ---------- a rejected access changes no state ---------- *)
Lemma step_err_unchanged ak dims base s o s' e : step ak dims base s o = (s', RErr e) -> s' = s.
Proof.
  destruct o; cbn [step];
    repeat (match goal with |- context [match ?x with _ => _ end] => destruct x eqn:? end);
    intros H; inversion H; reflexivity.
Qed.

(* ---------- well-formed states: the buffer has one cell per tuple, the pointer is inside ---------- *)
Definition wf (dims : list Z) (s : st) : Prop :=
  zlen (cells s) = size dims /\ match ptr s with Some e => 0 <= e < size dims | None => True end.

Lemma size_1 d : size [d] = d.
Proof. cbn. lia. Qed.

Lemma step_wf ak dims base s o : wf dims s -> wf dims (fst (step ak dims base s o)).
Proof.
  intros [HL HP]. unfold wf.
  destruct o; cbn [step].
  - destruct (resolve _ _ _ _ _); cbn [fst]; auto.
  - destruct (resolve _ _ _ _ _); cbn [fst cells ptr]; auto. rewrite zlen_upd. auto.
  - destruct dims as [|d [|d2 ds]].
    + destruct (all_to_int idxs) as [l|]; [|cbn [fst]; auto].
      destruct (calc_flat [] l) as [f|] eqn:F; cbn [fst cells ptr]; auto.
      split; [exact HL|]. apply calc_flat_some_iff_l in F. destruct F as [Hin ->]. apply row_major_bounds; auto.
    + destruct idxs as [|i [|i2 is_]]; cbn [fst]; auto.
      destruct (Z.ltb_spec i 0), (Z.leb_spec d i); cbn [orb fst cells ptr]; auto.
      split; [exact HL|]. rewrite size_1. lia.
    + destruct (all_to_int idxs) as [l|]; [|cbn [fst]; auto].
      destruct (calc_flat (d :: d2 :: ds) l) as [f|] eqn:F; cbn [fst cells ptr]; auto.
      split; [exact HL|]. apply calc_flat_some_iff_l in F. destruct F as [Hin ->]. apply row_major_bounds; auto.
  - destruct (ptr s) as [e|] eqn:P; cbn [fst]; [|split; [exact HL|rewrite P; exact I]].
    destruct (ptr_arith base (size dims) e true k) as [e'|] eqn:F; cbn [fst cells ptr]; [|split; [exact HL|rewrite P; exact HP]].
    split; [exact HL|]. eapply ptr_arith_range; eauto.
  - destruct (ptr s) as [e|] eqn:P; cbn [fst]; [|split; [exact HL|rewrite P; exact I]].
    destruct (ptr_arith base (size dims) e false k) as [e'|] eqn:F; cbn [fst cells ptr]; [|split; [exact HL|rewrite P; exact HP]].
    split; [exact HL|]. eapply ptr_arith_range; eauto.
  - destruct (ptr s) as [e|] eqn:P; cbn [fst]; [|split; [exact HL|rewrite P; exact I]].
    destruct (Z.leb_spec (size dims) (e + 1)); cbn [fst cells ptr]; [split; [exact HL|rewrite P; exact HP]|].
    split; [exact HL|lia].
  - destruct (ptr s) as [e|] eqn:P; cbn [fst]; [|split; [exact HL|rewrite P; exact I]].
    destruct (Z.eqb_spec e 0); cbn [fst]; [split; [exact HL|rewrite P; exact HP]|].
    destruct (Z.leb_spec (size dims) (e - 1)); cbn [fst cells ptr]; [split; [exact HL|rewrite P; exact HP]|].
    split; [exact HL|lia].
  - destruct (ptr s) as [e|] eqn:P; cbn [fst]; [|split; [exact HL|rewrite P; exact I]].
    destruct ((e + k <? 0) || (size dims <=? e + k)); cbn [fst]; (split; [rewrite ?zlen_upd; exact HL|rewrite ?P; exact HP]).
  - destruct (ptr s) as [e|] eqn:P; cbn [fst]; [|split; [exact HL|rewrite P; exact I]].
    destruct (index_to_int k) as [k'|]; [|cbn [fst]; split; [exact HL|rewrite P; exact HP]].
    destruct ((e + k' <? 0) || (size dims <=? e + k')); cbn [fst cells ptr];
      (split; [rewrite ?zlen_upd; exact HL|rewrite ?P; exact HP]).
  - destruct (ptr s) as [e|] eqn:P; cbn [fst]; [|split; [exact HL|rewrite P; exact I]].
    destruct (size dims <=? e); cbn [fst]; (split; [rewrite ?zlen_upd; exact HL|rewrite ?P; exact HP]).
  - destruct (ptr s) as [e|] eqn:P; cbn [fst]; [|split; [exact HL|rewrite P; exact I]].
    destruct (size dims <=? e); cbn [fst cells ptr]; (split; [rewrite ?zlen_upd; exact HL|rewrite ?P; exact HP]).
  - destruct (ptr s) as [e|] eqn:P; cbn [fst]; [|split; [exact HL|rewrite P; exact I]].
    destruct (ptr_arith base (size dims) e true k) as [e'|]; cbn [fst]; [|split; [exact HL|rewrite P; exact HP]].
    destruct (size dims <=? e'); cbn [fst]; (split; [rewrite ?zlen_upd; exact HL|rewrite ?P; exact HP]).
Qed.

Lemma run_checked_wf ak dims base ops : forall s, wf dims s -> wf dims (snd (run_checked ak dims base ops s)).
Proof.
  induction ops as [|o os IH]; intros s H; cbn [run_checked snd]; auto.
  pose proof (step_wf ak dims base s o H) as H1.
  destruct (step ak dims base s o) as [s' r]. cbn [fst] in H1.
  specialize (IH s' H1). destruct (run_checked ak dims base os s') as [rs s'']. exact IH.
Qed.

Lemma run_plain_wf ak dims base ops : forall s, wf dims s -> wf dims (snd (run_plain ak dims base ops s)).
Proof.
  induction ops as [|o os IH]; intros s H; cbn [run_plain snd]; auto.
  pose proof (step_wf ak dims base s o H) as H1.
  destruct (step ak dims base s o) as [s' r]. cbn [fst] in H1.
  specialize (IH s' H1). destruct (run_plain ak dims base os s') as [rs s''].
  destruct r; cbn [snd]; auto.
Qed.

(* a valid pointer can always be dereferenced: the test in pointer_metadata.cpp never fires *)
Lemma deref_ok ak dims base s e : wf dims s -> ptr s = Some e ->
  step ak dims base s ODeref = (s, RVal (getc e (cells s))).
Proof.
  intros [_ HP] P. cbn [step]. rewrite P in *. destruct (Z.leb_spec (size dims) e); [lia|reflexivity].
Qed.

Lemma run_checked_length ak dims base ops : forall s,
  List.length (fst (run_checked ak dims base ops s)) = List.length ops.
Proof.
  induction ops as [|o os IH]; intros s; cbn [run_checked fst List.length]; auto.
  destruct (step ak dims base s o) as [s' r]. specialize (IH s').
  destruct (run_checked ak dims base os s') as [rs s'']. cbn [fst List.length] in *. lia.
Qed.

(* ---------- the property's own reading: a shadow array keyed by index tuples ---------- *)
Record sst := mksst { sh : list Z -> Z; sptr : option Z }.
Definition tuple_eqb (a b : list Z) : bool := if list_eq_dec Z.eq_dec a b then true else false.
Definition sset (f : list Z -> Z) (t : list Z) (v : Z) : list Z -> Z :=
  fun j => if tuple_eqb j t then v else f j.
Definition in_pos (n e : Z) : bool := (0 <=? e) && (e <? n).

(* None = the access is rejected *)
Definition sstep (dims : list Z) (s : sst) (o : op) : sst * option res :=
  let n := size dims in
  let at_ptr (f : Z -> sst * option res) := match sptr s with Some e => f e | None => (s, None) end in
  match o with
  | ORead idxs => if in_rangeb dims idxs then (s, Some (RVal (sh s idxs))) else (s, None)
  | OWrite idxs v => if in_rangeb dims idxs then (mksst (sset (sh s) idxs v) (sptr s), Some RUnit) else (s, None)
  | OAddr idxs => if in_rangeb dims idxs then (mksst (sh s) (Some (row_major dims idxs)), Some RUnit) else (s, None)
  | OPtrAdd k => at_ptr (fun e => if in_pos n (e + k) then (mksst (sh s) (Some (e + k)), Some RUnit) else (s, None))
  | OPtrSub k => at_ptr (fun e => if in_pos n (e - k) then (mksst (sh s) (Some (e - k)), Some RUnit) else (s, None))
  | OPtrInc => at_ptr (fun e => if in_pos n (e + 1) then (mksst (sh s) (Some (e + 1)), Some RUnit) else (s, None))
  | OPtrDec => at_ptr (fun e => if in_pos n (e - 1) then (mksst (sh s) (Some (e - 1)), Some RUnit) else (s, None))
  | OPtrRead k => at_ptr (fun e => if in_pos n (e + k) then (s, Some (RVal (sh s (unflat dims (e + k))))) else (s, None))
  | OPtrWrite k v => at_ptr (fun e => if in_pos n (e + k)
                                      then (mksst (sset (sh s) (unflat dims (e + k)) v) (sptr s), Some RUnit) else (s, None))
  | ODeref => at_ptr (fun e => (s, Some (RVal (sh s (unflat dims e)))))
  | ODerefWrite v => at_ptr (fun e => (mksst (sset (sh s) (unflat dims e) v) (sptr s), Some RUnit))
  | ODerefAdd k => at_ptr (fun e => if in_pos n (e + k) then (s, Some (RVal (sh s (unflat dims (e + k))))) else (s, None))
  end.

Fixpoint srun_plain (dims : list Z) (ops : list op) (s : sst) : list (option res) * sst :=
  match ops with
  | [] => ([], s)
  | o :: os =>
      let (s', r) := sstep dims s o in
      match r with
      | None => ([r], s')
      | Some _ => let (rs, s'') := srun_plain dims os s' in (r :: rs, s'')
      end
  end.

Fixpoint srun_checked (dims : list Z) (ops : list op) (s : sst) : list (option res) * sst :=
  match ops with
  | [] => ([], s)
  | o :: os =>
      let (s', r) := sstep dims s o in
      let (rs, s'') := srun_checked dims os s' in (r :: rs, s'')
  end.

(* abstraction: cell row_major(t) of the buffer holds the shadow value of tuple t *)
Definition R (dims : list Z) (s : st) (ss : sst) : Prop :=
  (forall t, in_range dims t -> getc (row_major dims t) (cells s) = sh ss t) /\ ptr s = sptr ss.

Definition same (r : res) (r' : option res) : Prop :=
  match r, r' with
  | RErr _, None => True
  | RVal v, Some (RVal w) => v = w
  | RUnit, Some RUnit => True
  | _, _ => False
  end.

Definition env_ok (dims : list Z) (base : Z) : Prop :=
  positive_dims dims /\ size dims < two31 /\ base_ok base (size dims).

Lemma tuple_eqb_refl t : tuple_eqb t t = true.
Proof. unfold tuple_eqb. destruct (list_eq_dec Z.eq_dec t t); congruence. Qed.

Lemma tuple_eqb_neq a b : a <> b -> tuple_eqb a b = false.
Proof. unfold tuple_eqb. destruct (list_eq_dec Z.eq_dec a b); congruence. Qed.

Lemma R_write dims s ss t v : wf dims s -> R dims s ss -> in_range dims t ->
  R dims (mkst (upd (row_major dims t) v (cells s)) (ptr s)) (mksst (sset (sh ss) t v) (sptr ss)).
Proof.
  intros [HL _] [HR HP] Ht. split; [|exact HP]. cbn [cells sh].
  intros j Hj. unfold sset.
  pose proof (row_major_bounds _ _ Ht) as Bt. pose proof (row_major_bounds _ _ Hj) as Bj.
  destruct (list_eq_dec Z.eq_dec j t) as [->|N].
  - rewrite tuple_eqb_refl. apply getc_upd_same. lia.
  - rewrite (tuple_eqb_neq _ _ N). rewrite getc_upd_other; [apply HR; exact Hj|lia|lia|].
    intros E. apply N. symmetry. eapply row_major_inj; eauto.
Qed.

Lemma in_rangeb_false dims t : ~ in_range dims t -> in_rangeb dims t = false.
Proof. intros H. destruct (in_rangeb dims t) eqn:E; [|reflexivity]. apply in_rangeb_spec in E. contradiction. Qed.

Lemma in_rangeb_true dims t : in_range dims t -> in_rangeb dims t = true.
Proof. apply in_rangeb_spec. Qed.

Lemma in_pos_spec n e : in_pos n e = true <-> 0 <= e < n.
Proof. unfold in_pos. rewrite andb_true_iff, Z.leb_le, Z.ltb_lt. tauto. Qed.

(* one step of the machine is one step of the shadow array *)
Lemma step_simulates ak dims base s ss o :
  env_ok dims base -> wf dims s -> R dims s ss ->
  same (snd (step ak dims base s o)) (snd (sstep dims ss o)) /\
  R dims (fst (step ak dims base s o)) (fst (sstep dims ss o)).
Proof.
  intros (Hpos & Hn & Hbase) Hwf HR.
  pose proof Hwf as [HL HP]. pose proof HR as [HC HPE].
  pose proof (dims_fit_of_size dims Hpos Hn) as Hfit.
  assert (CELL : forall e, 0 <= e < size dims -> getc e (cells s) = sh ss (unflat dims e)).
  { intros e He. destruct (unflat_spec dims Hpos e He) as [Hin E]. rewrite <- (HC _ Hin), E. reflexivity. }
  assert (WCELL : forall e v, 0 <= e < size dims ->
            R dims (mkst (upd e v (cells s)) (ptr s)) (mksst (sset (sh ss) (unflat dims e) v) (sptr ss))).
  { intros e v He. destruct (unflat_spec dims Hpos e He) as [Hin E].
    pose proof (R_write dims s ss _ v Hwf HR Hin) as H. rewrite E in H. exact H. }
  destruct o; cbn [step sstep] in *.
  - (* read *)
    rewrite HL. destruct (resolve_accepts_iff_l ak Rd dims idxs Hfit) as [A B].
    destruct (resolve ak Rd dims (size dims) idxs) as [f|e] eqn:E.
    + assert (Hin : in_range dims idxs) by (apply A; eauto). rewrite (in_rangeb_true _ _ Hin).
      cbn [fst snd same]. rewrite (B f eq_refl). split; [apply HC; exact Hin|exact HR].
    + assert (Hnot : ~ in_range dims idxs) by (intros H; apply A in H; destruct H; congruence).
      rewrite (in_rangeb_false _ _ Hnot). cbn [fst snd same]. auto.
  - (* write *)
    rewrite HL. destruct (resolve_accepts_iff_l ak Wr dims idxs Hfit) as [A B].
    destruct (resolve ak Wr dims (size dims) idxs) as [f|e] eqn:E.
    + assert (Hin : in_range dims idxs) by (apply A; eauto). rewrite (in_rangeb_true _ _ Hin).
      cbn [fst snd same]. rewrite (B f eq_refl). split; [exact I|]. apply R_write; auto.
    + assert (Hnot : ~ in_range dims idxs) by (intros H; apply A in H; destruct H; congruence).
      rewrite (in_rangeb_false _ _ Hnot). cbn [fst snd same]. auto.
  - (* p = &a[...] *)
    assert (ND : forall ds, ds = dims ->
      same (snd (match all_to_int idxs with
                 | None => (s, RErr EBounds)
                 | Some l => match calc_flat ds l with
                             | Some f => (mkst (cells s) (Some f), RUnit) | None => (s, RErr EBounds) end end))
           (snd (if in_rangeb ds idxs then (mksst (sh ss) (Some (row_major ds idxs)), Some RUnit) else (ss, None))) /\
      R ds (fst (match all_to_int idxs with
                 | None => (s, RErr EBounds)
                 | Some l => match calc_flat ds l with
                             | Some f => (mkst (cells s) (Some f), RUnit) | None => (s, RErr EBounds) end end))
           (fst (if in_rangeb ds idxs then (mksst (sh ss) (Some (row_major ds idxs)), Some RUnit) else (ss, None)))).
    { intros ds ->. destruct (all_to_int idxs) as [l|] eqn:C.
      - apply all_to_int_spec in C. destruct C as [_ ->].
        destruct (calc_flat dims idxs) as [f|] eqn:F.
        + apply calc_flat_some_iff_l in F. destruct F as [Hin ->]. rewrite (in_rangeb_true _ _ Hin).
          cbn [fst snd same]. split; [exact I|]. split; [exact HC|reflexivity].
        + apply calc_flat_none_iff in F. rewrite (in_rangeb_false _ _ F). cbn [fst snd same]. auto.
      - apply all_to_int_none in C.
        assert (F : ~ in_range dims idxs) by (intros G; apply C; eapply in_range_fits; eauto).
        rewrite (in_rangeb_false _ _ F). cbn [fst snd same]. auto. }
    destruct dims as [|d [|d2 ds]]; [apply ND; reflexivity| |apply ND; reflexivity].
    destruct idxs as [|i [|i2 is_]].
    + cbn [in_rangeb fst snd same]. auto.
    + cbn [in_rangeb row_major size]. rewrite andb_true_r.
      destruct (Z.ltb_spec i 0), (Z.leb_spec d i), (Z.leb_spec 0 i), (Z.ltb_spec i d); try lia;
        cbn [orb andb fst snd same]; auto.
      split; [exact I|]. split; [exact HC|]. cbn [ptr sptr]. f_equal. lia.
    + cbn [in_rangeb]. rewrite andb_false_r. cbn [fst snd same]. auto.
  - (* p = p + k *)
    rewrite <- HPE. destruct (ptr s) as [e|]; [|cbn [fst snd same]; auto].
    rewrite (ptr_arith_ok_l base (size dims) e true k Hbase HP Hn). unfold in_pos.
    destruct ((0 <=? e + k) && (e + k <? size dims)); cbn [fst snd same]; auto.
    split; [exact I|]. split; [exact HC|reflexivity].
  - (* p = p - k *)
    rewrite <- HPE. destruct (ptr s) as [e|]; [|cbn [fst snd same]; auto].
    rewrite (ptr_arith_ok_l base (size dims) e false k Hbase HP Hn). unfold in_pos.
    destruct ((0 <=? e - k) && (e - k <? size dims)); cbn [fst snd same]; auto.
    split; [exact I|]. split; [exact HC|reflexivity].
  - (* p++ *)
    rewrite <- HPE. destruct (ptr s) as [e|]; [|cbn [fst snd same]; auto]. unfold in_pos.
    destruct (Z.leb_spec (size dims) (e + 1)), (Z.leb_spec 0 (e + 1)), (Z.ltb_spec (e + 1) (size dims)); try lia;
      cbn [andb fst snd same]; auto.
    split; [exact I|]. split; [exact HC|reflexivity].
  - (* p-- *)
    rewrite <- HPE. destruct (ptr s) as [e|]; [|cbn [fst snd same]; auto]. unfold in_pos.
    destruct (Z.eqb_spec e 0).
    + subst e. cbn [fst snd same]. destruct (Z.leb_spec 0 (0 - 1)); [lia|]. cbn [andb fst snd same]. auto.
    + destruct (Z.leb_spec (size dims) (e - 1)), (Z.leb_spec 0 (e - 1)), (Z.ltb_spec (e - 1) (size dims)); try lia;
        cbn [andb fst snd same]; auto.
      split; [exact I|]. split; [exact HC|reflexivity].
  - (* p[k] *)
    rewrite <- HPE. destruct (ptr s) as [e|]; [|cbn [fst snd same]; auto]. unfold in_pos.
    destruct (Z.ltb_spec (e + k) 0), (Z.leb_spec (size dims) (e + k)), (Z.leb_spec 0 (e + k)), (Z.ltb_spec (e + k) (size dims)); try lia;
      cbn [orb andb fst snd same]; auto.
  - (* p[k] = v *)
    rewrite <- HPE. destruct (ptr s) as [e|] eqn:P; [|cbn [fst snd same]; auto]. unfold in_pos.
    destruct (index_to_int k) as [k'|] eqn:K.
    + apply index_to_int_spec in K. destruct K as [_ ->].
      destruct (Z.ltb_spec (e + k) 0), (Z.leb_spec (size dims) (e + k)), (Z.leb_spec 0 (e + k)), (Z.ltb_spec (e + k) (size dims)); try lia;
        cbn [orb andb fst snd same]; auto.
      split; [exact I|]. assert (W0 : 0 <= e + k < size dims) by lia. pose proof (WCELL (e + k) v W0) as W. rewrite <- HPE in W. exact W.
    + apply index_to_int_none in K. unfold int_range, two31 in *.
      destruct (Z.leb_spec 0 (e + k)), (Z.ltb_spec (e + k) (size dims)); cbn [andb fst snd same]; auto. lia.
  - (* *p *)
    rewrite <- HPE. destruct (ptr s) as [e|]; [|cbn [fst snd same]; auto].
    destruct (Z.leb_spec (size dims) e); [lia|]. cbn [fst snd same]. split; [apply CELL; lia|exact HR].
  - (* *p = v *)
    rewrite <- HPE. destruct (ptr s) as [e|] eqn:P; [|cbn [fst snd same]; auto].
    destruct (Z.leb_spec (size dims) e); [lia|]. cbn [fst snd same]. split; [exact I|].
    assert (W0 : 0 <= e < size dims) by lia. pose proof (WCELL e v W0) as W. rewrite <- HPE in W. exact W.
  - (* *(p + k) *)
    rewrite <- HPE. destruct (ptr s) as [e|]; [|cbn [fst snd same]; auto].
    rewrite (ptr_arith_ok_l base (size dims) e true k Hbase HP Hn). unfold in_pos.
    destruct (Z.leb_spec 0 (e + k)), (Z.ltb_spec (e + k) (size dims)); cbn [andb fst snd same]; auto.
    destruct (Z.leb_spec (size dims) (e + k)); [lia|]. cbn [fst snd same]. split; [apply CELL; lia|exact HR].
Qed.

Lemma run_checked_refines_l ak dims base ops : env_ok dims base ->
  forall s ss, wf dims s -> R dims s ss ->
  Forall2 same (fst (run_checked ak dims base ops s)) (fst (srun_checked dims ops ss)) /\
  R dims (snd (run_checked ak dims base ops s)) (snd (srun_checked dims ops ss)).
Proof.
  intros Henv. induction ops as [|o os IH]; intros s ss Hwf HR; cbn [run_checked srun_checked fst snd].
  - split; [constructor|exact HR].
  - destruct (step_simulates ak dims base s ss o Henv Hwf HR) as [S1 S2].
    pose proof (step_wf ak dims base s o Hwf) as W.
    destruct (step ak dims base s o) as [s' r]. destruct (sstep dims ss o) as [ss' r'].
    cbn [fst snd] in *. destruct (IH s' ss' W S2) as [I1 I2].
    destruct (run_checked ak dims base os s') as [rs s'']. destruct (srun_checked dims os ss') as [rs' ss''].
    cbn [fst snd] in *. split; [constructor; assumption|exact I2].
Qed.

Lemma run_plain_refines_l ak dims base ops : env_ok dims base ->
  forall s ss, wf dims s -> R dims s ss ->
  Forall2 same (fst (run_plain ak dims base ops s)) (fst (srun_plain dims ops ss)) /\
  R dims (snd (run_plain ak dims base ops s)) (snd (srun_plain dims ops ss)).
Proof.
  intros Henv. induction ops as [|o os IH]; intros s ss Hwf HR; cbn [run_plain srun_plain fst snd].
  - split; [constructor|exact HR].
  - destruct (step_simulates ak dims base s ss o Henv Hwf HR) as [S1 S2].
    pose proof (step_wf ak dims base s o Hwf) as W.
    destruct (step ak dims base s o) as [s' r]. destruct (sstep dims ss o) as [ss' r'].
    cbn [fst snd] in *. destruct (IH s' ss' W S2) as [I1 I2].
    destruct (run_plain ak dims base os s') as [rs s'']. destruct (srun_plain dims os ss') as [rs' ss''].
    cbn [fst snd] in *.
    destruct r as [v| |e], r' as [[w| |e']|]; cbn [same] in S1; try contradiction; cbn [fst snd];
      (split; [repeat constructor; cbn [same]; auto|auto]).
Qed.

(* an accepted write changes the cell of exactly one in-range tuple *)
Lemma write_one_cell_l ak dims base s idxs v s' : dims_fit dims -> wf dims s ->
  step ak dims base s (OWrite idxs v) = (s', RUnit) ->
  in_range dims idxs /\ ptr s' = ptr s /\
  forall t, in_range dims t ->
    getc (row_major dims t) (cells s') = if tuple_eqb t idxs then v else getc (row_major dims t) (cells s).
Proof.
  intros Hi Hwf. pose proof Hwf as [HL _]. cbn [step]. rewrite HL.
  destruct (resolve_accepts_iff_l ak Wr dims idxs Hi) as [A B].
  destruct (resolve ak Wr dims (size dims) idxs) as [f|e] eqn:E; [|discriminate].
  intros H. injection H as <-. assert (Hin : in_range dims idxs) by (apply A; eauto).
  rewrite (B f eq_refl). split; [exact Hin|]. split; [reflexivity|].
  set (ss := mksst (fun t => getc (row_major dims t) (cells s)) (ptr s)).
  assert (HR : R dims s ss) by (split; [intros; reflexivity|reflexivity]).
  destruct (R_write dims s ss idxs v Hwf HR Hin) as [HW _].
  intros t Ht. rewrite (HW t Ht). reflexivity.
Qed.

(* in a run, an access yields an error exactly when the shadow array rejects it *)
Lemma same_err_iff r r' : same r r' -> ((exists e, r = RErr e) <-> r' = None).
Proof.
  destruct r as [v| |e], r' as [[w| |e']|]; cbn [same]; intros H; try contradiction;
    (split; [intros [x Hx]; congruence|intros Hx; try discriminate; eauto]).
Qed.

Lemma checked_err_iff_rejected_l ak dims base ops s ss : env_ok dims base ->
  wf dims s -> R dims s ss ->
  Forall2 (fun r r' => (exists e, r = RErr e) <-> r' = None)
          (fst (run_checked ak dims base ops s)) (fst (srun_checked dims ops ss)).
Proof.
  intros He Hw Hr. destruct (run_checked_refines_l ak dims base ops He s ss Hw Hr) as [H _].
  induction H; constructor; auto. apply same_err_iff. assumption.
Qed.

