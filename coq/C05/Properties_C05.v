(* C05 - property theorems only. Statements are about the Mech model of the interpreter's array
   index checks (Model.v); the proofs are in FlatIndex.v / Access.v / Machine.v.
   Vocabulary: [in_range dims idxs] = as many indices as dimensions, each 0 <= i_k < d_k;
   [row_major dims idxs] = sum_k i_k * prod_{j>k} d_j; [int_range i] = i fits a C++ int.
   Mirrors /repo at the fix commits ff8053c (index_to_int), 2bd3a28 (pointer offset guard), f8c96b6 (p[k] into N-D arrays),
   4d44dbb (struct member subscripts of any rank) and 3ecd7bc (2-D member writes persist). *)
From Coq Require Import List ZArith Bool Lia.
Import ListNotations.
From Cb Require Import C05.Model C05.FlatIndex C05.Access C05.Machine C05.Lemmas.
Local Open Scope Z_scope.

(* ---- Variable::calculate_flat_index: per-dimension check, row-major, a bijection ---- *)
Theorem flat_index_accepts_exactly_in_range : forall dims idxs k,
  calc_flat dims idxs = Some k <-> in_range dims idxs /\ k = row_major dims idxs.
Proof. exact calc_flat_some_iff_l. Qed.
Print Assumptions flat_index_accepts_exactly_in_range.

Theorem flat_index_inside_buffer : forall dims idxs k, calc_flat dims idxs = Some k -> 0 <= k < size dims.
Proof. exact flat_index_inside_buffer_l. Qed.
Print Assumptions flat_index_inside_buffer.

Theorem flat_index_injective : forall dims a b k,
  calc_flat dims a = Some k -> calc_flat dims b = Some k -> a = b.
Proof. exact flat_index_injective_l. Qed.
Print Assumptions flat_index_injective.

Theorem flat_index_surjective : forall dims k, positive_dims dims -> 0 <= k < size dims ->
  calc_flat dims (unflat dims k) = Some k /\
  (forall idxs, in_range dims idxs -> unflat dims (row_major dims idxs) = idxs).
Proof. exact flat_index_surjective_l. Qed.
Print Assumptions flat_index_surjective.

(* ---- every access site (local/global/parameter array, struct member array; read, write), every
        integer index: the access is accepted exactly when every index is inside its dimension,
        and then it addresses the row-major cell. [dims_fit]: the declared extents are C++ ints. ---- *)
Theorem access_accepted_iff_every_index_in_range : forall ak m dims idxs,
  dims_fit dims ->
  ((exists k, resolve ak m dims (size dims) idxs = inl k) <-> in_range dims idxs) /\
  (forall k, resolve ak m dims (size dims) idxs = inl k -> k = row_major dims idxs /\ 0 <= k < size dims).
Proof. exact access_accepted_iff_every_index_in_range_l. Qed.
Print Assumptions access_accepted_iff_every_index_in_range.

Theorem access_cells_are_a_bijection : forall ak m dims, dims_fit dims ->
  (forall a b k, resolve ak m dims (size dims) a = inl k -> resolve ak m dims (size dims) b = inl k -> a = b) /\
  (positive_dims dims -> forall k, 0 <= k < size dims ->
     exists idxs, in_range dims idxs /\ resolve ak m dims (size dims) idxs = inl k).
Proof. exact access_cells_are_a_bijection_l. Qed.
Print Assumptions access_cells_are_a_bijection.

(* an index that does not fit an int is rejected at every site (was: truncated, finding
   C05-index-narrowed-to-int, fixed by ff8053c); the former witnesses are rejected *)
Theorem index_outside_int_rejected_at_every_site : forall ak m dims idxs,
  dims_fit dims -> ~ Forall int_range idxs ->
  exists e, resolve ak m dims (size dims) idxs = inr e.
Proof. exact resolve_rejects_non_int_l. Qed.
Print Assumptions index_outside_int_rejected_at_every_site.

Theorem former_narrowing_witnesses_rejected :
  resolve ANamed Wr [2; 3] 6 [4294967297; 1] = inr EBounds /\ resolve ANamed Rd [2; 3] 6 [1; -4294967295] = inr EBounds /\
  resolve ANamed Wr [4] 4 [4294967297] = inr EBounds /\ resolve AMember Wr [4] 4 [4294967297] = inr EBounds /\
  resolve AMember Rd [4] 4 [4294967297] = inr EOther /\ resolve AMember Wr [2; 3] 6 [4294967297; 1] = inr EBounds /\
  snd (step ANamed [4] 4096 (mkst [1; 2; 3; 4] (Some 0)) (OPtrWrite 4294967297 9)) = RErr EBounds /\
  snd (step ANamed [2; 3] 4096 (mkst [1; 2; 3; 4; 5; 6] None) (OAddr [4294967297; 1])) = RErr EBounds.
Proof. exact former_narrowing_witnesses_rejected_l. Qed.
Print Assumptions former_narrowing_witnesses_rejected.

(* struct members of rank >= 3 (was: every read rejected, finding C05-struct-member-rank3-rejected, repaired):
   covered by access_accepted_iff_every_index_in_range; the former witness is accepted *)
Theorem member_rank3_access_accepted :
  resolve AMember Rd [2; 2; 3] 12 [0; 0; 0] = inl 0 /\ resolve AMember Wr [2; 2; 3] 12 [0; 0; 0] = inl 0 /\
  resolve AMember Rd [2; 2; 3] 12 [1; 1; 2] = inl 11 /\ resolve AMember Rd [2; 2; 3] 12 [1; 2; 0] = inr EBounds.
Proof. exact member_rank3_access_accepted_l. Qed.
Print Assumptions member_rank3_access_accepted.

(* ---- state ---- *)
Theorem reject_changes_nothing : forall ak dims base s o s' e,
  step ak dims base s o = (s', RErr e) -> s' = s.
Proof. exact step_err_unchanged. Qed.
Print Assumptions reject_changes_nothing.

Theorem write_hits_exactly_one_cell : forall ak dims base s idxs v s',
  dims_fit dims -> wf dims s ->
  step ak dims base s (OWrite idxs v) = (s', RUnit) ->
  in_range dims idxs /\ ptr s' = ptr s /\
  forall t, in_range dims t ->
    getc (row_major dims t) (cells s') = if tuple_eqb t idxs then v else getc (row_major dims t) (cells s).
Proof. exact write_one_cell_l. Qed.
Print Assumptions write_hits_exactly_one_cell.

(* the pointer never leaves the array, whatever is done to it (all histories, checked or not) *)
Theorem pointer_stays_inside_array : forall ak dims base ops s, wf dims s ->
  wf dims (snd (run_checked ak dims base ops s)) /\ wf dims (snd (run_plain ak dims base ops s)).
Proof. exact pointer_stays_inside_array_l. Qed.
Print Assumptions pointer_stays_inside_array.

Theorem valid_pointer_always_dereferences : forall ak dims base s e, wf dims s -> ptr s = Some e ->
  step ak dims base s ODeref = (s, RVal (getc e (cells s))).
Proof. exact deref_ok. Qed.
Print Assumptions valid_pointer_always_dereferences.

(* ---- refinement: for every sequence of accesses (reads, writes, &a[i], p+-k, p++/p--, p[k],
        *p, *(p+k)) with arbitrary integer indices and offsets, on arrays of any rank, the machine yields the results of
        the shadow array keyed by index tuples, rejects exactly what it rejects, and ends in a
        related state - without `checked` (run stops at the first rejection) and with it ---- *)
Theorem machine_refines_shadow_array : forall ak dims base ops s ss,
  env_ok dims base -> wf dims s -> R dims s ss ->
  Forall2 same (fst (run_plain ak dims base ops s)) (fst (srun_plain dims ops ss)) /\
  R dims (snd (run_plain ak dims base ops s)) (snd (srun_plain dims ops ss)).
Proof. exact machine_refines_shadow_array_l. Qed.
Print Assumptions machine_refines_shadow_array.

Theorem checked_machine_refines_shadow_array : forall ak dims base ops s ss,
  env_ok dims base -> wf dims s -> R dims s ss ->
  Forall2 same (fst (run_checked ak dims base ops s)) (fst (srun_checked dims ops ss)) /\
  R dims (snd (run_checked ak dims base ops s)) (snd (srun_checked dims ops ss)).
Proof. exact checked_machine_refines_shadow_array_l. Qed.
Print Assumptions checked_machine_refines_shadow_array.

(* `checked`: every access is processed, and it is an Err exactly when the shadow array rejects it *)
Theorem checked_access_is_err_iff_rejected : forall ak dims base ops s ss,
  env_ok dims base -> wf dims s -> R dims s ss ->
  List.length (fst (run_checked ak dims base ops s)) = List.length ops /\
  Forall2 (fun r r' => (exists e, r = RErr e) <-> r' = None)
          (fst (run_checked ak dims base ops s)) (fst (srun_checked dims ops ss)).
Proof. exact checked_access_is_err_iff_rejected_l. Qed.
Print Assumptions checked_access_is_err_iff_rejected.

(* class of the Err: IndexOutOfBoundsError at every site except the read of a 1-D struct member *)
Theorem rejection_is_classified_out_of_bounds : forall ak m dims stor idxs e b,
  List.length idxs = List.length dims -> resolve ak m dims stor idxs = inr e ->
  classify e b = VIndexOutOfBounds \/ (ak = AMember /\ m = Rd /\ rank1 dims = true).
Proof. exact rejection_is_classified_out_of_bounds_l. Qed.
Print Assumptions rejection_is_classified_out_of_bounds.

(* ---- pointer arithmetic: for every offset ---- *)
Theorem pointer_arithmetic_accepted_iff_inside : forall base n e (plus : bool) k,
  base_ok base n -> 0 <= e < n -> n < two31 ->
  let t := if plus then e + k else e - k in
  ptr_arith base n e plus k = if (0 <=? t) && (t <? n) then Some t else None.
Proof. exact ptr_arith_ok_l. Qed.
Print Assumptions pointer_arithmetic_accepted_iff_inside.

(* was: offset * 8 wrapped modulo 2^64 and p + (2^61 + 1) was accepted as p + 1
   (finding C05-pointer-offset-wraps, fixed by 2bd3a28) *)
Theorem pointer_huge_offset_rejected : forall base n e plus k,
  max_ptr_offset < k \/ k < - max_ptr_offset -> ptr_arith base n e plus k = None.
Proof. exact pointer_huge_offset_rejected_l. Qed.
Print Assumptions pointer_huge_offset_rejected.

(* p[k] through a pointer into an N-D array (was: always rejected, finding
   C05-pointer-index-into-multidim-rejected, repaired): covered by machine_refines_shadow_array;
   the former witness reads the cell *)
Theorem pointer_index_into_multidim_reads_cell :
  let s := mkst [1; 2; 3; 4; 5; 6] (Some 5) in
  snd (step ANamed [2; 3] 4096 s (OPtrRead 0)) = RVal 6 /\ snd (step ANamed [2; 3] 4096 s (OPtrRead (-3))) = RVal 3 /\
  snd (step ANamed [2; 3] 4096 s (OPtrRead (-5))) = RVal 1 /\ snd (step ANamed [2; 3] 4096 s (OPtrRead 1)) = RErr EBounds /\
  cells (fst (step ANamed [2; 3] 4096 s (OPtrWrite (-2) 9))) = [1; 2; 3; 9; 5; 6].
Proof. exact pointer_index_into_multidim_reads_cell_l. Qed.
Print Assumptions pointer_index_into_multidim_reads_cell.

(* ---- array_get_int / array_set_int: no extent, nothing is ever rejected
        (known finding C05-array-get-set-unchecked) ---- *)
Theorem builtin_array_get_never_rejects_refuted : forall n heap,
  exists idx, ~ (0 <= idx < n) /\ (forall e, builtin_get heap idx <> RErr e) /\
              (forall v e, snd (builtin_set heap idx v) <> RErr e).
Proof. exact builtin_array_get_never_rejects_refuted_l. Qed.
Print Assumptions builtin_array_get_never_rejects_refuted.

(* ---- non-vacuity: the hypotheses are satisfiable and the machine does what one expects ---- *)
Example env_example : env_ok [2; 3] 4096 /\ wf [2; 3] (mkst [1; 2; 3; 4; 5; 6] None).
Proof.
  split.
  - split; [intros d [<-|[<-|[]]]; lia|]. split; [reflexivity|]. split; [lia|unfold two64; cbn; lia].
  - split; reflexivity.
Qed.

Example run_example :
  fst (run_plain ANamed [2; 3] 4096
         [ORead [1; 2]; OWrite [0; 1] 42; OAddr [0; 2]; OPtrAdd 1; ODeref; ORead [0; 3]; ORead [0; 0]]
         (mkst [1; 2; 3; 4; 5; 6] None))
  = [RVal 6; RUnit; RUnit; RUnit; RVal 4; RErr EBounds] /\
  fst (run_checked ANamed [2; 3] 4096 [ORead [0; 3]; ORead [0; 1]; ORead [2; 0]] (mkst [1; 2; 3; 4; 5; 6] None))
  = [RErr EBounds; RVal 2; RErr EBounds].
Proof. split; vm_compute; reflexivity. Qed.
