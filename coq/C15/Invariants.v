(* C15 - invariants of every reachable state of the scheduler machine (any program, any clock):
   the continuation stack is well formed, [exec] is the chain of FStep frames, queue ++ exec has no
   duplicate and holds exactly the registered, unfinished tasks. *)
From Coq Require Import List ZArith Bool Arith Lia Permutation.
From Cb Require Import C15.Model.
Import ListNotations.
Local Open Scope nat_scope.

Section Inv.
  Variables (L G C : Type).
  Variable len : C -> nat.
  Variable code : C -> nat -> L -> prog L G C.
  Variable clock : nat -> Z.
  Variable dflt : L.
  Variable main_code : C.

  Notation task := (task L C).
  Notation frame := (frame L G C).
  Notation state := (state L G C).
  Notation step := (step L G C len code clock dflt main_code).
  Notation run := (run L G C len code clock dflt main_code).
  Notation begin_turn := (begin_turn L G C len code clock).
  Notation end_step := (end_step L G C len).
  Notation step_prog := (step_prog L G C len clock dflt).
  Notation prelude := (prelude L C len clock).
  Notation lookup := (lookup L C).
  Notation update := (update L C).

  (* ---------------------------------------------------------------- lookup / update *)
  Lemma nth_error_upd_nth : forall k k' f (ts : list task),
    nth_error (upd_nth L C k f ts) k' =
    if Nat.eqb k' k then option_map f (nth_error ts k) else nth_error ts k'.
  Proof.
    induction k; intros k' f ts; destruct ts as [|t r]; destruct k' as [|k']; simpl; auto;
      try (rewrite IHk; reflexivity);
      try (destruct (Nat.eqb k' k); reflexivity);
      try (destruct k'; reflexivity).
  Qed.

  Lemma lookup_update : forall id id' f (ts : list task),
    lookup id' (update id f ts) =
    if Nat.eqb id' id then option_map f (lookup id ts) else lookup id' ts.
  Proof.
    intros id id' f ts. destruct id as [|k]; destruct id' as [|k']; simpl; auto.
    apply nth_error_upd_nth.
  Qed.

  Lemma upd_nth_length : forall k f (ts : list task), length (upd_nth L C k f ts) = length ts.
  Proof. induction k; intros f [|t r]; simpl; auto. Qed.

  Lemma update_length : forall id f (ts : list task), length (update id f ts) = length ts.
  Proof. intros [|k] f ts; simpl; auto using upd_nth_length. Qed.

  Lemma lookup_some_range : forall id (ts : list task) t, lookup id ts = Some t -> 1 <= id <= length ts.
  Proof.
    intros [|k] ts t H; simpl in H; [discriminate|].
    assert (k < length ts) by (apply nth_error_Some; congruence). lia.
  Qed.

  Lemma lookup_none_range : forall id (ts : list task), lookup id ts = None -> id = 0 \/ length ts < id.
  Proof.
    intros [|k] ts H; [left; reflexivity|]. simpl in H. apply nth_error_None in H. right. lia.
  Qed.

  Lemma lookup_app : forall id (ts : list task) t,
    lookup id (ts ++ [t]) = if Nat.eqb id (S (length ts)) then Some t else lookup id ts.
  Proof.
    intros [|k] ts t; simpl; [reflexivity|].
    destruct (Nat.eqb k (length ts)) eqn:E.
    - apply Nat.eqb_eq in E. subst. rewrite nth_error_app2 by lia. rewrite Nat.sub_diag. reflexivity.
    - apply Nat.eqb_neq in E. destruct (Nat.lt_ge_cases k (length ts)).
      + apply nth_error_app1; assumption.
      + rewrite nth_error_app2 by lia. destruct (k - length ts) as [|[|j]] eqn:D; try lia; simpl.
        * symmetry. apply nth_error_None. lia.
        * symmetry. apply nth_error_None. lia.
  Qed.

  (* ---------------------------------------------------------------- liveness of an id *)
  Definition live (ts : list task) (id : nat) : bool :=
    match lookup id ts with Some t => negb (t_done L C t) | None => false end.

  Lemma live_update_pres : forall ts id f id',
    (forall t, t_done L C (f t) = t_done L C t) -> live (update id f ts) id' = live ts id'.
  Proof.
    intros ts id f id' Hf. unfold live. rewrite lookup_update.
    destruct (Nat.eqb id' id) eqn:E; [|reflexivity].
    apply Nat.eqb_eq in E. subst. destruct (lookup id ts); simpl; [rewrite Hf|]; reflexivity.
  Qed.

  Lemma live_update_set : forall ts id t t' id',
    lookup id ts = Some t ->
    live (update id (fun _ => t') ts) id' = if Nat.eqb id' id then negb (t_done L C t') else live ts id'.
  Proof.
    intros ts id t t' id' H. unfold live. rewrite lookup_update.
    destruct (Nat.eqb id' id); [rewrite H|]; reflexivity.
  Qed.

  Lemma live_app : forall ts t id',
    live (ts ++ [t]) id' = if Nat.eqb id' (S (length ts)) then negb (t_done L C t) else live ts id'.
  Proof.
    intros. unfold live. rewrite lookup_app. destruct (Nat.eqb id' (S (length ts))); reflexivity.
  Qed.

  Lemma live_range : forall ts id, live ts id = true -> 1 <= id <= length ts.
  Proof.
    intros ts id H. unfold live in H. destruct (lookup id ts) eqn:E; [|discriminate].
    eapply lookup_some_range; eauto.
  Qed.

  (* ---------------------------------------------------------------- shape of the C++ stack *)
  Fixpoint steps_of (k : list frame) : list nat :=
    match k with
    | [] => []
    | FStep _ _ _ id :: r => id :: steps_of r
    | _ :: r => steps_of r
    end.

  (* every statement frame sits directly on the step (or main) frame it belongs to, those are never
     exposed, and main's frames are the bottom of the stack *)
  Fixpoint wf (k : list frame) : Prop :=
    match k with
    | [] => True
    | FProg _ _ _ _ :: FStep _ _ _ _ :: r => wf r
    | FProg _ _ _ _ :: FMainK _ _ _ _ :: r => r = []
    | FProg _ _ _ _ :: _ => False
    | FStep _ _ _ _ :: _ => False
    | FMainK _ _ _ _ :: _ => False
    | FMain _ _ _ _ _ :: r => r = []
    | _ :: r => wf r
    end.

  Definition loop_frame (f : frame) : Prop :=
    match f with FUntil _ _ _ _ | FCycle _ _ _ | FBg _ _ _ _ | FRunAll _ _ _ => True | _ => False end.

  Lemma wf_prog_swap : forall p p' rest, wf (FProg _ _ _ p :: rest) -> wf (FProg _ _ _ p' :: rest).
  Proof. intros p p' [|[] r] H; simpl in *; auto. Qed.

  Lemma steps_prog : forall p rest, steps_of (FProg _ _ _ p :: rest) = steps_of rest.
  Proof. reflexivity. Qed.

  Lemma wf_loop_push : forall f k, loop_frame f -> wf k -> wf (f :: k).
  Proof. intros [] k Hf H; simpl in *; try contradiction; assumption. Qed.

  Lemma wf_loop_pop : forall f k, loop_frame f -> wf (f :: k) -> wf k.
  Proof. intros [] k Hf H; simpl in *; try contradiction; assumption. Qed.

  Lemma steps_loop : forall f k, loop_frame f -> steps_of (f :: k) = steps_of k.
  Proof. intros [] k Hf; simpl in *; try contradiction; reflexivity. Qed.

  (* ---------------------------------------------------------------- the invariant *)
  Definition Inv (s : state) : Prop :=
    wf (kont _ _ _ s) /\
    exec _ _ _ s = steps_of (kont _ _ _ s) /\
    NoDup (queue _ _ _ s ++ exec _ _ _ s) /\
    (forall id, In id (queue _ _ _ s ++ exec _ _ _ s) <-> live (tasks _ _ _ s) id = true).

  Lemma Inv_init : forall g0 l0, Inv (init L G C g0 l0).
  Proof.
    intros. unfold Inv, init; simpl. split; [reflexivity|]. split; [reflexivity|]. split; [constructor|].
    intro id. split; [intros []|]. unfold live. destruct id as [|[|k]]; simpl; discriminate.
  Qed.

  (* the prelude never finishes a task without saying so, and vice versa *)
  Lemma pre_body_done : forall id t evs rd,
    t_done L C t = false ->
    match pre_body L C len id t evs rd with
    | PreRet _ _ sc t' _ _ => t_done L C t' = negb sc
    | PreGo _ _ _ t' _ _ => t_done L C t' = false
    end.
  Proof.
    intros id t evs rd Hd. unfold pre_body. simpl.
    destruct (t_code L C t); simpl; [destruct (t_idx L C t <? len c)|]; simpl; auto.
  Qed.

  Lemma pre_timeout_done : forall id t evs rd,
    t_done L C t = false ->
    match pre_timeout L C len clock id t evs rd with
    | PreRet _ _ sc t' _ _ => t_done L C t' = negb sc
    | PreGo _ _ _ t' _ _ => t_done L C t' = false
    end.
  Proof.
    intros id t evs rd Hd. unfold pre_timeout.
    destruct (t_has_to L C t && negb (t_done L C t)).
    - destruct (t_to L C t <=? clock rd)%Z; [reflexivity|]. apply pre_body_done; assumption.
    - apply pre_body_done; assumption.
  Qed.

  Lemma pre_sleep_done : forall id t evs rd,
    t_done L C t = false ->
    match pre_sleep L C len clock id t evs rd with
    | PreRet _ _ sc t' _ _ => t_done L C t' = negb sc
    | PreGo _ _ _ t' _ _ => t_done L C t' = false
    end.
  Proof.
    intros id t evs rd Hd. unfold pre_sleep.
    destruct (t_sleeping L C t).
    - destruct (clock rd <? t_wake L C t)%Z; [simpl; assumption|].
      destruct (t_code L C t); [|reflexivity]. apply pre_timeout_done. assumption.
    - apply pre_timeout_done; assumption.
  Qed.

  Lemma prelude_done : forall ts id t rd,
    t_done L C t = false ->
    match prelude ts id t rd with
    | PreRet _ _ sc t' _ _ => t_done L C t' = negb sc
    | PreGo _ _ _ t' _ _ => t_done L C t' = false
    end.
  Proof.
    intros ts id t rd Hd. unfold prelude. rewrite Hd. unfold pre_wait.
    destruct (t_wait L C t).
    - destruct (is_done L C n ts); [|simpl; assumption]. apply pre_sleep_done. assumption.
    - apply pre_sleep_done. assumption.
  Qed.

  Lemma end_stmt_done : forall id o l t t' sc evs,
    t_done L C t = false -> end_stmt L C len id o l t = (t', sc, evs) -> t_done L C t' = negb sc.
  Proof.
    intros id o l t t' sc evs Hd H. unfold end_stmt in H. destruct o.
    - destruct (t_code L C t); [destruct (S (t_idx L C t) <? len c)|]; inversion H; subst; simpl; auto.
    - inversion H; subst; simpl; auto.
    - inversion H; subst; simpl; auto.
  Qed.

  (* membership bookkeeping *)
  Lemma in_requeue : forall sc id q x (ex : list nat),
    In x (requeue sc id q ++ ex) <-> (In x (q ++ ex) \/ (sc = true /\ x = id)).
  Proof.
    intros sc id q x ex. unfold requeue. destruct sc.
    - rewrite !in_app_iff. simpl. intuition.
    - intuition. destruct H0; discriminate.
  Qed.

  Lemma nodup_requeue : forall sc id q (ex : list nat),
    NoDup (q ++ id :: ex) -> NoDup (requeue sc id q ++ ex).
  Proof.
    intros sc id q ex H. unfold requeue. destruct sc.
    - rewrite <- app_assoc. simpl. assumption.
    - apply NoDup_remove_1 in H. assumption.
  Qed.

  (* ---------------------------------------------------------------- a turn starts *)
  Lemma begin_turn_inv : forall s id q rest s' evs,
    wf rest -> exec _ _ _ s = steps_of rest ->
    NoDup ((id :: q) ++ exec _ _ _ s) ->
    (forall x, In x ((id :: q) ++ exec _ _ _ s) <-> live (tasks _ _ _ s) x = true) ->
    begin_turn s id q rest = (s', evs) -> Inv s'.
  Proof.
    intros s id q rest s' evs Hwf Hex Hnd Hlive H. unfold begin_turn in H.
    assert (Hl : live (tasks _ _ _ s) id = true) by (apply Hlive; left; reflexivity).
    unfold live in Hl. destruct (lookup id (tasks _ _ _ s)) as [t|] eqn:Elk; [|discriminate].
    apply negb_true_iff in Hl.
    pose proof (prelude_done (tasks _ _ _ s) id t (reads _ _ _ s) Hl) as Hp.
    destruct (prelude (tasks _ _ _ s) id t (reads _ _ _ s)) as [sc t' ev rd|c t' ev rd]; inversion H; subst; clear H.
    - (* the step ends at once *)
      unfold Inv; simpl. repeat split; auto.
      + apply nodup_requeue. simpl in Hnd. apply NoDup_cons_iff in Hnd. destruct Hnd as [Hn Hd].
        apply NoDup_Add with (a := id) (l := q ++ exec _ _ _ s); [apply Add_app|]. split; assumption.
      + intro Hin. rewrite (live_update_set _ _ _ _ _ Elk). apply in_requeue in Hin.
        destruct (Nat.eqb id0 id) eqn:E.
        * apply Nat.eqb_eq in E. subst id0. rewrite Hp. destruct Hin as [Hin|[Hs _]].
          -- exfalso. simpl in Hnd. apply NoDup_cons_iff in Hnd. tauto.
          -- rewrite Hs. reflexivity.
        * apply Hlive. destruct Hin as [Hin|[_ Hx]]; [right; assumption|].
          apply Nat.eqb_neq in E. contradiction.
      + intro Hx. rewrite (live_update_set _ _ _ _ _ Elk) in Hx. apply in_requeue.
        destruct (Nat.eqb id0 id) eqn:E.
        * apply Nat.eqb_eq in E. subst id0. right. rewrite Hp in Hx. apply negb_true_iff in Hx.
          rewrite negb_false_iff in Hx. auto.
        * left. apply Hlive in Hx. destruct Hx as [Hx|Hx]; [|assumption].
          apply Nat.eqb_neq in E. congruence.
    - (* the statement starts *)
      unfold Inv; simpl. repeat split; auto.
      + rewrite Hex. reflexivity.
      + simpl in Hnd. apply NoDup_cons_iff in Hnd. destruct Hnd as [Hn Hd].
        apply NoDup_Add with (a := id) (l := q ++ exec _ _ _ s); [apply Add_app|]. split; assumption.
      + intro Hin. rewrite (live_update_set _ _ _ _ _ Elk).
        destruct (Nat.eqb id0 id) eqn:E.
        * rewrite Hp. reflexivity.
        * apply Hlive. apply Nat.eqb_neq in E. rewrite in_app_iff in *. simpl in *. intuition congruence.
      + intro Hx. rewrite (live_update_set _ _ _ _ _ Elk) in Hx.
        destruct (Nat.eqb id0 id) eqn:E.
        * apply Nat.eqb_eq in E. subst. rewrite in_app_iff. right. left. reflexivity.
        * apply Hlive in Hx. apply Nat.eqb_neq in E. rewrite in_app_iff in *. simpl in *. intuition congruence.
  Qed.

  (* ---------------------------------------------------------------- a statement of a task ends *)
  Lemma end_step_inv : forall s id o l rest p,
    Inv s -> kont _ _ _ s = FProg _ _ _ p :: FStep _ _ _ id :: rest ->
    Inv (fst (end_step s id o l rest)).
  Proof.
    intros s id o l rest p (Hwf & Hex & Hnd & Hlive) Hk. rewrite Hk in *. simpl in Hwf, Hex.
    unfold end_step.
    assert (Hl : live (tasks _ _ _ s) id = true) by (apply Hlive; rewrite Hex, in_app_iff; right; left; reflexivity).
    unfold live in Hl. destruct (lookup id (tasks _ _ _ s)) as [t|] eqn:Elk; [|discriminate].
    apply negb_true_iff in Hl.
    destruct (end_stmt L C len id o l t) as [[t' sc] evs] eqn:Ee.
    pose proof (end_stmt_done _ _ _ _ _ _ _ Hl Ee) as Hd.
    rewrite Hex in *. unfold Inv; simpl. repeat split; auto.
    - apply nodup_requeue. assumption.
    - intro Hin. rewrite (live_update_set _ _ _ _ _ Elk). apply in_requeue in Hin.
      destruct (Nat.eqb id0 id) eqn:E.
      + apply Nat.eqb_eq in E. subst id0. rewrite Hd. destruct Hin as [Hin|[Hs _]].
        * exfalso. apply NoDup_remove_2 in Hnd. contradiction.
        * rewrite Hs. reflexivity.
      + apply Hlive. apply Nat.eqb_neq in E. rewrite in_app_iff in *. simpl. intuition congruence.
    - intro Hx. rewrite (live_update_set _ _ _ _ _ Elk) in Hx. apply in_requeue.
      destruct (Nat.eqb id0 id) eqn:E.
      + apply Nat.eqb_eq in E. subst id0. right. rewrite Hd in Hx. rewrite negb_involutive in Hx. auto.
      + left. apply Hlive in Hx. apply Nat.eqb_neq in E. rewrite in_app_iff in *. simpl in Hx. intuition congruence.
  Qed.

  (* ---------------------------------------------------------------- requests *)
  Lemma inv_tasks_pres : forall s ts' k',
    Inv s -> wf k' -> steps_of k' = steps_of (kont _ _ _ s) ->
    (forall id, live ts' id = live (tasks _ _ _ s) id) ->
    forall rd g, Inv (mkState L G C (queue _ _ _ s) ts' (exec _ _ _ s) rd g k').
  Proof.
    intros s ts' k' (Hwf & Hex & Hnd & Hlive) Hwf' Hst Hl rd g. unfold Inv; simpl. repeat split; auto.
    - congruence.
    - intro. rewrite Hl. apply Hlive. assumption.
    - intro. apply Hlive. rewrite <- Hl. assumption.
  Qed.

  Lemma inv_spawn : forall s t k',
    Inv s -> wf k' -> steps_of k' = steps_of (kont _ _ _ s) -> t_done L C t = false ->
    forall rd g, Inv (mkState L G C (queue _ _ _ s ++ [S (length (tasks _ _ _ s))]) (tasks _ _ _ s ++ [t]) (exec _ _ _ s) rd g k').
  Proof.
    intros s t k' (Hwf & Hex & Hnd & Hlive) Hwf' Hst Ht rd g. unfold Inv; simpl.
    assert (Hnew : ~ In (S (length (tasks _ _ _ s))) (queue _ _ _ s ++ exec _ _ _ s)).
    { intro Hin. apply Hlive in Hin. apply live_range in Hin. lia. }
    repeat split; auto.
    - congruence.
    - rewrite <- app_assoc. simpl.
      apply NoDup_Add with (a := S (length (tasks _ _ _ s))) (l := queue _ _ _ s ++ exec _ _ _ s); [apply Add_app|].
      split; assumption.
    - intro Hin. rewrite live_app. destruct (Nat.eqb id (S (length (tasks _ _ _ s)))) eqn:E.
      + rewrite Ht. reflexivity.
      + apply Hlive. apply Nat.eqb_neq in E. rewrite !in_app_iff in *. simpl in Hin. intuition congruence.
    - intro Hx. rewrite live_app in Hx. destruct (Nat.eqb id (S (length (tasks _ _ _ s)))) eqn:E.
      + apply Nat.eqb_eq in E. subst. rewrite !in_app_iff. simpl. auto.
      + apply Hlive in Hx. rewrite !in_app_iff in *. simpl. intuition.
  Qed.

  Lemma wf_loops_app : forall pre k, Forall loop_frame pre -> wf k -> wf (pre ++ k).
  Proof. induction 1; intro Hk; simpl; auto. apply wf_loop_push; auto. Qed.

  Lemma steps_loops_app : forall pre k, Forall loop_frame pre -> steps_of (pre ++ k) = steps_of k.
  Proof. induction 1; simpl; auto. rewrite <- IHForall. apply steps_loop. assumption. Qed.

  (* the statement on top continues as p', possibly under new loop frames *)
  Lemma inv_prog_swap : forall s p rest pre p' ts' rd g,
    Inv s -> kont _ _ _ s = FProg _ _ _ p :: rest -> Forall loop_frame pre ->
    (forall id, live ts' id = live (tasks _ _ _ s) id) ->
    Inv (mkState L G C (queue _ _ _ s) ts' (exec _ _ _ s) rd g (pre ++ FProg _ _ _ p' :: rest)).
  Proof.
    intros s p rest pre p' ts' rd g HI Hk Hpre Hl. pose proof HI as (Hwf & _). rewrite Hk in Hwf.
    apply inv_tasks_pres; auto.
    - apply wf_loops_app; [assumption|]. eapply wf_prog_swap; eauto.
    - rewrite steps_loops_app by assumption. rewrite Hk. reflexivity.
  Qed.

  Lemma inv_spawn_prog : forall s p rest p' t rd g,
    Inv s -> kont _ _ _ s = FProg _ _ _ p :: rest -> t_done L C t = false ->
    Inv (mkState L G C (queue _ _ _ s ++ [S (length (tasks _ _ _ s))]) (tasks _ _ _ s ++ [t]) (exec _ _ _ s) rd g
                 (FProg _ _ _ p' :: rest)).
  Proof.
    intros s p rest p' t rd g HI Hk Ht. pose proof HI as (Hwf & _). rewrite Hk in Hwf.
    apply inv_spawn; [assumption| |rewrite Hk; reflexivity|assumption].
    eapply wf_prog_swap; eauto.
  Qed.

  Lemma step_prog_inv : forall s p rest,
    Inv s -> kont _ _ _ s = FProg _ _ _ p :: rest -> Inv (fst (step_prog s p rest)).
  Proof.
    intros s p rest HI Hk. pose proof HI as (Hwf & Hex & Hnd & Hlive). rewrite Hk in Hwf, Hex.
    assert (L1 : forall f, loop_frame f -> Forall loop_frame [f]) by (intros; constructor; auto).
    destruct p; simpl.
    - (* PDone *)
      destruct rest as [|f rest']; [simpl in Hwf; contradiction|].
      destruct f; simpl in Hwf; try contradiction.
      + eapply end_step_inv; eauto.
      + subst rest'. unfold with_kont. destruct o; simpl.
        * apply inv_tasks_pres; auto.
          -- destruct (has_tasks L G C s); simpl; auto.
          -- rewrite Hk. destruct (has_tasks L G C s); reflexivity.
        * apply inv_tasks_pres; simpl; auto. rewrite Hk. reflexivity.
        * apply inv_tasks_pres; simpl; auto. rewrite Hk. reflexivity.
    - (* POut *)
      unfold with_kont. eapply (inv_prog_swap s _ rest [] p (tasks _ _ _ s)); eauto.
    - (* PSpawn *)
      eapply inv_spawn_prog; eauto.
    - (* PSleep *)
      eapply inv_spawn_prog; eauto.
    - (* PNow *)
      eapply (inv_prog_swap s _ rest [] (k (clock (reads _ _ _ s))) (tasks _ _ _ s)); eauto.
    - (* PAwait *)
      eapply (inv_prog_swap s _ rest [FUntil _ _ _ w] p); eauto.
      + apply L1. exact I.
      + intro id. destruct (exec _ _ _ s); [reflexivity|]. apply live_update_pres. reflexivity.
    - (* PTimeout *)
      eapply (inv_prog_swap s _ rest [] p); eauto.
      intro id. apply live_update_pres. reflexivity.
    - (* PCycle *)
      unfold with_kont. destruct (has_tasks L G C s).
      + eapply (inv_prog_swap s _ rest [FCycle _ _ _] p (tasks _ _ _ s)); eauto. apply L1. exact I.
      + eapply (inv_prog_swap s _ rest [] p (tasks _ _ _ s)); eauto.
    - (* PBg *)
      unfold with_kont. eapply (inv_prog_swap s _ rest [FBg _ _ _ (length (tasks _ _ _ s))] p (tasks _ _ _ s)); eauto.
      apply L1. exact I.
    - (* PRunAll *)
      unfold with_kont. eapply (inv_prog_swap s _ rest [FRunAll _ _ _] p (tasks _ _ _ s)); eauto.
      apply L1. exact I.
    - (* PGlob *)
      destruct (k (glob _ _ _ s)) as [g' p'] eqn:Eg. simpl.
      eapply (inv_prog_swap s _ rest [] p' (tasks _ _ _ s)); eauto.
  Qed.

  (* ---------------------------------------------------------------- one step, n steps *)
  Theorem step_inv : forall s, Inv s -> Inv (fst (step s)).
  Proof.
    intros s HI. pose proof HI as (Hwf & Hex & Hnd & Hlive). unfold step.
    destruct (kont _ _ _ s) as [|f rest] eqn:Hk; [assumption|].
    destruct f.
    - apply step_prog_inv; assumption.
    - simpl in Hwf. contradiction.
    - (* FUntil *)
      assert (Hpop : Inv (with_kont L G C s rest)).
      { unfold with_kont. apply inv_tasks_pres; auto. rewrite Hk. reflexivity. }
      destruct (lookup w (tasks _ _ _ s)); [|exact Hpop].
      destruct (t_done L C t); [exact Hpop|].
      destruct (queue _ _ _ s); [exact Hpop|].
      unfold with_kont. apply inv_tasks_pres; auto. rewrite Hk. reflexivity.
    - (* FCycle *)
      destruct (queue _ _ _ s) as [|id q] eqn:Hq.
      + unfold with_kont. simpl. apply inv_tasks_pres; auto. rewrite Hk. reflexivity.
      + destruct (cur_is L G C s id) eqn:Hc.
        * (* the skip branch: contradicts the invariant, a queued task is not executing *)
          exfalso. unfold cur_is in Hc. destruct (exec _ _ _ s) as [|cur ex]; [discriminate|].
          apply Nat.eqb_eq in Hc. subst cur. simpl in Hnd.
          apply NoDup_cons_iff in Hnd. destruct Hnd as [Hn _]. apply Hn.
          rewrite in_app_iff. right. left. reflexivity.
        * destruct (begin_turn s id q rest) as [s' evs] eqn:Hb. simpl.
          simpl in Hwf, Hex. apply (begin_turn_inv s id q rest s' evs); auto.
    - (* FBg *)
      assert (Hpop : Inv (with_kont L G C s rest)).
      { unfold with_kont. apply inv_tasks_pres; auto. rewrite Hk. reflexivity. }
      destruct n; [exact Hpop|]. destruct (queue _ _ _ s); [exact Hpop|].
      unfold with_kont. apply inv_tasks_pres; auto. rewrite Hk. reflexivity.
    - (* FRunAll *)
      destruct (queue _ _ _ s) as [|id q] eqn:Hq.
      + unfold with_kont. simpl. apply inv_tasks_pres; auto. rewrite Hk. reflexivity.
      + destruct (begin_turn s id q (FRunAll _ _ _ :: rest)) as [s' evs] eqn:Hb. simpl.
        simpl in Hwf, Hex. apply (begin_turn_inv s id q (FRunAll _ _ _ :: rest) s' evs); auto.
    - (* FMain *)
      simpl in Hwf. subst rest.
      destruct (i <? len main_code); unfold with_kont; apply inv_tasks_pres; simpl; auto; rewrite Hk; reflexivity.
    - simpl in Hwf. contradiction.
  Qed.

  Theorem run_inv : forall n s, Inv s -> Inv (fst (run n s)).
  Proof.
    induction n; intros s HI; simpl; [assumption|].
    pose proof (step_inv s HI) as H1. destruct (step s) as [s1 e1]. simpl in H1.
    pose proof (IHn s1 H1) as H2. destruct (run n s1) as [s2 e2]. exact H2.
  Qed.

  (* a state reachable from the start of some program *)
  Definition reachable (s : state) : Prop := exists g0 l0 n, s = fst (run n (init L G C g0 l0)).

  Theorem reachable_inv : forall s, reachable s -> Inv s.
  Proof. intros s (g0 & l0 & n & ->). apply run_inv. apply Inv_init. Qed.

  Lemma reachable_step : forall s, reachable s -> reachable (fst (step s)).
  Proof.
    intros s (g0 & l0 & n & ->). exists g0, l0, (n + 1).
    assert (Hr : forall n m s0, run (n + m) s0 = let '(s1, e1) := run n s0 in let '(s2, e2) := run m s1 in (s2, e1 ++ e2)).
    { induction n0; intros m s0; simpl.
      - destruct (run m s0); reflexivity.
      - destruct (step s0) as [s1 e1]. rewrite IHn0. destruct (run n0 s1) as [s2 e2].
        destruct (run m s2) as [s3 e3]. rewrite app_assoc. reflexivity. }
    rewrite Hr. destruct (run n (init L G C g0 l0)) as [s1 e1]. simpl.
    destruct (step s1) as [s2 e2]. reflexivity.
  Qed.

  (* ---------------------------------------------------------------- consequences *)
  Lemma nodup_app_l : forall (a b : list nat), NoDup (a ++ b) -> NoDup a.
  Proof.
    induction a; intros b H; [constructor|]. simpl in H. apply NoDup_cons_iff in H. destruct H as [Hn Hd].
    constructor; [|eapply IHa; eauto]. intro Hin. apply Hn. apply in_app_iff. auto.
  Qed.

  Theorem queue_nodup_l : forall s, reachable s -> NoDup (queue _ _ _ s).
  Proof.
    intros s H. apply reachable_inv in H. destruct H as (_ & _ & Hnd & _).
    eapply nodup_app_l; eauto.
  Qed.

  Theorem queue_is_live_non_executing_l : forall s id, reachable s ->
    (In id (queue _ _ _ s) <->
     (exists t, lookup id (tasks _ _ _ s) = Some t /\ t_done L C t = false) /\ ~ In id (exec _ _ _ s)).
  Proof.
    intros s id H. apply reachable_inv in H. destruct H as (_ & _ & Hnd & Hlive). split.
    - intro Hin. split.
      + assert (Hl : live (tasks _ _ _ s) id = true) by (apply Hlive; rewrite in_app_iff; auto).
        unfold live in Hl. destruct (lookup id (tasks _ _ _ s)) as [t|]; [|discriminate].
        exists t. split; [reflexivity|]. apply negb_true_iff. assumption.
      + intro Hex. apply in_split in Hin. destruct Hin as (l1 & l2 & Hq). rewrite Hq in Hnd.
        rewrite <- app_assoc in Hnd. simpl in Hnd. apply NoDup_remove_2 in Hnd. apply Hnd.
        rewrite !in_app_iff. auto.
    - intros [(t & Hlk & Hd) Hnex].
      assert (Hin : In id (queue _ _ _ s ++ exec _ _ _ s)).
      { apply Hlive. unfold live. rewrite Hlk, Hd. reflexivity. }
      rewrite in_app_iff in Hin. tauto.
  Qed.

  Theorem executing_not_in_queue_l : forall s id, reachable s ->
    In id (exec _ _ _ s) -> ~ In id (queue _ _ _ s).
  Proof.
    intros s id H Hex Hq. apply (queue_is_live_non_executing_l s id H) in Hq. tauto.
  Qed.

  (* the branch "the popped task is the executing one" of run_one_cycle is dead code: whenever
     run_one_cycle pops a head, that head is not current_executing_task_id_ *)
  Theorem skip_branch_dead_l : forall s rest id q, reachable s ->
    kont _ _ _ s = FCycle _ _ _ :: rest -> queue _ _ _ s = id :: q -> cur_is L G C s id = false.
  Proof.
    intros s rest id q H Hk Hq. destruct (cur_is L G C s id) eqn:Hc; [|reflexivity]. exfalso.
    unfold cur_is in Hc. destruct (exec _ _ _ s) as [|cur ex] eqn:He; [discriminate|].
    apply Nat.eqb_eq in Hc. subst cur.
    apply (executing_not_in_queue_l s id H); [rewrite He|rewrite Hq]; left; reflexivity.
  Qed.
End Inv.
