(* C15 - a concrete family of task programs (the ones the correspondence harness prints as Cb
   source) and their meaning as request trees of the scheduler machine of Model.v.
   Definitions only.  The theorems of Properties_C15.v are about the machine for EVERY [code];
   this instance is what is extracted and run against the implementation, and what the
   [_refuted] witnesses are written in. *)
From Coq Require Import List ZArith Bool Arith.
From Cb Require Import C15.Model C15.Body.
Import ListNotations.
Local Open Scope nat_scope.

(* statements without a suspension point of their own *)
Inductive simple :=
| XPrint (tag : Z)                    (* println("P", tag); *)
| XCall (tags : list Z)               (* h(); where plain h prints the tags, one statement each *)
| XFire (f : nat)                     (* f();                          async call, result dropped *)
| XSpawn (f slot : nat)               (* Future<int> v = f();          local future *)
| XSpawnG (f g : nat)                 (* g = f();                      global future *)
| XAwait (slot : nat)                 (* int r = await v; *)
| XAwaitG (g : nat)                   (* int r = await g; *)
| XAwaitCall (f : nat)                (* int r = await f(); *)
| XSleep (ms : Z)                     (* await sleep(ms); *)
| XSleepFut (ms : Z) (slot : nat)     (* Future<int> v = sleep(ms); *)
| XTimeout (slot : nat) (ms : Z) (slot' : nat)   (* Future<int> v' = timeout(v, ms); *)
| XMark                               (* t0 = now(); *)
| XElapsed                            (* t1 = now(); println("P", t1 - t0); *)
| XRunAll.                            (* run_event_loop(); *)

Inductive stmt :=
| SSimple (x : simple)
| SYield                              (* yield;   (top level of a task body) *)
| SReturn                             (* return k; *)
| SLoop (n : nat) (body : list simple)    (* for (int i = 0; i < n; i = i + 1) { body } *)
| SBody (b : bstmt simple).               (* any structured statement of Body.v *)

(* l_env: the loop counters and resume positions of the activation (Body.v) *)
Record locals := mkLocals { l_slots : list (nat * nat); l_iter : nat; l_t0 : Z; l_env : env }.
Definition globals := list (nat * nat).

Definition l0 : locals := mkLocals [] 0 0%Z env0.

Fixpoint get (k : nat) (m : list (nat * nat)) : nat :=
  match m with
  | [] => 0
  | (k', v) :: r => if Nat.eqb k k' then v else get k r
  end.
Definition set (k v : nat) (m : list (nat * nat)) : list (nat * nat) := (k, v) :: m.

Definition set_slot (k v : nat) (l : locals) := mkLocals (set k v (l_slots l)) (l_iter l) (l_t0 l) (l_env l).
Definition set_iter (i : nat) (l : locals) := mkLocals (l_slots l) i (l_t0 l) (l_env l).
Definition set_t0 (t : Z) (l : locals) := mkLocals (l_slots l) (l_iter l) t (l_env l).
Definition set_env (e : env) (l : locals) := mkLocals (l_slots l) (l_iter l) (l_t0 l) e.

Notation cprog := (prog locals globals nat).

Definition do_simple (x : simple) (l : locals) (k : locals -> cprog) : cprog :=
  match x with
  | XPrint t => POut _ _ _ t (k l)
  | XCall tags => fold_right (fun t p => POut _ _ _ t (PCycle _ _ _ p)) (k l) tags
  | XFire f => PSpawn _ _ _ f l0 (fun _ => k l)
  | XSpawn f slot => PSpawn _ _ _ f l0 (fun id => k (set_slot slot id l))
  | XSpawnG f g => PSpawn _ _ _ f l0 (fun id => PGlob _ _ _ (fun gs => (set g id gs, k l)))
  | XAwait slot => PAwait _ _ _ (get slot (l_slots l)) (k l)
  | XAwaitG g => PGlob _ _ _ (fun gs => (gs, PAwait _ _ _ (get g gs) (k l)))
  | XAwaitCall f => PSpawn _ _ _ f l0 (fun id => PAwait _ _ _ id (k l))
  | XSleep ms => PSleep _ _ _ ms (fun id => PAwait _ _ _ id (k l))
  | XSleepFut ms slot => PSleep _ _ _ ms (fun id => k (set_slot slot id l))
  | XTimeout slot ms slot' =>
      PTimeout _ _ _ (get slot (l_slots l)) ms (k (set_slot slot' (get slot (l_slots l)) l))
  | XMark => PNow _ _ _ (fun t => k (set_t0 t l))
  | XElapsed => PNow _ _ _ (fun t => POut _ _ _ (t - l_t0 l)%Z (k l))
  | XRunAll => PRunAll _ _ _ (k l)
  end.

Fixpoint do_seq (xs : list simple) (l : locals) (k : locals -> cprog) : cprog :=
  match xs with
  | [] => k l
  | x :: r => do_simple x l (fun l' => do_seq r l' k)
  end.

(* a loop outside a task: all iterations in one statement, run_background_tasks_one_cycle after
   each (control_flow_executor.cpp, the branch for !is_in_auto_yield_mode) *)
Fixpoint main_loop (n : nat) (body : list simple) (l : locals) : cprog :=
  match n with
  | 0 => PDone _ _ _ ONormal l
  | S n' => do_seq body l (fun l' => PBg _ _ _ (main_loop n' body l'))
  end.

(* the items of one step of a structured statement (Body.exec) as scheduler requests; the ghost
   marks ask nothing *)
Fixpoint do_items (its : list (item simple)) (l : locals) (k : locals -> cprog) : cprog :=
  match its with
  | [] => k l
  | ISimple x :: r => do_simple x l (fun l' => do_items r l' k)
  | IBg :: r => PBg _ _ _ (do_items r l k)
  | ICycle :: r => PCycle _ _ _ (do_items r l k)
  | _ :: r => do_items r l k
  end.

(* how execute_one_step / main's statement list see the end of the statement *)
Definition out_of (r : res) : outcome :=
  match r with
  | RYield fl => OYield fl
  | RReturn => OReturn
  | _ => ONormal
  end.

(* recursion depth + iterations of one step (no generated statement comes near it) *)
Definition body_fuel : nat := 400.

Definition denote_body_f (fuel : nat) (is_task : bool) (b : bstmt simple) (l : locals) : cprog :=
  let '(its, r, e') := bexec simple is_task fuel b (l_env l) in
  do_items its l (fun l' =>
    match r with
    | RFuel => POut _ _ _ (-1)%Z (PDone _ _ _ OReturn (set_env e' l'))     (* visible: never matches the implementation *)
    | _ => PDone _ _ _ (out_of r) (set_env e' l')
    end).
Definition denote_body : bool -> bstmt simple -> locals -> cprog := denote_body_f body_fuel.

(* one top-level statement.  Inside a task every loop iteration ends the step with
   YieldException(true) (auto_yield is true for every task: AsyncTask's default, never reset);
   re-entering the statement continues with the next iteration. *)
Definition denote (is_task : bool) (st : stmt) (l : locals) : cprog :=
  match st with
  | SSimple x => do_simple x l (fun l' => PDone _ _ _ ONormal l')
  | SYield => PDone _ _ _ (OYield false) l
  | SReturn => PDone _ _ _ OReturn l
  | SLoop n body =>
      if is_task then
        if l_iter l <? n
        then do_seq body l (fun l' => PDone _ _ _ (OYield true) (set_iter (S (l_iter l')) l'))
        else PDone _ _ _ ONormal (set_iter 0 l)
      else main_loop n body l
  | SBody b => denote_body is_task b l
  end.

(* function 0 is main; an async call names a function >= 1 *)
Definition clen (funs : list (list stmt)) (c : nat) : nat := length (nth c funs []).
Definition ccode (funs : list (list stmt)) (c idx : nat) (l : locals) : cprog :=
  denote (negb (Nat.eqb c 0)) (nth idx (nth c funs []) SReturn) l.

(* the CB_VERIF_CLOCK virtual clock (common/verif_hooks.h: starts at 1000000, += step per read) *)
Definition vclock (stepms : Z) (r : nat) : Z := (1000000 + stepms * Z.of_nat (S r))%Z.

Definition cstate := state locals globals nat.
Definition cstep (funs : list (list stmt)) (stepms : Z) : cstate -> cstate * list event :=
  step locals globals nat (clen funs) (ccode funs) (vclock stepms) l0 0.
Definition crun (funs : list (list stmt)) (stepms : Z) : nat -> cstate -> cstate * list event :=
  run locals globals nat (clen funs) (ccode funs) (vclock stepms) l0 0.
Definition cinit : cstate := init locals globals nat [] l0.

(* observers used by the driver *)
Definition chalted (s : cstate) : bool := halted _ _ _ s.
Definition task_status (t : task locals nat) : nat :=   (* 0 ready, 1 waiting, 2 sleeping, 3 done *)
  if t_done _ _ t then 3
  else if t_sleeping _ _ t then 2
  else match t_wait _ _ t with Some _ => 1 | None => 0 end.

(* ghost observations for the harness (not part of the C++ trace):
   an await loop about to be left although its target is not done (the queue ran empty) *)
Definition until_exit_undone (s : cstate) : bool :=
  match kont _ _ _ s with
  | FUntil _ _ _ w :: _ =>
      match lookup _ _ w (tasks _ _ _ s) with
      | Some t => negb (t_done _ _ t) && (match queue _ _ _ s with [] => true | _ => false end)
      | None => false
      end
  | _ => false
  end.

(* some await loop in the stack has a finished target but lies beneath an await loop whose target is
   not finished: the first cannot return before the second does (the C++ stack is LIFO) *)
Fixpoint done_under_undone (ts : list (task locals nat)) (k : list (frame locals globals nat)) (undone_above : bool) : bool :=
  match k with
  | [] => false
  | FUntil _ _ _ w :: r =>
      if is_done _ _ w ts then undone_above || done_under_undone ts r undone_above
      else done_under_undone ts r true
  | _ :: r => done_under_undone ts r undone_above
  end.
Definition lifo_delay (s : cstate) : bool := done_under_undone (tasks _ _ _ s) (kont _ _ _ s) false.
