(* C15 - await: a task marked waiting is not stepped until its target is done, is stepped right
   after; the loop of run_until_complete is left only when the target is done, unless the target
   is suspended beneath the awaiting task (then it is left when the queue runs empty). *)
From Coq Require Import List ZArith Bool Arith Lia.
From Cb Require Import C15.Model C15.Invariants.
Import ListNotations.
Local Open Scope nat_scope.

Section Await.
  Variables (L G C : Type).
  Variable len : C -> nat.
  Variable code : C -> nat -> L -> prog L G C.
  Variable clock : nat -> Z.
  Variable dflt : L.
  Variable main_code : C.

  Notation state := (state L G C).
  Notation step := (step L G C len code clock dflt main_code).
  Notation begin_turn := (begin_turn L G C len code clock).
  Notation reachable := (reachable L G C len code clock dflt main_code).
  Notation lookup := (lookup L C).

  Lemma upd_nth_id : forall k (ts : list (task L C)) t,
    nth_error ts k = Some t -> upd_nth L C k (fun _ => t) ts = ts.
  Proof.
    induction k; intros [|x r] t H; simpl in *; try discriminate.
    - inversion H; reflexivity.
    - f_equal. apply IHk. assumption.
  Qed.

  Lemma update_id : forall id ts t, lookup id ts = Some t -> update L C id (fun _ => t) ts = ts.
  Proof. intros [|k] ts t H; simpl in *; [discriminate|]. apply upd_nth_id. assumption. Qed.

  (* the turn of a task that waits for an unfinished task: "blocked", back to the end of the queue,
     nothing else changes - its body is not run, its state is untouched *)
  Lemma begin_turn_blocked : forall s id q rest t w,
    lookup id (tasks _ _ _ s) = Some t -> t_done L C t = false ->
    t_wait L C t = Some w -> is_done L C w (tasks _ _ _ s) = false ->
    begin_turn s id q rest =
      (mkState L G C (q ++ [id]) (tasks _ _ _ s) (exec _ _ _ s) (reads _ _ _ s) (glob _ _ _ s) rest,
       [EBlocked id w; ERequeue id]).
  Proof.
    intros s id q rest t w Hlk Hd Hw Hdone. unfold begin_turn. rewrite Hlk.
    unfold prelude. rewrite Hd. unfold pre_wait. rewrite Hw, Hdone. simpl.
    rewrite (update_id _ _ _ Hlk). reflexivity.
  Qed.

  Theorem waiting_task_not_stepped_l : forall s rest id q t w,
    kont _ _ _ s = FCycle _ _ _ :: rest -> queue _ _ _ s = id :: q -> cur_is L G C s id = false ->
    lookup id (tasks _ _ _ s) = Some t -> t_done L C t = false ->
    t_wait L C t = Some w -> is_done L C w (tasks _ _ _ s) = false ->
    step s =
      (mkState L G C (q ++ [id]) (tasks _ _ _ s) (exec _ _ _ s) (reads _ _ _ s) (glob _ _ _ s) rest,
       [ETurn id false; EBlocked id w; ERequeue id]).
  Proof.
    intros s rest id q t w Hk Hq Hc Hlk Hd Hw Hdone. unfold step. rewrite Hk, Hq, Hc.
    rewrite (begin_turn_blocked s id q rest t w Hlk Hd Hw Hdone). reflexivity.
  Qed.

  (* the same turn once the target is done: "unblocked" and (no sleep, no timeout pending) the next
     statement of the task starts in this very turn *)
  Theorem resumes_after_done_l : forall s rest id q t w c,
    kont _ _ _ s = FCycle _ _ _ :: rest -> queue _ _ _ s = id :: q -> cur_is L G C s id = false ->
    lookup id (tasks _ _ _ s) = Some t -> t_done L C t = false ->
    t_wait L C t = Some w -> is_done L C w (tasks _ _ _ s) = true ->
    t_sleeping L C t = false -> t_has_to L C t = false ->
    t_code L C t = Some c -> t_idx L C t < len c ->
    exists ts',
    step s =
      (mkState L G C q ts' (id :: exec _ _ _ s) (reads _ _ _ s) (glob _ _ _ s)
               (FProg _ _ _ (code c (t_idx L C t) (t_local L C t)) :: FStep _ _ _ id :: rest),
       [ETurn id false; EUnblocked id; EExec id (t_idx L C t)]) /\
    (forall t', lookup id ts' = Some t' -> t_wait L C t' = None).
  Proof.
    intros s rest id q t w c Hk Hq Hc Hlk Hd Hw Hdone Hs Hto Hcode Hidx.
    exists (update L C id (fun _ => set_started L C (set_wait L C None t)) (tasks _ _ _ s)). split.
    - unfold step. rewrite Hk, Hq, Hc. unfold begin_turn. rewrite Hlk.
      unfold prelude. rewrite Hd. unfold pre_wait. rewrite Hw, Hdone.
      unfold pre_sleep. simpl. rewrite Hs. unfold pre_timeout. simpl. rewrite Hto. simpl.
      unfold pre_body. simpl. rewrite Hcode. apply Nat.ltb_lt in Hidx. rewrite Hidx. reflexivity.
    - intros t' Ht'. rewrite lookup_update, Nat.eqb_refl, Hlk in Ht'. simpl in Ht'.
      inversion Ht'. reflexivity.
  Qed.

  (* await w: the executing task is marked, the loop of run_until_complete(w) is entered *)
  Theorem await_enters_loop_l : forall s w k rest,
    kont _ _ _ s = FProg _ _ _ (PAwait _ _ _ w k) :: rest ->
    kont _ _ _ (fst (step s)) = FUntil _ _ _ w :: FProg _ _ _ k :: rest /\
    exec _ _ _ (fst (step s)) = exec _ _ _ s /\ snd (step s) = [].
  Proof. intros s w k rest Hk. unfold step. rewrite Hk. simpl. auto. Qed.

  Lemma cons2_neq : forall (A : Type) (a b : A) (l : list A), a :: b :: l <> l.
  Proof.
    intros A a b l H. assert (Hl : length (a :: b :: l) = length l) by (rewrite H; reflexivity).
    simpl in Hl. lia.
  Qed.

  (* THE AWAIT LOOP: when run_until_complete(w) returns, w is done - provided w is a registered task
     that is not suspended beneath the awaiting one (not on the chain of executing tasks) *)
  Theorem await_loop_exit_l : forall s w rest tw,
    reachable s -> kont _ _ _ s = FUntil _ _ _ w :: rest ->
    lookup w (tasks _ _ _ s) = Some tw -> ~ In w (exec _ _ _ s) ->
    kont _ _ _ (fst (step s)) = rest -> t_done L C tw = true.
  Proof.
    intros s w rest tw Hr Hk Hlk Hnex Hpop.
    destruct (t_done L C tw) eqn:Hd; [reflexivity|]. exfalso.
    unfold step in Hpop. rewrite Hk, Hlk, Hd in Hpop.
    destruct (queue _ _ _ s) as [|h q] eqn:Hq.
    - (* the queue is empty: an unfinished registered task is queued or executing *)
      apply reachable_inv in Hr. destruct Hr as (_ & _ & _ & Hlive).
      assert (Hin : In w (queue _ _ _ s ++ exec _ _ _ s)).
      { apply Hlive. unfold live. rewrite Hlk, Hd. reflexivity. }
      rewrite Hq in Hin. simpl in Hin. contradiction.
    - simpl in Hpop. eapply cons2_neq; eauto.
  Qed.

  (* the chain of executing tasks is a property of the frames beneath the loop, so it is the same
     when the loop is entered and whenever the loop frame is on top again *)
  Theorem exec_is_frames_beneath_l : forall s w rest,
    reachable s -> kont _ _ _ s = FUntil _ _ _ w :: rest -> exec _ _ _ s = steps_of L G C rest.
  Proof.
    intros s w rest Hr Hk. apply reachable_inv in Hr. destruct Hr as (_ & Hex & _). rewrite Hex, Hk. reflexivity.
  Qed.

  (* while the loop waits (target unfinished, queue not empty) it does nothing but run_one_cycle *)
  Theorem await_loop_cycles_l : forall s w rest tw h q,
    kont _ _ _ s = FUntil _ _ _ w :: rest -> lookup w (tasks _ _ _ s) = Some tw ->
    t_done L C tw = false -> queue _ _ _ s = h :: q ->
    step s = (with_kont L G C s (FCycle _ _ _ :: FUntil _ _ _ w :: rest), []).
  Proof. intros s w rest tw h q Hk Hlk Hd Hq. unfold step. rewrite Hk, Hlk, Hd, Hq. reflexivity. Qed.
End Await.
