(* C15 - structured statements of a task (or of main): blocks, if, for, while, continue, break,
   explicit yield, return, calls of plain functions - and the way the interpreter runs ONE STEP of
   such a statement, resumes it after a suspension and decides where an iteration ends.
   Definitions only.  Mirrors, function by function:

     src/backend/interpreter/executors/control_flow_executor.cpp
        ControlFlowExecutor::execute_if_statement, execute_while_statement, execute_for_statement
        (for: init only when the loop variable does not exist yet - "re-entered after a yield";
         the ContinueException / YieldException / BreakException / ReturnException handlers;
         `throw YieldException(true)` at the iteration boundary in auto-yield mode,
         `run_background_tasks_one_cycle()` otherwise)
     src/backend/interpreter/executors/statement_list_executor.cpp
        StatementListExecutor::execute_compound_statement (resume position of a `{ }` block in
        current_statement_positions(): i for a loop yield, i+1 for an explicit yield, erased on
        normal end / break / continue / return), execute_statement_list (body of a called plain
        function: own scope, own position map, one run_one_cycle after every statement)
     src/backend/interpreter/core/interpreter.cpp  AST_YIELD_STMT -> throw YieldException()

   What the simple statements of a body ask of the scheduler does not matter for control flow
   (conditions only read loop counters), so one step of a statement is a PURE function
        bexec : statement -> environment -> (items, result, environment')
   [items] = the simple statements executed in this step, in order, interleaved with the places the
   loop code itself enters the scheduler (IBg = run_background_tasks_one_cycle, ICycle = the
   run_one_cycle after a statement of a called function) and with GHOST marks (IIter: an iteration
   of loop [id] starts; IIterEnd: it ended, and how).  Prog.v turns the items into a request tree of
   the scheduler machine; the marks are dropped there.  C++ exceptions are the result kinds. *)
From Coq Require Import List Arith Bool.
Import ListNotations.
Local Open Scope nat_scope.

(* conditions read loop counters only *)
Inductive cond :=
| CTrue | CFalse
| CEq (v c : nat)            (* v == c *)
| CLt (v c : nat)            (* v < c *)
| CMod (v m r : nat)         (* v % m == r *)
| CNot (c : cond).

(* how the execution of a statement ends: normally or by one of the interpreter's exceptions *)
Inductive res := RNormal | RBreak | RContinue | RYield (from_loop : bool) | RReturn | RFuel.

(* how an iteration ended (ghost) *)
Inductive iter_end :=
| IFall             (* the body ran to its end *)
| IContinue         (* ContinueException *)
| IBreak            (* BreakException *)
| IReturn           (* ReturnException *)
| IYieldInner       (* YieldException(true) from a loop nested in the body *)
| IYieldExplicit    (* YieldException(false): a yield statement in the body *)
| IFuelEnd.

Definition amap := list (nat * nat).

Fixpoint alookup (k : nat) (m : amap) : option nat :=
  match m with
  | [] => None
  | (k', v) :: r => if Nat.eqb k k' then Some v else alookup k r
  end.
Fixpoint aremove (k : nat) (m : amap) : amap :=
  match m with
  | [] => []
  | (k', v) :: r => if Nat.eqb k k' then aremove k r else (k', v) :: aremove k r
  end.
Definition aset (k v : nat) (m : amap) : amap := (k, v) :: aremove k m.

(* the control state of a function activation: its integer variables (loop counters) and the
   resume positions (Scope::statement_positions, keyed by AST node) *)
Record env := mkEnv { e_vars : amap; e_pos : amap }.
Definition env0 : env := mkEnv [] [].

Definition var (v : nat) (e : env) : nat := match alookup v (e_vars e) with Some x => x | None => 0 end.
Definition set_var (v x : nat) (e : env) : env := mkEnv (aset v x (e_vars e)) (e_pos e).
Definition del_var (v : nat) (e : env) : env := mkEnv (aremove v (e_vars e)) (e_pos e).
Definition rpos (id : nat) (e : env) : nat := match alookup id (e_pos e) with Some x => x | None => 0 end.
Definition has_rpos (id : nat) (e : env) : bool := match alookup id (e_pos e) with Some _ => true | None => false end.
Definition set_rpos (id i : nat) (e : env) : env := mkEnv (e_vars e) (aset id i (e_pos e)).
Definition del_rpos (id : nat) (e : env) : env := mkEnv (e_vars e) (aremove id (e_pos e)).

Fixpoint eval (c : cond) (e : env) : bool :=
  match c with
  | CTrue => true
  | CFalse => false
  | CEq v k => Nat.eqb (var v e) k
  | CLt v k => var v e <? k
  | CMod v m r => Nat.eqb (Nat.modulo (var v e) m) r
  | CNot c' => negb (eval c' e)
  end.

Section Body.
  Variable A : Type.              (* the simple statements *)

  Inductive bstmt :=
  | BSimple (x : A)
  | BSet (v c : nat)                              (* v = c;   (also the declaration int v = c;) *)
  | BInc (v : nat)                                (* v = v + 1; *)
  | BContinue
  | BBreak
  | BYield
  | BReturn
  | BIf (c : cond) (t : bstmt) (e : option bstmt)
  | BBlock (id : nat) (body : list bstmt)         (* { ... }  AST_COMPOUND_STMT *)
  | BFor (id v n : nat) (body : bstmt)            (* for (int v = 0; v < n; v = v + 1) body *)
  | BWhile (id : nat) (c : cond) (body : bstmt)   (* while (c) body *)
  | BCall (id : nat) (body : list bstmt).         (* h();  plain function whose body is the list *)

  Inductive item :=
  | ISimple (x : A)
  | IBg                                   (* run_background_tasks_one_cycle() *)
  | ICycle                                (* run_one_cycle() after a statement of a called function *)
  | IIter (loop : nat)                    (* ghost: an iteration of the loop starts *)
  | IIterEnd (loop : nat) (k : iter_end). (* ghost: the iteration is over *)

  Variable task : bool.           (* Interpreter::is_in_auto_yield_mode() *)

  Definition for_cleanup (id v : nat) (owned : bool) (e : env) : env :=
    if owned then del_rpos id (del_var v e) else e.

  (* one step of a statement.  [fuel] bounds the recursion depth + the iterations run inside one
     step (all of them for a loop outside a task). *)
  Fixpoint bexec (fuel : nat) (s : bstmt) (e : env) {struct fuel} : list item * res * env :=
    match fuel with
    | 0 => ([], RFuel, e)
    | S f =>
      match s with
      | BSimple x => ([ISimple x], RNormal, e)
      | BSet v c => ([], RNormal, set_var v c e)
      | BInc v => ([], RNormal, set_var v (S (var v e)) e)
      | BContinue => ([], RContinue, e)
      | BBreak => ([], RBreak, e)
      | BYield => ([], RYield false, e)
      | BReturn => ([], RReturn, e)
      (* execute_if_statement: no handler of its own *)
      | BIf c t el =>
          if eval c e then bexec f t e
          else match el with Some s' => bexec f s' e | None => ([], RNormal, e) end
      (* execute_compound_statement: start at the remembered position *)
      | BBlock id body => block_from f id (skipn (rpos id e) body) (rpos id e) e
      (* execute_for_statement: the init runs only when the variable does not exist; a loop that
         finds its variable and its own mark was suspended and owns the variable *)
      | BFor id v n body =>
          match alookup v (e_vars e) with
          | None => for_iter f id v n body true (set_rpos id 1 (set_var v 0 e))
          | Some _ => for_iter f id v n body (has_rpos id e) e
          end
      | BWhile id c body => while_iter f id c body e
      (* a call: new scope, new position map; the caller's environment is untouched *)
      | BCall id body =>
          let '(its, r, _) := call_from f body env0 in (its, r, e)
      end
    end
  with for_iter (fuel : nat) (id v n : nat) (body : bstmt) (owned : bool) (e : env) {struct fuel}
       : list item * res * env :=
    match fuel with
    | 0 => ([], RFuel, e)
    | S f =>
      if var v e <? n then
        let '(its, r, e1) := bexec f body e in
        match r with
        | RNormal | RContinue =>
            (* the common end of an iteration: update, then the suspension point *)
            let k := match r with RContinue => IContinue | _ => IFall end in
            let e2 := set_var v (S (var v e1)) e1 in
            if task then (IIter id :: its ++ [IIterEnd id k], RYield true, e2)
            else
              let '(its2, r2, e3) := for_iter f id v n body owned e2 in
              (IIter id :: its ++ [IIterEnd id k; IBg] ++ its2, r2, e3)
        | RYield true =>
            (* auto-yield of a nested loop: the update runs, then rethrow *)
            (IIter id :: its ++ [IIterEnd id IYieldInner], RYield true, set_var v (S (var v e1)) e1)
        | RYield false =>
            (* explicit yield: rethrown as a loop yield, no update *)
            (IIter id :: its ++ [IIterEnd id IYieldExplicit], RYield true, e1)
        | RBreak => (IIter id :: its ++ [IIterEnd id IBreak], RNormal, for_cleanup id v owned e1)
        | RReturn => (IIter id :: its ++ [IIterEnd id IReturn], RReturn, e1)
        | RFuel => (IIter id :: its ++ [IIterEnd id IFuelEnd], RFuel, e1)
        end
      else ([], RNormal, for_cleanup id v owned e)
    end
  with while_iter (fuel : nat) (id : nat) (c : cond) (body : bstmt) (e : env) {struct fuel}
       : list item * res * env :=
    match fuel with
    | 0 => ([], RFuel, e)
    | S f =>
      if eval c e then
        let '(its, r, e1) := bexec f body e in
        match r with
        | RNormal | RContinue =>
            (* the common end of an iteration (since fix a1ebdfd the ContinueException handler falls
               through to it, as the for loop's does): the suspension point *)
            let k := match r with RContinue => IContinue | _ => IFall end in
            if task then (IIter id :: its ++ [IIterEnd id k], RYield true, e1)
            else
              let '(its2, r2, e2) := while_iter f id c body e1 in
              (IIter id :: its ++ [IIterEnd id k; IBg] ++ its2, r2, e2)
        | RYield true => (IIter id :: its ++ [IIterEnd id IYieldInner], RYield true, e1)
        | RYield false => (IIter id :: its ++ [IIterEnd id IYieldExplicit], RYield true, e1)
        | RBreak => (IIter id :: its ++ [IIterEnd id IBreak], RNormal, e1)
        | RReturn => (IIter id :: its ++ [IIterEnd id IReturn], RReturn, e1)
        | RFuel => (IIter id :: its ++ [IIterEnd id IFuelEnd], RFuel, e1)
        end
      else ([], RNormal, e)
    end
  with block_from (fuel : nat) (id : nat) (rest : list bstmt) (i : nat) (e : env) {struct fuel}
       : list item * res * env :=
    match fuel with
    | 0 => ([], RFuel, e)
    | S f =>
      match rest with
      | [] => ([], RNormal, del_rpos id e)
      | s :: rest' =>
          let '(its, r, e1) := bexec f s (set_rpos id i e) in
          match r with
          | RNormal =>
              let '(its2, r2, e2) := block_from f id rest' (S i) (set_rpos id (S i) e1) in
              (its ++ its2, r2, e2)
          | RYield fl => (its, r, set_rpos id (if fl then i else S i) e1)
          | RBreak | RContinue | RReturn => (its, r, del_rpos id e1)
          | RFuel => (its, r, e1)
          end
      end
    end
  with call_from (fuel : nat) (rest : list bstmt) (e : env) {struct fuel} : list item * res * env :=
    match fuel with
    | 0 => ([], RFuel, e)
    | S f =>
      match rest with
      | [] => ([], RNormal, e)
      | s :: rest' =>
          let '(its, r, e1) := bexec f s e in
          match r with
          | RNormal =>
              let '(its2, r2, e2) := call_from f rest' e1 in
              (its ++ ICycle :: its2, r2, e2)
          | RYield fl => (its, r, e1)            (* unwinds the call: its scope is gone *)
          | RReturn | RBreak | RContinue => (its, RNormal, e1)   (* return; ends the call *)
          | RFuel => (its, r, e1)
          end
      end
    end.

  (* ---- syntactic classes used by the laws ------------------------------------------------- *)
  (* a continue statement can end the statement (not caught by a loop or call inside it) *)
  Fixpoint can_continue (s : bstmt) : bool :=
    match s with
    | BContinue => true
    | BIf _ t el => can_continue t || match el with Some s' => can_continue s' | None => false end
    | BBlock _ body => existsb can_continue body
    | _ => false
    end.

  (* an iteration boundary: the end of an iteration that does not leave the loop *)
  Definition boundary (k : iter_end) : bool :=
    match k with IFall | IContinue => true | _ => false end.
  Definition is_boundary (it : item) : bool :=
    match it with IIterEnd _ k => boundary k | _ => false end.
  Definition is_end_mark (it : item) : bool :=
    match it with IIterEnd _ _ => true | _ => false end.
End Body.

Arguments BSimple {A}. Arguments BSet {A}. Arguments BInc {A}. Arguments BContinue {A}.
Arguments BBreak {A}. Arguments BYield {A}. Arguments BReturn {A}. Arguments BIf {A}.
Arguments BBlock {A}. Arguments BFor {A}. Arguments BWhile {A}. Arguments BCall {A}.
Arguments ISimple {A}. Arguments IBg {A}. Arguments ICycle {A}. Arguments IIter {A}. Arguments IIterEnd {A}.
