(* C15 - two laws the faithful model does NOT satisfy (the pinned code does not either; both are
   reproduced on the binary as known findings).  Witnesses are concrete task programs of Prog.v. *)
From Coq Require Import List ZArith Bool Arith Lia.
From Cb Require Import C15.Model C15.Prog.
Import ListNotations.
Local Open Scope nat_scope.

Definition nth_state (funs : list (list stmt)) (stepms : Z) (n : nat) : cstate :=
  fst (crun funs stepms n cinit).

(* what the boolean observer of Prog.v means: the loop of run_until_complete(w) is on top, w is a
   registered unfinished task, and the very next step leaves the loop *)
Lemma until_exit_undone_spec : forall funs stepms (s : cstate),
  until_exit_undone s = true ->
  exists w rest tw,
    kont _ _ _ s = FUntil _ _ _ w :: rest /\
    lookup _ _ w (tasks _ _ _ s) = Some tw /\ t_done _ _ tw = false /\
    kont _ _ _ (fst (cstep funs stepms s)) = rest.
Proof.
  intros funs stepms s H. unfold until_exit_undone in H.
  destruct (kont _ _ _ s) as [|[] rest] eqn:Hk; try discriminate.
  destruct (lookup _ _ w (tasks _ _ _ s)) as [tw|] eqn:Hl; [|discriminate].
  apply andb_true_iff in H. destruct H as [Hd Hq]. apply negb_true_iff in Hd.
  exists w, rest, tw. repeat split; auto.
  unfold cstep, step. rewrite Hk, Hl, Hd. destruct (queue _ _ _ s); [reflexivity|discriminate].
Qed.

(* W1:  async int f2() { h(); return 102; }            h: plain function with two statements
        async int f1() { Future<int> v = f2(); yield; int r = await v; return 101; }
        void main()    { Future<int> v = f1(); println(1); println(2); println(3); }
   f1's third statement runs from inside f2's call of h (the cycle after h's second statement), so
   the task it awaits is suspended beneath it; the queue is empty; the await returns at once. *)
Definition w1 : list (list stmt) :=
  [ [SSimple (XSpawn 1 0); SSimple (XPrint 1); SSimple (XPrint 2); SSimple (XPrint 3)];
    [SSimple (XSpawn 2 0); SYield; SSimple (XAwait 0); SReturn];
    [SSimple (XCall [901%Z; 902%Z]); SReturn] ].

Lemma w1_early_exit : until_exit_undone (nth_state w1 5 18) = true.
Proof. vm_compute. reflexivity. Qed.

Theorem await_returns_before_completion_refuted_l :
  exists funs stepms n w rest tw,
    let s := nth_state funs stepms n in
    kont _ _ _ s = FUntil _ _ _ w :: rest /\
    lookup _ _ w (tasks _ _ _ s) = Some tw /\ t_done _ _ tw = false /\
    kont _ _ _ (fst (cstep funs stepms s)) = rest.
Proof.
  destruct (until_exit_undone_spec w1 5%Z _ w1_early_exit) as (w & rest & tw & H).
  exists w1, 5%Z, 18, w, rest, tw. exact H.
Qed.

(* W2:  async int f3() { println(300); return 103; }
        async int f2() { println(200); await sleep(50); println(201); return 102; }
        async int f1() { println(100); int r = await f3(); println(101); return 101; }
        void main()    { Future<int> a = f1(); Future<int> b = f2(); println(1); int r = await a; }
   f1 awaits f3; f2's turn comes from inside that loop and awaits its sleep; f3 finishes at once, but
   f1 (whose target is done) is not resumed while f2's loop polls the sleeper. *)
Definition w2 : list (list stmt) :=
  [ [SSimple (XSpawn 1 0); SSimple (XSpawn 2 1); SSimple (XPrint 1); SSimple (XAwait 0)];
    [SSimple (XPrint 100); SSimple (XAwaitCall 3); SSimple (XPrint 101); SReturn];
    [SSimple (XPrint 200); SSimple (XSleep 50); SSimple (XPrint 201); SReturn];
    [SSimple (XPrint 300); SReturn] ].

Fixpoint asleeps (tr : list event) : nat :=
  match tr with [] => 0 | EAsleep _ _ _ :: r => S (asleeps r) | _ :: r => asleeps r end.

(* in state 27 an await loop deeper in the stack has a finished target while a loop above it still
   waits; 8 steps later this is still so, and the sleeper has been polled at least 3 more times *)
Theorem finished_await_not_resumed_refuted_l :
  exists funs stepms n m,
    let s := nth_state funs stepms n in
    let '(s', tr) := crun funs stepms m s in
    lifo_delay s = true /\ lifo_delay s' = true /\ 3 <= asleeps tr.
Proof. exists w2, 10%Z, 27, 8. vm_compute. repeat split; try reflexivity; lia. Qed.
