(* C15 - from Body.exec to the scheduler machine: a step of a task that reaches an iteration
   boundary ends its top-level statement with YieldException(true), and the machine then puts the
   task at the back of the ready queue (so that, by the FIFO / round-robin theorems of Fifo.v, every
   queued task gets exactly one turn before it runs again). *)
From Coq Require Import List ZArith Bool Arith.
From Cb Require Import C15.Model C15.Body C15.BodyLaws C15.Prog.
Import ListNotations.
Local Open Scope nat_scope.

(* [leaf p o l]: for SOME replies of the scheduler the request tree p ends with PDone o l *)
Inductive leaf : cprog -> outcome -> locals -> Prop :=
| LDone : forall o l, leaf (PDone _ _ _ o l) o l
| LOut : forall v k o l, leaf k o l -> leaf (POut _ _ _ v k) o l
| LSpawn : forall c l0 k id o l, leaf (k id) o l -> leaf (PSpawn _ _ _ c l0 k) o l
| LSleep : forall ms k id o l, leaf (k id) o l -> leaf (PSleep _ _ _ ms k) o l
| LNow : forall k t o l, leaf (k t) o l -> leaf (PNow _ _ _ k) o l
| LAwait : forall w k o l, leaf k o l -> leaf (PAwait _ _ _ w k) o l
| LTimeout : forall w ms k o l, leaf k o l -> leaf (PTimeout _ _ _ w ms k) o l
| LCycle : forall k o l, leaf k o l -> leaf (PCycle _ _ _ k) o l
| LBg : forall k o l, leaf k o l -> leaf (PBg _ _ _ k) o l
| LRunAll : forall k o l, leaf k o l -> leaf (PRunAll _ _ _ k) o l
| LGlob : forall f g o l, leaf (snd (f g)) o l -> leaf (PGlob _ _ _ f) o l.

Ltac inv_leaf :=
  repeat match goal with
  | H : leaf (POut _ _ _ _ _) _ _ |- _ => inversion H; subst; clear H
  | H : leaf (PSpawn _ _ _ _ _ _) _ _ |- _ => inversion H; subst; clear H
  | H : leaf (PSleep _ _ _ _ _) _ _ |- _ => inversion H; subst; clear H
  | H : leaf (PNow _ _ _ _) _ _ |- _ => inversion H; subst; clear H
  | H : leaf (PAwait _ _ _ _ _) _ _ |- _ => inversion H; subst; clear H
  | H : leaf (PTimeout _ _ _ _ _ _) _ _ |- _ => inversion H; subst; clear H
  | H : leaf (PCycle _ _ _ _) _ _ |- _ => inversion H; subst; clear H
  | H : leaf (PBg _ _ _ _) _ _ |- _ => inversion H; subst; clear H
  | H : leaf (PRunAll _ _ _ _) _ _ |- _ => inversion H; subst; clear H
  | H : leaf (PGlob _ _ _ _) _ _ |- _ => inversion H; subst; clear H; cbn [snd fst] in *
  end.

Lemma leaf_call : forall tags (p : cprog) o l',
  leaf (fold_right (fun t p => POut _ _ _ t (PCycle _ _ _ p)) p tags) o l' -> leaf p o l'.
Proof.
  induction tags as [|t tags IH]; intros p o l' H; [exact H|].
  cbn in H. inv_leaf. apply IH; assumption.
Qed.

Lemma leaf_do_simple : forall x l k o l',
  leaf (do_simple x l k) o l' -> exists l1, leaf (k l1) o l'.
Proof.
  intros x l k o l' H. destruct x; cbn [do_simple] in H;
    try (apply leaf_call in H); inv_leaf; eauto.
Qed.

Lemma leaf_do_items : forall its l k o l',
  leaf (do_items its l k) o l' -> exists l1, leaf (k l1) o l'.
Proof.
  induction its as [|it its IH]; intros l k o l' H; [cbn in H; eauto|].
  destruct it; cbn [do_items] in H.
  - apply leaf_do_simple in H. destruct H as [l1 H]. eapply IH; eauto.
  - inv_leaf. eapply IH; eauto.
  - inv_leaf. eapply IH; eauto.
  - eapply IH; eauto.
  - eapply IH; eauto.
Qed.

(* a step of a task's structured statement that reaches an iteration boundary can only end with
   YieldException(true), whatever the scheduler replies on the way *)
Lemma denote_body_boundary_yields : forall fuel (b : bstmt simple) l o l',
  has_boundary simple (fst (fst (bexec simple true fuel b (l_env l)))) = true ->
  leaf (denote_body_f fuel true b l) o l' -> o = OYield true.
Proof.
  intros fuel b l o l' Hb H. unfold denote_body_f in H.
  destruct (bexec simple true fuel b (l_env l)) as [[its r] e'] eqn:He. cbn [fst] in Hb.
  destruct (proj1 (task_all simple fuel) _ _ _ _ _ He) as [_ G].
  specialize (G Hb). subst r.
  apply leaf_do_items in H. destruct H as [l1 H]. cbn [out_of] in H. inversion H; subst. reflexivity.
Qed.

Lemma denote_task_boundary_yields_l : forall (b : bstmt simple) l o l',
  has_boundary simple (fst (fst (bexec simple true body_fuel b (l_env l)))) = true ->
  leaf (denote true (SBody b) l) o l' -> o = OYield true.
Proof. intros b l o l'. exact (denote_body_boundary_yields body_fuel b l o l'). Qed.

(* the machine: a statement of task id that ends with YieldException(true) ends the turn - the task
   keeps its statement index, leaves the executing chain and goes to the BACK of the ready queue *)
Lemma loop_yield_requeues_at_back_l :
  forall (L G C : Type) (len : C -> nat) (code : C -> nat -> L -> prog L G C) (clock : nat -> Z)
         (dflt : L) (main_code : C) (s : state L G C) l id rest t,
  kont _ _ _ s = FProg _ _ _ (PDone _ _ _ (OYield true) l) :: FStep _ _ _ id :: rest ->
  lookup _ _ id (tasks _ _ _ s) = Some t ->
  step L G C len code clock dflt main_code s =
    (mkState _ _ _ (queue _ _ _ s ++ [id])
             (update _ _ id (fun _ => set_pos _ _ l (t_idx _ _ t) t) (tasks _ _ _ s))
             (tl (exec _ _ _ s)) (reads _ _ _ s) (glob _ _ _ s) rest,
     [EYield id true (t_idx _ _ t); ERequeue id]).
Proof.
  intros L G C len code clock dflt main_code s l id rest t Hk Hl.
  unfold step. rewrite Hk. cbn [step_prog]. unfold end_step. rewrite Hl. reflexivity.
Qed.
