(* C15 - property theorems only.  Statements are about the small-step machine of Model.v (the
   re-entrant SimpleEventLoop and the places the interpreter enters it); proofs are in
   Invariants.v / Fifo.v / Await.v / Sleep.v / Determinism.v / Refuted.v.
   Every theorem quantifies over the statement semantics [code] (any program), the shared and local
   state types, and the clock; "reachable" = reachable from the start of main by machine steps. *)
From Coq Require Import List ZArith Bool Arith.
From Cb Require Import C15.Model C15.Body C15.Prog C15.Invariants C15.Fifo C15.Await C15.Sleep C15.Determinism C15.Refuted
  C15.BodyLaws C15.LoopLaws.
Import ListNotations.
Local Open Scope nat_scope.

(* ------------------------------------------------------------------ determinism *)
(* The interleaving is a function of the program and of the clock readings: two clocks returning the
   same readings give the same states and the same trace after any number of steps. *)
Theorem sched_deterministic :
  forall (L G C : Type) (len : C -> nat) (code : C -> nat -> L -> prog L G C) (dflt : L) (main_code : C)
         (clock1 clock2 : nat -> Z),
  (forall r, clock1 r = clock2 r) ->
  forall n s, run L G C len code clock1 dflt main_code n s = run L G C len code clock2 dflt main_code n s.
Proof. exact same_clock_same_run_l. Qed.
Print Assumptions sched_deterministic.

(* A run that never reads the clock (no sleep / timeout / now) is the same under every clock: such a
   program has exactly one interleaving. *)
Theorem untimed_schedule_independent_of_time :
  forall (L G C : Type) (len : C -> nat) (code : C -> nat -> L -> prog L G C) (dflt : L) (main_code : C)
         (clock1 clock2 : nat -> Z) n s,
  reads _ _ _ (fst (run L G C len code clock1 dflt main_code n s)) = reads _ _ _ s ->
  run L G C len code clock2 dflt main_code n s = run L G C len code clock1 dflt main_code n s.
Proof. exact untimed_run_unique_l. Qed.
Print Assumptions untimed_schedule_independent_of_time.

(* ------------------------------------------------------------------ the ready queue *)
Theorem queue_nodup :
  forall (L G C : Type) len code clock (dflt : L) (main_code : C) (s : state L G C),
  reachable L G C len code clock dflt main_code s -> NoDup (queue _ _ _ s).
Proof. exact queue_nodup_l. Qed.
Print Assumptions queue_nodup.

(* the queue holds exactly the registered, unfinished tasks that are not executing *)
Theorem queue_is_live_non_executing :
  forall (L G C : Type) len code clock (dflt : L) (main_code : C) (s : state L G C) id,
  reachable L G C len code clock dflt main_code s ->
  (In id (queue _ _ _ s) <->
   (exists t, lookup L C id (tasks _ _ _ s) = Some t /\ t_done L C t = false) /\ ~ In id (exec _ _ _ s)).
Proof. exact queue_is_live_non_executing_l. Qed.
Print Assumptions queue_is_live_non_executing.

Theorem executing_not_in_queue :
  forall (L G C : Type) len code clock (dflt : L) (main_code : C) (s : state L G C) id,
  reachable L G C len code clock dflt main_code s -> In id (exec _ _ _ s) -> ~ In id (queue _ _ _ s).
Proof. exact executing_not_in_queue_l. Qed.
Print Assumptions executing_not_in_queue.

(* whenever run_one_cycle pops a head, the head is not the executing task: "skip" is dead code *)
Theorem skip_branch_dead :
  forall (L G C : Type) len code clock (dflt : L) (main_code : C) (s : state L G C) rest id q,
  reachable L G C len code clock dflt main_code s ->
  kont _ _ _ s = FCycle _ _ _ :: rest -> queue _ _ _ s = id :: q -> cur_is L G C s id = false.
Proof. exact skip_branch_dead_l. Qed.
Print Assumptions skip_branch_dead.

(* ------------------------------------------------------------------ round robin *)
(* one step, ANY state: ids leave the queue at the front - exactly those that get a turn - and
   enter it at the back - exactly the spawned / re-queued ones *)
Theorem queue_is_fifo_step :
  forall (L G C : Type) len code clock (dflt : L) (main_code : C) (s s' : state L G C) evs,
  step L G C len code clock dflt main_code s = (s', evs) ->
  exists qr, queue _ _ _ s = turns evs ++ qr /\ queue _ _ _ s' = qr ++ pushes evs.
Proof. exact step_fifo. Qed.
Print Assumptions queue_is_fifo_step.

(* any number of steps, ANY state: turns are served in exactly the order ids were pushed *)
Theorem fifo_law :
  forall (L G C : Type) len code clock (dflt : L) (main_code : C) n (s s' : state L G C) tr,
  run L G C len code clock dflt main_code n s = (s', tr) ->
  turns tr ++ queue _ _ _ s' = queue _ _ _ s ++ pushes tr.
Proof. exact fifo_law_l. Qed.
Print Assumptions fifo_law.

(* Between now and the next turn of a queued task x, exactly the tasks queued in front of x get a
   turn: each of them once, in queue order, nobody else, nobody twice (so a task re-queued at a yield
   or loop boundary sees every other queued task run exactly once before it runs again, and no task is
   overtaken twice). *)
Theorem round_robin :
  forall (L G C : Type) len code clock (dflt : L) (main_code : C) n (s s' : state L G C)
         pre x post tr1 b tr2,
  reachable L G C len code clock dflt main_code s ->
  queue _ _ _ s = pre ++ x :: post ->
  run L G C len code clock dflt main_code n s = (s', tr1 ++ ETurn x b :: tr2) ->
  ~ In x (turns tr1) ->
  turns tr1 = pre /\ NoDup (turns tr1) /\ ~ In x (turns tr1 ++ post).
Proof. exact round_robin_reachable_l. Qed.
Print Assumptions round_robin.

(* From the start of any program: when task b gets a turn, every task spawned before it (ids are
   handed out 1, 2, 3.. in spawn order) has already had one. *)
Theorem first_runs_in_spawn_order :
  forall (L G C : Type) len code clock (dflt : L) (main_code : C) n g0 l0 (s : state L G C) tr l1 b l2,
  run L G C len code clock dflt main_code n (init L G C g0 l0) = (s, tr) ->
  turns tr = l1 ++ b :: l2 -> forall a, 1 <= a < b -> In a l1.
Proof. exact first_runs_in_spawn_order_l. Qed.
Print Assumptions first_runs_in_spawn_order.

(* ------------------------------------------------------------------ await *)
(* the turn of a task marked as waiting for an unfinished task: "blocked", back of the queue, and
   nothing else changes (its body is not run) *)
Theorem waiting_task_not_stepped_until_done :
  forall (L G C : Type) len code clock (dflt : L) (main_code : C) (s : state L G C) rest id q t w,
  kont _ _ _ s = FCycle _ _ _ :: rest -> queue _ _ _ s = id :: q -> cur_is L G C s id = false ->
  lookup L C id (tasks _ _ _ s) = Some t -> t_done L C t = false ->
  t_wait L C t = Some w -> is_done L C w (tasks _ _ _ s) = false ->
  step L G C len code clock dflt main_code s =
    (mkState L G C (q ++ [id]) (tasks _ _ _ s) (exec _ _ _ s) (reads _ _ _ s) (glob _ _ _ s) rest,
     [ETurn id false; EBlocked id w; ERequeue id]).
Proof. exact waiting_task_not_stepped_l. Qed.
Print Assumptions waiting_task_not_stepped_until_done.

(* ... and once the target is done the same turn unblocks it and starts its next statement *)
Theorem resumes_after_done :
  forall (L G C : Type) len code clock (dflt : L) (main_code : C) (s : state L G C) rest id q t w c,
  kont _ _ _ s = FCycle _ _ _ :: rest -> queue _ _ _ s = id :: q -> cur_is L G C s id = false ->
  lookup L C id (tasks _ _ _ s) = Some t -> t_done L C t = false ->
  t_wait L C t = Some w -> is_done L C w (tasks _ _ _ s) = true ->
  t_sleeping L C t = false -> t_has_to L C t = false ->
  t_code L C t = Some c -> t_idx L C t < len c ->
  exists ts',
  step L G C len code clock dflt main_code s =
    (mkState L G C q ts' (id :: exec _ _ _ s) (reads _ _ _ s) (glob _ _ _ s)
             (FProg _ _ _ (code c (t_idx L C t) (t_local L C t)) :: FStep _ _ _ id :: rest),
     [ETurn id false; EUnblocked id; EExec id (t_idx L C t)]) /\
  (forall t', lookup L C id ts' = Some t' -> t_wait L C t' = None).
Proof. exact resumes_after_done_l. Qed.
Print Assumptions resumes_after_done.

(* `await` = the loop of run_until_complete(w).  When the loop is left, w is done - provided w is a
   registered task that is not suspended beneath the awaiting one (not on the chain of executing
   tasks, which is fixed while the loop runs: exec = the FStep frames beneath it). *)
Theorem await_loop_exit_means_done :
  forall (L G C : Type) len code clock (dflt : L) (main_code : C) (s : state L G C) w rest tw,
  reachable L G C len code clock dflt main_code s ->
  kont _ _ _ s = FUntil _ _ _ w :: rest ->
  lookup L C w (tasks _ _ _ s) = Some tw -> ~ In w (exec _ _ _ s) ->
  kont _ _ _ (fst (step L G C len code clock dflt main_code s)) = rest -> t_done L C tw = true.
Proof. exact await_loop_exit_l. Qed.
Print Assumptions await_loop_exit_means_done.

Theorem await_enters_loop :
  forall (L G C : Type) len code clock (dflt : L) (main_code : C) (s : state L G C) w k rest,
  kont _ _ _ s = FProg _ _ _ (PAwait _ _ _ w k) :: rest ->
  kont _ _ _ (fst (step L G C len code clock dflt main_code s)) = FUntil _ _ _ w :: FProg _ _ _ k :: rest /\
  exec _ _ _ (fst (step L G C len code clock dflt main_code s)) = exec _ _ _ s /\
  snd (step L G C len code clock dflt main_code s) = [].
Proof. exact await_enters_loop_l. Qed.
Print Assumptions await_enters_loop.

(* REFUTED (known finding C15-await-target-beneath): without the side condition the law fails - a
   concrete program reaches an await loop that is left while its (registered) target is unfinished. *)
Theorem await_returns_before_completion_refuted :
  exists funs stepms n w rest tw,
    let s := nth_state funs stepms n in
    kont _ _ _ s = FUntil _ _ _ w :: rest /\
    lookup _ _ w (tasks _ _ _ s) = Some tw /\ t_done _ _ tw = false /\
    kont _ _ _ (fst (cstep funs stepms s)) = rest.
Proof. exact await_returns_before_completion_refuted_l. Qed.
Print Assumptions await_returns_before_completion_refuted.

(* REFUTED (known finding C15-await-lifo): "then resumes" / "runnable tasks keep being scheduled":
   a task whose awaited task is done is not resumed while an await loop above it on the stack still
   waits - here for a sleeper that is polled again and again. *)
Theorem finished_await_not_resumed_refuted :
  exists funs stepms n m,
    let s := nth_state funs stepms n in
    let '(s', tr) := crun funs stepms m s in
    lifo_delay s = true /\ lifo_delay s' = true /\ 3 <= asleeps tr.
Proof. exact finished_await_not_resumed_refuted_l. Qed.
Print Assumptions finished_await_not_resumed_refuted.

(* ------------------------------------------------------------------ sleep *)
(* sleep(ms) reads the clock once and registers a body-less sleeping task with deadline now + ms *)
Theorem sleep_sets_deadline :
  forall (L G C : Type) len code clock (dflt : L) (main_code : C) (s : state L G C) ms k rest,
  kont _ _ _ s = FProg _ _ _ (PSleep _ _ _ ms k) :: rest ->
  let id := S (length (tasks _ _ _ s)) in
  let s' := fst (step L G C len code clock dflt main_code s) in
  lookup L C id (tasks _ _ _ s') = Some (new_task L C None dflt true true (clock (reads _ _ _ s) + ms)%Z) /\
  reads _ _ _ s' = S (reads _ _ _ s) /\ queue _ _ _ s' = queue _ _ _ s ++ [id] /\
  kont _ _ _ s' = FProg _ _ _ (k id) :: rest.
Proof. exact sleep_sets_deadline_l. Qed.
Print Assumptions sleep_sets_deadline.

(* SLEEPERS DO NOT BLOCK: the turn of a sleeper whose deadline is ahead of the reading only moves it
   to the back of the queue (one clock read; no task state changes, nobody else is touched), so by
   round_robin the other queued tasks keep getting their turns *)
Theorem sleepers_do_not_block :
  forall (L G C : Type) len code clock (dflt : L) (main_code : C) (s : state L G C) rest id q t,
  kont _ _ _ s = FCycle _ _ _ :: rest -> queue _ _ _ s = id :: q -> cur_is L G C s id = false ->
  lookup L C id (tasks _ _ _ s) = Some t -> t_done L C t = false -> t_wait L C t = None ->
  t_sleeping L C t = true -> (clock (reads _ _ _ s) < t_wake L C t)%Z ->
  step L G C len code clock dflt main_code s =
    (mkState L G C (q ++ [id]) (tasks _ _ _ s) (exec _ _ _ s) (S (reads _ _ _ s)) (glob _ _ _ s) rest,
     [ETurn id false; EClock (clock (reads _ _ _ s));
      EAsleep id (clock (reads _ _ _ s)) (t_wake L C t); ERequeue id]).
Proof. exact sleeper_turn_l. Qed.
Print Assumptions sleepers_do_not_block.

(* ANY clock: a finished sleep task was finished on a reading >= its deadline *)
Theorem sleeper_completed_only_at_deadline :
  forall (L G C : Type) len code clock (dflt : L) (main_code : C) (s : state L G C) id t,
  reachable L G C len code clock dflt main_code s ->
  lookup L C id (tasks _ _ _ s) = Some t -> t_code L C t = None -> t_done L C t = true ->
  exists r, r < reads _ _ _ s /\ (t_wake L C t <= clock r)%Z.
Proof. exact sleeper_finished_after_deadline_l. Qed.
Print Assumptions sleeper_completed_only_at_deadline.

(* NO EARLY WAKE, any monotone clock: sleep(ms) is called in a reachable state and reads t0; whenever
   its task is later found finished (that is what lets `await sleep(ms)` return:
   await_loop_exit_means_done), every clock reading from then on is >= t0 + ms *)
Theorem no_early_wake :
  forall (L G C : Type) len code clock (dflt : L) (main_code : C),
  monotone clock ->
  forall (s0 : state L G C) ms k rest n,
  reachable L G C len code clock dflt main_code s0 ->
  kont _ _ _ s0 = FProg _ _ _ (PSleep _ _ _ ms k) :: rest ->
  let id := S (length (tasks _ _ _ s0)) in
  let s := fst (run L G C len code clock dflt main_code n (fst (step L G C len code clock dflt main_code s0))) in
  is_done L C id (tasks _ _ _ s) = true ->
  forall r, reads _ _ _ s <= r -> (clock (reads _ _ _ s0) + ms <= clock r)%Z.
Proof. exact no_early_wake_l. Qed.
Print Assumptions no_early_wake.

(* tasks are never removed; body and deadline never change; a finished task stays finished; the
   number of clock reads never decreases *)
Theorem task_facts_are_stable :
  forall (L G C : Type) len code clock (dflt : L) (main_code : C) n (s : state L G C),
  evolves L G C s (fst (run L G C len code clock dflt main_code n s)).
Proof. exact run_evolves. Qed.
Print Assumptions task_facts_are_stable.

(* ------------------------------------------------------------------ loop-iteration boundaries *)
(* Body.exec = one step of a structured statement (blocks, if, for, while, continue, break, yield,
   return, calls), as execute_for_statement / execute_while_statement / execute_compound_statement run
   and resume it; [its] = what the step does, with ghost marks IIter / IIterEnd id k for the start and
   the end of an iteration.  k = IFall (the body ran to its end) and k = IContinue are the ends that do
   not leave the loop: the loop-iteration boundaries.  The theorems quantify over the statement, the
   fuel and the environment (variables + resume positions left by ANY earlier suspensions) - EVERY
   statement: since fix a1ebdfd (finding C15-while-continue-no-suspension) the ContinueException handler
   of execute_while_statement reaches the common end of the iteration too, so the former hypothesis
   "no while loop whose iteration can end by continue" and the two _refuted theorems are gone. *)

(* Inside a task (auto-yield mode): however the iteration ended - falling off the end of the body or
   `continue` from any depth of blocks / if branches - the boundary is the last thing the step does:
   the step ends with YieldException(true), only marks of enclosing loops follow (none of them a
   boundary) and no boundary precedes it: a task never runs two iterations in one turn.
   Exit kinds that leave the loop (break, return) or suspend inside it are not boundaries. *)
Theorem task_iteration_end_suspends :
  forall (A : Type) fuel (s : bstmt A) e its r e',
  bexec A true fuel s e = (its, r, e') ->
  forall pre id k post, its = pre ++ IIterEnd id k :: post -> boundary k = true ->
    r = RYield true /\
    Forall (fun it => exists id' k', it = IIterEnd id' k' /\ boundary k' = false) post /\
    Forall (fun it => is_boundary A it = false) pre.
Proof. exact exec_task_law_l. Qed.
Print Assumptions task_iteration_end_suspends.

(* Outside a task (main, a plain function called by main): every boundary is immediately followed by
   run_background_tasks_one_cycle. *)
Theorem main_iteration_end_runs_background :
  forall (A : Type) fuel (s : bstmt A) e its r e',
  bexec A false fuel s e = (its, r, e') ->
  forall pre id k post, its = pre ++ IIterEnd id k :: post -> boundary k = true ->
    exists post', post = IBg :: post'.
Proof. exact exec_main_law_l. Qed.
Print Assumptions main_iteration_end_runs_background.

(* the request tree the machine runs for such a step: whatever the scheduler replies, a step that
   reaches a boundary ends its statement with YieldException(true) *)
Theorem boundary_step_ends_with_loop_yield :
  forall (b : bstmt simple) l o l',
  has_boundary simple (fst (fst (bexec simple true body_fuel b (l_env l)))) = true ->
  leaf (denote true (SBody b) l) o l' -> o = OYield true.
Proof. exact denote_task_boundary_yields_l. Qed.
Print Assumptions boundary_step_ends_with_loop_yield.

(* ... and the machine ends the turn: the task keeps its statement index, leaves the executing chain
   and is appended at the BACK of the ready queue; with [round_robin] every queued task gets exactly
   one turn before it runs its next iteration *)
Theorem loop_yield_requeues_at_back :
  forall (L G C : Type) (len : C -> nat) (code : C -> nat -> L -> prog L G C) (clock : nat -> Z)
         (dflt : L) (main_code : C) (s : state L G C) l id rest t,
  kont _ _ _ s = FProg _ _ _ (PDone _ _ _ (OYield true) l) :: FStep _ _ _ id :: rest ->
  lookup _ _ id (tasks _ _ _ s) = Some t ->
  step L G C len code clock dflt main_code s =
    (mkState _ _ _ (queue _ _ _ s ++ [id])
             (update _ _ id (fun _ => set_pos _ _ l (t_idx _ _ t) t) (tasks _ _ _ s))
             (tl (exec _ _ _ s)) (reads _ _ _ s) (glob _ _ _ s) rest,
     [EYield id true (t_idx _ _ t); ERequeue id]).
Proof. exact loop_yield_requeues_at_back_l. Qed.
Print Assumptions loop_yield_requeues_at_back.

(* ------------------------------------------------------------------ non-vacuity *)
(* two tasks with two yields each, started by main and awaited: the model's turn order *)
Example two_workers_alternate :
  let w := [SSimple (XPrint 100); SYield; SSimple (XPrint 101); SYield; SSimple (XPrint 102); SReturn] in
  let funs := [[SSimple (XSpawn 1 0); SSimple (XSpawn 1 1); SSimple (XPrint 1); SSimple (XPrint 2);
                SSimple (XAwait 0); SSimple (XPrint 3); SSimple (XAwait 1); SSimple (XPrint 4)]; w] in
  turns (snd (crun funs 10 200 cinit)) = [1; 1; 2; 1; 2; 1; 2; 1; 2; 1; 2; 2].
Proof. vm_compute. reflexivity. Qed.

(* the hypotheses of sleepers_do_not_block / no_early_wake are met by a run of a sleeping program *)
Example sleeper_is_polled_then_completed :
  let funs := [[SSimple (XSpawn 1 0); SSimple (XAwait 0)]; [SSimple (XSleep 20); SReturn]] in
  let tr := snd (crun funs 10 60 cinit) in
  asleeps tr = 1 /\ In (EWoke 2 1000030 1000030) tr /\ In (EComplete 1) tr.
Proof. vm_compute. repeat split; auto 30. Qed.

(* a for loop in a task whose every iteration ends by `continue` from inside an if and a nested block:
   three turns print one line each, every turn ends at the boundary (hypotheses of
   task_iteration_end_suspends / boundary_step_ends_with_loop_yield are met) *)
Example continue_loop_suspends_every_iteration :
  let body := BBlock 2 [BSimple (XPrint 7); BIf (CLt 0 9) (BBlock 3 [BBlock 4 [BContinue]]) None; BSimple (XPrint 8)] in
  let lp : bstmt simple := BFor 1 0 3 body in
  has_boundary simple (fst (fst (bexec simple true body_fuel lp env0))) = true /\
  (let funs := [[SSimple (XSpawn 1 0); SSimple (XAwait 0)]; [SBody lp; SReturn]] in
   filter (fun ev => match ev with EOut _ | EYield _ _ _ => true | _ => false end) (snd (crun funs 5 200 cinit))
   = [EOut 7; EYield 1 true 0; EOut 7; EYield 1 true 0; EOut 7; EYield 1 true 0]).
Proof. vm_compute. repeat split; reflexivity. Qed.

(* the same for a WHILE loop whose every iteration ends by `continue` (the program shape of the repaired
   finding C15-while-continue-no-suspension): one line per turn, every turn ends with a loop yield *)
Example while_continue_loop_suspends_every_iteration :
  let body := BBlock 2 [BInc 0; BSimple (XPrint 7); BContinue] in
  let lp : bstmt simple := BWhile 1 (CLt 0 3) body in
  has_boundary simple (fst (fst (bexec simple true body_fuel lp env0))) = true /\
  (let funs := [[SSimple (XSpawn 1 0); SSimple (XAwait 0)]; [SBody lp; SReturn]] in
   filter (fun ev => match ev with EOut _ | EYield _ _ _ => true | _ => false end) (snd (crun funs 5 200 cinit))
   = [EOut 7; EYield 1 true 0; EOut 7; EYield 1 true 0; EOut 7; EYield 1 true 0]).
Proof. vm_compute. repeat split; reflexivity. Qed.
