(* C15 - Mech model of the cooperative scheduler (definitions only).

   Mirrors, function by function:
     src/backend/interpreter/event_loop/simple_event_loop.cpp
        SimpleEventLoop::register_task, run, run_one_cycle, execute_one_step (the waiting /
        sleeping / timeout prelude and the three ways a statement ends), run_until_complete
     src/backend/interpreter/core/interpreter.cpp   Interpreter::run_background_tasks_one_cycle
     src/backend/interpreter/executors/statement_list_executor.cpp  execute_statement_list
        (one run_one_cycle after every statement of a STMT_LIST once a task exists: main's body and
        the body of every plain function)
     src/backend/interpreter/executors/control_flow_executor.cpp  execute_for/while_statement
        (auto-yield at the iteration boundary inside a task, run_background_tasks_one_cycle outside)
     src/backend/interpreter/evaluator/operators/binary_unary.cpp  evaluate_await
        (marks the executing task as waiting, then run_until_complete)
     src/backend/interpreter/evaluator/functions/call_impl.cpp  async call (register_task),
        sleep(ms) (a body-less task with wake_up_time = now + ms), timeout(f, ms), now(),
        run_event_loop()

   The C++ scheduler is re-entrant: run_one_cycle is called from inside a task's statement (await,
   or a statement of a called function), so the C++ call stack holds a chain of half-finished
   steps.  The model is a small-step machine whose continuation stack [kont] is that call stack;
   [exec] is the chain of current_executing_task_id_ values saved by ExecutingTaskGuard.

   What a task's statement does is NOT modelled here: it is the Section variable [code], a tree of
   scheduler requests ([prog]) whose continuations receive the replies (new task id, clock value,
   shared state).  All theorems therefore hold for every program. *)
From Coq Require Import List ZArith Bool Arith.
Import ListNotations.
Local Open Scope Z_scope.
Local Open Scope nat_scope.

(* one line of the CB_VERIF_SCHED_TRACE stream (EOut: a line the program prints itself) *)
Inductive event :=
| ESpawn (id : nat)
| ETurn (id : nat) (from_run : bool)          (* "turn id cycle" / "turn id run" *)
| ESkip (id : nat)
| EExec (id idx : nat)
| EYield (id : nat) (from_loop : bool) (idx : nat)
| EReturn (id idx : nat)
| ERequeue (id : nat)
| EComplete (id : nat)
| EBlocked (id w : nat)
| EUnblocked (id : nat)
| EClock (now : Z)
| EAsleep (id : nat) (now wake : Z)
| EWoke (id : nat) (now wake : Z)
| EOut (v : Z).

(* how a top-level statement of a task ends: normally, by YieldException(is_from_loop), by
   ReturnException *)
Inductive outcome := ONormal | OYield (from_loop : bool) | OReturn.

Section Machine.
  Variable L : Type.            (* task-local state (its scope) *)
  Variable G : Type.            (* state shared by all tasks and main (globals) *)
  Variable C : Type.            (* a function body *)

  (* What one statement asks of the scheduler, in order; continuations get the reply. *)
  Inductive prog :=
  | PDone (o : outcome) (l : L)
  | POut (v : Z) (k : prog)                          (* println *)
  | PSpawn (c : C) (l0 : L) (k : nat -> prog)        (* call of an async function: register_task *)
  | PSleep (ms : Z) (k : nat -> prog)                (* sleep(ms): clock read + body-less task *)
  | PNow (k : Z -> prog)                             (* now() *)
  | PAwait (w : nat) (k : prog)                      (* await on the Future of task w *)
  | PTimeout (w : nat) (ms : Z) (k : prog)           (* timeout(future of w, ms) *)
  | PCycle (k : prog)                                (* end of a statement of a called plain function *)
  | PBg (k : prog)                                   (* loop iteration boundary outside auto-yield mode *)
  | PRunAll (k : prog)                               (* run_event_loop() *)
  | PGlob (k : G -> G * prog).                       (* read/modify shared state *)

  Variable len : C -> nat.                    (* body->statements.size() *)
  Variable code : C -> nat -> L -> prog.      (* statement idx of a body run on a local state *)
  Variable clock : nat -> Z.                  (* value returned by the r-th clock read *)
  Variable dflt : L.                          (* scope of a body-less (sleep) task: never used *)

  (* AsyncTask (core/interpreter.h:439), scheduler-relevant fields *)
  Record task := mkTask {
    t_code : option C;       (* function_node; None = the body-less task made by sleep() *)
    t_local : L;             (* task_scope *)
    t_idx : nat;             (* current_statement_index *)
    t_started : bool;
    t_done : bool;           (* is_executed *)
    t_wait : option nat;     (* is_waiting / waiting_for_task_id *)
    t_sleeping : bool;
    t_wake : Z;              (* wake_up_time_ms *)
    t_has_to : bool;         (* has_timeout *)
    t_to : Z                 (* timeout_ms (absolute) *)
  }.

  Definition set_done (t : task) := mkTask (t_code t) (t_local t) (t_idx t) (t_started t) true (t_wait t) (t_sleeping t) (t_wake t) (t_has_to t) (t_to t).
  Definition set_started (t : task) := mkTask (t_code t) (t_local t) (t_idx t) true (t_done t) (t_wait t) (t_sleeping t) (t_wake t) (t_has_to t) (t_to t).
  Definition set_wait (w : option nat) (t : task) := mkTask (t_code t) (t_local t) (t_idx t) (t_started t) (t_done t) w (t_sleeping t) (t_wake t) (t_has_to t) (t_to t).
  Definition clear_sleeping (t : task) := mkTask (t_code t) (t_local t) (t_idx t) (t_started t) (t_done t) (t_wait t) false (t_wake t) (t_has_to t) (t_to t).
  Definition set_timeout (d : Z) (t : task) := mkTask (t_code t) (t_local t) (t_idx t) (t_started t) (t_done t) (t_wait t) (t_sleeping t) (t_wake t) true d.
  Definition set_pos (l : L) (i : nat) (t : task) := mkTask (t_code t) l i (t_started t) (t_done t) (t_wait t) (t_sleeping t) (t_wake t) (t_has_to t) (t_to t).

  (* the C++ call stack *)
  Inductive frame :=
  | FProg (p : prog)          (* a statement being executed *)
  | FStep (id : nat)          (* execute_one_step(id) waiting for its statement to end *)
  | FUntil (w : nat)          (* the loop of run_until_complete(w) *)
  | FCycle                    (* a call of run_one_cycle about to start *)
  | FBg (n : nat)             (* run_background_tasks_one_cycle, n iterations left *)
  | FRunAll                   (* the loop of run() *)
  | FMain (i : nat) (l : L)   (* main's statement list, about to execute statement i *)
  | FMainK (i : nat).         (* main's statement i is executing *)

  Record state := mkState {
    queue : list nat;         (* task_queue_ *)
    tasks : list task;        (* tasks_  (ids are 1.. in registration order; never erased) *)
    exec : list nat;          (* current_executing_task_id_ and the values saved by the guards *)
    reads : nat;              (* number of clock reads so far *)
    glob : G;
    kont : list frame
  }.

  Definition lookup (id : nat) (ts : list task) : option task :=
    match id with 0 => None | S k => nth_error ts k end.

  Fixpoint upd_nth (k : nat) (f : task -> task) (ts : list task) : list task :=
    match ts, k with
    | [], _ => []
    | t :: r, 0 => f t :: r
    | t :: r, S k => t :: upd_nth k f r
    end.
  Definition update (id : nat) (f : task -> task) (ts : list task) : list task :=
    match id with 0 => ts | S k => upd_nth k f ts end.

  Definition is_done (id : nat) (ts : list task) : bool :=
    match lookup id ts with Some t => t_done t | None => false end.

  (* ---- execute_one_step, up to the point where the statement starts ------------------------ *)
  Inductive pre :=
  | PreRet (should_continue : bool) (t : task) (evs : list event) (rd : nat)
  | PreGo (c : C) (t : task) (evs : list event) (rd : nat).

  (* is_started, the body-less case, index check, "exec" *)
  Definition pre_body (id : nat) (t : task) (evs : list event) (rd : nat) : pre :=
    let t := set_started t in
    match t_code t with
    | None => PreRet false (set_done t) evs rd
    | Some c => if t_idx t <? len c then PreGo c t (evs ++ [EExec id (t_idx t)]) rd
                else PreRet false (set_done t) evs rd
    end.

  (* if (task.has_timeout && !task.is_executed) { now = clock; if (now >= timeout_ms) done } *)
  Definition pre_timeout (id : nat) (t : task) (evs : list event) (rd : nat) : pre :=
    if t_has_to t && negb (t_done t) then
      let now := clock rd in
      if (t_to t <=? now)%Z then PreRet false (set_done t) (evs ++ [EClock now]) (S rd)
      else pre_body id t (evs ++ [EClock now]) (S rd)
    else pre_body id t evs rd.

  (* if (task.is_sleeping) { now = clock; if (now < wake) return true; else woke ... } *)
  Definition pre_sleep (id : nat) (t : task) (evs : list event) (rd : nat) : pre :=
    if t_sleeping t then
      let now := clock rd in
      if (now <? t_wake t)%Z then
        PreRet true t (evs ++ [EClock now; EAsleep id now (t_wake t)]) (S rd)
      else
        let t' := clear_sleeping t in
        let evs' := evs ++ [EClock now; EWoke id now (t_wake t)] in
        match t_code t with
        | None => PreRet false (set_done t') evs' (S rd)
        | Some _ => pre_timeout id t' evs' (S rd)
        end
    else pre_timeout id t evs rd.

  (* if (task.is_waiting) { awaited task executed ? unblock : return true } *)
  Definition pre_wait (ts : list task) (id : nat) (t : task) (rd : nat) : pre :=
    match t_wait t with
    | Some w => if is_done w ts then pre_sleep id (set_wait None t) [EUnblocked id] rd
                else PreRet true t [EBlocked id w] rd
    | None => pre_sleep id t [] rd
    end.

  Definition prelude (ts : list task) (id : nat) (t : task) (rd : nat) : pre :=
    if t_done t then PreRet false t [] rd else pre_wait ts id t rd.

  Definition verdict (sc : bool) (id : nat) : event := if sc then ERequeue id else EComplete id.
  Definition requeue (sc : bool) (id : nat) (q : list nat) : list nat := if sc then q ++ [id] else q.

  (* the head [id] has been popped (queue = q); run execute_one_step(id) up to its statement, and
     the caller's tail (requeue / complete) when the step ends at once *)
  Definition begin_turn (s : state) (id : nat) (q : list nat) (rest : list frame) : state * list event :=
    match lookup id (tasks s) with
    | None => (mkState q (tasks s) (exec s) (reads s) (glob s) rest, [EComplete id])
    | Some t =>
        match prelude (tasks s) id t (reads s) with
        | PreRet sc t' evs rd =>
            (mkState (requeue sc id q) (update id (fun _ => t') (tasks s)) (exec s) rd (glob s) rest,
             evs ++ [verdict sc id])
        | PreGo c t' evs rd =>
            (mkState q (update id (fun _ => t') (tasks s)) (id :: exec s) rd (glob s)
                     (FProg (code c (t_idx t') (t_local t')) :: FStep id :: rest),
             evs)
        end
    end.

  (* ---- the end of execute_one_step: how the statement ended ------------------------------- *)
  Definition end_stmt (id : nat) (o : outcome) (l : L) (t : task) : task * bool * list event :=
    match o with
    | ONormal =>
        let i := S (t_idx t) in
        let t1 := set_pos l i t in
        match t_code t with
        | Some c => if i <? len c then (t1, true, []) else (set_done t1, false, [])
        | None => (set_done t1, false, [])
        end
    | OYield from_loop =>
        (set_pos l (if from_loop then t_idx t else S (t_idx t)) t, true, [EYield id from_loop (t_idx t)])
    | OReturn => (set_done (set_pos l (t_idx t) t), false, [EReturn id (t_idx t)])
    end.

  Definition end_step (s : state) (id : nat) (o : outcome) (l : L) (rest : list frame) : state * list event :=
    match lookup id (tasks s) with
    | None => (mkState (queue s) (tasks s) (tl (exec s)) (reads s) (glob s) rest, [EComplete id])
    | Some t =>
        let '(t', sc, evs) := end_stmt id o l t in
        (mkState (requeue sc id (queue s)) (update id (fun _ => t') (tasks s)) (tl (exec s)) (reads s) (glob s) rest,
         evs ++ [verdict sc id])
    end.

  (* register_task *)
  Definition new_task (c : option C) (l : L) (started sleeping : bool) (wake : Z) : task :=
    mkTask c l 0 started false None sleeping wake false 0%Z.

  Definition with_kont (s : state) (k : list frame) : state :=
    mkState (queue s) (tasks s) (exec s) (reads s) (glob s) k.

  (* has_tasks(): tasks_ is never erased, so it is "a task was ever registered" *)
  Definition has_tasks (s : state) : bool := match tasks s with [] => false | _ => true end.

  Variable main_code : C.

  (* a statement (or the rest of one) is on top of the stack *)
  Definition step_prog (s : state) (p : prog) (rest : list frame) : state * list event :=
    match p with
    (* ---- the statement ends ---------------------------------------------------------------- *)
    | PDone o l =>
        match rest with
        | FStep id :: rest' => end_step s id o l rest'
        | FMainK i :: rest' =>
            match o with
            | ONormal => (with_kont s (if has_tasks s then FCycle :: FMain (S i) l :: rest' else FMain (S i) l :: rest'), [])
            | _ => (with_kont s [], [])            (* return from main: the program ends *)
            end
        | _ => (with_kont s [], [])                (* not a shape the machine builds *)
        end
    (* ---- requests -------------------------------------------------------------------------- *)
    | POut v k => (with_kont s (FProg k :: rest), [EOut v])
    | PSpawn c l0 k =>
        let id := S (length (tasks s)) in
        (mkState (queue s ++ [id]) (tasks s ++ [new_task (Some c) l0 false false 0%Z]) (exec s) (reads s) (glob s)
                 (FProg (k id) :: rest), [ESpawn id])
    | PSleep ms k =>
        let id := S (length (tasks s)) in
        let now := clock (reads s) in
        (mkState (queue s ++ [id]) (tasks s ++ [new_task None dflt true true (now + ms)%Z]) (exec s) (S (reads s)) (glob s)
                 (FProg (k id) :: rest), [EClock now; ESpawn id])
    | PNow k =>
        let now := clock (reads s) in
        (mkState (queue s) (tasks s) (exec s) (S (reads s)) (glob s) (FProg (k now) :: rest), [EClock now])
    | PAwait w k =>
        (* evaluate_await: mark the executing task as waiting, then run_until_complete(w) *)
        let ts := match exec s with
                  | cur :: _ => update cur (set_wait (Some w)) (tasks s)
                  | [] => tasks s
                  end in
        (mkState (queue s) ts (exec s) (reads s) (glob s) (FUntil w :: FProg k :: rest), [])
    | PTimeout w ms k =>
        let now := clock (reads s) in
        (mkState (queue s) (update w (set_timeout (now + ms)%Z) (tasks s)) (exec s) (S (reads s)) (glob s)
                 (FProg k :: rest), [EClock now])
    | PCycle k => (with_kont s (if has_tasks s then FCycle :: FProg k :: rest else FProg k :: rest), [])
    | PBg k => (with_kont s (FBg (length (tasks s)) :: FProg k :: rest), [])
    | PRunAll k => (with_kont s (FRunAll :: FProg k :: rest), [])
    | PGlob f =>
        let '(g', p') := f (glob s) in
        (mkState (queue s) (tasks s) (exec s) (reads s) g' (FProg p' :: rest), [])
    end.

  (* the head of the queue gets a turn (run_one_cycle and run() share this) *)
  Definition cur_is (s : state) (id : nat) : bool :=
    match exec s with cur :: _ => Nat.eqb id cur | [] => false end.

  (* one machine step: the frame on top of the C++ stack makes progress *)
  Definition step (s : state) : state * list event :=
    match kont s with
    | [] => (s, [])
    | FProg p :: rest => step_prog s p rest
    (* run_until_complete: leave when the target is done (or unknown) or the queue is empty *)
    | FUntil w :: rest =>
        match lookup w (tasks s) with
        | None => (with_kont s rest, [])
        | Some t => if t_done t then (with_kont s rest, [])
                    else match queue s with
                         | [] => (with_kont s rest, [])
                         | _ :: _ => (with_kont s (FCycle :: FUntil w :: rest), [])
                         end
        end
    (* run_one_cycle *)
    | FCycle :: rest =>
        match queue s with
        | [] => (with_kont s rest, [])
        | id :: q =>
            if cur_is s id then
              (mkState (q ++ [id]) (tasks s) (exec s) (reads s) (glob s) rest, [ETurn id false; ESkip id])
            else
              let '(s', evs) := begin_turn s id q rest in (s', ETurn id false :: evs)
        end
    (* run_background_tasks_one_cycle: at most tasks_.size() cycles while the queue is non-empty *)
    | FBg n :: rest =>
        match n, queue s with
        | S n', _ :: _ => (with_kont s (FCycle :: FBg n' :: rest), [])
        | _, _ => (with_kont s rest, [])
        end
    (* run() *)
    | FRunAll :: rest =>
        match queue s with
        | [] => (with_kont s rest, [])
        | id :: q => let '(s', evs) := begin_turn s id q (FRunAll :: rest) in (s', ETurn id true :: evs)
        end
    (* main's statement list: statement i, then (once a task exists) one run_one_cycle *)
    | FMain i l :: rest =>
        if i <? len main_code then (with_kont s (FProg (code main_code i l) :: FMainK i :: rest), [])
        else (with_kont s rest, [])
    | FStep _ :: _ => (with_kont s [], [])        (* never on top *)
    | FMainK _ :: _ => (with_kont s [], [])       (* never on top *)
    end.

  Definition init (g0 : G) (l0 : L) : state := mkState [] [] [] 0 g0 [FMain 0 l0].

  (* n machine steps, with the concatenated trace *)
  Fixpoint run (n : nat) (s : state) : state * list event :=
    match n with
    | 0 => (s, [])
    | S n' => let '(s1, e1) := step s in
              let '(s2, e2) := run n' s1 in (s2, e1 ++ e2)
    end.

  Definition halted (s : state) : bool := match kont s with [] => true | _ => false end.
End Machine.
