(* C15 - determinism: the machine is a function, and the clock enters it only through the values
   of the readings it takes: two clocks that return the same readings give the same run (same states,
   same trace); a run that takes no reading is the same under every clock. *)
From Coq Require Import List ZArith Bool Arith Lia.
From Cb Require Import C15.Model.
Import ListNotations.
Local Open Scope nat_scope.

Section Det.
  Variables (L G C : Type).
  Variable len : C -> nat.
  Variable code : C -> nat -> L -> prog L G C.
  Variable dflt : L.
  Variable main_code : C.
  Variables clock1 clock2 : nat -> Z.

  Notation state := (state L G C).
  Notation step1 := (step L G C len code clock1 dflt main_code).
  Notation step2 := (step L G C len code clock2 dflt main_code).
  Notation run1 := (run L G C len code clock1 dflt main_code).
  Notation run2 := (run L G C len code clock2 dflt main_code).

  (* one step looks at the clock at most at the next two reading positions *)
  Lemma step_same_readings : forall s,
    clock1 (reads _ _ _ s) = clock2 (reads _ _ _ s) ->
    clock1 (S (reads _ _ _ s)) = clock2 (S (reads _ _ _ s)) ->
    step1 s = step2 s.
  Proof.
    intros s H0 H1.
    unfold step, step_prog, begin_turn, prelude, pre_wait, pre_sleep, pre_timeout, pre_body.
    cbv zeta. rewrite !H0, !H1. reflexivity.
  Qed.

  (* THE SAME READINGS GIVE THE SAME RUN *)
  Theorem same_clock_same_run_l : (forall r, clock1 r = clock2 r) -> forall n s, run1 n s = run2 n s.
  Proof.
    intros H. induction n; intro s; simpl; [reflexivity|].
    rewrite (step_same_readings s (H _) (H _)). destruct (step2 s) as [s1 e1]. rewrite IHn. reflexivity.
  Qed.

  Ltac destr :=
    repeat match goal with
           | |- context [match ?x with _ => _ end] =>
               let T := type of x in
               lazymatch T with
               | pre _ _ => fail
               | prod _ _ =>
                   lazymatch x with
                   | context [match _ with _ => _ end] => fail
                   | _ => destruct x as [? ?] eqn:?
                   end
               | _ => destruct x eqn:?
               end; cbn [fst snd reads]
           end.

  Ltac open_step :=
    unfold step, step_prog, begin_turn, end_step, prelude, pre_wait, pre_sleep, pre_timeout, pre_body, with_kont;
    cbv zeta.

  (* a step that takes no clock reading does not depend on the clock at all *)
  Lemma step_untimed : forall s,
    reads _ _ _ (fst (step1 s)) = reads _ _ _ s -> step2 s = step1 s.
  Proof.
    intro s. open_step. destr; intros; try reflexivity; try (exfalso; lia).
  Qed.

  Lemma step_reads_mono : forall s, reads _ _ _ s <= reads _ _ _ (fst (step1 s)).
  Proof. intro s. open_step. destr; lia. Qed.

  Lemma run_reads_mono : forall n s, reads _ _ _ s <= reads _ _ _ (fst (run1 n s)).
  Proof.
    induction n; intro s; simpl; [lia|].
    pose proof (step_reads_mono s) as H1. destruct (step1 s) as [s1 e1]. simpl in H1.
    pose proof (IHn s1) as H2. destruct (run1 n s1) as [s2 e2]. simpl in *. lia.
  Qed.

  (* A RUN WITHOUT CLOCK READINGS HAS ONE INTERLEAVING, whatever the time *)
  Theorem untimed_run_unique_l : forall n s,
    reads _ _ _ (fst (run1 n s)) = reads _ _ _ s -> run2 n s = run1 n s.
  Proof.
    induction n; intros s H; simpl in *; [reflexivity|].
    pose proof (step_reads_mono s) as M1. pose proof (step_untimed s) as U.
    destruct (step1 s) as [s1 e1] eqn:E1. simpl in M1, U.
    pose proof (run_reads_mono n s1) as M2. pose proof (IHn s1) as IH.
    destruct (run1 n s1) as [s2 e2] eqn:E2. simpl in *.
    rewrite U by lia. rewrite IH by lia. reflexivity.
  Qed.
End Det.
