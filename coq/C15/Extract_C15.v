(* Extraction of the C15 scheduler machine, instantiated with the concrete task programs of Prog.v
   (ExtrOcamlBasic + ExtrOcamlString only; nat / Z stay the extracted inductive types). *)
From Coq Require Import Extraction ExtrOcamlBasic ExtrOcamlString.
From Cb Require Import C15.Model C15.Prog.
Extraction Language OCaml.
Extraction "C15/c15_model.ml" cstep cinit chalted task_status until_exit_undone lifo_delay queue tasks exec kont reads.
