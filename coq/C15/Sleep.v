(* C15 - sleep: a sleeping task is neither stepped nor completed on a clock reading below its
   deadline; the deadline is immutable; with a monotone clock every reading after the completion
   of sleep(ms)'s task is >= (reading taken by sleep) + ms; a sleeper's turn only rotates the queue. *)
From Coq Require Import List ZArith Bool Arith Lia.
From Cb Require Import C15.Model C15.Invariants C15.Await.
Import ListNotations.
Local Open Scope nat_scope.

Section Sleep.
  Variables (L G C : Type).
  Variable len : C -> nat.
  Variable code : C -> nat -> L -> prog L G C.
  Variable clock : nat -> Z.
  Variable dflt : L.
  Variable main_code : C.

  Notation task := (task L C).
  Notation state := (state L G C).
  Notation step := (step L G C len code clock dflt main_code).
  Notation run := (run L G C len code clock dflt main_code).
  Notation begin_turn := (begin_turn L G C len code clock).
  Notation end_step := (end_step L G C len).
  Notation step_prog := (step_prog L G C len clock dflt).
  Notation prelude := (prelude L C len clock).
  Notation reachable := (reachable L G C len code clock dflt main_code).
  Notation lookup := (lookup L C).
  Notation update := (update L C).

  (* ---------------------------------------------------------------- the sleeper's turn *)
  Theorem sleeper_turn_l : forall s rest id q t,
    kont _ _ _ s = FCycle _ _ _ :: rest -> queue _ _ _ s = id :: q -> cur_is L G C s id = false ->
    lookup id (tasks _ _ _ s) = Some t -> t_done L C t = false -> t_wait L C t = None ->
    t_sleeping L C t = true -> (clock (reads _ _ _ s) < t_wake L C t)%Z ->
    step s =
      (mkState L G C (q ++ [id]) (tasks _ _ _ s) (exec _ _ _ s) (S (reads _ _ _ s)) (glob _ _ _ s) rest,
       [ETurn id false; EClock (clock (reads _ _ _ s));
        EAsleep id (clock (reads _ _ _ s)) (t_wake L C t); ERequeue id]).
  Proof.
    intros s rest id q t Hk Hq Hc Hlk Hd Hw Hs Hlt. unfold step. rewrite Hk, Hq, Hc.
    unfold begin_turn. rewrite Hlk. unfold prelude. rewrite Hd. unfold pre_wait. rewrite Hw.
    unfold pre_sleep. rewrite Hs. apply Z.ltb_lt in Hlt. rewrite Hlt. simpl.
    rewrite (update_id L C _ _ _ Hlk). reflexivity.
  Qed.

  (* the turn on which a body-less sleeper is completed reads the clock at or after its deadline *)
  Theorem sleeper_wakes_at_deadline_l : forall s rest id q t,
    kont _ _ _ s = FCycle _ _ _ :: rest -> queue _ _ _ s = id :: q -> cur_is L G C s id = false ->
    lookup id (tasks _ _ _ s) = Some t -> t_done L C t = false -> t_wait L C t = None ->
    t_sleeping L C t = true -> t_code L C t = None -> (t_wake L C t <= clock (reads _ _ _ s))%Z ->
    snd (step s) = [ETurn id false; EClock (clock (reads _ _ _ s));
                    EWoke id (clock (reads _ _ _ s)) (t_wake L C t); EComplete id] /\
    is_done L C id (tasks _ _ _ (fst (step s))) = true /\ queue _ _ _ (fst (step s)) = q.
  Proof.
    intros s rest id q t Hk Hq Hc Hlk Hd Hw Hs Hcode Hle. unfold step. rewrite Hk, Hq, Hc.
    unfold begin_turn. rewrite Hlk. unfold prelude. rewrite Hd. unfold pre_wait. rewrite Hw.
    unfold pre_sleep. rewrite Hs. assert (Hnlt : (clock (reads _ _ _ s) <? t_wake L C t)%Z = false) by (apply Z.ltb_ge; assumption).
    rewrite Hnlt, Hcode. simpl. repeat split; auto.
    unfold is_done. rewrite lookup_update, Nat.eqb_refl, Hlk. reflexivity.
  Qed.

  (* ---------------------------------------------------------------- what never changes in a task *)
  Definition stab (t t' : task) : Prop :=
    t_code L C t' = t_code L C t /\ t_wake L C t' = t_wake L C t /\
    (t_done L C t = true -> t_done L C t' = true).

  Lemma stab_refl : forall t, stab t t.
  Proof. intro t. repeat split; auto. Qed.

  Lemma stab_trans : forall a b c, stab a b -> stab b c -> stab a c.
  Proof. intros a b c (A1 & A2 & A3) (B1 & B2 & B3). repeat split; try congruence. auto. Qed.

  (* the per-task sleep invariant (rd = number of clock reads so far) *)
  Definition TP (rd : nat) (t : task) : Prop :=
    t_code L C t = None ->
    (t_done L C t = false -> t_sleeping L C t = true) /\
    (t_done L C t = true -> exists r, r < rd /\ (t_wake L C t <= clock r)%Z).

  Lemma TP_mono : forall rd rd' t, rd <= rd' -> TP rd t -> TP rd' t.
  Proof.
    intros rd rd' t Hle H Hc. destruct (H Hc) as [H1 H2]. split; auto.
    intro Hd. destruct (H2 Hd) as (r & Hr & Hw). exists r. split; [lia|assumption].
  Qed.

  Ltac crunch :=
    unfold prelude, pre_wait, pre_sleep, pre_timeout, pre_body; simpl;
    repeat match goal with
           | |- context [match ?x with _ => _ end] =>
               let T := type of x in
               lazymatch T with
               | bool => destruct x eqn:?
               | option _ => destruct x eqn:?
               end; simpl
           end.

  (* the prelude keeps code and deadline, never un-finishes, reads the clock forwards, and starts a
     statement only of a task that has a body *)
  Lemma prelude_stab : forall ts id t rd,
    match prelude ts id t rd with
    | PreRet _ _ _ t' _ rd' => stab t t' /\ rd <= rd'
    | PreGo _ _ c t' _ rd' => stab t t' /\ rd <= rd' /\ t_code L C t' = Some c
    end.
  Proof.
    intros ts id t rd. unfold stab. crunch; repeat split; simpl; auto; try congruence.
  Qed.

  (* a body-less task is finished by the prelude only on a clock reading >= its deadline *)
  Lemma prelude_TP : forall ts id t rd, TP rd t ->
    match prelude ts id t rd with
    | PreRet _ _ _ t' _ rd' => TP rd' t'
    | PreGo _ _ c t' _ rd' => TP rd' t'
    end.
  Proof.
    intros ts id t rd Htp.
    destruct (t_code L C t) as [c|] eqn:Ec.
    - (* a task with a body: TP is vacuous before and after *)
      pose proof (prelude_stab ts id t rd) as Hs.
      destruct (prelude ts id t rd); destruct Hs as ((Hc & _) & _); intro Hn; congruence.
    - destruct (Htp Ec) as [H1 H2]. unfold prelude.
      destruct (t_done L C t) eqn:Hd; [exact Htp|].
      specialize (H1 eq_refl).
      assert (Hsl : forall t0 evs, t_code L C t0 = None -> t_sleeping L C t0 = true ->
                 t_done L C t0 = false -> t_wake L C t0 = t_wake L C t ->
                 match pre_sleep L C len clock id t0 evs rd with
                 | PreRet _ _ _ t' _ rd' => TP rd' t' | PreGo _ _ _ t' _ rd' => TP rd' t' end).
      { intros t0 evs Hc0 Hs0 Hd0 Hw0. unfold pre_sleep. rewrite Hs0.
        destruct (clock rd <? t_wake L C t0)%Z eqn:Hlt.
        - intros _. split; [intros _; assumption|]. intro Hd1. congruence.
        - rewrite Hc0. intros _. simpl. split; [discriminate|]. intros _.
          exists rd. split; [lia|]. apply Z.ltb_ge in Hlt. assumption. }
      unfold pre_wait. destruct (t_wait L C t).
      + destruct (is_done L C n ts); [apply Hsl; simpl; auto|exact Htp].
      + apply Hsl; auto.
  Qed.

  Lemma end_stmt_stab : forall id o l t t' sc evs,
    end_stmt L C len id o l t = (t', sc, evs) -> stab t t'.
  Proof.
    intros id o l t t' sc evs H. unfold end_stmt in H. unfold stab.
    destruct o; [destruct (t_code L C t) eqn:?; [destruct (S (t_idx L C t) <? len c)|]|..];
      inversion H; subst; simpl; repeat split; auto.
  Qed.

  (* ---------------------------------------------------------------- one step *)
  (* tasks are never removed; code and deadline never change; a finished task stays finished;
     the number of clock reads never decreases *)
  Definition evolves (s s' : state) : Prop :=
    (reads _ _ _ s <= reads _ _ _ s') /\
    (forall id t, lookup id (tasks _ _ _ s) = Some t ->
      exists t', lookup id (tasks _ _ _ s') = Some t' /\ stab t t').

  Lemma evolves_refl_tasks : forall s s', tasks _ _ _ s' = tasks _ _ _ s -> reads _ _ _ s <= reads _ _ _ s' -> evolves s s'.
  Proof. intros s s' Ht Hr. split; auto. intros id t H. exists t. rewrite Ht. split; [assumption|apply stab_refl]. Qed.

  Lemma evolves_update : forall s s' id f,
    tasks _ _ _ s' = update id f (tasks _ _ _ s) -> reads _ _ _ s <= reads _ _ _ s' ->
    (forall t, lookup id (tasks _ _ _ s) = Some t -> stab t (f t)) -> evolves s s'.
  Proof.
    intros s s' id f Ht Hr Hf. split; auto. intros id' t H. rewrite Ht, lookup_update.
    destruct (Nat.eqb id' id) eqn:E.
    - apply Nat.eqb_eq in E. subst. rewrite H. simpl. exists (f t). split; auto.
    - exists t. split; [assumption|apply stab_refl].
  Qed.

  Lemma evolves_app : forall s s' t0,
    tasks _ _ _ s' = tasks _ _ _ s ++ [t0] -> reads _ _ _ s <= reads _ _ _ s' -> evolves s s'.
  Proof.
    intros s s' t0 Ht Hr. split; auto. intros id t H. exists t. split; [|apply stab_refl].
    rewrite Ht, lookup_app. pose proof (lookup_some_range L C _ _ _ H).
    destruct (Nat.eqb id (S (length (tasks _ _ _ s)))) eqn:E; [apply Nat.eqb_eq in E; lia|assumption].
  Qed.

  Lemma begin_turn_evolves : forall s id q rest s' evs, begin_turn s id q rest = (s', evs) -> evolves s s'.
  Proof.
    intros s id q rest s' evs H. unfold begin_turn in H.
    destruct (lookup id (tasks _ _ _ s)) as [t|] eqn:Elk.
    - pose proof (prelude_stab (tasks _ _ _ s) id t (reads _ _ _ s)) as Hs.
      destruct (prelude (tasks _ _ _ s) id t (reads _ _ _ s)) as [sc t' ev rd|c t' ev rd]; inversion H; subst; clear H.
      + destruct Hs as [Hs Hr]. eapply evolves_update; simpl; eauto. intros t0 H0. replace t0 with t by congruence. simpl. assumption.
      + destruct Hs as (Hs & Hr & _). eapply evolves_update; simpl; eauto. intros t0 H0. replace t0 with t by congruence. simpl. assumption.
    - inversion H; subst. apply evolves_refl_tasks; auto.
  Qed.

  Lemma end_step_evolves : forall s id o l rest s' evs, end_step s id o l rest = (s', evs) -> evolves s s'.
  Proof.
    intros s id o l rest s' evs H. unfold end_step in H.
    destruct (lookup id (tasks _ _ _ s)) as [t|] eqn:Elk.
    - destruct (end_stmt L C len id o l t) as [[t' sc] ev] eqn:Ee. inversion H; subst; clear H.
      eapply evolves_update; simpl; eauto. intros t0 H0. replace t0 with t by congruence.
      eapply end_stmt_stab; eauto.
    - inversion H; subst. apply evolves_refl_tasks; auto.
  Qed.

  Lemma step_prog_evolves : forall s p rest s' evs, step_prog s p rest = (s', evs) -> evolves s s'.
  Proof.
    intros s p rest s' evs H. destruct p; simpl in H;
      try (inversion H; subst; apply evolves_refl_tasks; simpl; auto; fail).
    - destruct rest as [|[] rest']; try (inversion H; subst; apply evolves_refl_tasks; simpl; auto; fail).
      + eapply end_step_evolves; eauto.
      + destruct o; inversion H; subst; apply evolves_refl_tasks; simpl; auto.
    - inversion H; subst. eapply evolves_app; simpl; eauto.
    - inversion H; subst. eapply evolves_app; simpl; eauto.
    - inversion H; subst. destruct (exec _ _ _ s) as [|cur ex].
      + apply evolves_refl_tasks; simpl; auto.
      + eapply evolves_update; simpl; eauto. intros. repeat split; auto.
    - inversion H; subst. eapply evolves_update; simpl; eauto. intros. repeat split; auto.
    - destruct (k (glob _ _ _ s)) as [g' p']. inversion H; subst. apply evolves_refl_tasks; simpl; auto.
  Qed.

  Theorem step_evolves : forall s, evolves s (fst (step s)).
  Proof.
    intro s. destruct (step s) as [s' evs] eqn:H. simpl. unfold step in H.
    assert (Hsame : forall k, (with_kont L G C s k, @nil event) = (s', evs) -> evolves s s').
    { intros k Hk. inversion Hk; subst. apply evolves_refl_tasks; simpl; auto. }
    destruct (kont _ _ _ s) as [|f rest].
    - inversion H; subst. apply evolves_refl_tasks; auto.
    - destruct f; try (eapply Hsame; eauto; fail).
      + eapply step_prog_evolves; eauto.
      + destruct (lookup w (tasks _ _ _ s)); [destruct (t_done L C t); [|destruct (queue _ _ _ s)]|]; eapply Hsame; eauto.
      + destruct (queue _ _ _ s) as [|id q]; [eapply Hsame; eauto|].
        destruct (cur_is L G C s id).
        * inversion H; subst. apply evolves_refl_tasks; simpl; auto.
        * destruct (begin_turn s id q rest) as [s1 e1] eqn:Eb. inversion H; subst. eapply begin_turn_evolves; eauto.
      + destruct n; [eapply Hsame; eauto|]. destruct (queue _ _ _ s); eapply Hsame; eauto.
      + destruct (queue _ _ _ s) as [|id q]; [eapply Hsame; eauto|].
        destruct (begin_turn s id q (FRunAll _ _ _ :: rest)) as [s1 e1] eqn:Eb. inversion H; subst. eapply begin_turn_evolves; eauto.
      + destruct (i <? len main_code); eapply Hsame; eauto.
  Qed.

  Lemma evolves_trans : forall a b c, evolves a b -> evolves b c -> evolves a c.
  Proof.
    intros a b c [R1 H1] [R2 H2]. split; [lia|]. intros id t H.
    destruct (H1 _ _ H) as (t1 & L1 & S1). destruct (H2 _ _ L1) as (t2 & L2 & S2).
    exists t2. split; auto. eapply stab_trans; eauto.
  Qed.

  Theorem run_evolves : forall n s, evolves s (fst (run n s)).
  Proof.
    induction n; intro s; simpl.
    - apply evolves_refl_tasks; auto.
    - pose proof (step_evolves s) as H1. destruct (step s) as [s1 e1]. simpl in H1.
      pose proof (IHn s1) as H2. destruct (run n s1) as [s2 e2]. simpl in *. eapply evolves_trans; eauto.
  Qed.

  (* ---------------------------------------------------------------- the sleep invariant *)
  Definition SleepInv (s : state) : Prop :=
    (forall id t, lookup id (tasks _ _ _ s) = Some t -> TP (reads _ _ _ s) t) /\
    (forall id t, In id (exec _ _ _ s) -> lookup id (tasks _ _ _ s) = Some t -> t_code L C t <> None).

  Lemma SleepInv_init : forall g0 l0, SleepInv (init L G C g0 l0).
  Proof.
    intros. split; simpl.
    - intros id t H. destruct id as [|[|k]]; discriminate.
    - intros id t [].
  Qed.

  (* a change of tasks that keeps code / done / sleeping / deadline of every task *)
  Lemma SleepInv_pres : forall s ts' ex' rd' q g k,
    SleepInv s -> reads _ _ _ s <= rd' -> incl ex' (exec _ _ _ s) ->
    (forall id t', lookup id ts' = Some t' -> exists t, lookup id (tasks _ _ _ s) = Some t /\
        t_code L C t' = t_code L C t /\ t_done L C t' = t_done L C t /\
        t_sleeping L C t' = t_sleeping L C t /\ t_wake L C t' = t_wake L C t) ->
    SleepInv (mkState L G C q ts' ex' rd' g k).
  Proof.
    intros s ts' ex' rd' q g k [H1 H2] Hr Hex Hts. split; simpl.
    - intros id t' Hlk. destruct (Hts _ _ Hlk) as (t & Hl & Ec & Ed & Es & Ew).
      pose proof (TP_mono _ _ _ Hr (H1 _ _ Hl)) as Htp. unfold TP in *. rewrite Ec, Ed, Es, Ew. exact Htp.
    - intros id t' Hin Hlk. destruct (Hts _ _ Hlk) as (t & Hl & Ec & _). rewrite Ec. eapply H2; eauto.
  Qed.

  Lemma same_tasks : forall (ts : list task) id t', lookup id ts = Some t' ->
    exists t, lookup id ts = Some t /\ t_code L C t' = t_code L C t /\ t_done L C t' = t_done L C t /\
              t_sleeping L C t' = t_sleeping L C t /\ t_wake L C t' = t_wake L C t.
  Proof. intros. exists t'. auto. Qed.

  Lemma updated_tasks : forall (ts : list task) id0 f,
    (forall t, t_code L C (f t) = t_code L C t /\ t_done L C (f t) = t_done L C t /\
               t_sleeping L C (f t) = t_sleeping L C t /\ t_wake L C (f t) = t_wake L C t) ->
    forall id t', lookup id (update id0 f ts) = Some t' ->
    exists t, lookup id ts = Some t /\ t_code L C t' = t_code L C t /\ t_done L C t' = t_done L C t /\
              t_sleeping L C t' = t_sleeping L C t /\ t_wake L C t' = t_wake L C t.
  Proof.
    intros ts id0 f Hf id t' H. rewrite lookup_update in H. destruct (Nat.eqb id id0) eqn:E.
    - apply Nat.eqb_eq in E. subst. destruct (lookup id0 ts) as [t|]; [|discriminate]. simpl in H.
      inversion H; subst. exists t. split; [reflexivity|]. apply Hf.
    - exists t'. auto.
  Qed.

  Lemma SleepInv_set : forall s id t t' ex' rd' q g k,
    SleepInv s -> lookup id (tasks _ _ _ s) = Some t -> reads _ _ _ s <= rd' ->
    TP rd' t' -> t_code L C t' = t_code L C t ->
    (forall x, In x ex' -> x = id /\ t_code L C t' <> None \/ In x (exec _ _ _ s)) ->
    SleepInv (mkState L G C q (update id (fun _ => t') (tasks _ _ _ s)) ex' rd' g k).
  Proof.
    intros s id t t' ex' rd' q g k [H1 H2] Hlk Hr Htp Hc Hex. split; simpl.
    - intros id' t0 H0. rewrite lookup_update in H0. destruct (Nat.eqb id' id).
      + rewrite Hlk in H0. inversion H0; subst. assumption.
      + eapply TP_mono; eauto.
    - intros id' t0 Hin H0. rewrite lookup_update in H0. destruct (Nat.eqb id' id) eqn:E.
      + rewrite Hlk in H0. inversion H0; subst. apply Nat.eqb_eq in E. subst id'.
        destruct (Hex _ Hin) as [[_ Hn]|Hin']; [assumption|]. rewrite Hc. eapply H2; eauto.
      + destruct (Hex _ Hin) as [[Hx _]|Hin']; [apply Nat.eqb_neq in E; contradiction|]. eapply H2; eauto.
  Qed.

  Lemma SleepInv_app : forall s t0 rd' q g k,
    SleepInv s -> reads _ _ _ s <= rd' -> TP rd' t0 ->
    Inv L G C s ->
    SleepInv (mkState L G C q (tasks _ _ _ s ++ [t0]) (exec _ _ _ s) rd' g k).
  Proof.
    intros s t0 rd' q g k [H1 H2] Hr Htp (_ & _ & _ & Hlive). split; simpl.
    - intros id t H. rewrite lookup_app in H. destruct (Nat.eqb id (S (length (tasks _ _ _ s)))).
      + inversion H; subst. assumption.
      + eapply TP_mono; eauto.
    - intros id t Hin H. rewrite lookup_app in H. destruct (Nat.eqb id (S (length (tasks _ _ _ s)))) eqn:E.
      + exfalso. apply Nat.eqb_eq in E. subst id.
        assert (Hl : live L C (tasks _ _ _ s) (S (length (tasks _ _ _ s))) = true) by (apply Hlive; apply in_app_iff; auto).
        apply live_range in Hl. lia.
      + eapply H2; eauto.
  Qed.

  Lemma begin_turn_sleepinv : forall s id q rest s' evs,
    SleepInv s -> begin_turn s id q rest = (s', evs) -> SleepInv s'.
  Proof.
    intros s id q rest s' evs HS H. pose proof HS as [H1 H2]. unfold begin_turn in H.
    destruct (lookup id (tasks _ _ _ s)) as [t|] eqn:Elk.
    - pose proof (prelude_stab (tasks _ _ _ s) id t (reads _ _ _ s)) as Hs.
      pose proof (prelude_TP (tasks _ _ _ s) id t (reads _ _ _ s) (H1 _ _ Elk)) as Ht.
      destruct (prelude (tasks _ _ _ s) id t (reads _ _ _ s)) as [sc t' ev rd|c t' ev rd]; inversion H; subst; clear H.
      + destruct Hs as ((Hc & _) & Hr). eapply SleepInv_set; eauto.
      + destruct Hs as ((Hc & _) & Hr & Hcode). eapply SleepInv_set; eauto.
        intros x [<-|Hin]; [left; split; [reflexivity|congruence]|right; assumption].
    - inversion H; subst. eapply SleepInv_pres; eauto; [apply incl_refl|apply same_tasks].
  Qed.

  Lemma end_step_sleepinv : forall s id o l rest s' evs,
    SleepInv s -> In id (exec _ _ _ s) -> end_step s id o l rest = (s', evs) -> SleepInv s'.
  Proof.
    intros s id o l rest s' evs HS Hin H. pose proof HS as [H1 H2]. unfold end_step in H.
    destruct (lookup id (tasks _ _ _ s)) as [t|] eqn:Elk.
    - destruct (end_stmt L C len id o l t) as [[t' sc] ev] eqn:Ee. inversion H; subst; clear H.
      destruct (end_stmt_stab _ _ _ _ _ _ _ Ee) as (Hc & _).
      eapply SleepInv_set; eauto.
      + intro Hn. exfalso. rewrite Hc in Hn. eapply H2; eauto.
      + intros x Hx. right. destruct (exec _ _ _ s); [contradiction|right; assumption].
    - inversion H; subst. eapply SleepInv_pres; eauto; [|apply same_tasks].
      intros x Hx. destruct (exec _ _ _ s); [contradiction|right; assumption].
  Qed.

  Theorem step_sleepinv : forall s, Inv L G C s -> SleepInv s -> SleepInv (fst (step s)).
  Proof.
    intros s HI HS. pose proof HI as (Hwf & Hex & _). destruct (step s) as [s' evs] eqn:H. simpl. unfold step in H.
    assert (Hsame : forall k, (with_kont L G C s k, @nil event) = (s', evs) -> SleepInv s').
    { intros k Hk. inversion Hk; subst. unfold with_kont. eapply SleepInv_pres; eauto; [apply incl_refl|apply same_tasks]. }
    destruct (kont _ _ _ s) as [|f rest] eqn:Hk.
    - inversion H; subst. assumption.
    - destruct f; try (eapply Hsame; eauto; fail).
      + (* a statement *)
        destruct p; simpl in H;
          try (inversion H; subst; eapply SleepInv_pres; eauto; [apply incl_refl|apply same_tasks]; fail).
        * destruct rest as [|[] rest']; try (eapply Hsame; eauto; fail).
          -- eapply end_step_sleepinv; eauto. rewrite Hex. simpl. auto.
          -- destruct o; eapply Hsame; eauto.
        * inversion H; subst. eapply SleepInv_app; eauto. intro Hn. discriminate.
        * inversion H; subst. eapply SleepInv_app; eauto. intros _. simpl. split; [reflexivity|discriminate].
        * inversion H; subst. eapply SleepInv_pres; eauto; [apply incl_refl|].
          destruct (exec _ _ _ s); [apply same_tasks|]. apply updated_tasks. intro. simpl. auto.
        * inversion H; subst. eapply SleepInv_pres; eauto; [apply incl_refl|].
          apply updated_tasks. intro. simpl. auto.
        * destruct (k (glob _ _ _ s)) as [g' p']. inversion H; subst.
          eapply SleepInv_pres; eauto; [apply incl_refl|apply same_tasks].
      + destruct (lookup w (tasks _ _ _ s)); [destruct (t_done L C t); [|destruct (queue _ _ _ s)]|]; eapply Hsame; eauto.
      + destruct (queue _ _ _ s) as [|id q]; [eapply Hsame; eauto|].
        destruct (cur_is L G C s id).
        * inversion H; subst. eapply SleepInv_pres; eauto; [apply incl_refl|apply same_tasks].
        * destruct (begin_turn s id q rest) as [s1 e1] eqn:Eb. inversion H; subst. eapply begin_turn_sleepinv; eauto.
      + destruct n; [eapply Hsame; eauto|]. destruct (queue _ _ _ s); eapply Hsame; eauto.
      + destruct (queue _ _ _ s) as [|id q]; [eapply Hsame; eauto|].
        destruct (begin_turn s id q (FRunAll _ _ _ :: rest)) as [s1 e1] eqn:Eb. inversion H; subst. eapply begin_turn_sleepinv; eauto.
      + destruct (i <? len main_code); eapply Hsame; eauto.
  Qed.

  Theorem reachable_sleepinv : forall s, reachable s -> SleepInv s.
  Proof.
    intros s (g0 & l0 & n & ->).
    assert (H : forall n s0, Inv L G C s0 -> SleepInv s0 -> SleepInv (fst (run n s0))).
    { induction n0; intros s0 HI HS; simpl; [assumption|].
      pose proof (step_inv L G C len code clock dflt main_code s0 HI) as HI1.
      pose proof (step_sleepinv s0 HI HS) as HS1. destruct (step s0) as [s1 e1]. simpl in *.
      pose proof (IHn0 s1 HI1 HS1) as H2. destruct (run n0 s1) as [s2 e2]. exact H2. }
    apply H; [apply Inv_init|apply SleepInv_init].
  Qed.

  (* ---------------------------------------------------------------- the theorems *)
  Definition monotone : Prop := forall a b, a <= b -> (clock a <= clock b)%Z.

  (* a finished body-less (sleep) task: every clock reading from now on is >= its deadline *)
  Theorem no_early_wake_state_l : monotone -> forall s id t,
    reachable s -> lookup id (tasks _ _ _ s) = Some t -> t_code L C t = None -> t_done L C t = true ->
    forall r, reads _ _ _ s <= r -> (t_wake L C t <= clock r)%Z.
  Proof.
    intros Hm s id t Hr Hlk Hc Hd r Hle. apply reachable_sleepinv in Hr. destruct Hr as [H1 _].
    destruct (H1 _ _ Hlk Hc) as [_ H2]. destruct (H2 Hd) as (r0 & Hr0 & Hw).
    eapply Z.le_trans; [exact Hw|]. apply Hm. lia.
  Qed.

  (* ... and it was finished on a reading >= the deadline, whatever the clock *)
  Theorem sleeper_finished_after_deadline_l : forall s id t,
    reachable s -> lookup id (tasks _ _ _ s) = Some t -> t_code L C t = None -> t_done L C t = true ->
    exists r, r < reads _ _ _ s /\ (t_wake L C t <= clock r)%Z.
  Proof.
    intros s id t Hr Hlk Hc Hd. apply reachable_sleepinv in Hr. destruct Hr as [H1 _].
    destruct (H1 _ _ Hlk Hc) as [_ H2]. auto.
  Qed.

  (* sleep(ms): reads the clock once and registers a body-less sleeping task with deadline now + ms *)
  Theorem sleep_sets_deadline_l : forall s ms k rest,
    kont _ _ _ s = FProg _ _ _ (PSleep _ _ _ ms k) :: rest ->
    let id := S (length (tasks _ _ _ s)) in
    let s' := fst (step s) in
    lookup id (tasks _ _ _ s') = Some (new_task L C None dflt true true (clock (reads _ _ _ s) + ms)%Z) /\
    reads _ _ _ s' = S (reads _ _ _ s) /\ queue _ _ _ s' = queue _ _ _ s ++ [id] /\
    kont _ _ _ s' = FProg _ _ _ (k id) :: rest.
  Proof.
    intros s ms k rest Hk id s'. subst id s'. unfold step. rewrite Hk. unfold step_prog.
    cbn [fst tasks reads queue kont]. split; [|auto].
    rewrite lookup_app, Nat.eqb_refl. reflexivity.
  Qed.

  Lemma reachable_run : forall n s, reachable s -> reachable (fst (run n s)).
  Proof.
    induction n; intros s H; simpl; [assumption|].
    pose proof (reachable_step L G C len code clock dflt main_code s H) as H1.
    destruct (step s) as [s1 e1]. simpl in H1. pose proof (IHn s1 H1) as H2.
    destruct (run n s1) as [s2 e2]. exact H2.
  Qed.

  (* NO EARLY WAKE, end to end: sleep(ms) is called in a reachable state and reads the clock (t0);
     whenever its task is found finished later - which is what lets `await sleep(ms)` return, see
     await_loop_exit - every clock reading from then on is >= t0 + ms, for any monotone clock *)
  Theorem no_early_wake_l : monotone -> forall s0 ms k rest n,
    reachable s0 -> kont _ _ _ s0 = FProg _ _ _ (PSleep _ _ _ ms k) :: rest ->
    let id := S (length (tasks _ _ _ s0)) in
    let s := fst (run n (fst (step s0))) in
    is_done L C id (tasks _ _ _ s) = true ->
    forall r, reads _ _ _ s <= r -> (clock (reads _ _ _ s0) + ms <= clock r)%Z.
  Proof.
    intros Hm s0 ms k rest n Hr Hk id s Hdone r Hle.
    destruct (sleep_sets_deadline_l s0 ms k rest Hk) as (Hlk & _).
    destruct (run_evolves n (fst (step s0))) as [_ Hev].
    destruct (Hev _ _ Hlk) as (t' & Hlk' & Hc & Hw & _). fold s in Hlk'. simpl in Hc, Hw.
    unfold is_done in Hdone. fold id in Hlk'. rewrite Hlk' in Hdone.
    rewrite <- Hw. eapply (no_early_wake_state_l Hm s id t'); eauto.
    apply reachable_run. apply reachable_step. assumption.
  Qed.
End Sleep.
