(* C15 - laws of Body.bexec: where an iteration ends, the step ends.
   For every statement, environment and fuel (all histories: the environment carries the resume
   positions of every earlier suspension):
     - inside a task (auto-yield mode) the end of an iteration that does not leave the loop - the body
       ran to its end or was cut short by `continue` - is the last thing the step does: nothing is
       executed after it, the step ends with YieldException(true), and it is the only such end in
       the step (exec_task_law);
     - outside a task it is immediately followed by run_background_tasks_one_cycle (exec_main_law);
   both for EVERY statement: since fix a1ebdfd the ContinueException handler of
   execute_while_statement falls through to the common end of the iteration, as the for loop's does
   (before it the laws failed for a while loop whose iteration ends by `continue`). *)
From Coq Require Import List Arith Bool Lia.
From Cb Require Import C15.Body.
Import ListNotations.
Local Open Scope nat_scope.

Section Laws.
  Variable A : Type.
  Notation bstmt := (bstmt A).
  Notation item := (item A).

  (* an end mark that is not a boundary: the iteration left the loop or was suspended inside *)
  Definition is_quiet_mark (it : item) : bool :=
    match it with IIterEnd _ k => negb (boundary k) | _ => false end.

  (* after the first boundary nothing but quiet marks *)
  Fixpoint susp_ok (l : list item) : bool :=
    match l with
    | [] => true
    | it :: r => if is_boundary A it then forallb is_quiet_mark r else susp_ok r
    end.
  Definition has_boundary (l : list item) : bool := existsb (is_boundary A) l.

  (* every boundary is immediately followed by the background cycle *)
  Fixpoint bg_ok (l : list item) : bool :=
    match l with
    | [] => true
    | it :: r => (if is_boundary A it then match r with IBg :: _ => true | _ => false end else true) && bg_ok r
    end.

  (* ---- lists -------------------------------------------------------------------------------- *)
  Lemma has_boundary_app : forall a b, has_boundary (a ++ b) = has_boundary a || has_boundary b.
  Proof. intros. unfold has_boundary. apply existsb_app. Qed.

  Lemma susp_ok_app_nb : forall a b, has_boundary a = false -> susp_ok (a ++ b) = susp_ok b.
  Proof.
    induction a as [|it a IH]; intros b H; [reflexivity|].
    cbn in H. apply orb_false_iff in H. destruct H as [H1 H2].
    cbn. rewrite H1. apply IH; exact H2.
  Qed.

  Lemma susp_ok_app_b : forall a b, has_boundary a = true ->
    susp_ok (a ++ b) = susp_ok a && forallb is_quiet_mark b.
  Proof.
    induction a as [|it a IH]; intros b H; [discriminate|].
    cbn in H. cbn. destruct (is_boundary A it) eqn:Hb.
    - apply forallb_app.
    - cbn in H. apply IH; exact H.
  Qed.

  Lemma bg_ok_app : forall a b, bg_ok a = true -> bg_ok (a ++ b) = bg_ok b.
  Proof.
    induction a as [|it a IH]; intros b H; [reflexivity|].
    cbn in H. apply andb_true_iff in H. destruct H as [H1 H2].
    cbn. rewrite (IH b H2). destruct (is_boundary A it).
    - destruct a as [|x a']; [discriminate|]. destruct x; try discriminate. reflexivity.
    - reflexivity.
  Qed.

  Lemma forallb_skipn : forall (X : Type) (f : X -> bool) n l, forallb f l = true -> forallb f (skipn n l) = true.
  Proof.
    induction n; intros l H; [exact H|]. destruct l; [reflexivity|].
    cbn in H. apply andb_true_iff in H. cbn. apply IHn. tauto.
  Qed.

  Lemma existsb_skipn : forall (X : Type) (f : X -> bool) n l, existsb f l = false -> existsb f (skipn n l) = false.
  Proof.
    induction n; intros l H; [exact H|]. destruct l; [reflexivity|].
    cbn in H. apply orb_false_iff in H. cbn. apply IHn. tauto.
  Qed.

  (* ---- unfolding equations ------------------------------------------------------------------- *)

  Lemma exec_S : forall task f s e,
    bexec A task (S f) s e =
      match s with
      | BSimple x => ([ISimple x], RNormal, e)
      | BSet v c => ([], RNormal, set_var v c e)
      | BInc v => ([], RNormal, set_var v (S (var v e)) e)
      | BContinue => ([], RContinue, e)
      | BBreak => ([], RBreak, e)
      | BYield => ([], RYield false, e)
      | BReturn => ([], RReturn, e)
      | BIf c t el =>
          if eval c e then bexec A task f t e
          else match el with Some s' => bexec A task f s' e | None => ([], RNormal, e) end
      | BBlock id body => block_from A task f id (skipn (rpos id e) body) (rpos id e) e
      | BFor id v n body =>
          match alookup v (e_vars e) with
          | None => for_iter A task f id v n body true (set_rpos id 1 (set_var v 0 e))
          | Some _ => for_iter A task f id v n body (has_rpos id e) e
          end
      | BWhile id c body => while_iter A task f id c body e
      | BCall id body => let '(its, r, _) := call_from A task f body env0 in (its, r, e)
      end.
  Proof. reflexivity. Qed.


  Lemma for_iter_S : forall task f id v n body owned e,
    for_iter A task (S f) id v n body owned e =
      if var v e <? n then
        let '(its, r, e1) := bexec A task f body e in
        match r with
        | RNormal | RContinue =>
            let k := match r with RContinue => IContinue | _ => IFall end in
            let e2 := set_var v (S (var v e1)) e1 in
            if task then (IIter id :: its ++ [IIterEnd id k], RYield true, e2)
            else
              let '(its2, r2, e3) := for_iter A task f id v n body owned e2 in
              (IIter id :: its ++ [IIterEnd id k; IBg] ++ its2, r2, e3)
        | RYield true =>
            (IIter id :: its ++ [IIterEnd id IYieldInner], RYield true, set_var v (S (var v e1)) e1)
        | RYield false =>
            (IIter id :: its ++ [IIterEnd id IYieldExplicit], RYield true, e1)
        | RBreak => (IIter id :: its ++ [IIterEnd id IBreak], RNormal, for_cleanup id v owned e1)
        | RReturn => (IIter id :: its ++ [IIterEnd id IReturn], RReturn, e1)
        | RFuel => (IIter id :: its ++ [IIterEnd id IFuelEnd], RFuel, e1)
        end
      else ([], RNormal, for_cleanup id v owned e).
  Proof. reflexivity. Qed.

  Lemma while_iter_S : forall task f id c body e,
    while_iter A task (S f) id c body e =
      if eval c e then
        let '(its, r, e1) := bexec A task f body e in
        match r with
        | RNormal | RContinue =>
            let k := match r with RContinue => IContinue | _ => IFall end in
            if task then (IIter id :: its ++ [IIterEnd id k], RYield true, e1)
            else
              let '(its2, r2, e2) := while_iter A task f id c body e1 in
              (IIter id :: its ++ [IIterEnd id k; IBg] ++ its2, r2, e2)
        | RYield true => (IIter id :: its ++ [IIterEnd id IYieldInner], RYield true, e1)
        | RYield false => (IIter id :: its ++ [IIterEnd id IYieldExplicit], RYield true, e1)
        | RBreak => (IIter id :: its ++ [IIterEnd id IBreak], RNormal, e1)
        | RReturn => (IIter id :: its ++ [IIterEnd id IReturn], RReturn, e1)
        | RFuel => (IIter id :: its ++ [IIterEnd id IFuelEnd], RFuel, e1)
        end
      else ([], RNormal, e).
  Proof. reflexivity. Qed.

  Lemma block_from_S : forall task f id rest i e,
    block_from A task (S f) id rest i e =
      match rest with
      | [] => ([], RNormal, del_rpos id e)
      | s :: rest' =>
          let '(its, r, e1) := bexec A task f s (set_rpos id i e) in
          match r with
          | RNormal =>
              let '(its2, r2, e2) := block_from A task f id rest' (S i) (set_rpos id (S i) e1) in
              (its ++ its2, r2, e2)
          | RYield fl => (its, r, set_rpos id (if fl then i else S i) e1)
          | RBreak | RContinue | RReturn => (its, r, del_rpos id e1)
          | RFuel => (its, r, e1)
          end
      end.
  Proof. reflexivity. Qed.

  Lemma call_from_S : forall task f rest e,
    call_from A task (S f) rest e =
      match rest with
      | [] => ([], RNormal, e)
      | s :: rest' =>
          let '(its, r, e1) := bexec A task f s e in
          match r with
          | RNormal =>
              let '(its2, r2, e2) := call_from A task f rest' e1 in
              (its ++ ICycle :: its2, r2, e2)
          | RYield fl => (its, r, e1)
          | RReturn | RBreak | RContinue => (its, RNormal, e1)
          | RFuel => (its, r, e1)
          end
      end.
  Proof. reflexivity. Qed.

  (* ---- a statement without a reachable continue never ends by ContinueException ---------------- *)
  Definition P_exec_nc (task : bool) (f : nat) := forall s e its r e',
    bexec A task f s e = (its, r, e') -> can_continue A s = false -> r <> RContinue.
  Definition P_for_nc (task : bool) (f : nat) := forall id v n body owned e its r e',
    for_iter A task f id v n body owned e = (its, r, e') -> r <> RContinue.
  Definition P_while_nc (task : bool) (f : nat) := forall id c body e its r e',
    while_iter A task f id c body e = (its, r, e') -> r <> RContinue.
  Definition P_block_nc (task : bool) (f : nat) := forall id rest i e its r e',
    block_from A task f id rest i e = (its, r, e') -> existsb (can_continue A) rest = false -> r <> RContinue.
  Definition P_call_nc (task : bool) (f : nat) := forall rest e its r e',
    call_from A task f rest e = (its, r, e') -> r <> RContinue.

  Lemma no_continue_all : forall task f,
    P_exec_nc task f /\ P_for_nc task f /\ P_while_nc task f /\ P_block_nc task f /\ P_call_nc task f.
  Proof.
    intros task. induction f as [|f (IHe & IHf & IHw & IHb & IHc)].
    - (split; [|split; [|split; [|split]]]); red; intros; cbn in *; congruence.
    - (split; [|split; [|split; [|split]]]); red.
      + (* bexec *)
        intros s e its r e' H Hc. rewrite exec_S in H. destruct s; cbn in Hc; try discriminate;
          try (inversion H; subst; discriminate).
        * apply orb_false_iff in Hc. destruct Hc as [Hc1 Hc2].
          destruct (eval c e).
          -- eapply IHe; eauto.
          -- destruct e0 as [s'|]; [eapply IHe; eauto|inversion H; subst; discriminate].
        * eapply IHb; eauto. apply existsb_skipn; exact Hc.
        * destruct (alookup v (e_vars e)); eapply IHf; eauto.
        * eapply IHw; eauto.
        * destruct (call_from A task f body env0) as [[its0 r0] e0] eqn:Hcf.
          inversion H; subst. eapply IHc; eauto.
      + (* for_iter *)
        intros id v n body owned e its r e' H. rewrite for_iter_S in H; cbv beta iota zeta in H.
        destruct (var v e <? n); [|inversion H; subst; discriminate].
        destruct (bexec A task f body e) as [[its0 r0] e1] eqn:Hb.
        destruct r0 as [| | |fl| |]; try (inversion H; subst; discriminate).
        * destruct task; [inversion H; subst; discriminate|].
          destruct (for_iter A false f id v n body owned _) as [[its2 r2] e3] eqn:Hr.
          inversion H; subst. eapply IHf; eauto.
        * destruct task; [inversion H; subst; discriminate|].
          destruct (for_iter A false f id v n body owned _) as [[its2 r2] e3] eqn:Hr.
          inversion H; subst. eapply IHf; eauto.
        * destruct fl; inversion H; subst; discriminate.
      + (* while_iter *)
        intros id c body e its r e' H. rewrite while_iter_S in H; cbv beta iota zeta in H.
        destruct (eval c e); [|inversion H; subst; discriminate].
        destruct (bexec A task f body e) as [[its0 r0] e1] eqn:Hb.
        destruct r0 as [| | |fl| |]; try (inversion H; subst; discriminate).
        * destruct task; [inversion H; subst; discriminate|].
          destruct (while_iter A false f id c body e1) as [[its2 r2] e2] eqn:Hr.
          inversion H; subst. eapply IHw; eauto.
        * destruct task; [inversion H; subst; discriminate|].
          destruct (while_iter A false f id c body e1) as [[its2 r2] e2] eqn:Hr.
          inversion H; subst. eapply IHw; eauto.
        * destruct fl; inversion H; subst; discriminate.
      + (* block_from *)
        intros id rest i e its r e' H Hc. rewrite block_from_S in H; cbv beta iota zeta in H.
        destruct rest as [|s rest']; [inversion H; subst; discriminate|].
        cbn in Hc. apply orb_false_iff in Hc. destruct Hc as [Hc1 Hc2].
        destruct (bexec A task f s (set_rpos id i e)) as [[its0 r0] e1] eqn:Hs.
        pose proof (IHe _ _ _ _ _ Hs Hc1) as Hne.
        destruct r0 as [| | |fl| |]; try (inversion H; subst; (discriminate || congruence)).
        destruct (block_from A task f id rest' (S i) (set_rpos id (S i) e1)) as [[its2 r2] e2] eqn:Hr.
        inversion H; subst. eapply IHb; eauto.
      + (* call_from *)
        intros rest e its r e' H. rewrite call_from_S in H; cbv beta iota zeta in H.
        destruct rest as [|s rest']; [inversion H; subst; discriminate|].
        destruct (bexec A task f s e) as [[its0 r0] e1] eqn:Hs.
        destruct r0 as [| | |fl| |]; try (inversion H; subst; discriminate).
        destruct (call_from A task f rest' e1) as [[its2 r2] e2] eqn:Hr.
        inversion H; subst. eapply IHc; eauto.
  Qed.

  Lemma exec_no_continue : forall task f s e its r e',
    bexec A task f s e = (its, r, e') -> can_continue A s = false -> r <> RContinue.
  Proof. intros task f. exact (proj1 (no_continue_all task f)). Qed.
End Laws.

(* ============================================================================================== *)
(* inside a task                                                                                   *)
Section TaskLaw.
  Variable A : Type.
  Notation item := (item A).

  Definition good (its : list item) (r : res) : Prop :=
    susp_ok A its = true /\ (has_boundary A its = true -> r = RYield true).

  Definition T_exec (f : nat) := forall s e its r e',
    bexec A true f s e = (its, r, e') -> good its r.
  Definition T_for (f : nat) := forall id v n body owned e its r e',
    for_iter A true f id v n body owned e = (its, r, e') -> good its r.
  Definition T_while (f : nat) := forall id c body e its r e',
    while_iter A true f id c body e = (its, r, e') -> good its r.
  Definition T_block (f : nat) := forall id rest i e its r e',
    block_from A true f id rest i e = (its, r, e') -> good its r.
  Definition T_call (f : nat) := forall rest e its r e',
    call_from A true f rest e = (its, r, e') -> good its r.

  Lemma good_nil : forall r, good [] r.
  Proof. intros r. split; [reflexivity|]. cbn. discriminate. Qed.

  (* the end of an iteration: body items, then one end mark *)
  Lemma good_iter_boundary : forall id its r k,
    good its r -> r <> RYield true -> boundary k = true ->
    good (IIter id :: its ++ [IIterEnd id k]) (RYield true).
  Proof.
    intros id its r k [H1 H2] Hr Hk. split; [|reflexivity].
    assert (Hb : has_boundary A its = false).
    { destruct (has_boundary A its) eqn:E; [|reflexivity]. elim Hr. apply H2. reflexivity. }
    cbn. rewrite (susp_ok_app_nb A _ _ Hb). cbn. rewrite Hk. reflexivity.
  Qed.

  Lemma good_iter_quiet : forall id its r k r',
    good its r -> boundary k = false -> (r = RYield true -> r' = RYield true) ->
    good (IIter id :: its ++ [IIterEnd id k]) r'.
  Proof.
    intros id its r k r' [H1 H2] Hk Hr'.
    destruct (has_boundary A its) eqn:Hb.
    - split.
      + cbn. rewrite (susp_ok_app_b A _ _ Hb), H1. cbn. rewrite Hk. reflexivity.
      + intros _. apply Hr'. apply H2. reflexivity.
    - split.
      + cbn. rewrite (susp_ok_app_nb A _ _ Hb). cbn. rewrite Hk. reflexivity.
      + change (has_boundary A (IIter id :: its ++ [IIterEnd id k])) with (has_boundary A (its ++ [IIterEnd id k])).
        rewrite has_boundary_app, Hb. cbn. rewrite Hk. discriminate.
  Qed.

  Lemma good_app_normal : forall its its2 r r2,
    good its r -> r <> RYield true -> good its2 r2 -> good (its ++ its2) r2.
  Proof.
    intros its its2 r r2 [H1 H2] Hr [H3 H4].
    assert (Hb : has_boundary A its = false).
    { destruct (has_boundary A its) eqn:E; [|reflexivity]. elim Hr. apply H2. reflexivity. }
    split.
    - rewrite (susp_ok_app_nb A _ _ Hb). exact H3.
    - rewrite has_boundary_app, Hb. exact H4.
  Qed.

  Lemma task_all : forall f, T_exec f /\ T_for f /\ T_while f /\ T_block f /\ T_call f.
  Proof.
    induction f as [|f (IHe & IHf & IHw & IHb & IHc)].
    - (split; [|split; [|split; [|split]]]); red; intros; cbn in *;
        match goal with H : (_, _, _) = (_, _, _) |- _ => inversion H; subst end; apply good_nil.
    - (split; [|split; [|split; [|split]]]); red.
      + (* bexec *)
        intros s e its r e' H. rewrite exec_S in H. destruct s;
          try (inversion H; subst; apply good_nil).
        * destruct (eval c e).
          -- eapply IHe; eauto.
          -- destruct e0 as [s'|]; [eapply IHe; eauto|inversion H; subst; apply good_nil].
        * eapply IHb; exact H.
        * destruct (alookup v (e_vars e)); eapply IHf; eauto.
        * eapply IHw; eauto.
        * destruct (call_from A true f body env0) as [[its0 r0] e0] eqn:Hcf.
          inversion H; subst. eapply IHc; eauto.
      + (* for_iter *)
        intros id v n body owned e its r e' H. rewrite for_iter_S in H; cbv beta iota zeta in H.
        destruct (var v e <? n); [|inversion H; subst; apply good_nil].
        destruct (bexec A true f body e) as [[its0 r0] e1] eqn:Hb.
        pose proof (IHe _ _ _ _ _ Hb) as Hg.
        destruct r0 as [| | |fl| |]; try (inversion H; subst).
        * eapply good_iter_boundary; eauto; discriminate.
        * eapply good_iter_quiet; eauto; discriminate.
        * eapply good_iter_boundary; eauto; discriminate.
        * destruct fl; inversion H; subst;
            eapply good_iter_quiet; eauto.
        * eapply good_iter_quiet; eauto; discriminate.
        * eapply good_iter_quiet; eauto; discriminate.
      + (* while_iter: the same case analysis as the for loop since fix a1ebdfd *)
        intros id c body e its r e' H. rewrite while_iter_S in H; cbv beta iota zeta in H.
        destruct (eval c e); [|inversion H; subst; apply good_nil].
        destruct (bexec A true f body e) as [[its0 r0] e1] eqn:Hb.
        pose proof (IHe _ _ _ _ _ Hb) as Hg.
        destruct r0 as [| | |fl| |]; try (inversion H; subst).
        * eapply good_iter_boundary; eauto; discriminate.
        * eapply good_iter_quiet; eauto; discriminate.
        * eapply good_iter_boundary; eauto; discriminate.
        * destruct fl; inversion H; subst; eapply good_iter_quiet; eauto.
        * eapply good_iter_quiet; eauto; discriminate.
        * eapply good_iter_quiet; eauto; discriminate.
      + (* block_from *)
        intros id rest i e its r e' H. rewrite block_from_S in H; cbv beta iota zeta in H.
        destruct rest as [|s rest']; [inversion H; subst; apply good_nil|].
        destruct (bexec A true f s (set_rpos id i e)) as [[its0 r0] e1] eqn:Hs.
        pose proof (IHe _ _ _ _ _ Hs) as Hg.
        destruct r0 as [| | |fl| |]; try (inversion H; subst; exact Hg).
        destruct (block_from A true f id rest' (S i) (set_rpos id (S i) e1)) as [[its2 r2] e2] eqn:Hr.
        inversion H; subst. eapply good_app_normal; eauto. discriminate.
      + (* call_from *)
        intros rest e its r e' H. rewrite call_from_S in H; cbv beta iota zeta in H.
        destruct rest as [|s rest']; [inversion H; subst; apply good_nil|].
        destruct (bexec A true f s e) as [[its0 r0] e1] eqn:Hs.
        pose proof (IHe _ _ _ _ _ Hs) as Hg.
        destruct r0 as [| | |fl| |]; try (inversion H; subst).
        * destruct (call_from A true f rest' e1) as [[its2 r2] e2] eqn:Hr.
          inversion H; subst.
          change (its0 ++ ICycle :: its2) with (its0 ++ [ICycle] ++ its2).
          eapply good_app_normal; eauto; [discriminate|].
          pose proof (IHc _ _ _ _ _ Hr) as [G1 G2]. split; assumption.
        * destruct Hg as [G1 G2]. split; [exact G1|]. intros Hb. specialize (G2 Hb). discriminate.
        * destruct Hg as [G1 G2]. split; [exact G1|]. intros Hb. specialize (G2 Hb). discriminate.
        * exact Hg.
        * destruct Hg as [G1 G2]. split; [exact G1|]. intros Hb. specialize (G2 Hb). discriminate.
        * exact Hg.
  Qed.

  (* reading susp_ok at a given boundary mark *)
  Lemma susp_ok_split : forall pre it post,
    susp_ok A (pre ++ it :: post) = true -> is_boundary A it = true ->
    has_boundary A pre = false /\ forallb (is_quiet_mark A) post = true.
  Proof.
    induction pre as [|x pre IH]; intros it post H Hb.
    - cbn in H. rewrite Hb in H. split; [reflexivity|exact H].
    - cbn in H. destruct (is_boundary A x) eqn:Hx.
      + exfalso. rewrite forallb_app in H. apply andb_true_iff in H. destruct H as [_ H].
        cbn in H. apply andb_true_iff in H. destruct H as [H _].
        destruct it; cbn in Hb, H; try discriminate. rewrite Hb in H. discriminate.
      + destruct (IH _ _ H Hb) as [I1 I2]. split; [|exact I2]. cbn. rewrite Hx. exact I1.
  Qed.

  Lemma exec_task_law_l : forall fuel (s : bstmt A) e its r e',
    bexec A true fuel s e = (its, r, e') ->
    forall pre id k post, its = pre ++ IIterEnd id k :: post -> boundary k = true ->
      r = RYield true /\
      Forall (fun it => exists id' k', it = IIterEnd id' k' /\ boundary k' = false) post /\
      Forall (fun it => is_boundary A it = false) pre.
  Proof.
    intros fuel s e its r e' H pre id k post Hits Hk.
    destruct (proj1 (task_all fuel) _ _ _ _ _ H) as [G1 G2]. subst its.
    assert (Hb : is_boundary A (IIterEnd id k) = true) by exact Hk.
    destruct (susp_ok_split _ _ _ G1 Hb) as [S1 S2].
    split; [|split].
    - apply G2. rewrite has_boundary_app. cbn. rewrite Hk. apply orb_true_r.
    - apply Forall_forall. intros it Hin.
      rewrite forallb_forall in S2. specialize (S2 _ Hin).
      destruct it; cbn in S2; try discriminate. exists loop, k0. split; [reflexivity|].
      apply negb_true_iff in S2. exact S2.
    - apply Forall_forall. intros it Hin.
      destruct (is_boundary A it) eqn:E; [|reflexivity].
      unfold has_boundary in S1. assert (existsb (is_boundary A) pre = true).
      { apply existsb_exists. exists it. split; assumption. }
      congruence.
  Qed.
End TaskLaw.

(* ============================================================================================== *)
(* outside a task                                                                                  *)
Section MainLaw.
  Variable A : Type.
  Notation item := (item A).

  Definition M_exec (f : nat) := forall s e its r e',
    bexec A false f s e = (its, r, e') -> bg_ok A its = true.
  Definition M_for (f : nat) := forall id v n body owned e its r e',
    for_iter A false f id v n body owned e = (its, r, e') -> bg_ok A its = true.
  Definition M_while (f : nat) := forall id c body e its r e',
    while_iter A false f id c body e = (its, r, e') -> bg_ok A its = true.
  Definition M_block (f : nat) := forall id rest i e its r e',
    block_from A false f id rest i e = (its, r, e') -> bg_ok A its = true.
  Definition M_call (f : nat) := forall rest e its r e',
    call_from A false f rest e = (its, r, e') -> bg_ok A its = true.

  Lemma bg_iter_quiet : forall id its k,
    bg_ok A its = true -> boundary k = false -> bg_ok A (IIter id :: its ++ [IIterEnd id k]) = true.
  Proof.
    intros id its k H Hk. cbn. rewrite (bg_ok_app A _ _ H). cbn. rewrite Hk. reflexivity.
  Qed.

  Lemma bg_iter_boundary : forall id its k its2,
    bg_ok A its = true -> bg_ok A its2 = true ->
    bg_ok A (IIter id :: its ++ [IIterEnd id k; IBg] ++ its2) = true.
  Proof.
    intros id its k its2 H H2. cbn. rewrite (bg_ok_app A _ _ H). cbn.
    rewrite H2. destruct (boundary k); reflexivity.
  Qed.

  Lemma main_all : forall f, M_exec f /\ M_for f /\ M_while f /\ M_block f /\ M_call f.
  Proof.
    induction f as [|f (IHe & IHf & IHw & IHb & IHc)].
    - (split; [|split; [|split; [|split]]]); red; intros; cbn in *;
        match goal with H : (_, _, _) = (_, _, _) |- _ => inversion H; subst end; reflexivity.
    - (split; [|split; [|split; [|split]]]); red.
      + intros s e its r e' H. rewrite exec_S in H. destruct s;
          try (inversion H; subst; reflexivity).
        * destruct (eval c e).
          -- eapply IHe; eauto.
          -- destruct e0 as [s'|]; [eapply IHe; eauto|inversion H; subst; reflexivity].
        * eapply IHb; exact H.
        * destruct (alookup v (e_vars e)); eapply IHf; eauto.
        * eapply IHw; eauto.
        * destruct (call_from A false f body env0) as [[its0 r0] e0] eqn:Hcf.
          inversion H; subst. eapply IHc; eauto.
      + intros id v n body owned e its r e' H. rewrite for_iter_S in H; cbv beta iota zeta in H.
        destruct (var v e <? n); [|inversion H; subst; reflexivity].
        destruct (bexec A false f body e) as [[its0 r0] e1] eqn:Hb.
        pose proof (IHe _ _ _ _ _ Hb) as Hg.
        destruct r0 as [| | |fl| |]; try (inversion H; subst; apply bg_iter_quiet; [exact Hg|reflexivity]).
        * destruct (for_iter A false f id v n body owned _) as [[its2 r2] e3] eqn:Hr.
          inversion H; subst. apply bg_iter_boundary; [exact Hg|]. eapply IHf; eauto.
        * destruct (for_iter A false f id v n body owned _) as [[its2 r2] e3] eqn:Hr.
          inversion H; subst. apply bg_iter_boundary; [exact Hg|]. eapply IHf; eauto.
        * destruct fl; inversion H; subst; apply bg_iter_quiet; (exact Hg || reflexivity).
      + (* while_iter: the same case analysis as the for loop since fix a1ebdfd *)
        intros id c body e its r e' H. rewrite while_iter_S in H; cbv beta iota zeta in H.
        destruct (eval c e); [|inversion H; subst; reflexivity].
        destruct (bexec A false f body e) as [[its0 r0] e1] eqn:Hb.
        pose proof (IHe _ _ _ _ _ Hb) as Hg.
        destruct r0 as [| | |fl| |];
          try (inversion H; subst; apply bg_iter_quiet; [exact Hg|reflexivity]).
        * destruct (while_iter A false f id c body e1) as [[its2 r2] e2] eqn:Hr.
          inversion H; subst. apply bg_iter_boundary; [exact Hg|]. eapply IHw; eauto.
        * destruct (while_iter A false f id c body e1) as [[its2 r2] e2] eqn:Hr.
          inversion H; subst. apply bg_iter_boundary; [exact Hg|]. eapply IHw; eauto.
        * destruct fl; inversion H; subst; apply bg_iter_quiet; (exact Hg || reflexivity).
      + intros id rest i e its r e' H. rewrite block_from_S in H; cbv beta iota zeta in H.
        destruct rest as [|s rest']; [inversion H; subst; reflexivity|].
        destruct (bexec A false f s (set_rpos id i e)) as [[its0 r0] e1] eqn:Hs.
        pose proof (IHe _ _ _ _ _ Hs) as Hg.
        destruct r0 as [| | |fl| |]; try (inversion H; subst; exact Hg).
        destruct (block_from A false f id rest' (S i) (set_rpos id (S i) e1)) as [[its2 r2] e2] eqn:Hr.
        inversion H; subst. rewrite (bg_ok_app A _ _ Hg). eapply IHb; eauto.
      + intros rest e its r e' H. rewrite call_from_S in H; cbv beta iota zeta in H.
        destruct rest as [|s rest']; [inversion H; subst; reflexivity|].
        destruct (bexec A false f s e) as [[its0 r0] e1] eqn:Hs.
        pose proof (IHe _ _ _ _ _ Hs) as Hg.
        destruct r0 as [| | |fl| |]; try (inversion H; subst; exact Hg).
        destruct (call_from A false f rest' e1) as [[its2 r2] e2] eqn:Hr.
        inversion H; subst. rewrite (bg_ok_app A _ _ Hg). cbn. eapply IHc; eauto.
  Qed.

  Lemma bg_ok_split : forall pre it post,
    bg_ok A (pre ++ it :: post) = true -> is_boundary A it = true -> exists post', post = IBg :: post'.
  Proof.
    induction pre as [|x pre IH]; intros it post H Hb.
    - cbn in H. rewrite Hb in H. apply andb_true_iff in H. destruct H as [H _].
      destruct post as [|y post']; [discriminate|]. destruct y; try discriminate. eauto.
    - cbn in H. apply andb_true_iff in H. destruct H as [_ H]. eapply IH; eauto.
  Qed.

  Lemma exec_main_law_l : forall fuel (s : bstmt A) e its r e',
    bexec A false fuel s e = (its, r, e') ->
    forall pre id k post, its = pre ++ IIterEnd id k :: post -> boundary k = true ->
      exists post', post = IBg :: post'.
  Proof.
    intros fuel s e its r e' H pre id k post Hits Hk. subst its.
    eapply bg_ok_split; [eapply (proj1 (main_all fuel)); eauto|exact Hk].
  Qed.
End MainLaw.

(* ============================================================================================== *)
(* the while loop's continue path (the witness of the former _refuted theorems, finding
   C15-while-continue-no-suspension, repaired by a1ebdfd): one iteration per step in a task, a
   background cycle after every iteration in main                                                  *)
(*   q = 0; while (q < 2) { q = q + 1; println(7); continue; }                                      *)
Definition wc_witness : bstmt nat :=
  BWhile 1 (CLt 0 2) (BBlock 2 [BInc 0; BSimple 7; BContinue]).

Lemma while_continue_task_step :
  bexec nat true 20 wc_witness (set_var 0 0 env0) =
    ([IIter 1; ISimple 7; IIterEnd 1 IContinue], RYield true, set_var 0 1 (set_var 0 0 env0)).
Proof. vm_compute. reflexivity. Qed.

Lemma while_continue_main_step :
  fst (fst (bexec nat false 20 wc_witness (set_var 0 0 env0))) =
    [IIter 1; ISimple 7; IIterEnd 1 IContinue; IBg; IIter 1; ISimple 7; IIterEnd 1 IContinue; IBg].
Proof. vm_compute. reflexivity. Qed.
