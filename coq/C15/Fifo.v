(* C15 - the queue discipline: turns are served in exactly the order ids were pushed.
   Holds for every state (not only reachable ones), every program and every clock. *)
From Coq Require Import List ZArith Bool Arith Lia.
From Cb Require Import C15.Model C15.Invariants.
Import ListNotations.
Local Open Scope nat_scope.

(* ids that get a turn / ids appended to the queue, in trace order *)
Fixpoint turns (tr : list event) : list nat :=
  match tr with
  | [] => []
  | ETurn id _ :: r => id :: turns r
  | _ :: r => turns r
  end.

Fixpoint pushes (tr : list event) : list nat :=
  match tr with
  | [] => []
  | ESpawn id :: r => id :: pushes r
  | ERequeue id :: r => id :: pushes r
  | ESkip id :: r => id :: pushes r
  | _ :: r => pushes r
  end.

Lemma turns_app : forall a b, turns (a ++ b) = turns a ++ turns b.
Proof. induction a as [|[] a IH]; intros; simpl; rewrite ?IH; reflexivity. Qed.

Lemma pushes_app : forall a b, pushes (a ++ b) = pushes a ++ pushes b.
Proof. induction a as [|[] a IH]; intros; simpl; rewrite ?IH; reflexivity. Qed.

Definition quiet (evs : list event) : Prop := turns evs = [] /\ pushes evs = [].

Lemma quiet_app : forall a b, quiet a -> quiet b -> quiet (a ++ b).
Proof. intros a b [Ha1 Ha2] [Hb1 Hb2]. split; [rewrite turns_app, Ha1, Hb1|rewrite pushes_app, Ha2, Hb2]; reflexivity. Qed.

Lemma quiet_nil : quiet [].
Proof. split; reflexivity. Qed.

Section Fifo.
  Variables (L G C : Type).
  Variable len : C -> nat.
  Variable code : C -> nat -> L -> prog L G C.
  Variable clock : nat -> Z.
  Variable dflt : L.
  Variable main_code : C.

  Notation state := (state L G C).
  Notation step := (step L G C len code clock dflt main_code).
  Notation run := (run L G C len code clock dflt main_code).
  Notation begin_turn := (begin_turn L G C len code clock).
  Notation end_step := (end_step L G C len).
  Notation step_prog := (step_prog L G C len clock dflt).
  Notation Inv := (Inv L G C).
  Notation reachable := (reachable L G C len code clock dflt main_code).

  Ltac q := repeat split; simpl; rewrite ?turns_app, ?pushes_app; simpl; auto.

  Lemma pre_body_quiet : forall id t evs rd, quiet evs ->
    match pre_body L C len id t evs rd with
    | PreRet _ _ _ _ e _ => quiet e | PreGo _ _ _ _ e _ => quiet e end.
  Proof.
    intros id t evs rd H. unfold pre_body. simpl. destruct (t_code L C t); auto.
    destruct (t_idx L C t <? len c); auto. apply quiet_app; auto. q.
  Qed.

  Lemma pre_timeout_quiet : forall id t evs rd, quiet evs ->
    match pre_timeout L C len clock id t evs rd with
    | PreRet _ _ _ _ e _ => quiet e | PreGo _ _ _ _ e _ => quiet e end.
  Proof.
    intros id t evs rd H. unfold pre_timeout.
    destruct (t_has_to L C t && negb (t_done L C t)); [|apply pre_body_quiet; auto].
    destruct (t_to L C t <=? clock rd)%Z.
    - apply quiet_app; auto. q.
    - apply pre_body_quiet. apply quiet_app; auto. q.
  Qed.

  Lemma pre_sleep_quiet : forall id t evs rd, quiet evs ->
    match pre_sleep L C len clock id t evs rd with
    | PreRet _ _ _ _ e _ => quiet e | PreGo _ _ _ _ e _ => quiet e end.
  Proof.
    intros id t evs rd H. unfold pre_sleep.
    destruct (t_sleeping L C t); [|apply pre_timeout_quiet; auto].
    destruct (clock rd <? t_wake L C t)%Z.
    - apply quiet_app; auto. q.
    - destruct (t_code L C t).
      + apply pre_timeout_quiet. apply quiet_app; auto. q.
      + apply quiet_app; auto. q.
  Qed.

  Lemma prelude_quiet : forall ts id t rd,
    match prelude L C len clock ts id t rd with
    | PreRet _ _ _ _ e _ => quiet e | PreGo _ _ _ _ e _ => quiet e end.
  Proof.
    intros. unfold prelude. destruct (t_done L C t); [apply quiet_nil|].
    unfold pre_wait. destruct (t_wait L C t).
    - destruct (is_done L C n ts); [apply pre_sleep_quiet; q|q].
    - apply pre_sleep_quiet. apply quiet_nil.
  Qed.

  Lemma verdict_push : forall sc id, turns [verdict sc id] = [] /\ pushes [verdict sc id] = if sc then [id] else [].
  Proof. intros [] id; split; reflexivity. Qed.

  (* a turn: nothing is popped here (the caller popped the head), the id is pushed back iff the
     step ends at once with should_continue *)
  Lemma begin_turn_fifo : forall s id qq rest s' evs,
    begin_turn s id qq rest = (s', evs) ->
    turns evs = [] /\ queue _ _ _ s' = qq ++ pushes evs.
  Proof.
    intros s id qq rest s' evs H. unfold begin_turn in H.
    destruct (lookup L C id (tasks _ _ _ s)) as [t|].
    - pose proof (prelude_quiet (tasks _ _ _ s) id t (reads _ _ _ s)) as Hq.
      destruct (prelude L C len clock (tasks _ _ _ s) id t (reads _ _ _ s)) as [sc t' ev rd|c t' ev rd];
        inversion H; subst; clear H; destruct Hq as [Ht Hp]; simpl.
      + rewrite turns_app, pushes_app, Ht, Hp. destruct (verdict_push sc id) as [-> ->].
        unfold requeue. destruct sc; simpl; rewrite ?app_nil_r; auto.
      + rewrite Ht, Hp, app_nil_r. auto.
    - inversion H; subst. simpl. rewrite app_nil_r. auto.
  Qed.

  Lemma end_stmt_quiet : forall id o l t t' sc evs,
    end_stmt L C len id o l t = (t', sc, evs) -> quiet evs.
  Proof.
    intros id o l t t' sc evs H. unfold end_stmt in H. destruct o.
    - destruct (t_code L C t); [destruct (S (t_idx L C t) <? len c)|]; inversion H; apply quiet_nil.
    - inversion H. q.
    - inversion H. q.
  Qed.

  Lemma end_step_fifo : forall s id o l rest s' evs,
    end_step s id o l rest = (s', evs) ->
    turns evs = [] /\ queue _ _ _ s' = queue _ _ _ s ++ pushes evs.
  Proof.
    intros s id o l rest s' evs H. unfold end_step in H.
    destruct (lookup L C id (tasks _ _ _ s)) as [t|].
    - destruct (end_stmt L C len id o l t) as [[t' sc] ev] eqn:Ee. inversion H; subst; clear H.
      destruct (end_stmt_quiet _ _ _ _ _ _ _ Ee) as [Ht Hp]. simpl.
      rewrite turns_app, pushes_app, Ht, Hp. destruct (verdict_push sc id) as [-> ->].
      unfold requeue. destruct sc; simpl; rewrite ?app_nil_r; auto.
    - inversion H; subst. simpl. rewrite app_nil_r. auto.
  Qed.

  Lemma step_prog_fifo : forall s p rest s' evs,
    step_prog s p rest = (s', evs) ->
    turns evs = [] /\ queue _ _ _ s' = queue _ _ _ s ++ pushes evs.
  Proof.
    intros s p rest s' evs H. destruct p; simpl in H;
      try (inversion H; subst; simpl; rewrite ?app_nil_r; auto; fail).
    - destruct rest as [|[] rest']; try (inversion H; subst; simpl; rewrite ?app_nil_r; auto; fail).
      + eapply end_step_fifo; eauto.
      + destruct o; inversion H; subst; simpl; rewrite ?app_nil_r; auto.
    - destruct (k (glob _ _ _ s)) as [g' p']. inversion H; subst; simpl; rewrite ?app_nil_r; auto.
  Qed.

  (* ONE STEP: ids leave the queue at the front (exactly those that get a turn, in order) and enter
     it at the back (exactly the pushes, in order) *)
  Theorem step_fifo : forall s s' evs, step s = (s', evs) ->
    exists qr, queue _ _ _ s = turns evs ++ qr /\ queue _ _ _ s' = qr ++ pushes evs.
  Proof.
    intros s s' evs H. unfold step in H.
    assert (Hsame : forall k, (with_kont L G C s k, @nil event) = (s', evs) ->
                    exists qr, queue _ _ _ s = turns evs ++ qr /\ queue _ _ _ s' = qr ++ pushes evs).
    { intros k Hk. inversion Hk; subst. exists (queue _ _ _ s). simpl. rewrite app_nil_r. auto. }
    destruct (kont _ _ _ s) as [|f rest].
    - inversion H; subst. exists (queue _ _ _ s'). simpl. rewrite app_nil_r. auto.
    - destruct f.
      + destruct (step_prog_fifo _ _ _ _ _ H) as [Ht Hq]. exists (queue _ _ _ s). rewrite Ht. auto.
      + eapply Hsame; eauto.
      + destruct (lookup L C w (tasks _ _ _ s)); [destruct (t_done L C t); [|destruct (queue _ _ _ s) eqn:E]|];
          eapply Hsame; eauto.
      + destruct (queue _ _ _ s) as [|id qq] eqn:E.
        * inversion H; subst. exists []. simpl. auto.
        * destruct (cur_is L G C s id).
          -- inversion H; subst. exists qq. simpl. auto.
          -- destruct (begin_turn s id qq rest) as [s1 e1] eqn:Eb. inversion H; subst.
             destruct (begin_turn_fifo _ _ _ _ _ _ Eb) as [Ht Hq]. exists qq. simpl. rewrite Ht. auto.
      + destruct n; [eapply Hsame; eauto|]. destruct (queue _ _ _ s) eqn:E; eapply Hsame; eauto.
      + destruct (queue _ _ _ s) as [|id qq] eqn:E.
        * inversion H; subst. exists []. simpl. auto.
        * destruct (begin_turn s id qq (FRunAll _ _ _ :: rest)) as [s1 e1] eqn:Eb. inversion H; subst.
          destruct (begin_turn_fifo _ _ _ _ _ _ Eb) as [Ht Hq]. exists qq. simpl. rewrite Ht. auto.
      + destruct (i <? len main_code); eapply Hsame; eauto.
      + eapply Hsame; eauto.
  Qed.

  (* ANY NUMBER OF STEPS: the FIFO law *)
  Theorem fifo_law_l : forall n s s' tr, run n s = (s', tr) ->
    turns tr ++ queue _ _ _ s' = queue _ _ _ s ++ pushes tr.
  Proof.
    induction n; intros s s' tr H; simpl in H.
    - inversion H; subst. simpl. rewrite app_nil_r. reflexivity.
    - destruct (step s) as [s1 e1] eqn:E1. destruct (run n s1) as [s2 e2] eqn:E2. inversion H; subst.
      destruct (step_fifo _ _ _ E1) as (qr & Hq & Hq1). specialize (IHn _ _ _ E2).
      rewrite turns_app, pushes_app, Hq, <- !app_assoc. f_equal.
      rewrite IHn, Hq1, <- app_assoc. reflexivity.
  Qed.

  (* list fact: the first occurrence of x splits a list uniquely *)
  Lemma split_first : forall (x : nat) a b c d,
    a ++ x :: b = c ++ x :: d -> ~ In x a -> ~ In x c -> a = c.
  Proof.
    induction a as [|y a IH]; intros b c d H Ha Hc; destruct c as [|z c]; simpl in *; auto.
    - inversion H; subst. exfalso. apply Hc. auto.
    - inversion H; subst. exfalso. apply Ha. auto.
    - inversion H; subst. f_equal. eapply IH; eauto.
  Qed.

  (* ROUND ROBIN: from any state in which x waits behind [pre], up to x's next turn exactly the tasks
     of [pre] get a turn, each once, in queue order; nobody else does, nobody twice *)
  Theorem round_robin_l : forall n s s' pre x post tr1 b tr2,
    queue _ _ _ s = pre ++ x :: post -> ~ In x pre ->
    run n s = (s', tr1 ++ ETurn x b :: tr2) -> ~ In x (turns tr1) ->
    turns tr1 = pre.
  Proof.
    intros n s s' pre x post tr1 b tr2 Hq Hpre Hrun Hfirst.
    pose proof (fifo_law_l _ _ _ _ Hrun) as Hlaw.
    rewrite turns_app in Hlaw. simpl in Hlaw. rewrite Hq, <- !app_assoc in Hlaw. simpl in Hlaw.
    eapply split_first; eauto.
  Qed.

  Theorem round_robin_reachable_l : forall n s s' pre x post tr1 b tr2,
    reachable s -> queue _ _ _ s = pre ++ x :: post ->
    run n s = (s', tr1 ++ ETurn x b :: tr2) -> ~ In x (turns tr1) ->
    turns tr1 = pre /\ NoDup (turns tr1) /\ ~ In x (turns tr1 ++ post).
  Proof.
    intros n s s' pre x post tr1 b tr2 Hr Hq Hrun Hfirst.
    pose proof (queue_nodup_l L G C len code clock dflt main_code s Hr) as Hnd. rewrite Hq in Hnd.
    assert (Hx : ~ In x (pre ++ post)) by (apply NoDup_remove_2 in Hnd; assumption).
    assert (Hpre : ~ In x pre) by (intro; apply Hx; apply in_app_iff; auto).
    assert (E : turns tr1 = pre) by (eapply round_robin_l; eauto).
    rewrite E. repeat split; auto. eapply nodup_app_l; eauto.
  Qed.

  (* ---------------------------------------------------------------- spawn order *)
  (* what one step pushes: nothing, a registered id, or the id of the task it registers *)
  Lemma begin_turn_tasks_len : forall s id qq rest s' evs,
    begin_turn s id qq rest = (s', evs) -> length (tasks _ _ _ s') = length (tasks _ _ _ s).
  Proof.
    intros s id qq rest s' evs H. unfold begin_turn in H.
    destruct (lookup L C id (tasks _ _ _ s)) as [t|]; [|inversion H; reflexivity].
    destruct (prelude L C len clock (tasks _ _ _ s) id t (reads _ _ _ s)); inversion H; simpl; apply update_length.
  Qed.

  Definition push_shape (n n' : nat) (ps : list nat) : Prop :=
    (ps = [] /\ n' = n) \/ (exists x, ps = [x] /\ 1 <= x <= n /\ n' = n) \/ (ps = [S n] /\ n' = S n).

  Lemma begin_turn_shape : forall s id qq rest s' evs,
    1 <= id <= length (tasks _ _ _ s) ->
    begin_turn s id qq rest = (s', evs) ->
    push_shape (length (tasks _ _ _ s)) (length (tasks _ _ _ s')) (pushes evs).
  Proof.
    intros s id qq rest s' evs Hid H. pose proof (begin_turn_tasks_len _ _ _ _ _ _ H) as Hl.
    unfold begin_turn in H. destruct (lookup L C id (tasks _ _ _ s)) as [t|].
    - pose proof (prelude_quiet (tasks _ _ _ s) id t (reads _ _ _ s)) as Hq.
      destruct (prelude L C len clock (tasks _ _ _ s) id t (reads _ _ _ s)) as [sc t' ev rd|c t' ev rd];
        inversion H; subst; clear H; destruct Hq as [Ht Hp].
      + rewrite pushes_app, Hp. destruct (verdict_push sc id) as [_ ->]. destruct sc; simpl.
        * right. left. exists id. auto.
        * left. auto.
      + rewrite Hp. left. auto.
    - inversion H; subst. left. auto.
  Qed.

  Lemma step_push_shape : forall s s' evs, Inv s -> step s = (s', evs) ->
    push_shape (length (tasks _ _ _ s)) (length (tasks _ _ _ s')) (pushes evs).
  Proof.
    intros s s' evs HI H. pose proof HI as (Hwf & Hex & Hnd & Hlive). unfold step in H.
    assert (Hsame : forall k, (with_kont L G C s k, @nil event) = (s', evs) ->
                    push_shape (length (tasks _ _ _ s)) (length (tasks _ _ _ s')) (pushes evs)).
    { intros k Hk. inversion Hk; subst. left. auto. }
    assert (Hrange : forall id, In id (queue _ _ _ s ++ exec _ _ _ s) -> 1 <= id <= length (tasks _ _ _ s)).
    { intros id Hin. apply Hlive in Hin. eapply live_range; eauto. }
    destruct (kont _ _ _ s) as [|f rest] eqn:Hk.
    - inversion H; subst. left. auto.
    - destruct f; try (eapply Hsame; eauto; fail).
      + (* a statement *)
        destruct p; simpl in H; try (inversion H; subst; simpl; left; auto; fail).
        * destruct rest as [|[] rest']; try (inversion H; subst; simpl; left; auto; fail).
          -- unfold end_step in H. destruct (lookup L C id (tasks _ _ _ s)) as [t|] eqn:Elk.
             ++ destruct (end_stmt L C len id o l t) as [[t' sc] ev] eqn:Ee. inversion H; subst; clear H.
                destruct (end_stmt_quiet _ _ _ _ _ _ _ Ee) as [_ Hp]. simpl.
                rewrite pushes_app, Hp, update_length. destruct (verdict_push sc id) as [_ ->]. destruct sc; simpl.
                ** right. left. exists id. split; auto. split; auto.
                   eapply lookup_some_range; eauto.
                ** left. auto.
             ++ inversion H; subst. left. auto.
          -- destruct o; inversion H; subst; left; auto.
        * inversion H; subst; simpl. right. right. rewrite app_length. simpl. split; auto. lia.
        * inversion H; subst; simpl. right. right. rewrite app_length. simpl. split; auto. lia.
        * inversion H; subst; simpl. left. split; auto. destruct (exec _ _ _ s); auto. apply update_length.
        * inversion H; subst; simpl. left. split; auto. apply update_length.
        * destruct (k (glob _ _ _ s)) as [g' p']. inversion H; subst; simpl. left. auto.
      + destruct (lookup L C w (tasks _ _ _ s)); [destruct (t_done L C t); [|destruct (queue _ _ _ s)]|];
          eapply Hsame; eauto.
      + destruct (queue _ _ _ s) as [|id qq] eqn:E; [eapply Hsame; eauto|].
        assert (Hid : 1 <= id <= length (tasks _ _ _ s)) by (apply Hrange; left; reflexivity).
        destruct (cur_is L G C s id).
        * inversion H; subst; simpl. right. left. exists id. auto.
        * destruct (begin_turn s id qq rest) as [s1 e1] eqn:Eb. inversion H; subst. simpl.
          eapply begin_turn_shape; eauto.
      + destruct n; [eapply Hsame; eauto|]. destruct (queue _ _ _ s); eapply Hsame; eauto.
      + destruct (queue _ _ _ s) as [|id qq] eqn:E; [eapply Hsame; eauto|].
        assert (Hid : 1 <= id <= length (tasks _ _ _ s)) by (apply Hrange; left; reflexivity).
        destruct (begin_turn s id qq (FRunAll _ _ _ :: rest)) as [s1 e1] eqn:Eb. inversion H; subst. simpl.
        eapply begin_turn_shape; eauto.
      + destruct (i <? len main_code); eapply Hsame; eauto.
  Qed.

  (* the push sequence of a run from the start: only registered ids, every registered id, and no id
     before all smaller ones *)
  Definition ordered (l : list nat) (n : nat) : Prop :=
    (forall x, In x l -> 1 <= x <= n) /\ (forall x, 1 <= x <= n -> In x l) /\
    (forall l1 b l2, l = l1 ++ b :: l2 -> forall a, 1 <= a < b -> In a l1).

  Lemma snoc_split : forall (l : list nat) x l1 b l2, l ++ [x] = l1 ++ b :: l2 ->
    (l2 = [] /\ l = l1 /\ x = b) \/ (exists l2', l2 = l2' ++ [x] /\ l = l1 ++ b :: l2').
  Proof.
    intros l x l1 b l2 E. destruct l2 as [|z l2].
    - left. apply app_inj_tail in E. tauto.
    - right. destruct (@exists_last _ (z :: l2)) as (l' & a & El); [discriminate|].
      rewrite El in E. change (l1 ++ b :: l' ++ [a]) with (l1 ++ (b :: l') ++ [a]) in E.
      rewrite app_assoc in E. apply app_inj_tail in E. destruct E as [-> ->].
      exists l'. rewrite El. auto.
  Qed.

  Lemma ordered_snoc : forall l n x, ordered l n -> 1 <= x <= n -> ordered (l ++ [x]) n.
  Proof.
    intros l n x (H1 & H2 & H3) Hx. split; [|split].
    - intros y Hy. apply in_app_iff in Hy. destruct Hy as [Hy|[<-|[]]]; auto.
    - intros y Hy. apply in_app_iff. auto.
    - intros l1 b l2 E a Ha. apply snoc_split in E. destruct E as [(-> & -> & ->)|(l2' & -> & ->)].
      + apply H2. lia.
      + eapply H3; eauto.
  Qed.

  Lemma ordered_new : forall l n, ordered l n -> ordered (l ++ [S n]) (S n).
  Proof.
    intros l n (H1 & H2 & H3). split; [|split].
    - intros y Hy. apply in_app_iff in Hy. destruct Hy as [Hy|[<-|[]]]; [apply H1 in Hy|]; lia.
    - intros y Hy. apply in_app_iff. destruct (Nat.eq_dec y (S n)); [subst; right; left; reflexivity|].
      left. apply H2. lia.
    - intros l1 b l2 E a Ha. apply snoc_split in E. destruct E as [(-> & -> & <-)|(l2' & -> & ->)].
      + apply H2. lia.
      + eapply H3; eauto.
  Qed.

  Lemma run_ordered : forall n s s' tr acc,
    Inv s -> ordered acc (length (tasks _ _ _ s)) -> run n s = (s', tr) ->
    ordered (acc ++ pushes tr) (length (tasks _ _ _ s')).
  Proof.
    induction n; intros s s' tr acc HI Ho H; simpl in H.
    - inversion H; subst. simpl. rewrite app_nil_r. assumption.
    - destruct (step s) as [s1 e1] eqn:E1. destruct (run n s1) as [s2 e2] eqn:E2. inversion H; subst.
      rewrite pushes_app, app_assoc.
      pose proof (step_inv L G C len code clock dflt main_code s HI) as HI1. rewrite E1 in HI1. simpl in HI1.
      eapply IHn; eauto.
      destruct (step_push_shape _ _ _ HI E1) as [[-> ->]|[(x & -> & Hx & ->)|[-> ->]]].
      + rewrite app_nil_r. assumption.
      + apply ordered_snoc; assumption.
      + apply ordered_new; assumption.
  Qed.

  (* FIRST RUNS IN SPAWN ORDER: in a run from the start of any program, when task b gets a turn every
     task registered before it (smaller id; ids are handed out in spawn order) already had one *)
  Theorem first_runs_in_spawn_order_l : forall n g0 l0 s tr l1 b l2,
    run n (init L G C g0 l0) = (s, tr) -> turns tr = l1 ++ b :: l2 ->
    forall a, 1 <= a < b -> In a l1.
  Proof.
    intros n g0 l0 s tr l1 b l2 Hrun Ht a Ha.
    pose proof (fifo_law_l _ _ _ _ Hrun) as Hlaw. simpl in Hlaw.
    assert (Ho : ordered ([] ++ pushes tr) (length (tasks _ _ _ s))).
    { eapply run_ordered; eauto; [apply Inv_init|]. simpl. repeat split; intros; try lia; try contradiction.
      destruct l3; discriminate. }
    simpl in Ho. destruct Ho as (_ & _ & H3).
    rewrite Ht, <- app_assoc in Hlaw. simpl in Hlaw. eapply H3; eauto.
  Qed.

  (* spawn ids are 1, 2, 3, ... in trace order *)
  Fixpoint spawns (tr : list event) : list nat :=
    match tr with [] => [] | ESpawn id :: r => id :: spawns r | _ :: r => spawns r end.
End Fifo.
