(* C03 - property theorems only (proofs in C03/RefOrder.v, C03/Traced.v, C03/MechLemmas.v,
   C03/Witness.v).
   Ref  = the shared fuelled reference interpreter [Lang.Sem.eval/exec], [Lang.Print.run].
   Mech = [C03.EvalOrder.ieval/iexec/irun]: Ref with five deviations behind switches; [dev_pinned] = today's
   implementation (two left on: typed re-evaluation of subscript lists, println retry; three repaired).
   Every statement about Ref is for every function table, fuel, operand expression and state. *)
From Coq Require Import List ZArith Bool Arith.
From Cb Require Import Lang.Syntax Lang.Sem Lang.Respect Lang.Theorems Lang.Print.
From Cb Require Import C03.Model C03.EvalOrder C03.RefOrder C03.Traced C03.MechLemmas C03.Witness.
Import ListNotations.
Local Open Scope Z_scope.

(* ---------------------------------------------------------------- short-circuit *)
(* a && b with a false: the result is 0 and the final state is EXACTLY the state after a - b (printing,
   failing, ill-formed, anything) contributes no output and cannot fail the evaluation *)
Theorem and_skips_rhs : forall funcs k a b s s1,
  eval funcs k a s = (Val 0, s1) -> eval funcs (S k) (EAnd a b) s = (Val 0, s1).
Proof. exact and_skips_rhs_l. Qed.
Print Assumptions and_skips_rhs.

(* a true: b is evaluated next, from the state a left, and its truth value is the result *)
Theorem and_runs_rhs : forall funcs k a b s x s1,
  eval funcs k a s = (Val x, s1) -> x <> 0 ->
  eval funcs (S k) (EAnd a b) s = (y <- eval funcs k b ;; ret (truth y)) s1.
Proof. exact and_runs_rhs_l. Qed.
Print Assumptions and_runs_rhs.

Theorem or_skips_rhs : forall funcs k a b s x s1,
  eval funcs k a s = (Val x, s1) -> x <> 0 -> eval funcs (S k) (EOr a b) s = (Val 1, s1).
Proof. exact or_skips_rhs_l. Qed.
Print Assumptions or_skips_rhs.

Theorem or_runs_rhs : forall funcs k a b s s1,
  eval funcs k a s = (Val 0, s1) ->
  eval funcs (S k) (EOr a b) s = (y <- eval funcs k b ;; ret (truth y)) s1.
Proof. exact or_runs_rhs_l. Qed.
Print Assumptions or_runs_rhs.

(* c ? a : b is the evaluation of c followed by the evaluation of the selected branch alone *)
Theorem cond_evaluates_one_branch : forall funcs k c a b s x s1,
  eval funcs k c s = (Val x, s1) ->
  eval funcs (S k) (ECond c a b) s = if x =? 0 then eval funcs k b s1 else eval funcs k a s1.
Proof. exact cond_one_branch_l. Qed.
Print Assumptions cond_evaluates_one_branch.

(* ---------------------------------------------------------------- left to right, once *)
(* binary operators: the left operand, then the right operand from the state the left one produced,
   then the operator; a failing operand ends the evaluation where it failed *)
Theorem binop_left_then_right : forall funcs k o a b s,
  eval funcs (S k) (EBin o a b) = (x <- eval funcs k a ;; y <- eval funcs k b ;; lift (arith o x y)) /\
  (forall x s1 y s2, eval funcs k a s = (Val x, s1) -> eval funcs k b s1 = (Val y, s2) ->
                     eval funcs (S k) (EBin o a b) s = (arith o x y, s2)) /\
  (forall x s1 e s2, eval funcs k a s = (Val x, s1) -> eval funcs k b s1 = (Fail e, s2) ->
                     eval funcs (S k) (EBin o a b) s = (Fail e, s2)).
Proof.
  intros. split; [apply eval_bin_eq|]. split; intros; [eapply binop_both_l|eapply binop_right_fails_l]; eassumption.
Qed.
Print Assumptions binop_left_then_right.

(* the first operand of any operator fails: that is the outcome, in the state where it failed *)
Theorem first_operand_failure_stops : forall funcs k a s e s1, eval funcs k a s = (Fail e, s1) ->
  (forall o b, eval funcs (S k) (EBin o a b) s = (Fail e, s1)) /\
  (forall b, eval funcs (S k) (EAnd a b) s = (Fail e, s1)) /\
  (forall b, eval funcs (S k) (EOr a b) s = (Fail e, s1)) /\
  (forall x y, eval funcs (S k) (ECond a x y) s = (Fail e, s1)) /\
  (forall o, eval funcs (S k) (EUn o a) s = (Fail e, s1)).
Proof. exact first_operand_fails_l. Qed.
Print Assumptions first_operand_failure_stops.

(* the transcript of a binary operation is the transcript of its left operand followed by the
   transcript of its right operand (output lists are newest-first); uses output_monotone *)
Theorem binop_transcript_concat : forall funcs k o a b s x s1 y s2,
  eval funcs k a s = (Val x, s1) -> eval funcs k b s1 = (Val y, s2) ->
  exists la lb, sout s1 = la ++ sout s /\ sout s2 = lb ++ la ++ sout s /\
                sout (snd (eval funcs (S k) (EBin o a b) s)) = lb ++ la ++ sout s.
Proof. exact binop_transcript_l. Qed.
Print Assumptions binop_transcript_concat.

(* operand lists (index lists, initialiser lists): a concatenation is evaluated as its first part and
   then its second part from the state the first part produced; a failing element hides all later ones *)
Theorem operand_list_in_order : forall (ev : expr -> M Z) es1 es2 s,
  eval_list ev (es1 ++ es2) s = (vs1 <- eval_list ev es1 ;; vs2 <- eval_list ev es2 ;; ret (vs1 ++ vs2)) s.
Proof. exact eval_list_app. Qed.
Print Assumptions operand_list_in_order.

Theorem operand_list_stops_at_failure : forall (ev : expr -> M Z) es1 e es2 s vs s1 er s2,
  eval_list ev es1 s = (Val vs, s1) -> ev e s1 = (Fail er, s2) ->
  eval_list ev (es1 ++ e :: es2) s = (Fail er, s2).
Proof. exact eval_list_stops. Qed.
Print Assumptions operand_list_stops_at_failure.

(* call arguments: any number of traced arguments t(k_i, v_i) passed to long parameters are each
   evaluated exactly once, left to right - the values arrive in order and the output is extended by
   exactly k_1 .. k_n in that order; an argument that fails hides all later ones *)
Theorem args_left_to_right_once : forall funcs, has_operand_funcs funcs -> forall n kvs ps s,
  ok_kvs kvs -> Forall (fun p => pty p = tlong) ps ->
  eval_args (eval funcs (S (S (S n)))) ps (tcalls kvs) s =
  (Val (map snd kvs), with_out s (traced (map fst kvs) (sout s))).
Proof. exact traced_args. Qed.
Print Assumptions args_left_to_right_once.

Theorem args_stop_at_failure : forall (ev : expr -> M Z) ps es1 e es2 s vs s1 er s2,
  eval_args ev ps es1 s = (Val vs, s1) -> ev e s1 = (Fail er, s2) ->
  eval_args ev ps (es1 ++ e :: es2) s = (Fail er, s2).
Proof. exact eval_args_stops. Qed.
Print Assumptions args_stop_at_failure.

(* a call evaluates all its arguments (as above) and only then enters the callee *)
Theorem call_evaluates_args_then_body : forall funcs, has_operand_funcs funcs -> forall n f fd kvs s,
  find_func f funcs = Some fd ->
  (Nat.ltb (List.length (tcalls kvs)) (required (fparams fd))) || (Nat.ltb (List.length (fparams fd)) (List.length (tcalls kvs))) = false ->
  ok_kvs kvs -> Forall (fun p => pty p = tlong) (fparams fd) ->
  eval funcs (S (S (S (S n)))) (ECall f (tcalls kvs)) s =
  (m_push_frame f ;;;
   finally (map_ctl (call_result (fret fd))
              (bind_params (eval funcs (S (S (S n)))) (fparams fd) (map snd kvs) ;;;
               exec_list (exec funcs (S (S (S n)))) (fbody fd))) pop_frame_st)
  (with_out s (traced (map fst kvs) (sout s))).
Proof. exact traced_call. Qed.
Print Assumptions call_evaluates_args_then_body.

(* index expressions, any number of dimensions: each once, left to right, then the element is read *)
Theorem indices_left_to_right_once : forall funcs, has_operand_funcs funcs -> forall n a kvs s, ok_kvs kvs ->
  eval funcs (S (S (S (S n)))) (EIdx a (tcalls kvs)) s =
  m_read a (map snd kvs) (with_out s (traced (map fst kvs) (sout s))).
Proof. exact traced_indices. Qed.
Print Assumptions indices_left_to_right_once.

(* traced operands of the operators: the transcript is the event order *)
Theorem traced_binop_order : forall funcs, has_operand_funcs funcs -> forall n o k1 v1 k2 v2 s,
  in64 k1 = true -> in64 v1 = true -> in64 k2 = true -> in64 v2 = true ->
  eval funcs (S (S (S (S n)))) (EBin o (tcall k1 v1) (tcall k2 v2)) s =
  (arith o v1 v2, with_out s (trace1 k2 (trace1 k1 (sout s)))).
Proof. exact traced_binop. Qed.
Print Assumptions traced_binop_order.

Theorem traced_and_or_order : forall funcs, has_operand_funcs funcs -> forall n k1 v1 k2 v2 s,
  in64 k1 = true -> in64 v1 = true -> in64 k2 = true -> in64 v2 = true ->
  (forall b, eval funcs (S (S (S (S n)))) (EAnd (tcall k1 0) b) s = (Val 0, with_out s (trace1 k1 (sout s)))) /\
  (v1 <> 0 -> eval funcs (S (S (S (S n)))) (EAnd (tcall k1 v1) (tcall k2 v2)) s =
              (Val (truth v2), with_out s (trace1 k2 (trace1 k1 (sout s))))) /\
  (v1 <> 0 -> forall b, eval funcs (S (S (S (S n)))) (EOr (tcall k1 v1) b) s = (Val 1, with_out s (trace1 k1 (sout s)))) /\
  eval funcs (S (S (S (S n)))) (EOr (tcall k1 0) (tcall k2 v2)) s =
  (Val (truth v2), with_out s (trace1 k2 (trace1 k1 (sout s)))).
Proof.
  intros funcs Hf n k1 v1 k2 v2 s H1 H2 H3 H4. repeat split; intros.
  - apply traced_and_false; assumption.
  - apply traced_and_true; assumption.
  - apply traced_or_true; assumption.
  - apply traced_or_false; assumption.
Qed.
Print Assumptions traced_and_or_order.

Theorem traced_cond_order : forall funcs, has_operand_funcs funcs -> forall n k c a b s,
  in64 k = true -> in64 c = true ->
  eval funcs (S (S (S (S n)))) (ECond (tcall k c) a b) s =
  if c =? 0 then eval funcs (S (S (S n))) b (with_out s (trace1 k (sout s)))
  else eval funcs (S (S (S n))) a (with_out s (trace1 k (sout s))).
Proof. exact traced_cond. Qed.
Print Assumptions traced_cond_order.

(* a failing left operand prints its label, fails, and nothing of the other operands happens *)
Theorem failing_left_operand_stops : forall funcs, has_operand_funcs funcs -> forall n k s, in64 k = true ->
  (forall o b, eval funcs (S (S (S (S (S n))))) (EBin o (bcall k) b) s = (Fail EDiv0, with_out s (trace1 k (sout s)))) /\
  (forall b, eval funcs (S (S (S (S (S n))))) (EAnd (bcall k) b) s = (Fail EDiv0, with_out s (trace1 k (sout s)))) /\
  (forall b, eval funcs (S (S (S (S (S n))))) (EOr (bcall k) b) s = (Fail EDiv0, with_out s (trace1 k (sout s)))) /\
  (forall x y, eval funcs (S (S (S (S (S n))))) (ECond (bcall k) x y) s = (Fail EDiv0, with_out s (trace1 k (sout s)))).
Proof. exact failing_left_stops. Qed.
Print Assumptions failing_left_operand_stops.

(* ---------------------------------------------------------------- the guards of the property text *)
(* d = 0 -> `d != 0 && n / d > 1` is 0, nothing printed, nothing changed; in fact for any guarded operand *)
Theorem guard_protects : forall funcs k d n s,
  m_read d [] s = (Val 0, s) -> eval funcs (S (S (S k))) (guard_div d n) s = (Val 0, s).
Proof. exact guard_div_protects. Qed.
Print Assumptions guard_protects.

Theorem guard_protects_any_operand : forall funcs k d x s,
  m_read d [] s = (Val 0, s) -> eval funcs (S (S (S k))) (EAnd (EBin Ne (EVar d) (ENum 0)) x) s = (Val 0, s).
Proof. exact guard_zero_any. Qed.
Print Assumptions guard_protects_any_operand.

(* the guard is not vacuous: without it the same operand fails, and with d <> 0 it computes the quotient test *)
Theorem guarded_operand_alone_fails : forall funcs k d n nv s,
  m_read d [] s = (Val 0, s) -> m_read n [] s = (Val nv, s) ->
  eval funcs (S (S (S k))) (EBin Gt (EBin Div (EVar n) (EVar d)) (ENum 1)) s = (Fail EDiv0, s).
Proof. exact unguarded_div_fails. Qed.
Print Assumptions guarded_operand_alone_fails.

Theorem guard_open_computes : forall funcs k d n dv nv s,
  m_read d [] s = (Val dv, s) -> m_read n [] s = (Val nv, s) -> dv <> 0 -> in64 (Z.quot nv dv) = true ->
  eval funcs (S (S (S (S k)))) (guard_div d n) s = (Val (b2z (1 <? Z.quot nv dv)), s).
Proof. exact guard_div_open. Qed.
Print Assumptions guard_open_computes.

(* i >= n -> `i < n && a[i] > 0` is 0 and a is not touched (it need not even exist) *)
Theorem guard_protects_index : forall funcs k i n a iv nv s,
  m_read i [] s = (Val iv, s) -> m_read n [] s = (Val nv, s) -> nv <= iv ->
  eval funcs (S (S (S k))) (guard_idx i n a) s = (Val 0, s).
Proof. exact guard_idx_protects. Qed.
Print Assumptions guard_protects_index.

(* ---------------------------------------------------------------- Mech *)
(* Mech with every deviation switched off IS Ref, for every program, flag, fuel and state: the five
   switches are the only differences between the model of the implementation and the reference *)
Theorem mech_no_deviation_is_ref : forall funcs n,
  (forall ty e s, ieval dev_none funcs n ty e s = eval funcs n e s) /\
  (forall st s, iexec dev_none funcs n st s = exec funcs n st s).
Proof. exact mech_no_deviation_is_ref_l. Qed.
Print Assumptions mech_no_deviation_is_ref.

Theorem mech_no_deviation_runs_as_ref : forall fuel p, irun dev_none fuel p = run fuel p.
Proof. exact irun_none_is_run. Qed.
Print Assumptions mech_no_deviation_runs_as_ref.

(* evaluating both operands of && / || (the implementation) equals short-circuit evaluation exactly
   when, in the state where the left operand has decided, the right operand yields a value and leaves
   the state alone: the avoidance predicate of the main input stream *)
Theorem both_operands_invisible_when_rhs_quiet : forall ea eb s,
  ((forall s1, ea s = (Val 0, s1) -> exists v, eb s1 = (Val v, s1)) -> ns_and ea eb s = sc_and ea eb s) /\
  ((forall x s1, ea s = (Val x, s1) -> x <> 0 -> exists v, eb s1 = (Val v, s1)) -> ns_or ea eb s = sc_or ea eb s).
Proof. intros. split; [apply ns_and_invisible|apply ns_or_invisible]. Qed.
Print Assumptions both_operands_invisible_when_rhs_quiet.

(* ---------------------------------------------------------------- Mech after the repairs a51b767, 2967bbb, df79998 *)
(* formerly mech_short_circuit_refuted / mech_and_skips_rhs_refuted: with d_noshort off, && and || of
   Mech are Ref's short-circuit combinators over Mech's operand evaluation, so the skipping laws hold of
   Mech for every operand, typed flag, fuel and state *)
Theorem mech_short_circuit : forall D funcs k ty a b, d_noshort D = false ->
  ieval D funcs (S k) ty (EAnd a b) = sc_and (ieval D funcs k ty a) (ieval D funcs k ty b) /\
  ieval D funcs (S k) ty (EOr a b) = sc_or (ieval D funcs k ty a) (ieval D funcs k ty b).
Proof. intros. split; [apply mech_and_eq|apply mech_or_eq]; assumption. Qed.
Print Assumptions mech_short_circuit.

Theorem mech_and_skips_rhs : forall D funcs k ty a b s s1, d_noshort D = false ->
  ieval D funcs k ty a s = (Val 0, s1) -> ieval D funcs (S k) ty (EAnd a b) s = (Val 0, s1).
Proof. exact mech_and_skips_rhs_l. Qed.
Print Assumptions mech_and_skips_rhs.

Theorem mech_or_skips_rhs : forall D funcs k ty a b s x s1, d_noshort D = false ->
  ieval D funcs k ty a s = (Val x, s1) -> x <> 0 -> ieval D funcs (S k) ty (EOr a b) s = (Val 1, s1).
Proof. exact mech_or_skips_rhs_l. Qed.
Print Assumptions mech_or_skips_rhs.

(* formerly mech_guard_protects_refuted: d = 0 -> `d != 0 && X` is 0 in Mech, for any X *)
Theorem mech_guard_protects : forall D funcs k ty d x s, d_noshort D = false ->
  m_read d [] s = (Val 0, s) ->
  ieval D funcs (S (S (S k))) ty (EAnd (EBin Ne (EVar d) (ENum 0)) x) s = (Val 0, s).
Proof. exact mech_guard_zero_any. Qed.
Print Assumptions mech_guard_protects.

(* formerly mech_indices_left_to_right_refuted / mech_operand_once_refuted: with d_rtl and d_elemcall off an
   element store of Mech is: the value (once), the subscripts left to right (each once), the write *)
Theorem mech_elem_store_value_then_indices_in_order : forall D funcs k a idx e s,
  d_rtl D = false -> d_elemcall D = false ->
  iexec D funcs (S k) (SAssign (LIdx a idx) None e) s =
  (v <- ieval D funcs k true e ;; is_ <- eval_list (ieval D funcs k false) idx ;; m_write a is_ v) s.
Proof. exact mech_elem_store_order. Qed.
Print Assumptions mech_elem_store_value_then_indices_in_order.

Theorem mech_index_lists_left_to_right : forall D ev es, d_rtl D = false ->
  index_list D ev es = eval_list (ev false) es.
Proof. exact mech_index_list_ltr. Qed.
Print Assumptions mech_index_lists_left_to_right.

(* the model of today's implementation has those three switches off, and the former witnesses
   (DESIGN section 7 #5, #41, the index-order one) now run as the reference semantics says *)
Theorem mech_pinned_has_the_repairs :
  d_noshort dev_pinned = false /\ d_rtl dev_pinned = false /\ d_elemcall dev_pinned = false /\
  irun dev_pinned 50 w_sc = run 50 w_sc /\ run 50 w_sc = (lines [1; 200], Finished) /\
  irun dev_pinned 50 w_guard = run 50 w_guard /\ run 50 w_guard = (lines [0], Finished) /\
  irun dev_pinned 50 w_idx = run 50 w_idx /\ run 50 w_idx = (lines [7; 1; 0; 7], Finished) /\
  irun dev_pinned 50 w_elem = run 50 w_elem /\ run 50 w_elem = (lines [5; 3], Finished).
Proof. split; [reflexivity|]. split; [reflexivity|]. split; [reflexivity|]. exact former_witnesses_conform. Qed.
Print Assumptions mech_pinned_has_the_repairs.

(* ---------------------------------------------------------------- the pinned implementation still violates the property in two ways *)
(* long x = m[t(1)][t(2)]: the index list is evaluated twice in a typed context *)
Theorem mech_indices_once_refuted : exists fuel p,
  run fuel p = (lines [1; 2; 0], Finished) /\ irun dev_pinned fuel p = (lines [1; 2; 1; 2; 0], Finished).
Proof. exists 50%nat, w_twice. exact w_twice_runs. Qed.
Print Assumptions mech_indices_once_refuted.

(* println(t(1) + bad(2)): the failing argument is evaluated twice *)
Theorem mech_println_argument_once_refuted : exists fuel p,
  run fuel p = (lines [1; 2], Failed EDiv0) /\ irun dev_pinned fuel p = (lines [1; 2; 1; 2], Failed EDiv0).
Proof. exists 50%nat, w_retry. exact w_retry_runs. Qed.
Print Assumptions mech_println_argument_once_refuted.

(* ---------------------------------------------------------------- the hypotheses are satisfiable *)
Example operand_funcs_exist : has_operand_funcs [t_fun; bad_fun].
Proof. split; reflexivity. Qed.

Example traced_args_instance :
  eval_args (eval [t_fun; bad_fun] 10) [ {| pty := tlong; pname := 20%nat; pdef := None |}; {| pty := tlong; pname := 21%nat; pdef := None |} ]
            (tcalls [(101, 5); (102, 6)]) (state_with []) =
  (Val [5; 6], with_out (state_with []) [ONl; OInt 102; ONl; OInt 101]).
Proof. vm_compute. reflexivity. Qed.

Example guard_instance :
  let p := prog [] [SDecl false false tlong 12%nat (Some (ENum 0)); SDecl false false tlong 13%nat (Some (ENum 10));
                    SPrint true [guard_div 12%nat 13%nat]; SPrint true [EBin Gt (EBin Div (EVar 13%nat) (EVar 12%nat)) (ENum 1)]] in
  run 50 p = ([OInt 0; ONl], Failed EDiv0).
Proof. vm_compute. reflexivity. Qed.
