(* C03 - the deviations of the implementation's evaluation order (Mech, every switch on) from Ref on
   concrete witnesses, by computation.  Each witness is replayed on /repo's `main` by
   harness/props/c03.py (known_findings/C03.json). *)
From Coq Require Import List ZArith Bool Arith.
From Cb Require Import Lang.Syntax Lang.Sem Lang.Print C03.Model C03.EvalOrder.
Import ListNotations.
Local Open Scope Z_scope.

Definition prog (gs : list gdecl) (main : list stmt) : program :=
  {| pglobals := gs; pfuncs := [t_fun; bad_fun]; pmain := main |}.
Definition g_m : gdecl := {| gcst := false; gty := tlong; gname := 9%nat; gdims := [2%nat; 2%nat]; ginit := [] |}.
Definition g_a : gdecl := {| gcst := false; gty := tlong; gname := 8%nat; gdims := [3%nat]; ginit := [] |}.

(* if (t(1,0) != 0 && t(2,1) > 0) println(100); else println(200); *)
Definition w_sc := prog []
  [SIf (EAnd (EBin Ne (tcall 1 0) (ENum 0)) (EBin Gt (tcall 2 1) (ENum 0))) [SPrint true [ENum 100]] [SPrint true [ENum 200]]].
(* long d = 0; long n = 10; if (d != 0 && n / d > 1) println(1); else println(0); *)
Definition w_guard := prog []
  [SDecl false false tlong 12%nat (Some (ENum 0)); SDecl false false tlong 13%nat (Some (ENum 10));
   SIf (guard_div 12%nat 13%nat) [SPrint true [ENum 1]] [SPrint true [ENum 0]]].
(* m[t(1,1)][t(0,0)] = t(7,7); println(m[1][0]); *)
Definition w_idx := prog [g_m]
  [SAssign (LIdx 9%nat [tcall 1 1; tcall 0 0]) None (tcall 7 7); SPrint true [EIdx 9%nat [ENum 1; ENum 0]]].
(* a[0] = t(5,3); println(a[0]); *)
Definition w_elem := prog [g_a] [SAssign (LIdx 8%nat [ENum 0]) None (tcall 5 3); SPrint true [EIdx 8%nat [ENum 0]]].
(* long x = m[t(1,1)][t(2,0)]; println(x); *)
Definition w_twice := prog [g_m]
  [SDecl false false tlong 7%nat (Some (EIdx 9%nat [tcall 1 1; tcall 2 0])); SPrint true [EVar 7%nat]].
(* println(t(1,1) + bad(2)); *)
Definition w_retry := prog [] [SPrint true [EBin Add (tcall 1 1) (bcall 2)]].

Definition lines (zs : list Z) : list oitem := flat_map (fun z => [OInt z; ONl]) zs.

(* ---------- today: the three repaired witnesses conform, the two open ones deviate ---------- *)
Lemma former_witnesses_conform :
  irun dev_pinned 50 w_sc = run 50 w_sc /\ run 50 w_sc = (lines [1; 200], Finished) /\
  irun dev_pinned 50 w_guard = run 50 w_guard /\ run 50 w_guard = (lines [0], Finished) /\
  irun dev_pinned 50 w_idx = run 50 w_idx /\ run 50 w_idx = (lines [7; 1; 0; 7], Finished) /\
  irun dev_pinned 50 w_elem = run 50 w_elem /\ run 50 w_elem = (lines [5; 3], Finished).
Proof. repeat split; vm_compute; reflexivity. Qed.

Lemma w_twice_runs : run 50 w_twice = (lines [1; 2; 0], Finished) /\ irun dev_pinned 50 w_twice = (lines [1; 2; 1; 2; 0], Finished).
Proof. split; vm_compute; reflexivity. Qed.
Lemma w_retry_runs : run 50 w_retry = (lines [1; 2], Failed EDiv0) /\ irun dev_pinned 50 w_retry = (lines [1; 2; 1; 2], Failed EDiv0).
Proof. split; vm_compute; reflexivity. Qed.

(* ---------- HISTORICAL (not obligations): the code before a51b767 / 2967bbb / df79998 ---------- *)
Lemma before_fixes_runs :
  irun dev_before_fixes 50 w_sc = (lines [1; 2; 200], Finished) /\
  irun dev_before_fixes 50 w_guard = ([], Failed EDiv0) /\
  irun dev_before_fixes 50 w_idx = (lines [7; 7; 0; 1; 7], Finished) /\
  irun dev_before_fixes 50 w_elem = (lines [5; 5; 3], Finished) /\
  irun dev_before_fixes 50 w_twice = (lines [2; 1; 2; 1; 0], Finished).
Proof. repeat split; vm_compute; reflexivity. Qed.

Lemma before_fixes_and_law_fails :
  let s := state_with [] in
  ieval dev_before_fixes [] 1 false (ENum 0) s = (Val 0, s) /\
  ieval dev_before_fixes [] 3 false (EAnd (ENum 0) (EBin Div (ENum 1) (ENum 0))) s = (Fail EDiv0, s).
Proof. split; vm_compute; reflexivity. Qed.

(* each switch alone produces its own witness and leaves the other witnesses alone *)
Definition only_noshort := {| d_noshort := true; d_rtl := false; d_twice := false; d_elemcall := false; d_retry := false |}.
Definition only_rtl := {| d_noshort := false; d_rtl := true; d_twice := false; d_elemcall := false; d_retry := false |}.
Definition only_twice := {| d_noshort := false; d_rtl := false; d_twice := true; d_elemcall := false; d_retry := false |}.
Definition only_elemcall := {| d_noshort := false; d_rtl := false; d_twice := false; d_elemcall := true; d_retry := false |}.
Definition only_retry := {| d_noshort := false; d_rtl := false; d_twice := false; d_elemcall := false; d_retry := true |}.

Definition differs (D : dev) (p : program) : bool :=
  let '(o1, c1) := irun D 50 p in let '(o2, c2) := run 50 p in
  negb (Nat.eqb (List.length o1) (List.length o2)) || match c1, c2 with Finished, Finished => false | Failed _, Failed _ => false | _, _ => true end.

Lemma switches_are_independent :
  map (fun D => map (differs D) [w_sc; w_guard; w_idx; w_elem; w_twice; w_retry]) [only_noshort; only_rtl; only_twice; only_elemcall; only_retry] =
  [ [true; true; false; false; false; false];
    [false; false; false; false; false; false];     (* order alone does not change the LENGTH of a transcript *)
    [false; false; false; false; true; false];
    [false; false; true; true; false; false];
    [false; false; false; false; false; true] ].
Proof. vm_compute. reflexivity. Qed.

Lemma rtl_alone_reorders : irun only_rtl 50 w_idx = (lines [7; 0; 1; 7], Finished) /\ irun only_rtl 50 w_twice = (lines [2; 1; 0], Finished).
Proof. split; vm_compute; reflexivity. Qed.
