(* Extraction of the C03 Mech evaluator (with Ref, the printer and the renderer it is compared to). *)
From Coq Require Import Extraction ExtrOcamlBasic ExtrOcamlString ZArith.
From Cb Require Import Lang.Syntax Lang.Sem Lang.Print C03.Model C03.EvalOrder.
Extraction Language OCaml.
Extraction "C03/c03_model.ml" print_program run irun render dev_none dev_pinned Z.add Z.mul Z.opp Z.of_nat Z.of_N N.of_nat.
