(* C03 - lemmas about Mech (EvalOrder.v): with every deviation switched off it is Ref (so its
   structure is Ref's and the switches are the only differences); the exact condition under which
   evaluating both operands of && / || is invisible; the deviations themselves on concrete witnesses. *)
From Coq Require Import List ZArith Bool Arith Lia.
From Cb Require Import Lang.Syntax Lang.Sem Lang.Print C03.Model C03.EvalOrder.
Import ListNotations.
Local Open Scope Z_scope.

Definition meq {A} (m1 m2 : M A) : Prop := forall s, m1 s = m2 s.
Infix "==" := meq (at level 70).

Lemma meq_refl {A} (m : M A) : m == m. Proof. intros s. reflexivity. Qed.

Lemma bind_ext {A B} (m1 m2 : M A) (f1 f2 : A -> M B) :
  m1 == m2 -> (forall a, f1 a == f2 a) -> bind m1 f1 == bind m2 f2.
Proof. intros Hm Hf s. unfold bind. rewrite Hm. destruct (m2 s) as [c s']. destruct c; try reflexivity. apply Hf. Qed.
Lemma finally_ext {A} (m1 m2 : M A) fin : m1 == m2 -> finally m1 fin == finally m2 fin.
Proof. intros H s. unfold finally. rewrite H. reflexivity. Qed.
Lemma map_ctl_ext {A B} (g : ctl A -> ctl B) m1 m2 : m1 == m2 -> map_ctl g m1 == map_ctl g m2.
Proof. intros H s. unfold map_ctl. rewrite H. reflexivity. Qed.
Lemma loop_step_ext b1 b2 n1 n2 : b1 == b2 -> n1 == n2 -> loop_step b1 n1 == loop_step b2 n2.
Proof. intros Hb Hn s. unfold loop_step. rewrite Hb. destruct (b2 s) as [c s']. destruct c; try reflexivity; apply Hn. Qed.
Lemma sc_and_ext a1 a2 b1 b2 : a1 == a2 -> b1 == b2 -> sc_and a1 b1 == sc_and a2 b2.
Proof. intros Ha Hb. unfold sc_and. apply bind_ext; [exact Ha|]. intros x. destruct (x =? 0); [apply meq_refl|].
  apply bind_ext; [exact Hb|]. intros; apply meq_refl. Qed.
Lemma sc_or_ext a1 a2 b1 b2 : a1 == a2 -> b1 == b2 -> sc_or a1 b1 == sc_or a2 b2.
Proof. intros Ha Hb. unfold sc_or. apply bind_ext; [exact Ha|]. intros x. destruct (x =? 0); [|apply meq_refl].
  apply bind_ext; [exact Hb|]. intros; apply meq_refl. Qed.

Section Ext.
Variables (ev1 ev2 : expr -> M Z) (ex1 ex2 : stmt -> M unit).
Hypothesis Hev : forall e, ev1 e == ev2 e.
Hypothesis Hex : forall s, ex1 s == ex2 s.

Lemma eval_list_ext es : eval_list ev1 es == eval_list ev2 es.
Proof. induction es as [|e r IH]; cbn [eval_list]; [apply meq_refl|].
  apply bind_ext; [apply Hev|]. intros v. apply bind_ext; [exact IH|]. intros; apply meq_refl. Qed.
Lemma eval_args_ext ps es : eval_args ev1 ps es == eval_args ev2 ps es.
Proof. revert ps; induction es as [|e r IH]; intros ps; cbn [eval_args]; [apply meq_refl|].
  apply bind_ext; [apply Hev|]. intros v. destruct ps as [|p pr].
  - apply bind_ext; [apply IH|]. intros; apply meq_refl.
  - apply bind_ext; [apply meq_refl|]. intros. apply bind_ext; [apply IH|]. intros; apply meq_refl. Qed.
Lemma exec_list_ext ss : exec_list ex1 ss == exec_list ex2 ss.
Proof. induction ss as [|x r IH]; cbn [exec_list]; [apply meq_refl|].
  apply bind_ext; [apply Hex|]. intros _. exact IH. Qed.
Lemma in_block_ext ss : in_block ex1 ss == in_block ex2 ss.
Proof. unfold in_block. apply bind_ext; [apply meq_refl|]. intros _. apply finally_ext. apply exec_list_ext. Qed.
Lemma print_args_ext first es : print_args ev1 first es == print_args ev2 first es.
Proof. revert first; induction es as [|e r IH]; intros first; cbn [print_args]; [apply meq_refl|].
  apply bind_ext; [apply meq_refl|]. intros _. apply bind_ext; [apply Hev|]. intros v.
  apply bind_ext; [apply meq_refl|]. intros _. apply IH. Qed.
Lemma bind_params_ext ps vs : bind_params ev1 ps vs == bind_params ev2 ps vs.
Proof. revert vs; induction ps as [|p pr IH]; intros vs; cbn [bind_params]; [apply meq_refl|].
  destruct vs as [|v vr].
  - destruct (pdef p); [|apply meq_refl]. apply bind_ext; [apply Hev|]. intros v.
    apply bind_ext; [apply meq_refl|]. intros _. apply IH.
  - apply bind_ext; [apply meq_refl|]. intros _. apply IH. Qed.
End Ext.

(* ------------------------------------------------------------------ no deviation = Ref *)
Section NoDev.
Variable funcs : list func.

Lemma ilval_target_none ev1 ev2 lv : (forall ty e, ev1 ty e == ev2 e) ->
  ilval_target dev_none ev1 lv == lval_target ev2 lv.
Proof.
  intros H. destruct lv; cbn [ilval_target lval_target]; [apply meq_refl|].
  apply bind_ext; [|intros; apply meq_refl]. unfold index_list. cbn [d_rtl dev_none].
  apply eval_list_ext. intros e. apply H.
Qed.

Theorem mech_no_deviation_is_ref_l : forall n,
  (forall ty e, ieval dev_none funcs n ty e == eval funcs n e) /\
  (forall st, iexec dev_none funcs n st == exec funcs n st).
Proof.
  induction n as [|k [IHe IHx]]; [split; intros; apply meq_refl|].
  assert (Hel : forall ty es, eval_list (ieval dev_none funcs k ty) es == eval_list (eval funcs k) es)
    by (intros; apply eval_list_ext; intros; apply IHe).
  assert (Hxl : forall ss, exec_list (iexec dev_none funcs k) ss == exec_list (exec funcs k) ss)
    by (intros; apply exec_list_ext; exact IHx).
  assert (Hib : forall ss, in_block (iexec dev_none funcs k) ss == in_block (exec funcs k) ss)
    by (intros; apply in_block_ext; exact IHx).
  assert (Hlv : forall lv, ilval_target dev_none (ieval dev_none funcs k) lv == lval_target (eval funcs k) lv)
    by (intros; apply ilval_target_none; exact IHe).
  split.
  - intros ty e. destruct e; cbn [ieval eval].
    + apply meq_refl.
    + apply meq_refl.
    + apply bind_ext; [apply IHe|]. intros; apply meq_refl.
    + apply bind_ext; [apply IHe|]. intros. apply bind_ext; [apply IHe|]. intros; apply meq_refl.
    + cbn [d_noshort dev_none]. apply sc_and_ext; apply IHe.
    + cbn [d_noshort dev_none]. apply sc_or_ext; apply IHe.
    + apply bind_ext; [apply IHe|]. intros x. destruct (x =? 0); apply IHe.
    + destruct (find_func f funcs) as [fd|]; [|apply meq_refl].
      match goal with |- (if ?c then _ else _) == _ => destruct c end; [apply meq_refl|].
      apply bind_ext; [apply eval_args_ext; intros; apply IHe|]. intros vs.
      apply bind_ext; [apply meq_refl|]. intros _. apply finally_ext. apply map_ctl_ext.
      apply bind_ext; [apply bind_params_ext; intros; apply IHe|]. intros _. apply Hxl.
    + unfold read_elem. cbn [d_twice dev_none]. rewrite andb_false_r.
      apply bind_ext; [|intros; apply meq_refl]. unfold index_list. cbn [d_rtl dev_none]. apply Hel.
  - intros st. destruct st; cbn [iexec exec].
    + destruct sta.
      * apply bind_ext; [apply meq_refl|]. intros known. destruct known; [apply meq_refl|].
        apply bind_ext; [destruct init; [apply IHe|apply meq_refl]|]. intros; apply meq_refl.
      * apply bind_ext; [destruct init; [apply IHe|apply meq_refl]|]. intros; apply meq_refl.
    + apply bind_ext; [apply Hel|]. intros; apply meq_refl.
    + destruct op.
      * apply bind_ext; [apply Hlv|]. intros tg. apply bind_ext; [apply meq_refl|]. intros.
        apply bind_ext; [apply IHe|]. intros; apply meq_refl.
      * assert (Hpre : pre_eval dev_none (ieval dev_none funcs k) lv e == ret tt).
        { unfold pre_eval. cbn [d_elemcall dev_none]. destruct lv; [apply meq_refl|]. destruct e; apply meq_refl. }
        intros s. unfold bind at 1. rewrite Hpre. unfold ret at 1.
        revert s. apply bind_ext; [apply IHe|]. intros v. apply bind_ext; [apply Hlv|]. intros; apply meq_refl.
    + apply bind_ext; [apply Hlv|]. intros; apply meq_refl.
    + apply bind_ext; [apply IHe|]. intros; apply meq_refl.
    + apply bind_ext; [apply IHe|]. intros x. destruct (x =? 0); apply Hib.
    + apply bind_ext; [apply IHe|]. intros x. destruct (x =? 0); [apply meq_refl|].
      apply loop_step_ext; [apply Hib|apply IHx].
    + apply bind_ext; [apply meq_refl|]. intros _. apply finally_ext.
      apply bind_ext; [apply Hxl|]. intros _. apply bind_ext; [apply IHe|]. intros x.
      destruct (x =? 0); [apply meq_refl|]. apply loop_step_ext; [apply Hib|].
      apply bind_ext; [apply Hxl|]. intros _. apply IHx.
    + apply meq_refl.
    + apply meq_refl.
    + destruct e; [|apply meq_refl]. apply bind_ext; [apply IHe|]. intros; apply meq_refl.
    + apply Hib.
    + apply bind_ext; [|intros; apply meq_refl]. apply print_args_ext. intros e.
      unfold print_arg. cbn [d_retry dev_none]. apply IHe.
    + apply meq_refl.
    + apply meq_refl.
Qed.

End NoDev.

Corollary irun_none_is_run fuel p : irun dev_none fuel p = run fuel p.
Proof.
  unfold irun, run. destruct (init_state p) as [s0|]; [|reflexivity].
  rewrite (exec_list_ext _ _ (proj2 (mech_no_deviation_is_ref_l (pfuncs p) fuel)) (pmain p) s0).
  reflexivity.
Qed.

(* ------------------------------------------------------------------ when is "both operands evaluated" invisible *)
(* exactly when, in the state where the left operand has decided, the right operand yields a value
   and leaves the state alone *)
Lemma ns_and_invisible ea eb s :
  (forall s1, ea s = (Val 0, s1) -> exists v, eb s1 = (Val v, s1)) -> ns_and ea eb s = sc_and ea eb s.
Proof.
  intros H. unfold ns_and, sc_and, bind. destruct (ea s) as [c s1] eqn:E. destruct c; try reflexivity.
  destruct (a =? 0) eqn:Ez.
  - apply Z.eqb_eq in Ez. subst a. destruct (H s1 eq_refl) as [v Hv]. rewrite Hv. reflexivity.
  - destruct (eb s1) as [c2 s2]. destruct c2; reflexivity.
Qed.

Lemma ns_or_invisible ea eb s :
  (forall x s1, ea s = (Val x, s1) -> x <> 0 -> exists v, eb s1 = (Val v, s1)) -> ns_or ea eb s = sc_or ea eb s.
Proof.
  intros H. unfold ns_or, sc_or, bind. destruct (ea s) as [c s1] eqn:E. destruct c; try reflexivity.
  destruct (a =? 0) eqn:Ez.
  - destruct (eb s1) as [c2 s2]. destruct c2; try reflexivity.
  - assert (Hnz : a <> 0) by (apply Z.eqb_neq; exact Ez).
    destruct (H a s1 eq_refl Hnz) as [v Hv]. rewrite Hv. reflexivity.
Qed.

Corollary ns_and_quiet ea eb : quiet eb -> forall s, ns_and ea eb s = sc_and ea eb s.
Proof. intros Hq s. apply ns_and_invisible. intros s1 _. apply Hq. Qed.
Corollary ns_or_quiet ea eb : quiet eb -> forall s, ns_or ea eb s = sc_or ea eb s.
Proof. intros Hq s. apply ns_or_invisible. intros x s1 _ _. apply Hq. Qed.

(* a literal is quiet under both evaluators *)
Lemma lit_quiet D funcs k ty z : quiet (ieval D funcs (S k) ty (ENum z)).
Proof. intros s. exists z. reflexivity. Qed.

(* ------------------------------------------------------------------ the repaired deviations: positive laws of Mech *)
Lemma bind_ret_l {A B} (a : A) (f : A -> M B) s : bind (ret a) f s = f a s.
Proof. reflexivity. Qed.
Lemma bind_map_ret {A B C} (m : M A) (g : A -> B) (h : B -> M C) s :
  bind (bind m (fun x => ret (g x))) h s = bind m (fun x => h (g x)) s.
Proof. unfold bind, ret. destruct (m s) as [c s1]. destruct c; reflexivity. Qed.

Section Repaired.
Variable D : dev.
Variable funcs : list func.

(* d_noshort off (a51b767): Mech's && || are Ref's combinators over Mech's operand evaluation, hence the
   short-circuit laws hold of Mech for every operand, flag, fuel and state *)
Lemma mech_and_eq k ty a b : d_noshort D = false ->
  ieval D funcs (S k) ty (EAnd a b) = sc_and (ieval D funcs k ty a) (ieval D funcs k ty b).
Proof. intros H. cbn [ieval]. rewrite H. reflexivity. Qed.
Lemma mech_or_eq k ty a b : d_noshort D = false ->
  ieval D funcs (S k) ty (EOr a b) = sc_or (ieval D funcs k ty a) (ieval D funcs k ty b).
Proof. intros H. cbn [ieval]. rewrite H. reflexivity. Qed.

Lemma mech_and_skips_rhs_l k ty a b s s1 : d_noshort D = false ->
  ieval D funcs k ty a s = (Val 0, s1) -> ieval D funcs (S k) ty (EAnd a b) s = (Val 0, s1).
Proof. intros H Ha. rewrite (mech_and_eq _ _ _ _ H). unfold sc_and, bind. rewrite Ha. reflexivity. Qed.
Lemma mech_or_skips_rhs_l k ty a b s x s1 : d_noshort D = false ->
  ieval D funcs k ty a s = (Val x, s1) -> x <> 0 -> ieval D funcs (S k) ty (EOr a b) s = (Val 1, s1).
Proof.
  intros H Ha Hx. rewrite (mech_or_eq _ _ _ _ H). unfold sc_or, bind. rewrite Ha.
  apply Z.eqb_neq in Hx. rewrite Hx. reflexivity.
Qed.

(* the guard of the property text, for Mech: d = 0 -> `d != 0 && X` is 0, state unchanged, for any X *)
Lemma mech_guard_zero_any k ty d x s : d_noshort D = false -> m_read d [] s = (Val 0, s) ->
  ieval D funcs (S (S (S k))) ty (EAnd (EBin Ne (EVar d) (ENum 0)) x) s = (Val 0, s).
Proof.
  intros H Hd. apply mech_and_skips_rhs_l; [exact H|].
  cbn [ieval]. unfold bind. rewrite Hd. reflexivity.
Qed.

(* d_rtl off (2967bbb): subscript lists are evaluated by Ref's left-to-right list evaluator *)
Lemma mech_index_list_ltr ev es : d_rtl D = false -> index_list D ev es = eval_list (ev false) es.
Proof. intros H. unfold index_list. rewrite H. reflexivity. Qed.

(* d_elemcall off (df79998): nothing is evaluated ahead of the value of an assignment *)
Lemma mech_no_pre_eval ev lv e : d_elemcall D = false -> pre_eval D ev lv e = ret tt.
Proof. intros H. unfold pre_eval. rewrite H. destruct lv; [reflexivity|]. destruct e; reflexivity. Qed.

(* so an element store is: the value, the subscripts left to right (each once), the write *)
Lemma mech_elem_store_order k a idx e s : d_rtl D = false -> d_elemcall D = false ->
  iexec D funcs (S k) (SAssign (LIdx a idx) None e) s =
  (v <- ieval D funcs k true e ;; is_ <- eval_list (ieval D funcs k false) idx ;; m_write a is_ v) s.
Proof.
  intros Hr He. cbn [iexec]. rewrite (mech_no_pre_eval _ _ _ He). cbn [ilval_target].
  rewrite (mech_index_list_ltr _ _ Hr). rewrite bind_ret_l.
  apply bind_ext; [apply meq_refl|]. intros v s1. apply bind_map_ret.
Qed.
End Repaired.

Lemma dev_pinned_repaired : d_noshort dev_pinned = false /\ d_rtl dev_pinned = false /\ d_elemcall dev_pinned = false.
Proof. repeat split. Qed.
