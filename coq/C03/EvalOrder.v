(* C03 - Mech: the evaluation order of the implementation as it is today, over the shared CbCore
   syntax, state monad and primitives of coq/Lang.  It is Ref's evaluator with five named deviations,
   each behind a switch, so that (a) with every switch off it IS Ref (theorem mech_no_deviation_is_ref
   in MechLemmas.v), (b) with every switch on it predicts the transcript of /repo's `main` on the
   programs of harness/gen_c03.py (checked on every run), (c) each switch alone identifies one finding.

   What was read (file: function):
   * d_noshort   src/backend/interpreter/evaluator/core/dispatcher.cpp: dispatch_expression, case
                 AST_BINARY_OP: `left = dispatch(left); right = dispatch(right);` and only then
                 `if (op == "&&" || op == "||") evaluate_logical_binary(op, left, right)`;
                 evaluator/operators/binary_unary.cpp: evaluate_binary_op_typed evaluates
                 left_value and right_value first and ends in `truthy(left) && truthy(right)`.
   * d_rtl       managers/variables/assignment.cpp: VariableManager::extract_array_indices evaluates
                 node->array_index (the LAST index of m[i][j]) and then recurses into node->left.
   * d_twice     evaluator/core/evaluator.cpp: evaluate_typed_expression_internal, case AST_ARRAY_REF:
                 extract_array_indices(node) is called, the fast path returns only for ONE index that is
                 inside the array; every other access falls through to evaluate_expression(node), which
                 extracts (evaluates) the indices again.
   * d_elemcall  executors/assignments/simple_assignment.cpp: execute_assignment, left side AST_ARRAY_REF:
                 `if (right is AST_FUNC_CALL) interpreter.evaluate(right)` ("for the side effect") and
                 later `evaluate_typed_expression(right)` again.
   * d_retry     output/output_manager.cpp: print_value: `try { evaluate_typed_expression(expr) ... }
                 catch (std::exception&) {}` followed by evaluate_numeric_and_write(expr).
   The typed / untyped evaluator pair (evaluate_typed_expression vs dispatch_expression) is followed
   only as far as it decides d_twice: the flag [ty] below.  Contexts: initialisers, assigned values,
   returned values, call arguments, println arguments, branches of ?: are typed; conditions of
   if/while/for, the condition of ?:, index expressions and expression statements are not; operands
   of a comparison are typed, the operand of ~ is untyped, operands of every other operator inherit
   the flag. *)
From Coq Require Import List ZArith Bool Arith.
From Cb Require Import Lang.Syntax Lang.Sem Lang.Print C03.Model.
Import ListNotations.
Local Open Scope Z_scope.

Record dev := { d_noshort : bool; d_rtl : bool; d_twice : bool; d_elemcall : bool; d_retry : bool }.
Definition dev_none : dev := {| d_noshort := false; d_rtl := false; d_twice := false; d_elemcall := false; d_retry := false |}.
(* the implementation today: /repo commits a51b767 (&& || short-circuit in both evaluators), 2967bbb
   (subscripts left to right) and df79998 (a[i] = f() calls f once) repaired three of the five
   deviations; the typed re-evaluation of subscript lists and println's retry remain *)
Definition dev_pinned : dev := {| d_noshort := false; d_rtl := false; d_twice := true; d_elemcall := false; d_retry := true |}.
(* HISTORICAL: the implementation before those three commits (used to recognise a regression) *)
Definition dev_before_fixes : dev := {| d_noshort := true; d_rtl := true; d_twice := true; d_elemcall := true; d_retry := true |}.

Definition is_cmp (o : binop) : bool :=
  match o with Lt | Le | Gt | Ge | Eq | Ne => true | _ => false end.

(* evaluate_unary_op_typed handles - and ! itself (typed operand); ~ falls back to
   evaluate_expression(node), the untyped evaluator *)
Definition un_typed (o : unop) : bool := match o with BNot => false | _ => true end.

(* run [m] again (from the state it left) when it failed: println's fallback path *)
Definition retry {A} (m : M A) : M A := fun s =>
  match m s with
  | (Fail _, s1) => m s1
  | r => r
  end.

Section Mech.
Variable D : dev.
Variable funcs : list func.

Section WithRec.
Variable ev : bool -> expr -> M Z.

(* extract_array_indices: the outermost subscript (last index) first *)
Fixpoint eval_list_rtl (es : list expr) : M (list Z) :=
  match es with
  | [] => ret []
  | e :: r => vs <- eval_list_rtl r ;; v <- ev false e ;; ret (v :: vs)
  end.

Definition index_list (es : list expr) : M (list Z) :=
  if d_rtl D then eval_list_rtl es else eval_list (ev false) es.

(* the typed evaluator's fast path: exactly one index and it is inside the array *)
Definition fast_path (a : ident) (is_ : list Z) : M bool := fun s =>
  (Val (match is_ with
        | [_] => match m_read a is_ s with (Val _, _) => true | _ => false end
        | _ => false
        end), s).

Definition read_elem (ty : bool) (a : ident) (idx : list expr) : M Z :=
  is_ <- index_list idx ;;
  if ty && d_twice D then
    fast <- fast_path a is_ ;;
    if (fast : bool) then m_read a is_ else is2 <- index_list idx ;; m_read a is2
  else m_read a is_.

Definition ilval_target (lv : lval) : M (ident * list Z) :=
  match lv with
  | LVar x => ret (x, [])
  | LIdx a idx => is_ <- index_list idx ;; ret (a, is_)
  end.

(* a[..] = f(..): the call is run once "for its side effects" before the value is computed *)
Definition pre_eval (lv : lval) (e : expr) : M unit :=
  match lv, e with
  | LIdx _ _, ECall _ _ => if d_elemcall D then ev false e ;;; ret tt else ret tt
  | _, _ => ret tt
  end.

Definition print_arg (e : expr) : M Z :=
  if d_retry D then retry (ev true e) else ev true e.
End WithRec.

Fixpoint ieval (n : nat) (ty : bool) (e : expr) {struct n} : M Z :=
  match n with
  | O => fail ENoFuel
  | S k =>
    match e with
    | ENum z => ret z
    | EVar x => m_read x []
    | EUn o a => v <- ieval k (ty && un_typed o) a ;; lift (unarith o v)
    | EBin o a b => x <- ieval k (ty || is_cmp o) a ;; y <- ieval k (ty || is_cmp o) b ;; lift (arith o x y)
    | EAnd a b => if d_noshort D then ns_and (ieval k ty a) (ieval k ty b) else sc_and (ieval k ty a) (ieval k ty b)
    | EOr a b => if d_noshort D then ns_or (ieval k ty a) (ieval k ty b) else sc_or (ieval k ty a) (ieval k ty b)
    | ECond c a b => x <- ieval k false c ;; if x =? 0 then ieval k true b else ieval k true a
    | EIdx a idx => read_elem (ieval k) ty a idx
    | ECall f args =>
        match find_func f funcs with
        | None => fail EUnbound
        | Some fd =>
            if (Nat.ltb (List.length args) (required (fparams fd))) || (Nat.ltb (List.length (fparams fd)) (List.length args))
            then fail EArity
            else
              vs <- eval_args (ieval k true) (fparams fd) args ;;
              m_push_frame f ;;;
              finally (map_ctl (call_result (fret fd))
                         (bind_params (ieval k true) (fparams fd) vs ;;; exec_list (iexec k) (fbody fd))) pop_frame_st
        end
    end
  end
with iexec (n : nat) (st : stmt) {struct n} : M unit :=
  match n with
  | O => fail ENoFuel
  | S k =>
    match st with
    | SDecl cst sta t x init =>
        if sta then
          known <- m_static_known x ;;
          if known then ret tt
          else v <- (match init with Some e => ieval k true e | None => ret 0 end) ;; m_declare true cst t x [] [v]
        else v <- (match init with Some e => ieval k true e | None => ret 0 end) ;; m_declare false cst t x [] [v]
    | SArr cst t x dims init => vs <- eval_list (ieval k true) init ;; m_declare false cst t x dims vs
    | SAssign lv None e =>
        pre_eval (ieval k) lv e ;;;
        v <- ieval k true e ;; tg <- ilval_target (ieval k) lv ;; m_write (fst tg) (snd tg) v
    | SAssign lv (Some o) e =>
        tg <- ilval_target (ieval k) lv ;; old <- m_read (fst tg) (snd tg) ;; v <- ieval k true e ;;
        r <- lift (arith o old v) ;; m_write (fst tg) (snd tg) r
    | SIncDec _ inc lv =>
        tg <- ilval_target (ieval k) lv ;; old <- m_read (fst tg) (snd tg) ;;
        r <- lift (arith (if inc then Add else Sub) old 1) ;; m_write (fst tg) (snd tg) r
    | SExpr e => ieval k false e ;;; ret tt
    | SIf c s1 s2 => x <- ieval k false c ;; if x =? 0 then in_block (iexec k) s2 else in_block (iexec k) s1
    | SWhile c body =>
        x <- ieval k false c ;;
        if x =? 0 then ret tt
        else loop_step (in_block (iexec k) body) (iexec k (SWhile c body))
    | SFor init c upd body =>
        m_push_scope ;;;
        finally (exec_list (iexec k) init ;;;
                 x <- ieval k false c ;;
                 if x =? 0 then ret tt
                 else loop_step (in_block (iexec k) body)
                                (exec_list (iexec k) upd ;;; iexec k (SFor [] c upd body))) pop_scope_st
    | SBreak => lift Brk
    | SContinue => lift Cnt
    | SReturn None => lift (Ret None)
    | SReturn (Some e) => v <- ieval k true e ;; lift (Ret (Some v))
    | SBlock ss => in_block (iexec k) ss
    | SPrint nl args => print_args (print_arg (ieval k)) true args ;;; if nl then m_out ONl else ret tt
    | SStruct _ x flds => decl_members x 0 flds      (* no operand is evaluated by these two statements *)
    | SCopy x y flds => copy_members x y 0 flds
    end
  end.
End Mech.

Definition irun (D : dev) (fuel : nat) (p : program) : list oitem * outcome :=
  match init_state p with
  | None => ([], Failed ERange)
  | Some s0 =>
      let '(c, s) := exec_list (iexec D (pfuncs p) fuel) (pmain p) s0 in
      (rev (sout s), match c with Fail e => Failed e | _ => Finished end)
  end.
