(* C03 - lemmas about the shared reference interpreter (Lang.Sem): which operands an expression
   evaluates, in which order, how often.  Everything is for every function table, fuel and state. *)
From Coq Require Import List ZArith Bool Arith Lia.
From Cb Require Import Lang.Syntax Lang.Sem Lang.Respect Lang.Theorems C03.Model.
Import ListNotations.
Local Open Scope Z_scope.

Section Ref.
Variable funcs : list func.
Notation eval := (eval funcs).
Notation exec := (exec funcs).

(* ------------------------------------------------------------------ unfolding equations *)
Lemma eval_and_eq k a b : eval (S k) (EAnd a b) = sc_and (eval k a) (eval k b).
Proof. reflexivity. Qed.
Lemma eval_or_eq k a b : eval (S k) (EOr a b) = sc_or (eval k a) (eval k b).
Proof. reflexivity. Qed.
Lemma eval_cond_eq k c a b : eval (S k) (ECond c a b) = (x <- eval k c ;; if x =? 0 then eval k b else eval k a).
Proof. reflexivity. Qed.
Lemma eval_bin_eq k o a b : eval (S k) (EBin o a b) = (x <- eval k a ;; y <- eval k b ;; lift (arith o x y)).
Proof. reflexivity. Qed.
Lemma eval_un_eq k o a : eval (S k) (EUn o a) = (v <- eval k a ;; lift (unarith o v)).
Proof. reflexivity. Qed.
Lemma eval_idx_eq k a idx : eval (S k) (EIdx a idx) = (is_ <- eval_list (eval k) idx ;; m_read a is_).
Proof. reflexivity. Qed.
Lemma eval_list_cons (ev : expr -> M Z) e r : eval_list ev (e :: r) = (v <- ev e ;; vs <- eval_list ev r ;; ret (v :: vs)).
Proof. reflexivity. Qed.
Lemma eval_args_cons (ev : expr -> M Z) p pr e r :
  eval_args ev (p :: pr) (e :: r) = (v <- ev e ;; v' <- lift (coerce (pty p) v) ;; vs <- eval_args ev pr r ;; ret (v' :: vs)).
Proof. reflexivity. Qed.
Lemma eval_call_eq k f args fd :
  find_func f funcs = Some fd ->
  (Nat.ltb (List.length args) (required (fparams fd))) || (Nat.ltb (List.length (fparams fd)) (List.length args)) = false ->
  eval (S k) (ECall f args) =
  (vs <- eval_args (eval k) (fparams fd) args ;;
   m_push_frame f ;;;
   finally (map_ctl (call_result (fret fd))
              (bind_params (eval k) (fparams fd) vs ;;; exec_list (exec k) (fbody fd))) pop_frame_st).
Proof. intros Hf Ha. cbn [Sem.eval]. rewrite Hf, Ha. reflexivity. Qed.

(* ------------------------------------------------------------------ && *)
(* the left operand is false: the result is 0 and the final state is exactly the state after the
   left operand, whatever the right operand is (printing, failing, diverging, ill-formed) *)
Lemma and_skips_rhs_l k a b s s1 : eval k a s = (Val 0, s1) -> eval (S k) (EAnd a b) s = (Val 0, s1).
Proof. intros H. rewrite eval_and_eq. unfold sc_and, bind. rewrite H. reflexivity. Qed.

Lemma and_runs_rhs_l k a b s x s1 : eval k a s = (Val x, s1) -> x <> 0 ->
  eval (S k) (EAnd a b) s = (y <- eval k b ;; ret (truth y)) s1.
Proof.
  intros H Hx. rewrite eval_and_eq. unfold sc_and at 1. unfold bind at 1. rewrite H.
  apply Z.eqb_neq in Hx. rewrite Hx. reflexivity.
Qed.

(* ------------------------------------------------------------------ || *)
Lemma or_skips_rhs_l k a b s x s1 : eval k a s = (Val x, s1) -> x <> 0 -> eval (S k) (EOr a b) s = (Val 1, s1).
Proof.
  intros H Hx. rewrite eval_or_eq. unfold sc_or, bind. rewrite H. apply Z.eqb_neq in Hx. rewrite Hx. reflexivity.
Qed.

Lemma or_runs_rhs_l k a b s s1 : eval k a s = (Val 0, s1) ->
  eval (S k) (EOr a b) s = (y <- eval k b ;; ret (truth y)) s1.
Proof. intros H. rewrite eval_or_eq. unfold sc_or at 1. unfold bind at 1. rewrite H. reflexivity. Qed.

(* ------------------------------------------------------------------ ?: *)
Lemma cond_one_branch_l k c a b s x s1 : eval k c s = (Val x, s1) ->
  eval (S k) (ECond c a b) s = if x =? 0 then eval k b s1 else eval k a s1.
Proof. intros H. rewrite eval_cond_eq. unfold bind. rewrite H. destruct (x =? 0); reflexivity. Qed.

(* ------------------------------------------------------------------ a failing first operand ends the evaluation *)
Lemma first_operand_fails_l k a s e s1 : eval k a s = (Fail e, s1) ->
  (forall o b, eval (S k) (EBin o a b) s = (Fail e, s1)) /\
  (forall b, eval (S k) (EAnd a b) s = (Fail e, s1)) /\
  (forall b, eval (S k) (EOr a b) s = (Fail e, s1)) /\
  (forall x y, eval (S k) (ECond a x y) s = (Fail e, s1)) /\
  (forall o, eval (S k) (EUn o a) s = (Fail e, s1)).
Proof.
  intros H. repeat split; intros.
  - rewrite eval_bin_eq. unfold bind. rewrite H. reflexivity.
  - rewrite eval_and_eq. unfold sc_and, bind. rewrite H. reflexivity.
  - rewrite eval_or_eq. unfold sc_or, bind. rewrite H. reflexivity.
  - rewrite eval_cond_eq. unfold bind. rewrite H. reflexivity.
  - rewrite eval_un_eq. unfold bind. rewrite H. reflexivity.
Qed.

(* ------------------------------------------------------------------ binary operators: left, then right, then the operator *)
Lemma binop_both_l k o a b s x s1 y s2 :
  eval k a s = (Val x, s1) -> eval k b s1 = (Val y, s2) -> eval (S k) (EBin o a b) s = (arith o x y, s2).
Proof. intros Ha Hb. rewrite eval_bin_eq. unfold bind. rewrite Ha, Hb. unfold lift. destruct (arith o x y); reflexivity. Qed.

Lemma binop_right_fails_l k o a b s x s1 e s2 :
  eval k a s = (Val x, s1) -> eval k b s1 = (Fail e, s2) -> eval (S k) (EBin o a b) s = (Fail e, s2).
Proof. intros Ha Hb. rewrite eval_bin_eq. unfold bind. rewrite Ha, Hb. reflexivity. Qed.

(* the transcript of a binary operation is the transcript of the left operand followed by the
   transcript of the right operand (the output list is newest-first) *)
Lemma binop_transcript_l k o a b s x s1 y s2 :
  eval k a s = (Val x, s1) -> eval k b s1 = (Val y, s2) ->
  exists la lb, sout s1 = la ++ sout s /\ sout s2 = lb ++ la ++ sout s /\
                sout (snd (eval (S k) (EBin o a b) s)) = lb ++ la ++ sout s.
Proof.
  intros Ha Hb.
  destruct (proj1 (output_monotone_l funcs k) a s) as [la Hla].
  destruct (proj1 (output_monotone_l funcs k) b s1) as [lb Hlb].
  rewrite Ha in Hla. rewrite Hb in Hlb. cbn [snd] in *.
  exists la, lb. rewrite (binop_both_l _ o _ _ _ _ _ _ _ Ha Hb). cbn [snd].
  rewrite Hlb, Hla. repeat split; reflexivity.
Qed.

(* ------------------------------------------------------------------ lists of operands: in list order, each once *)
Lemma eval_list_app (ev : expr -> M Z) es1 es2 s :
  eval_list ev (es1 ++ es2) s = (vs1 <- eval_list ev es1 ;; vs2 <- eval_list ev es2 ;; ret (vs1 ++ vs2)) s.
Proof.
  revert s. induction es1 as [|e r IH]; intros s; cbn [app eval_list].
  - unfold bind, ret. destruct (eval_list ev es2 s) as [c s']. destruct c; reflexivity.
  - unfold bind, ret. destruct (ev e s) as [c s1]. destruct c; try reflexivity.
    rewrite IH. unfold bind, ret.
    destruct (eval_list ev r s1) as [c2 s2]. destruct c2; try reflexivity.
    destruct (eval_list ev es2 s2) as [c3 s3]. destruct c3; reflexivity.
Qed.

(* a failing element ends the list: the elements to its right are not evaluated *)
Lemma eval_list_stops (ev : expr -> M Z) es1 e es2 s vs s1 er s2 :
  eval_list ev es1 s = (Val vs, s1) -> ev e s1 = (Fail er, s2) ->
  eval_list ev (es1 ++ e :: es2) s = (Fail er, s2).
Proof.
  intros H1 H2. rewrite eval_list_app. unfold bind at 1. rewrite H1.
  cbn [eval_list]. unfold bind. rewrite H2. reflexivity.
Qed.

Lemma eval_args_stops (ev : expr -> M Z) : forall ps es1 e es2 s vs s1 er s2,
  eval_args ev ps es1 s = (Val vs, s1) -> ev e s1 = (Fail er, s2) ->
  eval_args ev ps (es1 ++ e :: es2) s = (Fail er, s2).
Proof.
  intros ps es1. revert ps. induction es1 as [|x r IH]; intros ps e es2 s vs s1 er s2 H1 H2.
  - cbn [eval_args] in H1. unfold ret in H1. injection H1 as _ <-. cbn [app eval_args]. unfold bind. rewrite H2. reflexivity.
  - cbn [app eval_args] in *. unfold bind at 1 in H1. unfold bind at 1. destruct (ev x s) as [c sx]. destruct c; try discriminate.
    destruct ps as [|p pr].
    + unfold bind at 1 in H1. unfold bind at 1.
      destruct (eval_args ev [] r sx) as [c2 s3] eqn:E. destruct c2; try discriminate.
      unfold ret in H1. injection H1 as _ <-. rewrite (IH [] e es2 sx a0 s3 er s2 E H2). reflexivity.
    + unfold bind at 1 in H1. unfold bind at 1. unfold lift in *. destruct (coerce (pty p) a); try discriminate.
      unfold bind at 1 in H1. unfold bind at 1.
      destruct (eval_args ev pr r sx) as [c2 s3] eqn:E. destruct c2; try discriminate.
      unfold ret in H1. injection H1 as _ <-. rewrite (IH pr e es2 sx a1 s3 er s2 E H2). reflexivity.
Qed.

End Ref.
