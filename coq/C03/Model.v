(* C03 - vocabulary of the property: tracing / failing operand functions, the guards named in the
   property text, and the two ways of combining the operands of && and ||.
   Definitions only.  The language, its reference semantics (Ref) and the state monad are the shared
   ones of coq/Lang; nothing of the language is redefined here. *)
From Coq Require Import List ZArith Bool Arith.
From Cb Require Import Lang.Syntax Lang.Sem.
Import ListNotations.
Local Open Scope Z_scope.

(* ---------- operand functions: the transcript is the event order ---------- *)
Definition tlong : ty := {| base := TLong; uns := false |}.

(* identifiers used by the prelude of every generated program (harness/gen_c03.py) *)
Definition f_t : ident := 1%nat.      (* long t(long k, long v) { println(k); return v; } *)
Definition f_bad : ident := 2%nat.    (* long bad(long k) { println(k); long z = 0; return k / z; } *)
Definition v_k : ident := 1%nat.
Definition v_v : ident := 2%nat.
Definition v_z : ident := 3%nat.

Definition t_fun : func :=
  {| fname := f_t; fret := Some tlong;
     fparams := [ {| pty := tlong; pname := v_k; pdef := None |}; {| pty := tlong; pname := v_v; pdef := None |} ];
     fbody := [ SPrint true [EVar v_k]; SReturn (Some (EVar v_v)) ] |}.

Definition bad_fun : func :=
  {| fname := f_bad; fret := Some tlong;
     fparams := [ {| pty := tlong; pname := v_k; pdef := None |} ];
     fbody := [ SPrint true [EVar v_k]; SDecl false false tlong v_z (Some (ENum 0));
                SReturn (Some (EBin Div (EVar v_k) (EVar v_z))) ] |}.

(* a traced operand: prints its label [k], evaluates to [v] *)
Definition tcall (k v : Z) : expr := ECall f_t [ENum k; ENum v].
(* a failing operand: prints its label, then divides by zero *)
Definition bcall (k : Z) : expr := ECall f_bad [ENum k].

(* what one traced operand appends to the (newest-first) output *)
Definition trace1 (k : Z) (o : list oitem) : list oitem := ONl :: OInt k :: o.
(* the output after the traced operands with labels [ks] were evaluated in list order, each once *)
Definition traced (ks : list Z) (o : list oitem) : list oitem := fold_left (fun acc k => trace1 k acc) ks o.

Definition with_out (s : state) (o : list oitem) : state :=
  {| sglob := sglob s; sframes := sframes s; sstat := sstat s; sout := o |}.

(* a function table that defines the two operand functions (anything else may be in it) *)
Definition has_operand_funcs (funcs : list func) : Prop :=
  find_func f_t funcs = Some t_fun /\ find_func f_bad funcs = Some bad_fun.

Definition in64b (z : Z) : bool := in64 z.

(* ---------- the guards of the property text ---------- *)
(* d != 0 && n / d > 1 *)
Definition guard_div (d n : ident) : expr :=
  EAnd (EBin Ne (EVar d) (ENum 0)) (EBin Gt (EBin Div (EVar n) (EVar d)) (ENum 1)).
(* i < n && a[i] > 0 *)
Definition guard_idx (i n a : ident) : expr :=
  EAnd (EBin Lt (EVar i) (EVar n)) (EBin Gt (EIdx a [EVar i]) (ENum 0)).

(* ---------- && and || as combinators on computations ---------- *)
Definition truth (y : Z) : Z := b2z (negb (y =? 0)).
(* Ref: the right operand is run only when the left one does not decide *)
Definition sc_and (ea eb : M Z) : M Z := x <- ea ;; if x =? 0 then ret 0 else y <- eb ;; ret (truth y).
Definition sc_or (ea eb : M Z) : M Z := x <- ea ;; if x =? 0 then y <- eb ;; ret (truth y) else ret 1.
(* the implementation today: both operands are run, then the operator is inspected
   (dispatcher.cpp dispatch_expression AST_BINARY_OP; binary_unary.cpp evaluate_binary_op_typed) *)
Definition ns_and (ea eb : M Z) : M Z := x <- ea ;; y <- eb ;; ret (b2z (negb (x =? 0) && negb (y =? 0))).
Definition ns_or (ea eb : M Z) : M Z := x <- ea ;; y <- eb ;; ret (b2z (negb (x =? 0) || negb (y =? 0))).

(* an operand that always yields a value and leaves the state alone (a literal, a comparison of
   literals ...): the avoidance predicate of the generators for the skipped operand *)
Definition quiet (m : M Z) : Prop := forall s, exists v, m s = (Val v, s).
