(* C03 - traced operands: a call t(k, v) prints its label k and returns v, a call bad(k) prints k and
   fails.  With such operands the transcript is the event order, so "evaluated once, left to right"
   becomes an equation on the output.  All statements are for every function table that contains the
   two operand functions, every fuel (above the constant the operand functions need) and every state. *)
From Coq Require Import List ZArith Bool Arith Lia.
From Cb Require Import Lang.Syntax Lang.Sem Lang.Respect Lang.Theorems C03.Model C03.RefOrder.
Import ListNotations.
Local Open Scope Z_scope.

Lemma coerce_tlong z : in64 z = true -> coerce tlong z = Val z.
Proof. unfold coerce, in_range, range, tlong, in64. cbn. intros ->. reflexivity. Qed.

Lemma with_out_out s o : sout (with_out s o) = o.
Proof. reflexivity. Qed.
Lemma with_out_twice s o1 o2 : with_out (with_out s o1) o2 = with_out s o2.
Proof. reflexivity. Qed.
Lemma with_out_same s : with_out s (sout s) = s.
Proof. destruct s; reflexivity. Qed.
Lemma traced_app ks1 ks2 o : traced (ks1 ++ ks2) o = traced ks2 (traced ks1 o).
Proof. unfold traced. apply fold_left_app. Qed.
Lemma traced_cons k ks o : traced (k :: ks) o = traced ks (trace1 k o).
Proof. reflexivity. Qed.

Section Traced.
Variable funcs : list func.
Hypothesis Hfuncs : has_operand_funcs funcs.
Notation eval := (eval funcs).
Notation exec := (exec funcs).

(* unfolding equations used to step through the operand functions without unfolding [eval] itself *)
Lemma eval_num m z : eval (S m) (ENum z) = ret z.
Proof. reflexivity. Qed.
Lemma eval_var m x : eval (S m) (EVar x) = m_read x [].
Proof. reflexivity. Qed.
Lemma exec_print m nl args : exec (S m) (SPrint nl args) = (print_args (eval m) true args ;;; if nl then m_out ONl else ret tt).
Proof. reflexivity. Qed.
Lemma exec_return m e : exec (S m) (SReturn (Some e)) = (v <- eval m e ;; lift (Ret (Some v))).
Proof. reflexivity. Qed.
Lemma exec_decl m t x e : exec (S m) (SDecl false false t x (Some e)) = (v <- eval m e ;; m_declare false false t x [] [v]).
Proof. reflexivity. Qed.

(* one traced operand: value v, output extended by exactly "k\n", nothing else changed *)
Lemma tcall_eval n k v s : in64 k = true -> in64 v = true ->
  eval (S (S (S n))) (tcall k v) s = (Val v, with_out s (trace1 k (sout s))).
Proof.
  intros Hk Hv. destruct Hfuncs as [Ht _]. unfold tcall.
  rewrite (eval_call_eq funcs (S (S n)) f_t [ENum k; ENum v] t_fun Ht eq_refl).
  destruct s as [g fr st o].
  cbn [t_fun fparams fret fbody eval_args bind_params exec_list pty pname pdef].
  rewrite !eval_num, exec_print, exec_return. cbn [print_args]. rewrite !eval_var.
  unfold bind, ret, lift. cbn [fst snd].
  rewrite !(coerce_tlong _ Hk), !(coerce_tlong _ Hv).
  unfold m_push_frame, finally, map_ctl, m_declare. cbn [sglob sframes sstat sout coerce_all].
  rewrite !(coerce_tlong _ Hk). cbn [sframes sglob sstat sout fscopes ffn].
  cbn [coerce_all]. rewrite !(coerce_tlong _ Hv). cbn [sframes sglob sstat sout fscopes ffn].
  cbn -[coerce]. rewrite !(coerce_tlong _ Hv). reflexivity.
Qed.

(* one failing operand: prints its label, fails with a division by zero *)
Lemma bcall_eval n k s : in64 k = true ->
  eval (S (S (S (S n)))) (bcall k) s = (Fail EDiv0, with_out s (trace1 k (sout s))).
Proof.
  intros Hk. destruct Hfuncs as [_ Hb]. unfold bcall.
  rewrite (eval_call_eq funcs (S (S (S n))) f_bad [ENum k] bad_fun Hb eq_refl).
  destruct s as [g fr st o].
  cbn [bad_fun fparams fret fbody eval_args bind_params exec_list pty pname pdef].
  rewrite !eval_num, exec_print, exec_return, exec_decl. cbn [print_args]. rewrite !eval_var, !eval_num.
  rewrite (eval_bin_eq funcs (S n)). rewrite !eval_var.
  unfold bind, ret, lift. cbn [fst snd].
  rewrite !(coerce_tlong _ Hk).
  unfold m_push_frame, finally, map_ctl, m_declare. cbn [sglob sframes sstat sout coerce_all].
  rewrite !(coerce_tlong _ Hk). cbn [sframes sglob sstat sout fscopes ffn].
  cbn. reflexivity.
Qed.

Definition tcalls (kvs : list (Z * Z)) : list expr := map (fun kv => tcall (fst kv) (snd kv)) kvs.
Definition ok_kvs (kvs : list (Z * Z)) : Prop := Forall (fun kv => in64 (fst kv) = true /\ in64 (snd kv) = true) kvs.

(* a list of traced operands (any length): the values in list order, the labels printed in list
   order, each exactly once, nothing else changed *)
Lemma traced_list n kvs : forall s, ok_kvs kvs ->
  eval_list (eval (S (S (S n)))) (tcalls kvs) s = (Val (map snd kvs), with_out s (traced (map fst kvs) (sout s))).
Proof.
  induction kvs as [|[k v] r IH]; intros s H.
  - cbn. rewrite with_out_same. reflexivity.
  - inversion H as [|x l [Hk Hv] Hr]; subst. cbn [tcalls map fst snd]. rewrite eval_list_cons.
    unfold bind at 1. rewrite (tcall_eval n k v s Hk Hv).
    unfold bind at 1. fold (tcalls r). rewrite (IH _ Hr). rewrite with_out_out, with_out_twice, traced_cons. reflexivity.
Qed.

(* the same through the argument loop of a call whose parameters are long: each argument is
   evaluated once, in order, and converted to its parameter *)
Lemma coerce_all_ok kvs : ok_kvs kvs -> Forall (fun v => in64 v = true) (map snd kvs).
Proof. induction 1 as [|x l [_ Hv] _ IH]; constructor; assumption. Qed.

Lemma traced_args n kvs : forall ps s, ok_kvs kvs -> Forall (fun p => pty p = tlong) ps ->
  eval_args (eval (S (S (S n)))) ps (tcalls kvs) s = (Val (map snd kvs), with_out s (traced (map fst kvs) (sout s))).
Proof.
  induction kvs as [|[k v] r IH]; intros ps s H Hp.
  - cbn. rewrite with_out_same. reflexivity.
  - inversion H as [|x l [Hk Hv] Hr]; subst. cbn [fst snd] in Hk, Hv. cbn [tcalls map fst snd eval_args]. fold (tcalls r).
    unfold bind at 1. rewrite (tcall_eval n k v s Hk Hv).
    destruct ps as [|p pr].
    + unfold bind at 1. rewrite (IH [] _ Hr Hp). rewrite with_out_out, with_out_twice, traced_cons. reflexivity.
    + inversion Hp as [|p' l' Hp1 Hp2]; subst. unfold bind at 1. unfold lift at 1. rewrite Hp1, (coerce_tlong _ Hv).
      unfold bind at 1. rewrite (IH pr _ Hr Hp2). rewrite with_out_out, with_out_twice, traced_cons. reflexivity.
Qed.

(* index expressions of an access with any number of dimensions *)
Lemma traced_indices n a kvs s : ok_kvs kvs ->
  eval (S (S (S (S n)))) (EIdx a (tcalls kvs)) s =
  m_read a (map snd kvs) (with_out s (traced (map fst kvs) (sout s))).
Proof. intros H. rewrite eval_idx_eq. unfold bind. rewrite (traced_list n kvs s H). reflexivity. Qed.

(* a call with traced arguments: all arguments (left to right, once), then the callee *)
Lemma traced_call n f fd kvs s :
  find_func f funcs = Some fd ->
  (Nat.ltb (List.length (tcalls kvs)) (required (fparams fd))) || (Nat.ltb (List.length (fparams fd)) (List.length (tcalls kvs))) = false ->
  ok_kvs kvs -> Forall (fun p => pty p = tlong) (fparams fd) ->
  eval (S (S (S (S n)))) (ECall f (tcalls kvs)) s =
  (m_push_frame f ;;;
   finally (map_ctl (call_result (fret fd))
              (bind_params (eval (S (S (S n)))) (fparams fd) (map snd kvs) ;;; exec_list (exec (S (S (S n)))) (fbody fd))) pop_frame_st)
  (with_out s (traced (map fst kvs) (sout s))).
Proof.
  intros Hf Ha H Hp. rewrite (eval_call_eq funcs _ _ _ fd Hf Ha). unfold bind at 1.
  rewrite (traced_args n kvs _ s H Hp). reflexivity.
Qed.

(* binary operator: left label, right label, then the operator on the two values *)
Lemma traced_binop n o k1 v1 k2 v2 s :
  in64 k1 = true -> in64 v1 = true -> in64 k2 = true -> in64 v2 = true ->
  eval (S (S (S (S n)))) (EBin o (tcall k1 v1) (tcall k2 v2)) s =
  (arith o v1 v2, with_out s (trace1 k2 (trace1 k1 (sout s)))).
Proof.
  intros H1 H2 H3 H4.
  rewrite (binop_both_l funcs _ o _ _ s v1 _ v2 _ (tcall_eval n k1 v1 s H1 H2) (tcall_eval n k2 v2 _ H3 H4)).
  reflexivity.
Qed.

(* a failing left operand: its label, the error, and nothing of the right operand - whatever it is *)
Lemma failing_left_stops n k s : in64 k = true ->
  (forall o b, eval (S (S (S (S (S n))))) (EBin o (bcall k) b) s = (Fail EDiv0, with_out s (trace1 k (sout s)))) /\
  (forall b, eval (S (S (S (S (S n))))) (EAnd (bcall k) b) s = (Fail EDiv0, with_out s (trace1 k (sout s)))) /\
  (forall b, eval (S (S (S (S (S n))))) (EOr (bcall k) b) s = (Fail EDiv0, with_out s (trace1 k (sout s)))) /\
  (forall x y, eval (S (S (S (S (S n))))) (ECond (bcall k) x y) s = (Fail EDiv0, with_out s (trace1 k (sout s)))).
Proof.
  intros Hk. destruct (first_operand_fails_l funcs _ _ _ _ _ (bcall_eval n k s Hk)) as (A & B & C & D & _).
  repeat split; intros; auto.
Qed.

(* && with a traced left operand *)
Lemma traced_and_false n k b s : in64 k = true ->
  eval (S (S (S (S n)))) (EAnd (tcall k 0) b) s = (Val 0, with_out s (trace1 k (sout s))).
Proof. intros Hk. apply and_skips_rhs_l. apply tcall_eval; [exact Hk|reflexivity]. Qed.

Lemma traced_and_true n k1 v1 k2 v2 s :
  in64 k1 = true -> in64 v1 = true -> in64 k2 = true -> in64 v2 = true -> v1 <> 0 ->
  eval (S (S (S (S n)))) (EAnd (tcall k1 v1) (tcall k2 v2)) s =
  (Val (truth v2), with_out s (trace1 k2 (trace1 k1 (sout s)))).
Proof.
  intros H1 H2 H3 H4 Hnz. rewrite (and_runs_rhs_l funcs _ _ _ s v1 _ (tcall_eval n k1 v1 s H1 H2) Hnz).
  unfold bind. rewrite (tcall_eval n k2 v2 _ H3 H4). reflexivity.
Qed.

(* || with a traced left operand *)
Lemma traced_or_true n k v b s : in64 k = true -> in64 v = true -> v <> 0 ->
  eval (S (S (S (S n)))) (EOr (tcall k v) b) s = (Val 1, with_out s (trace1 k (sout s))).
Proof. intros Hk Hv Hnz. apply (or_skips_rhs_l funcs _ _ _ s v); [apply tcall_eval; assumption|exact Hnz]. Qed.

Lemma traced_or_false n k1 k2 v2 s :
  in64 k1 = true -> in64 k2 = true -> in64 v2 = true ->
  eval (S (S (S (S n)))) (EOr (tcall k1 0) (tcall k2 v2)) s =
  (Val (truth v2), with_out s (trace1 k2 (trace1 k1 (sout s)))).
Proof.
  intros H1 H3 H4. rewrite (or_runs_rhs_l funcs _ _ _ s _ (tcall_eval n k1 0 s H1 eq_refl)).
  unfold bind. rewrite (tcall_eval n k2 v2 _ H3 H4). reflexivity.
Qed.

(* ?: with a traced condition: the label of the condition, then the selected branch alone *)
Lemma traced_cond n k c a b s : in64 k = true -> in64 c = true ->
  eval (S (S (S (S n)))) (ECond (tcall k c) a b) s =
  if c =? 0 then eval (S (S (S n))) b (with_out s (trace1 k (sout s)))
  else eval (S (S (S n))) a (with_out s (trace1 k (sout s))).
Proof. intros Hk Hc. apply cond_one_branch_l. apply tcall_eval; assumption. Qed.
End Traced.

(* ------------------------------------------------------------------ the guards of the property text *)
Section Guards.
Variable funcs : list func.
Notation eval := (eval funcs).

Lemma m_read_state x i s : snd (m_read x i s) = s.
Proof. unfold m_read. destruct (get_entry x s); [|reflexivity]. destruct (flat_index _ _ _); reflexivity. Qed.

(* d = 0: the guard is false and the division is never reached - for ANY guarded operand *)
Lemma guard_zero_any k d x s : m_read d [] s = (Val 0, s) ->
  eval (S (S (S k))) (EAnd (EBin Ne (EVar d) (ENum 0)) x) s = (Val 0, s).
Proof.
  intros Hd. apply and_skips_rhs_l. rewrite eval_bin_eq. unfold bind.
  change (eval (S k) (EVar d)) with (m_read d []). rewrite Hd.
  change (eval (S k) (ENum 0)) with (@ret Z 0). reflexivity.
Qed.

Lemma guard_div_protects k d n s : m_read d [] s = (Val 0, s) -> eval (S (S (S k))) (guard_div d n) s = (Val 0, s).
Proof. apply guard_zero_any. Qed.

(* and it is needed: the guarded operand alone fails *)
Lemma unguarded_div_fails k d n nv s : m_read d [] s = (Val 0, s) -> m_read n [] s = (Val nv, s) ->
  eval (S (S (S k))) (EBin Gt (EBin Div (EVar n) (EVar d)) (ENum 1)) s = (Fail EDiv0, s).
Proof.
  intros Hd Hn. rewrite eval_bin_eq. unfold bind at 1. rewrite eval_bin_eq. unfold bind at 1.
  change (eval (S k) (EVar n)) with (m_read n []). rewrite Hn. unfold bind at 1.
  change (eval (S k) (EVar d)) with (m_read d []). rewrite Hd. reflexivity.
Qed.

(* d <> 0: the guard hands over to the division, which cannot fail for this reason *)
Lemma guard_div_open k d n dv nv s : m_read d [] s = (Val dv, s) -> m_read n [] s = (Val nv, s) -> dv <> 0 ->
  in64 (Z.quot nv dv) = true ->
  eval (S (S (S (S k)))) (guard_div d n) s = (Val (b2z (1 <? Z.quot nv dv)), s).
Proof.
  intros Hd Hn Hnz Hq. unfold guard_div.
  assert (HL : eval (S (S (S k))) (EBin Ne (EVar d) (ENum 0)) s = (Val 1, s)).
  { rewrite eval_bin_eq. unfold bind. change (eval (S (S k)) (EVar d)) with (m_read d []). rewrite Hd.
    change (eval (S (S k)) (ENum 0)) with (@ret Z 0). unfold ret, lift, arith.
    apply Z.eqb_neq in Hnz. rewrite Hnz. reflexivity. }
  rewrite (and_runs_rhs_l funcs _ _ _ s 1 s HL); [|discriminate].
  unfold bind at 1. rewrite eval_bin_eq. unfold bind at 1. rewrite eval_bin_eq. unfold bind at 1.
  change (eval (S k) (EVar n)) with (m_read n []). rewrite Hn. unfold bind at 1.
  change (eval (S k) (EVar d)) with (m_read d []). rewrite Hd.
  unfold lift at 1, arith at 1. apply Z.eqb_neq in Hnz. rewrite Hnz. unfold chk. rewrite Hq.
  unfold bind. change (eval (S (S k)) (ENum 1)) with (@ret Z 1). unfold ret, lift, arith, truth.
  destruct (1 <? Z.quot nv dv); reflexivity.
Qed.

(* i >= n: the bounds guard is false and the element is never read - whatever the array is *)
Lemma guard_idx_protects k i n a iv nv s :
  m_read i [] s = (Val iv, s) -> m_read n [] s = (Val nv, s) -> nv <= iv ->
  eval (S (S (S k))) (guard_idx i n a) s = (Val 0, s).
Proof.
  intros Hi Hn Hle. apply and_skips_rhs_l. rewrite eval_bin_eq. unfold bind.
  change (eval (S k) (EVar i)) with (m_read i []). rewrite Hi.
  change (eval (S k) (EVar n)) with (m_read n []). rewrite Hn.
  unfold lift, arith. assert (E : (iv <? nv) = false) by (apply Z.ltb_ge; exact Hle). rewrite E. reflexivity.
Qed.
End Guards.
