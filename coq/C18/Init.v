(* C18 - initialisers of exported variables: evaluated at import time against the tables as they are
   at that moment.  Induction principle for the nested expression type, the names an evaluation can
   read, the frame lemma of [eval], and the history invariant "an initialiser is evaluated after the
   module's preceding imports are complete and its preceding exports are bound". *)
From Coq Require Import List String Ascii Bool Arith Lia.
Import ListNotations.
From Cb Require Import C18.Model C18.Import.
Local Open Scope string_scope.
Local Open Scope list_scope.

(* ---------- induction over expressions (candidate bodies of a call are sub-expressions) *)
Lemma expr_ind2 : forall P : expr -> Prop,
  (forall v, P (ELit v)) -> P EParam -> (forall x, P (EVar x)) -> (forall en m, P (EEnum en m)) ->
  (forall a b, P a -> P b -> P (EAdd a b)) ->
  (forall f cands arg, Forall (fun c => P (snd c)) cands -> P arg -> P (ECall f cands arg)) ->
  forall e, P e.
Proof.
  intros P H1 H2 H3 H4 H5 H6. fix IH 1. intros [v| |x|en m|a b|f cands arg].
  - apply H1.
  - apply H2.
  - apply H3.
  - apply H4.
  - apply H5; apply IH.
  - apply H6; [|apply IH].
    revert cands. fix IHc 1. intros [|[b body] r].
    + constructor.
    + constructor; [apply IH|apply IHc].
Qed.

(* ---------- the bindings an evaluation can look at: every name in the expression and in every
   candidate body of every call (a static over-approximation of what the late-bound call reads) *)
Fixpoint ereads (e : expr) : list (tag * name) :=
  match e with
  | ELit _ | EParam => []
  | EVar x => [(TV, x)]
  | EEnum en _ => [(TE, en)]
  | EAdd a b => ereads a ++ ereads b
  | ECall f cands arg =>
      (TF, f) :: ereads arg ++
      (fix go (l : list (nat * expr)) : list (tag * name) :=
         match l with [] => [] | (_, body) :: r => ereads body ++ go r end) cands
  end.
Definition creads (cands : list (nat * expr)) : list (tag * name) := flat_map (fun c => ereads (snd c)) cands.
Lemma ereads_call : forall f cands arg, ereads (ECall f cands arg) = (TF, f) :: ereads arg ++ creads cands.
Proof.
  intros. cbn [ereads]. do 2 f_equal. unfold creads.
  induction cands as [|[b body] r IH]; [reflexivity|]. simpl. now rewrite IH.
Qed.

Lemma tlookup_TV_inj : forall k a b, tlookup TV k a = tlookup TV k b -> lookup k (vars a) = lookup k (vars b).
Proof.
  intros k a b H. simpl in H. destruct (lookup k (vars a)) as [[c1 v1]|], (lookup k (vars b)) as [[c2 v2]|];
    simpl in H; congruence.
Qed.
Lemma tlookup_TF_inj : forall k a b, tlookup TF k a = tlookup TF k b -> lookup k (funcs a) = lookup k (funcs b).
Proof. intros k a b H. simpl in H. destruct (lookup k (funcs a)), (lookup k (funcs b)); simpl in H; congruence. Qed.
Lemma tlookup_TE_inj : forall k a b, tlookup TE k a = tlookup TE k b -> lookup k (enums a) = lookup k (enums b).
Proof. intros k a b H. simpl in H. destruct (lookup k (enums a)), (lookup k (enums b)); simpl in H; congruence. Qed.

Lemma pick_body_ext : forall ev1 ev2 f b cands,
  Forall (fun c => ev1 (snd c) = ev2 (snd c)) cands -> pick_body ev1 f b cands = pick_body ev2 f b cands.
Proof.
  intros ev1 ev2 f b cands H. induction H as [|[b' body] r Hc _ IH]; [reflexivity|].
  simpl in *. destruct (Nat.eqb b b'); [exact Hc|exact IH].
Qed.

(* [eval] depends on the tables only through the bindings in [ereads] *)
Lemma eval_frame : forall e a b p,
  (forall g k, In (g, k) (ereads e) -> tlookup g k a = tlookup g k b) -> eval a p e = eval b p e.
Proof.
  induction e as [v| |x|en m|e1 e2 IH1 IH2|f cands arg IHc IHa] using expr_ind2; intros a b p H.
  - reflexivity.
  - reflexivity.
  - simpl. rewrite (tlookup_TV_inj x a b) by (apply H; simpl; auto). reflexivity.
  - simpl. rewrite (tlookup_TE_inj en a b) by (apply H; simpl; auto). reflexivity.
  - simpl. rewrite (IH1 a b p), (IH2 a b p); [reflexivity| |];
      intros g k Hin; apply H; simpl; apply in_app_iff; auto.
  - rewrite ereads_call in H. cbn [eval].
    rewrite (IHa a b p) by (intros g k Hin; apply H; right; apply in_app_iff; auto).
    destruct (eval b p arg) as [x|er]; [|reflexivity].
    rewrite (tlookup_TF_inj f a b) by (apply H; left; reflexivity).
    destruct (lookup f (funcs b)) as [bd|]; [|reflexivity].
    apply pick_body_ext. rewrite Forall_forall in *. intros c Hc. apply IHc; [assumption|].
    intros g k Hin. apply H. right. apply in_app_iff. right. unfold creads. apply in_flat_map. eauto.
Qed.

(* in particular: a step that writes none of the names the initialiser can read does not change its value *)
Lemma eval_after_step : forall o t t' p e,
  apply_op t o = Ok t' -> (forall x, In x (ereads e) -> ~ In x (op_writes o)) -> eval t' p e = eval t p e.
Proof.
  intros o t t' p e H Hd. apply eval_frame. intros g k Hin. eapply apply_frame; eauto.
Qed.

Lemma failing_initialiser_l : forall t ks c e er,
  eval t 0 e = VErr er -> apply_op t (OInit ks c e) = Err er.
Proof. intros t ks c e er H. simpl. now rewrite H. Qed.

Lemma lookup_init_binds : forall ks c w k (m : amap (bool * option nat)), In k ks ->
  lookup k (bind_all (init_binds ks c w) m) = Some (c, Some w).
Proof.
  induction ks as [|k0 r IH]; intros c w k m Hin; [destruct Hin|].
  change (bind_all (init_binds (k0 :: r) c w) m) with (bind_all (init_binds r c w) (bind k0 (c, Some w) m)).
  destruct (in_dec string_dec k r) as [Hr|Hn]; [now apply IH|].
  destruct Hin as [->|Hr]; [|contradiction].
  rewrite lookup_bind_all_notin by (now rewrite init_binds_keys). apply lookup_bind_eq.
Qed.

(* a constant bound by an import rejects assignment (formerly finding C18-imported-const-assignable) *)
Lemma init_const_rejects_assignment : forall t ks e t' k v,
  apply_op t (OInit ks true e) = Ok t' -> In k ks -> assign t' k v = Err (EConstAssign k).
Proof.
  intros t ks e t' k v H Hin. destruct (apply_init_ok _ _ _ _ _ H) as [w [_ ->]]. unfold assign. simpl.
  now rewrite (lookup_init_binds ks true w k (vars t) Hin).
Qed.

(* ---------- the history invariant.  [run_stmts ... (firstn k m) (mark_loaded p t)] is the state in
   which the loader reaches statement k of module p. *)
Lemma run_stmts_app : forall imp p l1 l2 t,
  run_stmts imp p (l1 ++ l2) t =
  match run_stmts imp p l1 t with Ok t1 => run_stmts imp p l2 t1 | Err e => Err e end.
Proof.
  intros imp p. induction l1 as [|s l1 IH]; intros l2 t; [reflexivity|].
  destruct s as [q|e d]; cbn [app run_stmts].
  - destruct (imp t q); [apply IH|reflexivity].
  - destruct (run_ops _ t); [apply IH|reflexivity].
Qed.

Lemma nth_split : forall (A : Type) (l : list A) k x, nth_error l k = Some x ->
  l = firstn k l ++ x :: skipn (S k) l.
Proof.
  induction l as [|a l IH]; intros [|k] x H; simpl in *; try discriminate.
  - now injection H as ->.
  - f_equal. now apply IH.
Qed.

Section History.
Variable pf : nat.
Variable fs : fsys.

(* what the statements of a module file leave behind, in the order they stand: every import is
   loaded (and complete when this run loaded it), every exported declaration is bound *)
Lemma stmts_prefix_done : forall p t l t', stmts pf fs p t l t' ->
  (forall r, In (SImport r) l -> mem r (loaded t') = true /\ (mem r (loaded t) = true \/ complete fs r t')) /\
  (forall d g k, In (SDecl true d) l -> In (g, k) (decl_keys p d) -> tlookup g k t' <> None).
Proof.
  intros p t l t' H. induction H as [p t|p t q r ta t2 Hi Hs [IH1 IH2]|p t e d r ta t2 Hr Hs [IH1 IH2]].
  - split; intros; simpl in *; tauto.
  - split.
    + intros x [Hx|Hx].
      * injection Hx as <-. split; [eapply stmts_mono; eauto; eapply imports_marks; eauto|].
        destruct (mem q (loaded t)) eqn:M; [now left|right].
        eapply complete_stmts; eauto.
        eapply (proj1 (newly_loaded_complete pf fs)); eauto. eapply imports_marks; eauto.
      * destruct (IH1 x Hx) as [L [M|C]]; split; auto.
        destruct (mem x (loaded t)) eqn:Mt; [now left|right].
        eapply complete_stmts; eauto.
        eapply (proj1 (newly_loaded_complete pf fs)); eauto.
    + intros d g k [Hd|Hd]; [discriminate|eauto].
  - pose proof (run_stmt_ops_loaded _ _ _ _ Hr) as L. split.
    + intros x [Hx|Hx]; [discriminate|]. rewrite <- L. auto.
    + intros d0 g k [Hd|Hd] Hk; [|eauto]. injection Hd as -> ->.
      eapply stmts_keeps; eauto. eapply run_defines; eauto.
Qed.

End History.

Lemma initialiser_sees_imports_l : forall fuel pf fs t p m t' k n c e,
  mem p (loaded t) = false -> resolve fs p = Some m ->
  handle_import (S fuel) pf fs t p = Ok t' ->
  nth_error m k = Some (SDecl true (DVar n c (Some e))) ->
  exists tk v,
    run_stmts (handle_import fuel pf fs) p (firstn k m) (mark_loaded p t) = Ok tk /\
    eval tk 0 e = VOk v /\
    (forall r, In (SImport r) (firstn k m) ->
       mem r (loaded tk) = true /\ (mem r (loaded t) = true \/ r = p \/ complete fs r tk)) /\
    (forall d g key, In (SDecl true d) (firstn k m) -> In (g, key) (decl_keys p d) -> tlookup g key tk <> None).
Proof.
  intros fuel pf fs t p m t' k n c e M R H Hn.
  rewrite handle_import_S, M, R in H.
  destruct (run_stmts (handle_import fuel pf fs) p m (mark_loaded p t)) as [t2|] eqn:E; [|discriminate].
  rewrite (nth_split _ m k _ Hn) in E. rewrite run_stmts_app in E.
  destruct (run_stmts (handle_import fuel pf fs) p (firstn k m) (mark_loaded p t)) as [tk|] eqn:Ek; [|discriminate].
  cbn [run_stmts import_stmt_ops] in E.
  assert (Hops : import_decl_ops p (DVar n c (Some e)) = [OInit [n; qualified p n] c e]) by (destruct c; reflexivity).
  rewrite Hops in E. cbn [run_ops] in E.
  destruct (apply_op tk (OInit [n; qualified p n] c e)) as [tk'|] eqn:Ea; [|discriminate].
  destruct (apply_init_ok _ _ _ _ _ Ea) as [v [Hv _]].
  exists tk, v. split; [reflexivity|]. split; [exact Hv|].
  pose proof (run_stmts_sound pf fs (handle_import fuel pf fs) p (handle_import_sound pf fs fuel) _ _ _ Ek) as Hs.
  destruct (stmts_prefix_done pf fs _ _ _ _ Hs) as [P1 P2]. split; [|exact P2].
  intros r Hr. destruct (P1 r Hr) as [L [Ml|C]]; split; auto.
  simpl in Ml. destruct (String.eqb_spec r p); auto.
Qed.
