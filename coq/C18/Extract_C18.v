(* Extraction of the C18 loader model to OCaml (ExtrOcamlBasic + ExtrOcamlString only; nat stays unary). *)
From Coq Require Import Extraction ExtrOcamlBasic ExtrOcamlString.
From Cb Require Import C18.Model C18.Front.
Extraction Language OCaml.
Extraction "C18/c18_model.ml" start_program load handle_import resolve file_path_of search_paths lookup
  find_ctor empty_tables parser_impls handle_inline run_ops block eval assign
  parse_item parse_module parse_file parse_fs import_env sresolve.
