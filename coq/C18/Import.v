(* C18 - lemmas about the loader model (Model.v): frames, loaded_modules, visibility. *)
From Coq Require Import List String Ascii Bool Arith Lia Permutation.
Import ListNotations.
From Cb Require Import C18.Model.
Local Open Scope string_scope.
Local Open Scope list_scope.

(* ---------- association tables *)
Lemma lookup_bind_eq : forall V k (v : V) m, lookup k (bind k v m) = Some v.
Proof. intros. unfold bind. simpl. now rewrite String.eqb_refl. Qed.
Lemma lookup_bind_neq : forall V k k' (v : V) m, k <> k' -> lookup k (bind k' v m) = lookup k m.
Proof. intros. unfold bind. simpl. apply String.eqb_neq in H. now rewrite H. Qed.

Lemma bind_all_app : forall V (a b : list (name * V)) m, bind_all (a ++ b) m = bind_all b (bind_all a m).
Proof. intros. unfold bind_all. now rewrite fold_left_app. Qed.

Lemma lookup_bind_all_notin : forall V (ws : list (name * V)) m k,
  ~ In k (map fst ws) -> lookup k (bind_all ws m) = lookup k m.
Proof.
  induction ws as [|[k' v] ws IH]; intros m k H; simpl in *; [reflexivity|].
  unfold bind_all in *. simpl. rewrite IH by tauto. apply lookup_bind_neq. intro; subst; tauto.
Qed.

(* congruence: the result of bind_all on a key depends on the old table only through that key *)
Lemma lookup_bind_all_congr : forall V (ws : list (name * V)) m1 m2 k,
  lookup k m1 = lookup k m2 -> lookup k (bind_all ws m1) = lookup k (bind_all ws m2).
Proof.
  induction ws as [|[k' v] ws IH]; intros m1 m2 k H; simpl; [exact H|].
  unfold bind_all in *. simpl. apply IH. unfold bind. simpl. destruct (String.eqb k k'); auto.
Qed.

Lemma lookup_bind_all_in : forall V (ws : list (name * V)) m k,
  In k (map fst ws) -> exists v, lookup k (bind_all ws m) = Some v.
Proof.
  induction ws as [|[k' v] ws IH]; intros m k H; simpl in *; [tauto|].
  unfold bind_all in *. simpl.
  destruct (in_dec string_dec k (map fst ws)) as [Hin|Hni].
  - now apply IH.
  - destruct H as [->|H]; [|tauto].
    exists v. fold (bind_all ws (bind k v m)). rewrite lookup_bind_all_notin by assumption. apply lookup_bind_eq.
Qed.

Opaque bind.

Ltac enum_case H :=
  match type of H with
  | context [match lookup ?k (enums ?t) with _ => _ end] => destruct (lookup k (enums t)) eqn:?EL
  end.

Lemma mem_true_iff : forall x l, mem x l = true <-> In x l.
Proof.
  induction l; simpl; [split; [discriminate|tauto]|].
  destruct (String.eqb_spec x a); subst; split; intros; auto.
  - right. now apply IHl.
  - destruct H; [congruence|]. now apply IHl.
Qed.
Lemma mem_false_iff : forall x l, mem x l = false <-> ~ In x l.
Proof. intros. rewrite <- mem_true_iff. destruct (mem x l); split; intros; congruence. Qed.

(* ---------- run_ops *)
Lemma run_ops_app : forall a b t,
  run_ops (a ++ b) t = match run_ops a t with Ok t' => run_ops b t' | Err e => Err e end.
Proof. induction a; intros; simpl; [reflexivity|]. destruct (apply_op t a); auto. Qed.

(* ---------- uniform view of the map-like tables *)
Inductive tag := TF | TS | TI | TT | TV | TE | TD.
Inductive tval :=
| VF (b : nat) | VS (d : sdef) | VI (ms : list name) | VT (x : name) | VV (c : bool) (v : option nat)
| VE (ms : list (name * nat)) | VD (b : nat).
Definition tlookup (g : tag) (k : name) (t : tables) : option tval :=
  match g with
  | TF => option_map VF (lookup k (funcs t))
  | TS => option_map VS (lookup k (structs t))
  | TI => option_map VI (lookup k (ifaces t))
  | TT => option_map VT (lookup k (typedefs t))
  | TV => option_map (fun p => VV (fst p) (snd p)) (lookup k (vars t))
  | TE => option_map VE (lookup k (enums t))
  | TD => option_map VD (lookup k (dtors t))
  end.

Definition tag_eq_dec : forall a b : tag, {a = b} + {a <> b}. Proof. decide equality. Defined.
Definition tk_eq_dec : forall a b : tag * name, {a = b} + {a <> b}.
Proof. decide equality; [apply string_dec|apply tag_eq_dec]. Defined.

(* keys of the map-like tables an op (re)binds *)
Definition op_writes (o : op) : list (tag * name) :=
  match o with
  | OFunc k _ => [(TF, k)]
  | OStruct k _ => [(TS, k)]
  | OIface k _ => [(TI, k)]
  | OTypedef k _ => [(TT, k)]
  | OVar k _ _ => [(TV, k)]
  | OInit ks _ _ => map (fun k => (TV, k)) ks
  | OEnum k _ => [(TE, k)]
  | ODtor s _ => [(TD, s)]
  | OImpl d => map (fun w => (TF, fst w)) (method_binds d)
  | _ => []
  end.

Lemma in_map_TF : forall (ws : list (name * nat)) k,
  In (TF, k) (map (fun w => (TF, fst w)) ws) <-> In k (map fst ws).
Proof.
  induction ws; simpl; [tauto|]. intros. rewrite IHws. split; intros [H|H]; auto; left; congruence.
Qed.

Lemma in_map_TV : forall (ks : list name) k, In (TV, k) (map (fun k => (TV, k)) ks) <-> In k ks.
Proof.
  induction ks; simpl; [tauto|]. intros. rewrite IHks. split; intros [H|H]; auto; left; congruence.
Qed.
Lemma init_binds_keys : forall ks c v, map fst (init_binds ks c v) = ks.
Proof. intros. unfold init_binds. rewrite map_map. simpl. apply map_id. Qed.

(* an initialiser step: it succeeded with some value and bound exactly its keys *)
Lemma apply_init_ok : forall t ks c e t', apply_op t (OInit ks c e) = Ok t' ->
  exists v, eval t 0 e = VOk v /\ t' = set_vars t (bind_all (init_binds ks c v) (vars t)).
Proof.
  intros t ks c e t' H. simpl in H. destruct (eval t 0 e) as [v|er]; [|discriminate].
  injection H as <-. eauto.
Qed.

Lemma apply_frame : forall o t t' g k,
  apply_op t o = Ok t' -> ~ In (g, k) (op_writes o) -> tlookup g k t' = tlookup g k t.
Proof.
  intros o t t' g k H Hn.
  destruct (match o with OInit _ _ _ => true | _ => false end) eqn:Eo.
  { destruct o; try discriminate. destruct (apply_init_ok _ _ _ _ _ H) as [v [_ ->]].
    destruct g; simpl; try reflexivity. rewrite lookup_bind_all_notin; [reflexivity|].
    rewrite init_binds_keys. intro Hin. apply Hn. simpl. now apply in_map_TV. }
  destruct o; try discriminate Eo; simpl in H; try enum_case H;
    try (injection H as <-; destruct g; simpl in *; try reflexivity;
         rewrite lookup_bind_neq; [reflexivity|intro; subst; apply Hn; left; reflexivity]);
    try (injection H as <-; destruct g; reflexivity);
    try discriminate.
  (* OImpl *)
  assert (Hk : g = TF -> ~ In k (map fst (method_binds d))).
  { intros -> Hin. apply Hn. simpl. now apply in_map_TF. }
  destruct (has_impl _ _ _).
  - injection H as <-. destruct g; simpl; try reflexivity.
    now rewrite lookup_bind_all_notin by auto.
  - destruct (find_conflict _ _); [discriminate|]. injection H as <-. destruct g; simpl; try reflexivity.
    now rewrite lookup_bind_all_notin by auto.
Qed.

Lemma run_frame : forall ops t t' g k,
  run_ops ops t = Ok t' -> ~ In (g, k) (flat_map op_writes ops) -> tlookup g k t' = tlookup g k t.
Proof.
  induction ops as [|o ops IH]; intros t t' g k H Hn; simpl in *.
  - now injection H as <-.
  - destruct (apply_op t o) as [t1|] eqn:E; [|discriminate].
    rewrite in_app_iff in Hn. rewrite (IH t1 t') by tauto. eapply apply_frame; eauto.
Qed.

(* a changed binding was written by one of the ops *)
Lemma run_changed : forall ops t t' g k,
  run_ops ops t = Ok t' -> tlookup g k t' <> tlookup g k t -> In (g, k) (flat_map op_writes ops).
Proof.
  intros. destruct (in_dec tk_eq_dec (g, k) (flat_map op_writes ops)); [assumption|].
  exfalso. apply H0. eapply run_frame; eauto.
Qed.

(* bindings never disappear, and a written key is bound afterwards *)
Lemma apply_keeps : forall o t t' g k,
  apply_op t o = Ok t' -> tlookup g k t <> None -> tlookup g k t' <> None.
Proof.
  intros o t t' g k H Hd.
  destruct (in_dec tk_eq_dec (g, k) (op_writes o)) as [Hin|Hni].
  2:{ now rewrite (apply_frame _ _ _ _ _ H Hni). }
  destruct (match o with OInit _ _ _ => true | _ => false end) eqn:Eo.
  { destruct o; try discriminate. destruct (apply_init_ok _ _ _ _ _ H) as [v [_ ->]].
    simpl in Hin. apply in_map_iff in Hin. destruct Hin as [k0 [Hk0 Hin]]. injection Hk0 as <- <-.
    simpl. destruct (lookup_bind_all_in _ (init_binds ks c v) (vars t) k0) as [w ->]; [|discriminate].
    now rewrite init_binds_keys. }
  destruct o; try discriminate Eo; simpl in H, Hin; try tauto;
    try (enum_case H; [injection H as <-; destruct Hin as [Hin|[]]; injection Hin as <- <-; simpl; rewrite EL; discriminate|]);
    try (destruct Hin as [Hin|[]]; injection Hin as <- <-; injection H as <-; simpl;
         rewrite lookup_bind_eq; discriminate).
  apply in_map_iff in Hin. destruct Hin as [w [Hw Hin]]. injection Hw as <- <-.
  assert (Hk : In (fst w) (map fst (method_binds d))) by (apply in_map; assumption).
  destruct (has_impl _ _ _).
  - injection H as <-. simpl. destruct (lookup_bind_all_in _ (method_binds d) (funcs t) _ Hk) as [v ->]. discriminate.
  - destruct (find_conflict _ _); [discriminate|]. injection H as <-. simpl.
    destruct (lookup_bind_all_in _ (method_binds d) (funcs t) _ Hk) as [v ->]. discriminate.
Qed.

Lemma apply_defines : forall o t t' g k,
  apply_op t o = Ok t' -> In (g, k) (op_writes o) -> tlookup g k t' <> None.
Proof.
  intros o t t' g k H Hin.
  destruct (match o with OInit _ _ _ => true | _ => false end) eqn:Eo.
  { destruct o; try discriminate. destruct (apply_init_ok _ _ _ _ _ H) as [v [_ ->]].
    simpl in Hin. apply in_map_iff in Hin. destruct Hin as [k0 [Hk0 Hin]]. injection Hk0 as <- <-.
    simpl. destruct (lookup_bind_all_in _ (init_binds ks c v) (vars t) k0) as [w ->]; [|discriminate].
    now rewrite init_binds_keys. }
  destruct o; try discriminate Eo; simpl in H, Hin; try tauto;
    try (enum_case H; [injection H as <-; destruct Hin as [Hin|[]]; injection Hin as <- <-; simpl; rewrite EL; discriminate|]);
    try (destruct Hin as [Hin|[]]; injection Hin as <- <-; injection H as <-; simpl;
         rewrite lookup_bind_eq; discriminate).
  apply in_map_iff in Hin. destruct Hin as [w [Hw Hin]]. injection Hw as <- <-.
  assert (Hk : In (fst w) (map fst (method_binds d))) by (apply in_map; assumption).
  destruct (has_impl _ _ _).
  - injection H as <-. simpl. destruct (lookup_bind_all_in _ (method_binds d) (funcs t) _ Hk) as [v ->]. discriminate.
  - destruct (find_conflict _ _); [discriminate|]. injection H as <-. simpl.
    destruct (lookup_bind_all_in _ (method_binds d) (funcs t) _ Hk) as [v ->]. discriminate.
Qed.

Lemma run_keeps : forall ops t t' g k,
  run_ops ops t = Ok t' -> tlookup g k t <> None -> tlookup g k t' <> None.
Proof.
  induction ops as [|o ops IH]; intros t t' g k H Hd; simpl in *.
  - now injection H as <-.
  - destruct (apply_op t o) as [t1|] eqn:E; [|discriminate]. eapply IH; eauto. eapply apply_keeps; eauto.
Qed.

Lemma run_defines : forall ops t t' g k,
  run_ops ops t = Ok t' -> In (g, k) (flat_map op_writes ops) -> tlookup g k t' <> None.
Proof.
  induction ops as [|o ops IH]; intros t t' g k H Hin; simpl in *; [tauto|].
  destruct (apply_op t o) as [t1|] eqn:E; [|discriminate].
  apply in_app_iff in Hin. destruct Hin as [Hin|Hin].
  - eapply run_keeps; eauto. eapply apply_defines; eauto.
  - eapply IH; eauto.
Qed.

(* ---------- loaded_modules *)
Definition op_loads (o : op) : list name := match o with OLoaded p => [p] | _ => [] end.

Lemma apply_loaded : forall o t t', apply_op t o = Ok t' -> loaded t' = op_loads o ++ loaded t.
Proof.
  intros o t t' H. destruct o; simpl in H; try enum_case H; try (injection H as <-; reflexivity); try discriminate.
  - destruct (has_impl _ _ _); [injection H as <-; reflexivity|].
    destruct (find_conflict _ _); [discriminate|injection H as <-; reflexivity].
  - destruct (eval t 0 e); [injection H as <-; reflexivity|discriminate].
Qed.

Lemma run_loaded : forall ops t t',
  run_ops ops t = Ok t' -> loaded t' = rev (flat_map op_loads ops) ++ loaded t.
Proof.
  induction ops as [|o ops IH]; intros t t' H; simpl in *.
  - now injection H as <-.
  - destruct (apply_op t o) as [t1|] eqn:E; [|discriminate].
    rewrite (IH _ _ H), (apply_loaded _ _ _ E). rewrite rev_app_distr, <- app_assoc.
    destruct o; reflexivity.
Qed.

Lemma loads_import_stmt : forall p s, flat_map op_loads (import_stmt_ops p s) = [].
Proof.
  intros p [q|[|] d]; simpl; try reflexivity.
  destruct d; simpl; try reflexivity. destruct is_const, init; reflexivity.
Qed.
Lemma loads_sync : forall d, flat_map op_loads (sync_ops d) = [].
Proof.
  intros. unfold sync_ops. rewrite !flat_map_app.
  assert (flat_map op_loads (map (fun v => OStatic (im_iface d) (im_struct d) v) (im_statics d)) = []) as ->
    by (induction (im_statics d); simpl; auto).
  assert (flat_map op_loads (map (fun c => OCtor (im_struct d) (fst c) (snd c)) (im_ctors d)) = []) as ->
    by (induction (im_ctors d); simpl; auto).
  destruct (im_dtor d); reflexivity.
Qed.
Lemma flat_map_flat_map_nil : forall A B C (f : A -> list B) (g : B -> list C) l,
  (forall a, flat_map g (f a) = []) -> flat_map g (flat_map f l) = [].
Proof. induction l; intros; simpl; [reflexivity|]. rewrite flat_map_app, H, IHl; auto. Qed.

Lemma run_stmt_ops_loaded : forall p s t t', run_ops (import_stmt_ops p s) t = Ok t' -> loaded t' = loaded t.
Proof. intros. apply run_loaded in H. now rewrite loads_import_stmt in H. Qed.
Lemma run_sync_loaded : forall l t t', run_ops (flat_map sync_ops l) t = Ok t' -> loaded t' = loaded t.
Proof. intros. apply run_loaded in H. rewrite flat_map_flat_map_nil in H by apply loads_sync. exact H. Qed.

(* ---------- decidable equality of table values *)
Definition option_eq_dec {A} (d : forall a b : A, {a = b} + {a <> b}) : forall a b : option A, {a = b} + {a <> b}.
Proof. decide equality. Defined.
Definition prod_eq_dec {A B} (da : forall a b : A, {a = b} + {a <> b}) (db : forall a b : B, {a = b} + {a <> b})
  : forall a b : A * B, {a = b} + {a <> b}.
Proof. decide equality. Defined.
Definition member_eq_dec : forall a b : member, {a = b} + {a <> b}.
Proof. decide equality; [apply (option_eq_dec Nat.eq_dec)|apply string_dec]. Defined.
Definition sdef_eq_dec : forall a b : sdef, {a = b} + {a <> b}.
Proof. decide equality; [apply (list_eq_dec member_eq_dec)|apply bool_dec]. Defined.
Definition tval_eq_dec : forall a b : tval, {a = b} + {a <> b}.
Proof.
  decide equality; try apply Nat.eq_dec; try apply string_dec; try apply bool_dec.
  - apply sdef_eq_dec.
  - apply (list_eq_dec string_dec).
  - apply (option_eq_dec Nat.eq_dec).
  - apply (list_eq_dec (prod_eq_dec string_dec Nat.eq_dec)).
Defined.
Definition otval_eq_dec : forall a b : option tval, {a = b} + {a <> b} := option_eq_dec tval_eq_dec.

(* ---------- what one module writes itself *)
Definition decl_keys (module_path : name) (d : decl) : list (tag * name) :=
  flat_map op_writes (import_decl_ops module_path d).

Lemma writes_sync : forall d g k,
  In (g, k) (flat_map op_writes (sync_ops d)) ->
  (g = TF /\ In k (map fst (method_binds d))) \/ (g = TD /\ k = im_struct d /\ im_dtor d <> None).
Proof.
  intros d g k H. unfold sync_ops in H. rewrite !flat_map_app in H. rewrite !in_app_iff in H.
  destruct H as [H|[H|[H|H]]].
  - exfalso. induction (im_statics d); simpl in H; auto.
  - exfalso. induction (im_ctors d); simpl in H; auto.
  - destruct (im_dtor d); simpl in H; [|tauto]. destruct H as [H|[]]. injection H as <- <-.
    right. repeat split. discriminate.
  - simpl in H. rewrite app_nil_r in H. left.
    apply in_map_iff in H. destruct H as [w [Hw Hin]]. injection Hw as <- <-. split; [reflexivity|].
    now apply in_map.
Qed.

(* the bindings module q (file m) can write: exported declarations, or impl blocks of its parser *)
Definition written_by (pf : nat) (fs : fsys) (q : name) (m : module) (g : tag) (k : name) : Prop :=
  (exists d, In (SDecl true d) m /\ In (g, k) (decl_keys q d)) \/
  (exists d, In d (parser_impls pf fs m) /\
     ((g = TF /\ In k (map fst (method_binds d))) \/ (g = TD /\ k = im_struct d /\ im_dtor d <> None))).

Lemma writes_stmt_ops : forall p e d g k,
  In (g, k) (flat_map op_writes (import_stmt_ops p (SDecl e d))) -> e = true /\ In (g, k) (decl_keys p d).
Proof. intros p [|] d g k H; simpl in H; [split; [reflexivity|exact H]|tauto]. Qed.

Lemma writes_syncs : forall l g k, In (g, k) (flat_map op_writes (flat_map sync_ops l)) ->
  exists d, In d l /\ ((g = TF /\ In k (map fst (method_binds d))) \/ (g = TD /\ k = im_struct d /\ im_dtor d <> None)).
Proof.
  intros l g k H. apply in_flat_map in H. destruct H as [o [Ho Hw]].
  apply in_flat_map in Ho. destruct Ho as [d [Hd Ho]].
  exists d. split; [assumption|]. apply writes_sync. apply in_flat_map. eauto.
Qed.

(* ====================================================================================== *)
(* the recursive loader as a big-step relation (successful runs), for rule induction *)
Section Loader.
Variable pf : nat.
Variable fs : fsys.

Inductive imports : tables -> name -> tables -> Prop :=
| imp_skip : forall t p, mem p (loaded t) = true -> imports t p t
| imp_load : forall t p m t2 t', mem p (loaded t) = false -> resolve fs p = Some m ->
    stmts p (mark_loaded p t) m t2 ->
    run_ops (flat_map sync_ops (parser_impls pf fs m)) t2 = Ok t' -> imports t p t'
with stmts : name -> tables -> module -> tables -> Prop :=
| st_nil : forall p t, stmts p t [] t
| st_import : forall p t q r ta t2, imports t q ta -> stmts p ta r t2 -> stmts p t (SImport q :: r) t2
| st_decl : forall p t e d r ta t2, run_ops (import_stmt_ops p (SDecl e d)) t = Ok ta ->
    stmts p ta r t2 -> stmts p t (SDecl e d :: r) t2.

Scheme imports_min := Minimality for imports Sort Prop
  with stmts_min := Minimality for stmts Sort Prop.
Combined Scheme loader_ind from imports_min, stmts_min.

Lemma run_stmts_sound : forall imp p,
  (forall t q t', imp t q = Ok t' -> imports t q t') ->
  forall l t t', run_stmts imp p l t = Ok t' -> stmts p t l t'.
Proof.
  intros imp p Himp. induction l as [|s l IH]; intros t t' H.
  - injection H as <-. constructor.
  - destruct s as [q|e d]; cbn [run_stmts] in H.
    + destruct (imp t q) as [ta|] eqn:E; [|discriminate]. econstructor; eauto.
    + destruct (run_ops (import_stmt_ops p (SDecl e d)) t) as [ta|] eqn:E; [|discriminate]. econstructor; eauto.
Qed.

Lemma handle_import_sound : forall fuel t p t', handle_import fuel pf fs t p = Ok t' -> imports t p t'.
Proof.
  induction fuel as [|f IH]; intros t p t' H; simpl in H.
  - destruct (mem p (loaded t)) eqn:M; [|discriminate]. injection H as <-. now constructor.
  - destruct (mem p (loaded t)) eqn:M.
    + injection H as <-. now constructor.
    + destruct (resolve fs p) as [m|] eqn:R; [|discriminate].
      destruct (run_stmts (handle_import f pf fs) p m (mark_loaded p t)) as [t2|] eqn:E; [|discriminate].
      eapply imp_load; eauto. eapply run_stmts_sound; eauto.
Qed.

(* ---------- monotonicity: loaded modules stay loaded, bindings stay bound, the module is marked *)
Lemma mono_keeps :
  (forall t p t', imports t p t' ->
     (forall q, mem q (loaded t) = true -> mem q (loaded t') = true) /\ mem p (loaded t') = true /\
     (forall g k, tlookup g k t <> None -> tlookup g k t' <> None)) /\
  (forall p t l t', stmts p t l t' ->
     (forall q, mem q (loaded t) = true -> mem q (loaded t') = true) /\
     (forall g k, tlookup g k t <> None -> tlookup g k t' <> None)).
Proof.
  apply loader_ind.
  - intros t p M. auto.
  - intros t p m t2 t' M R _ [IH1 IH2] Hs.
    pose proof (run_sync_loaded _ _ _ Hs) as L.
    split; [|split].
    + intros q Hq. rewrite L. apply IH1. simpl. rewrite Hq. now destruct (String.eqb q p).
    + rewrite L. apply IH1. simpl. now rewrite String.eqb_refl.
    + intros g k Hd. eapply run_keeps; eauto.
  - intros. auto.
  - intros p t q r ta t2 _ [I1 [_ I3]] _ [S1 S2]. split; auto.
  - intros p t e d r ta t2 Hr _ [S1 S2]. split.
    + intros q Hq. apply S1. now rewrite (run_stmt_ops_loaded _ _ _ _ Hr).
    + intros g k Hd. apply S2. eapply run_keeps; eauto.
Qed.

Lemma imports_mono : forall t p t' q, imports t p t' -> mem q (loaded t) = true -> mem q (loaded t') = true.
Proof. intros t p t' q H. apply (proj1 mono_keeps) in H. destruct H as [H _]. auto. Qed.
Lemma imports_marks : forall t p t', imports t p t' -> mem p (loaded t') = true.
Proof. intros t p t' H. apply (proj1 mono_keeps) in H. tauto. Qed.
Lemma imports_keeps : forall t p t' g k, imports t p t' -> tlookup g k t <> None -> tlookup g k t' <> None.
Proof. intros t p t' g k H. apply (proj1 mono_keeps) in H. destruct H as [_ [_ H]]. auto. Qed.
Lemma stmts_mono : forall p t l t' q, stmts p t l t' -> mem q (loaded t) = true -> mem q (loaded t') = true.
Proof. intros p t l t' q H. apply (proj2 mono_keeps) in H. destruct H as [H _]. auto. Qed.
Lemma stmts_keeps : forall p t l t' g k, stmts p t l t' -> tlookup g k t <> None -> tlookup g k t' <> None.
Proof. intros p t l t' g k H. apply (proj2 mono_keeps) in H. destruct H as [_ H]. auto. Qed.

(* ---------- every newly loaded module is complete: its own imports are loaded, its exports bound *)
Definition complete (q : name) (t : tables) : Prop :=
  exists m, resolve fs q = Some m /\
    (forall r, In (SImport r) m -> mem r (loaded t) = true) /\
    (forall d g k, In (SDecl true d) m -> In (g, k) (decl_keys q d) -> tlookup g k t <> None).

Lemma complete_imports : forall q t p t', imports t p t' -> complete q t -> complete q t'.
Proof.
  intros q t p t' H [m [R [C1 C2]]]. exists m. repeat split; auto.
  - intros r Hr. eapply imports_mono; eauto.
  - intros d g k Hd Hk. eapply imports_keeps; eauto.
Qed.
Lemma complete_stmts : forall q p t l t', stmts p t l t' -> complete q t -> complete q t'.
Proof.
  intros q p t l t' H [m [R [C1 C2]]]. exists m. repeat split; auto.
  - intros r Hr. eapply stmts_mono; eauto.
  - intros d g k Hd Hk. eapply stmts_keeps; eauto.
Qed.
Lemma complete_run : forall q ops t t', run_ops ops t = Ok t' -> loaded t' = loaded t -> complete q t -> complete q t'.
Proof.
  intros q ops t t' H L [m [R [C1 C2]]]. exists m. repeat split; auto.
  - intros r Hr. rewrite L. auto.
  - intros d g k Hd Hk. eapply run_keeps; eauto.
Qed.

Lemma newly_loaded_complete :
  (forall t p t', imports t p t' ->
     forall q, mem q (loaded t) = false -> mem q (loaded t') = true -> complete q t') /\
  (forall p t l t', stmts p t l t' ->
     (forall q, mem q (loaded t) = false -> mem q (loaded t') = true -> complete q t') /\
     (forall r, In (SImport r) l -> mem r (loaded t') = true) /\
     (forall d g k, In (SDecl true d) l -> In (g, k) (decl_keys p d) -> tlookup g k t' <> None)).
Proof.
  apply loader_ind.
  - intros t p M q H1 H2. congruence.
  - intros t p m t2 t' M R Hst [I1 [I2 I3]] Hs q H1 H2.
    pose proof (run_sync_loaded _ _ _ Hs) as L.
    destruct (String.eqb_spec q p) as [->|N].
    + exists m. repeat split; auto.
      * intros r Hr. rewrite L. auto.
      * intros d g k Hd Hk. eapply run_keeps; eauto.
    + eapply complete_run; eauto. apply I1.
      * simpl. apply String.eqb_neq in N. now rewrite N.
      * now rewrite <- L.
  - intros p t. repeat split; intros; simpl in *; try tauto. congruence.
  - intros p t q r ta t2 Hi I Hs [S1 [S2 S3]]. repeat split.
    + intros x H1 H2. destruct (mem x (loaded ta)) eqn:E.
      * eapply complete_stmts; eauto.
      * auto.
    + intros x [Hx|Hx]; [injection Hx as <-|auto]. eapply stmts_mono; eauto. eapply imports_marks; eauto.
    + intros d g k [Hd|Hd]; [discriminate|]. eauto.
  - intros p t e d r ta t2 Hr Hs [S1 [S2 S3]].
    pose proof (run_stmt_ops_loaded _ _ _ _ Hr) as L. repeat split.
    + intros x H1 H2. apply S1; auto. now rewrite L.
    + intros x [Hx|Hx]; [discriminate|auto].
    + intros d0 g k [Hd|Hd] Hk; [|eauto]. injection Hd as -> ->.
      eapply stmts_keeps; eauto. eapply run_defines; eauto.
Qed.

(* ---------- a changed binding was written by a newly loaded module *)
Definition by_new (t t' : tables) (g : tag) (k : name) : Prop :=
  exists q m, mem q (loaded t) = false /\ mem q (loaded t') = true /\ resolve fs q = Some m /\ written_by pf fs q m g k.

Lemma changed_by_new :
  (forall t p t', imports t p t' -> forall g k, tlookup g k t' <> tlookup g k t -> by_new t t' g k) /\
  (forall p t l t', stmts p t l t' -> forall g k, tlookup g k t' <> tlookup g k t ->
     by_new t t' g k \/ (exists d, In (SDecl true d) l /\ In (g, k) (decl_keys p d))).
Proof.
  apply loader_ind.
  - intros t p M g k H. congruence.
  - intros t p m t2 t' M R Hst IH Hs g k H.
    pose proof (run_sync_loaded _ _ _ Hs) as L.
    assert (Hp : mem p (loaded t') = true).
    { rewrite L. eapply stmts_mono; eauto. simpl. now rewrite String.eqb_refl. }
    destruct (otval_eq_dec (tlookup g k t') (tlookup g k t2)) as [E|N].
    + rewrite E in H. assert (H' : tlookup g k t2 <> tlookup g k (mark_loaded p t)) by (destruct g; exact H).
      destruct (IH g k H') as [[q [mq [Q1 [Q2 [Q3 Q4]]]]]|[d [Hd Hk]]].
      * exists q, mq. repeat split; auto.
        -- simpl in Q1. destruct (String.eqb q p); [discriminate|exact Q1].
        -- now rewrite L.
      * exists p, m. repeat split; auto. left. eauto.
    + exists p, m. repeat split; auto. right.
      apply writes_syncs. eapply run_changed; eauto.
  - intros p t g k H. congruence.
  - intros p t q r ta t2 Hi I Hs S g k H.
    destruct (otval_eq_dec (tlookup g k t2) (tlookup g k ta)) as [E|N].
    + rewrite E in H. destruct (I g k H) as [x [mx [Q1 [Q2 [Q3 Q4]]]]]. left.
      exists x, mx. repeat split; auto. eapply stmts_mono; eauto.
    + destruct (S g k N) as [[x [mx [Q1 [Q2 [Q3 Q4]]]]]|[d [Hd Hk]]].
      * left. exists x, mx. repeat split; auto.
        destruct (mem x (loaded t)) eqn:E; [|reflexivity].
        rewrite (imports_mono _ _ _ _ Hi E) in Q1. discriminate.
      * right. exists d. split; [now right|assumption].
  - intros p t e d r ta t2 Hr Hs S g k H.
    pose proof (run_stmt_ops_loaded _ _ _ _ Hr) as L.
    destruct (otval_eq_dec (tlookup g k t2) (tlookup g k ta)) as [E|N].
    + rewrite E in H. right. apply (run_changed _ _ _ _ _ Hr) in H.
      apply writes_stmt_ops in H. destruct H as [-> Hk]. exists d. split; [now left|assumption].
    + destruct (S g k N) as [[x [mx [Q1 [Q2 [Q3 Q4]]]]]|[d0 [Hd Hk]]].
      * left. exists x, mx. repeat split; auto. now rewrite <- L.
      * right. exists d0. split; [now right|assumption].
Qed.

End Loader.

(* ---------- statements about the executable loader *)
Lemma handle_import_again : forall fuel pf fs t p, mem p (loaded t) = true -> handle_import fuel pf fs t p = Ok t.
Proof. intros. destruct fuel; simpl; now rewrite H. Qed.

Lemma handle_import_marks : forall fuel pf fs t p t',
  handle_import fuel pf fs t p = Ok t' -> mem p (loaded t') = true.
Proof. intros. eapply imports_marks. eapply handle_import_sound; eauto. Qed.

Lemma handle_import_mono : forall fuel pf fs t p t' q,
  handle_import fuel pf fs t p = Ok t' -> mem q (loaded t) = true -> mem q (loaded t') = true.
Proof. intros. eapply imports_mono; eauto. eapply handle_import_sound; eauto. Qed.

(* ---------- idempotence *)
Lemma load_twice : forall fuel pf fs p r t, load fuel pf fs (p :: p :: r) t = load fuel pf fs (p :: r) t.
Proof.
  intros. simpl. destruct (handle_import fuel pf fs t p) as [t'|e] eqn:H; [|reflexivity].
  now rewrite (handle_import_again fuel pf fs t' p (handle_import_marks _ _ _ _ _ _ H)).
Qed.

Lemma load_again_gen : forall fuel pf fs p l2 l1 t,
  In p l1 \/ mem p (loaded t) = true ->
  load fuel pf fs (l1 ++ p :: l2) t = load fuel pf fs (l1 ++ l2) t.
Proof.
  intros fuel pf fs p l2. induction l1 as [|a l1 IH]; intros t H; simpl.
  - destruct H as [[]|H]. now rewrite handle_import_again.
  - destruct (handle_import fuel pf fs t a) as [t'|e] eqn:E; [|reflexivity]. apply IH.
    destruct H as [[->|H]|H]; auto.
    + right. eapply handle_import_marks; eauto.
    + right. eapply handle_import_mono; eauto.
Qed.

Lemma load_again : forall fuel pf fs p l1 l2 t,
  In p l1 -> load fuel pf fs (l1 ++ p :: l2) t = load fuel pf fs (l1 ++ l2) t.
Proof. intros. apply load_again_gen. now left. Qed.

Lemma loaded_import_changes_nothing : forall fuel pf fs t p t',
  mem p (loaded t) = true -> handle_import fuel pf fs t p = Ok t' -> t' = t.
Proof. intros. rewrite handle_import_again in H0 by assumption. now injection H0. Qed.

(* ---------- visibility *)
Lemma only_exports_visible_l : forall fuel pf fs t p t' g k,
  handle_import fuel pf fs t p = Ok t' -> tlookup g k t' <> tlookup g k t ->
  exists q m, mem q (loaded t) = false /\ mem q (loaded t') = true /\ resolve fs q = Some m /\
              written_by pf fs q m g k.
Proof. intros. eapply (proj1 (changed_by_new pf fs)); eauto. eapply handle_import_sound; eauto. Qed.

Lemma loaded_modules_complete_l : forall fuel pf fs t p t' q,
  handle_import fuel pf fs t p = Ok t' -> mem q (loaded t) = false -> mem q (loaded t') = true ->
  exists m, resolve fs q = Some m /\
    (forall r, In (SImport r) m -> mem r (loaded t') = true) /\
    (forall d g k, In (SDecl true d) m -> In (g, k) (decl_keys q d) -> tlookup g k t' <> None).
Proof. intros. eapply (proj1 (newly_loaded_complete pf fs)); eauto. eapply handle_import_sound; eauto. Qed.

Lemma exports_become_visible_l : forall fuel pf fs t p m t' d g k,
  mem p (loaded t) = false -> resolve fs p = Some m -> handle_import fuel pf fs t p = Ok t' ->
  In (SDecl true d) m -> In (g, k) (decl_keys p d) -> tlookup g k t' <> None.
Proof.
  intros fuel pf fs t p m t' d g k M R H Hd Hk.
  destruct (loaded_modules_complete_l _ _ _ _ _ _ p H M (handle_import_marks _ _ _ _ _ _ H)) as [m' [R' [_ C]]].
  rewrite R in R'. injection R' as <-. eauto.
Qed.

(* the imports of an imported module are loaded with it, and what they export is bound *)
Lemma transitive_imports_loaded_l : forall fuel pf fs t p m t' r,
  mem p (loaded t) = false -> resolve fs p = Some m -> handle_import fuel pf fs t p = Ok t' ->
  In (SImport r) m -> mem r (loaded t') = true.
Proof.
  intros fuel pf fs t p m t' r M R H Hr.
  destruct (loaded_modules_complete_l _ _ _ _ _ _ p H M (handle_import_marks _ _ _ _ _ _ H)) as [m' [R' [C _]]].
  rewrite R in R'. injection R' as <-. auto.
Qed.

(* readable instance of only_exports_visible_l for functions *)
Lemma hidden_function_l : forall fuel pf fs t p t' n,
  handle_import fuel pf fs t p = Ok t' ->
  (forall q m, mem q (loaded t) = false -> mem q (loaded t') = true -> resolve fs q = Some m ->
     (forall n0 b, In (SDecl true (DFunc n0 b)) m -> n <> n0 /\ n <> qualified q n0) /\
     (forall d, In d (parser_impls pf fs m) -> ~ In n (map fst (method_binds d)))) ->
  lookup n (funcs t') = lookup n (funcs t).
Proof.
  intros fuel pf fs t p t' n H Hn.
  assert (Dec : forall a b : option nat, {a = b} + {a <> b}) by (decide equality; apply Nat.eq_dec).
  destruct (Dec (lookup n (funcs t')) (lookup n (funcs t))) as [E|N]; [exact E|exfalso].
  assert (C : tlookup TF n t' <> tlookup TF n t).
  { simpl. intro C. apply N. destruct (lookup n (funcs t')), (lookup n (funcs t)); simpl in C; congruence. }
  destruct (only_exports_visible_l _ _ _ _ _ _ _ _ H C) as [q [m [Q1 [Q2 [Q3 W]]]]].
  destruct (Hn q m Q1 Q2 Q3) as [Hf Hi].
  destruct W as [[d [Hd Hk]]|[d [Hd [[_ Hk]|[Hg _]]]]].
  - destruct d; unfold decl_keys in Hk; simpl in Hk; try tauto;
      try (destruct Hk as [Hk|[]]; discriminate).
    + destruct (Hf _ _ Hd) as [N1 N2].
      destruct Hk as [Hk|[Hk|[]]]; injection Hk as Hk; congruence.
    + destruct is_const, init; simpl in Hk; try tauto;
        repeat (destruct Hk as [Hk|Hk]; [discriminate|]); tauto.
  - exact (Hi d Hd Hk).
  - discriminate.
Qed.

(* ---------- the recursion bound: a result that is not "bound exhausted" is final *)
Definition no_depth (r : result) : Prop := match r with Err (EDepth _) => False | _ => True end.

Lemma run_stmts_more : forall (imp imp' : tables -> name -> result) p,
  (forall t q, no_depth (imp t q) -> imp' t q = imp t q) ->
  forall l t, no_depth (run_stmts imp p l t) -> run_stmts imp' p l t = run_stmts imp p l t.
Proof.
  intros imp imp' p H. induction l as [|s l IH]; intros t N; [reflexivity|].
  destruct s as [q|e d]; cbn [run_stmts] in *.
  - destruct (imp t q) as [ta|er] eqn:E.
    + rewrite H by (rewrite E; exact I). rewrite E. now apply IH.
    + rewrite H by (rewrite E; exact N). now rewrite E.
  - destruct (run_ops (import_stmt_ops p (SDecl e d)) t); [now apply IH|reflexivity].
Qed.

Lemma handle_import_S : forall f pf fs t p,
  handle_import (S f) pf fs t p =
  if mem p (loaded t) then Ok t
  else match resolve fs p with
       | None => Err (EOpen p (file_path_of p))
       | Some m => match run_stmts (handle_import f pf fs) p m (mark_loaded p t) with
                   | Ok t2 => run_ops (flat_map sync_ops (parser_impls pf fs m)) t2
                   | Err e => Err e
                   end
       end.
Proof. reflexivity. Qed.

Lemma fuel_monotone : forall fuel pf fs t p,
  no_depth (handle_import fuel pf fs t p) -> handle_import (S fuel) pf fs t p = handle_import fuel pf fs t p.
Proof.
  induction fuel as [|f IH]; intros pf fs t p N.
  - simpl in *. destruct (mem p (loaded t)); [reflexivity|destruct N].
  - rewrite (handle_import_S (S f)). rewrite (handle_import_S f) in *.
    destruct (mem p (loaded t)); [reflexivity|].
    destruct (resolve fs p) as [m|]; [|reflexivity].
    rewrite (run_stmts_more (handle_import f pf fs) (handle_import (S f) pf fs) p); [reflexivity| |].
    + intros t0 q N0. now apply IH.
    + destruct (run_stmts (handle_import f pf fs) p m (mark_loaded p t)); [exact I|exact N].
Qed.
