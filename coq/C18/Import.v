(* C18 - lemmas about the loader model (Model.v): frames, loaded_modules, visibility. *)
From Coq Require Import List String Ascii Bool Arith Lia Permutation.
Import ListNotations.
From Cb Require Import C18.Model.
Local Open Scope string_scope.
Local Open Scope list_scope.

(* ---------- association tables *)
Lemma lookup_bind_eq : forall V k (v : V) m, lookup k (bind k v m) = Some v.
Proof. intros. unfold bind. simpl. now rewrite String.eqb_refl. Qed.
Lemma lookup_bind_neq : forall V k k' (v : V) m, k <> k' -> lookup k (bind k' v m) = lookup k m.
Proof. intros. unfold bind. simpl. apply String.eqb_neq in H. now rewrite H. Qed.

Lemma bind_all_app : forall V (a b : list (name * V)) m, bind_all (a ++ b) m = bind_all b (bind_all a m).
Proof. intros. unfold bind_all. now rewrite fold_left_app. Qed.

Lemma lookup_bind_all_notin : forall V (ws : list (name * V)) m k,
  ~ In k (map fst ws) -> lookup k (bind_all ws m) = lookup k m.
Proof.
  induction ws as [|[k' v] ws IH]; intros m k H; simpl in *; [reflexivity|].
  unfold bind_all in *. simpl. rewrite IH by tauto. apply lookup_bind_neq. intro; subst; tauto.
Qed.

(* congruence: the result of bind_all on a key depends on the old table only through that key *)
Lemma lookup_bind_all_congr : forall V (ws : list (name * V)) m1 m2 k,
  lookup k m1 = lookup k m2 -> lookup k (bind_all ws m1) = lookup k (bind_all ws m2).
Proof.
  induction ws as [|[k' v] ws IH]; intros m1 m2 k H; simpl; [exact H|].
  unfold bind_all in *. simpl. apply IH. unfold bind. simpl. destruct (String.eqb k k'); auto.
Qed.

Lemma lookup_bind_all_in : forall V (ws : list (name * V)) m k,
  In k (map fst ws) -> exists v, lookup k (bind_all ws m) = Some v.
Proof.
  induction ws as [|[k' v] ws IH]; intros m k H; simpl in *; [tauto|].
  unfold bind_all in *. simpl.
  destruct (in_dec string_dec k (map fst ws)) as [Hin|Hni].
  - now apply IH.
  - destruct H as [->|H]; [|tauto].
    exists v. fold (bind_all ws (bind k v m)). rewrite lookup_bind_all_notin by assumption. apply lookup_bind_eq.
Qed.

Opaque bind.

Ltac enum_case H :=
  match type of H with
  | context [match lookup ?k (enums ?t) with _ => _ end] => destruct (lookup k (enums t)) eqn:?EL
  end.

Lemma mem_true_iff : forall x l, mem x l = true <-> In x l.
Proof.
  induction l; simpl; [split; [discriminate|tauto]|].
  destruct (String.eqb_spec x a); subst; split; intros; auto.
  - right. now apply IHl.
  - destruct H; [congruence|]. now apply IHl.
Qed.
Lemma mem_false_iff : forall x l, mem x l = false <-> ~ In x l.
Proof. intros. rewrite <- mem_true_iff. destruct (mem x l); split; intros; congruence. Qed.

(* ---------- run_ops *)
Lemma run_ops_app : forall a b t,
  run_ops (a ++ b) t = match run_ops a t with Ok t' => run_ops b t' | Err e => Err e end.
Proof. induction a; intros; simpl; [reflexivity|]. destruct (apply_op t a); auto. Qed.

(* ---------- uniform view of the map-like tables *)
Inductive tag := TF | TS | TI | TT | TV | TE | TD.
Inductive tval :=
| VF (b : nat) | VS (d : sdef) | VI (ms : list name) | VT (x : name) | VV (c : bool) (v : option nat)
| VE (ms : list (name * nat)) | VD (b : nat).
Definition tlookup (g : tag) (k : name) (t : tables) : option tval :=
  match g with
  | TF => option_map VF (lookup k (funcs t))
  | TS => option_map VS (lookup k (structs t))
  | TI => option_map VI (lookup k (ifaces t))
  | TT => option_map VT (lookup k (typedefs t))
  | TV => option_map (fun p => VV (fst p) (snd p)) (lookup k (vars t))
  | TE => option_map VE (lookup k (enums t))
  | TD => option_map VD (lookup k (dtors t))
  end.

Definition tag_eq_dec : forall a b : tag, {a = b} + {a <> b}. Proof. decide equality. Defined.
Definition tk_eq_dec : forall a b : tag * name, {a = b} + {a <> b}.
Proof. decide equality; [apply string_dec|apply tag_eq_dec]. Defined.

(* keys of the map-like tables an op (re)binds *)
Definition op_writes (o : op) : list (tag * name) :=
  match o with
  | OFunc k _ => [(TF, k)]
  | OStruct k _ => [(TS, k)]
  | OIface k _ => [(TI, k)]
  | OTypedef k _ => [(TT, k)]
  | OVar k _ _ => [(TV, k)]
  | OEnum k _ => [(TE, k)]
  | ODtor s _ => [(TD, s)]
  | OImpl d => map (fun w => (TF, fst w)) (method_binds d)
  | _ => []
  end.

Lemma in_map_TF : forall (ws : list (name * nat)) k,
  In (TF, k) (map (fun w => (TF, fst w)) ws) <-> In k (map fst ws).
Proof.
  induction ws; simpl; [tauto|]. intros. rewrite IHws. split; intros [H|H]; auto; left; congruence.
Qed.

Lemma apply_frame : forall o t t' g k,
  apply_op t o = Ok t' -> ~ In (g, k) (op_writes o) -> tlookup g k t' = tlookup g k t.
Proof.
  intros o t t' g k H Hn.
  destruct o; simpl in H; try enum_case H;
    try (injection H as <-; destruct g; simpl in *; try reflexivity;
         rewrite lookup_bind_neq; [reflexivity|intro; subst; apply Hn; left; reflexivity]);
    try (injection H as <-; destruct g; reflexivity);
    try discriminate.
  (* OImpl *)
  assert (Hk : g = TF -> ~ In k (map fst (method_binds d))).
  { intros -> Hin. apply Hn. simpl. now apply in_map_TF. }
  destruct (has_impl _ _ _).
  - injection H as <-. destruct g; simpl; try reflexivity.
    now rewrite lookup_bind_all_notin by auto.
  - destruct (find_conflict _ _); [discriminate|]. injection H as <-. destruct g; simpl; try reflexivity.
    now rewrite lookup_bind_all_notin by auto.
Qed.

Lemma run_frame : forall ops t t' g k,
  run_ops ops t = Ok t' -> ~ In (g, k) (flat_map op_writes ops) -> tlookup g k t' = tlookup g k t.
Proof.
  induction ops as [|o ops IH]; intros t t' g k H Hn; simpl in *.
  - now injection H as <-.
  - destruct (apply_op t o) as [t1|] eqn:E; [|discriminate].
    rewrite in_app_iff in Hn. rewrite (IH t1 t') by tauto. eapply apply_frame; eauto.
Qed.

(* a changed binding was written by one of the ops *)
Lemma run_changed : forall ops t t' g k,
  run_ops ops t = Ok t' -> tlookup g k t' <> tlookup g k t -> In (g, k) (flat_map op_writes ops).
Proof.
  intros. destruct (in_dec tk_eq_dec (g, k) (flat_map op_writes ops)); [assumption|].
  exfalso. apply H0. eapply run_frame; eauto.
Qed.

(* bindings never disappear, and a written key is bound afterwards *)
Lemma apply_keeps : forall o t t' g k,
  apply_op t o = Ok t' -> tlookup g k t <> None -> tlookup g k t' <> None.
Proof.
  intros o t t' g k H Hd.
  destruct (in_dec tk_eq_dec (g, k) (op_writes o)) as [Hin|Hni].
  2:{ now rewrite (apply_frame _ _ _ _ _ H Hni). }
  destruct o; simpl in H, Hin; try tauto;
    try (enum_case H; [injection H as <-; destruct Hin as [Hin|[]]; injection Hin as <- <-; simpl; rewrite EL; discriminate|]);
    try (destruct Hin as [Hin|[]]; injection Hin as <- <-; injection H as <-; simpl;
         rewrite lookup_bind_eq; discriminate).
  apply in_map_iff in Hin. destruct Hin as [w [Hw Hin]]. injection Hw as <- <-.
  assert (Hk : In (fst w) (map fst (method_binds d))) by (apply in_map; assumption).
  destruct (has_impl _ _ _).
  - injection H as <-. simpl. destruct (lookup_bind_all_in _ (method_binds d) (funcs t) _ Hk) as [v ->]. discriminate.
  - destruct (find_conflict _ _); [discriminate|]. injection H as <-. simpl.
    destruct (lookup_bind_all_in _ (method_binds d) (funcs t) _ Hk) as [v ->]. discriminate.
Qed.

Lemma apply_defines : forall o t t' g k,
  apply_op t o = Ok t' -> In (g, k) (op_writes o) -> tlookup g k t' <> None.
Proof.
  intros o t t' g k H Hin.
  destruct o; simpl in H, Hin; try tauto;
    try (enum_case H; [injection H as <-; destruct Hin as [Hin|[]]; injection Hin as <- <-; simpl; rewrite EL; discriminate|]);
    try (destruct Hin as [Hin|[]]; injection Hin as <- <-; injection H as <-; simpl;
         rewrite lookup_bind_eq; discriminate).
  apply in_map_iff in Hin. destruct Hin as [w [Hw Hin]]. injection Hw as <- <-.
  assert (Hk : In (fst w) (map fst (method_binds d))) by (apply in_map; assumption).
  destruct (has_impl _ _ _).
  - injection H as <-. simpl. destruct (lookup_bind_all_in _ (method_binds d) (funcs t) _ Hk) as [v ->]. discriminate.
  - destruct (find_conflict _ _); [discriminate|]. injection H as <-. simpl.
    destruct (lookup_bind_all_in _ (method_binds d) (funcs t) _ Hk) as [v ->]. discriminate.
Qed.

Lemma run_keeps : forall ops t t' g k,
  run_ops ops t = Ok t' -> tlookup g k t <> None -> tlookup g k t' <> None.
Proof.
  induction ops as [|o ops IH]; intros t t' g k H Hd; simpl in *.
  - now injection H as <-.
  - destruct (apply_op t o) as [t1|] eqn:E; [|discriminate]. eapply IH; eauto. eapply apply_keeps; eauto.
Qed.

Lemma run_defines : forall ops t t' g k,
  run_ops ops t = Ok t' -> In (g, k) (flat_map op_writes ops) -> tlookup g k t' <> None.
Proof.
  induction ops as [|o ops IH]; intros t t' g k H Hin; simpl in *; [tauto|].
  destruct (apply_op t o) as [t1|] eqn:E; [|discriminate].
  apply in_app_iff in Hin. destruct Hin as [Hin|Hin].
  - eapply run_keeps; eauto. eapply apply_defines; eauto.
  - eapply IH; eauto.
Qed.

(* ---------- loaded_modules *)
Definition op_loads (o : op) : list name := match o with OLoaded p => [p] | _ => [] end.

Lemma apply_loaded : forall o t t', apply_op t o = Ok t' -> loaded t' = op_loads o ++ loaded t.
Proof.
  intros o t t' H. destruct o; simpl in H; try enum_case H; try (injection H as <-; reflexivity); try discriminate.
  destruct (has_impl _ _ _); [injection H as <-; reflexivity|].
  destruct (find_conflict _ _); [discriminate|injection H as <-; reflexivity].
Qed.

Lemma run_loaded : forall ops t t',
  run_ops ops t = Ok t' -> loaded t' = rev (flat_map op_loads ops) ++ loaded t.
Proof.
  induction ops as [|o ops IH]; intros t t' H; simpl in *.
  - now injection H as <-.
  - destruct (apply_op t o) as [t1|] eqn:E; [|discriminate].
    rewrite (IH _ _ H), (apply_loaded _ _ _ E). rewrite rev_app_distr, <- app_assoc.
    destruct o; reflexivity.
Qed.

Lemma loads_import_stmt : forall p s, flat_map op_loads (import_stmt_ops p s) = [].
Proof.
  intros p [q|[|] d]; simpl; try reflexivity.
  destruct d; simpl; try reflexivity. destruct is_const, init; reflexivity.
Qed.
Lemma loads_sync : forall d, flat_map op_loads (sync_ops d) = [].
Proof.
  intros. unfold sync_ops. rewrite !flat_map_app.
  assert (flat_map op_loads (map (fun c => OCtor (im_struct d) (fst c) (snd c)) (im_ctors d)) = []) as ->
    by (induction (im_ctors d); simpl; auto).
  destruct (im_dtor d); reflexivity.
Qed.
Lemma flat_map_flat_map_nil : forall A B C (f : A -> list B) (g : B -> list C) l,
  (forall a, flat_map g (f a) = []) -> flat_map g (flat_map f l) = [].
Proof. induction l; intros; simpl; [reflexivity|]. rewrite flat_map_app, H, IHl; auto. Qed.

Lemma loads_module_ops : forall fuel fs p m, flat_map op_loads (module_ops fuel fs p m) = [p].
Proof.
  intros. unfold module_ops. rewrite !flat_map_app.
  rewrite flat_map_flat_map_nil by apply loads_import_stmt.
  rewrite flat_map_flat_map_nil by apply loads_sync. reflexivity.
Qed.

Lemma path_ops_loaded : forall fuel fs p t t',
  run_ops (path_ops fuel fs p) t = Ok t' -> loaded t' = p :: loaded t.
Proof.
  intros fuel fs p t t' H. unfold path_ops in H. destruct (resolve fs p) as [m|] eqn:R.
  - apply run_loaded in H. now rewrite loads_module_ops in H.
  - simpl in H. discriminate.
Qed.

Lemma handle_import_marks : forall fuel fs t p t',
  handle_import fuel fs t p = Ok t' -> mem p (loaded t') = true.
Proof.
  intros fuel fs t p t' H. unfold handle_import in H. destruct (mem p (loaded t)) eqn:M.
  - now injection H as <-.
  - apply path_ops_loaded in H. rewrite H. simpl. now rewrite String.eqb_refl.
Qed.

Lemma handle_import_mono : forall fuel fs t p t' q,
  handle_import fuel fs t p = Ok t' -> mem q (loaded t) = true -> mem q (loaded t') = true.
Proof.
  intros fuel fs t p t' q H Hq. unfold handle_import in H. destruct (mem p (loaded t)) eqn:M.
  - now injection H as <-.
  - apply path_ops_loaded in H. rewrite H. simpl. rewrite Hq. now destruct (String.eqb q p).
Qed.

Lemma handle_import_again : forall fuel fs t p, mem p (loaded t) = true -> handle_import fuel fs t p = Ok t.
Proof. intros. unfold handle_import. now rewrite H. Qed.

(* ---------- idempotence *)
Lemma load_twice : forall fuel fs p r t, load fuel fs (p :: p :: r) t = load fuel fs (p :: r) t.
Proof.
  intros. simpl. destruct (handle_import fuel fs t p) as [t'|e] eqn:H; [|reflexivity].
  now rewrite (handle_import_again fuel fs t' p (handle_import_marks _ _ _ _ _ H)).
Qed.

Lemma load_again_gen : forall fuel fs p l2 l1 t,
  In p l1 \/ mem p (loaded t) = true ->
  load fuel fs (l1 ++ p :: l2) t = load fuel fs (l1 ++ l2) t.
Proof.
  intros fuel fs p l2. induction l1 as [|a l1 IH]; intros t H; simpl.
  - destruct H as [[]|H]. now rewrite handle_import_again.
  - destruct (handle_import fuel fs t a) as [t'|e] eqn:E; [|reflexivity]. apply IH.
    destruct H as [[->|H]|H]; auto.
    + right. eapply handle_import_marks; eauto.
    + right. eapply handle_import_mono; eauto.
Qed.

Lemma load_again : forall fuel fs p l1 l2 t,
  In p l1 -> load fuel fs (l1 ++ p :: l2) t = load fuel fs (l1 ++ l2) t.
Proof. intros. apply load_again_gen. now left. Qed.

(* ---------- visibility: what one import can change *)
Definition decl_keys (module_path : name) (d : decl) : list (tag * name) :=
  flat_map op_writes (import_decl_ops module_path d).

Lemma writes_sync : forall d g k,
  In (g, k) (flat_map op_writes (sync_ops d)) ->
  (g = TF /\ In k (map fst (method_binds d))) \/ (g = TD /\ k = im_struct d /\ im_dtor d <> None).
Proof.
  intros d g k H. unfold sync_ops in H. rewrite !flat_map_app in H. rewrite !in_app_iff in H.
  destruct H as [H|[H|H]].
  - exfalso. induction (im_ctors d); simpl in H; auto.
  - destruct (im_dtor d); simpl in H; [|tauto]. destruct H as [H|[]]. injection H as <- <-.
    right. repeat split. discriminate.
  - simpl in H. rewrite app_nil_r in H. left.
    apply in_map_iff in H. destruct H as [w [Hw Hin]]. injection Hw as <- <-. split; [reflexivity|].
    now apply in_map.
Qed.

Lemma writes_module_ops : forall fuel fs p m g k,
  In (g, k) (flat_map op_writes (module_ops fuel fs p m)) ->
  (exists d, In (SDecl true d) m /\ In (g, k) (decl_keys p d)) \/
  (exists d, In d (parser_impls fuel fs m) /\
     ((g = TF /\ In k (map fst (method_binds d))) \/ (g = TD /\ k = im_struct d /\ im_dtor d <> None))).
Proof.
  intros fuel fs p m g k H. unfold module_ops in H. rewrite !flat_map_app in H. rewrite !in_app_iff in H.
  destruct H as [H|[H|H]].
  - left. apply in_flat_map in H. destruct H as [o [Ho Hw]].
    apply in_flat_map in Ho. destruct Ho as [s [Hs Ho]].
    destruct s as [q|[|] d]; simpl in Ho; try tauto.
    exists d. split; [assumption|]. unfold decl_keys. apply in_flat_map. eauto.
  - right. apply in_flat_map in H. destruct H as [o [Ho Hw]].
    apply in_flat_map in Ho. destruct Ho as [d [Hd Ho]].
    exists d. split; [assumption|]. apply writes_sync. apply in_flat_map. eauto.
  - simpl in H. tauto.
Qed.

Lemma only_exports_visible_l : forall fuel fs t p m t' g k,
  mem p (loaded t) = false -> resolve fs p = Some m -> handle_import fuel fs t p = Ok t' ->
  tlookup g k t' <> tlookup g k t ->
  (exists d, In (SDecl true d) m /\ In (g, k) (decl_keys p d)) \/
  (exists d, In d (parser_impls fuel fs m) /\
     ((g = TF /\ In k (map fst (method_binds d))) \/ (g = TD /\ k = im_struct d /\ im_dtor d <> None))).
Proof.
  intros fuel fs t p m t' g k M R H Hc. unfold handle_import in H. rewrite M in H.
  unfold path_ops in H. rewrite R in H. eapply writes_module_ops. eapply run_changed; eauto.
Qed.

Lemma exports_become_visible_l : forall fuel fs t p m t' d g k,
  mem p (loaded t) = false -> resolve fs p = Some m -> handle_import fuel fs t p = Ok t' ->
  In (SDecl true d) m -> In (g, k) (decl_keys p d) -> tlookup g k t' <> None.
Proof.
  intros fuel fs t p m t' d g k M R H Hd Hk. unfold handle_import in H. rewrite M in H.
  unfold path_ops in H. rewrite R in H. eapply run_defines; eauto.
  unfold module_ops. rewrite flat_map_app. apply in_app_iff. left.
  apply in_flat_map. unfold decl_keys in Hk. apply in_flat_map in Hk. destruct Hk as [o [Ho Hw]].
  exists o. split; [|assumption]. apply in_flat_map. exists (SDecl true d). auto.
Qed.

(* a module that is already loaded changes nothing at all *)
Lemma loaded_import_changes_nothing : forall fuel fs t p t',
  mem p (loaded t) = true -> handle_import fuel fs t p = Ok t' -> t' = t.
Proof. intros. rewrite handle_import_again in H0 by assumption. now injection H0. Qed.

(* readable instance of only_exports_visible_l for functions *)
Lemma hidden_function_l : forall fuel fs t p m t' n,
  mem p (loaded t) = false -> resolve fs p = Some m -> handle_import fuel fs t p = Ok t' ->
  (forall n0 b, In (SDecl true (DFunc n0 b)) m -> n <> n0 /\ n <> qualified p n0) ->
  (forall d, In d (parser_impls fuel fs m) -> ~ In n (map fst (method_binds d))) ->
  lookup n (funcs t') = lookup n (funcs t).
Proof.
  intros fuel fs t p m t' n M R H Hn Hi.
  assert (Dec : forall a b : option nat, {a = b} + {a <> b}) by (decide equality; apply Nat.eq_dec).
  destruct (Dec (lookup n (funcs t')) (lookup n (funcs t))) as [E|N]; [exact E|exfalso].
  assert (C : tlookup TF n t' <> tlookup TF n t).
  { simpl. intro C. apply N. destruct (lookup n (funcs t')), (lookup n (funcs t)); simpl in C; congruence. }
  destruct (only_exports_visible_l _ _ _ _ _ _ _ _ M R H C) as [[d [Hd Hk]]|[d [Hd [[_ Hk]|[Hg _]]]]].
  - destruct d; unfold decl_keys in Hk; simpl in Hk; try tauto;
      try (destruct Hk as [Hk|[]]; discriminate).
    + destruct (Hn _ _ Hd) as [N1 N2].
      destruct Hk as [Hk|[Hk|[]]]; injection Hk as Hk; congruence.
    + destruct is_const, init; simpl in Hk; try tauto;
        repeat (destruct Hk as [Hk|Hk]; [discriminate|]); tauto.
  - exact (Hi d Hd Hk).
  - discriminate.
Qed.
