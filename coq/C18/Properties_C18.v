(* C18 - property theorems only. Statements are about the Mech model of the run-time module loader
   (Model.v: handle_import_statement incl. the execution of a module's own imports,
   sync_impl_definitions_from_parser, register_impl_definition) as it stands after the fix: commits
   e75028a, 7f2ae2b, 871ed77, a650333; the proofs are in Import.v / Order.v / Inline.v.  They hold for
   every file system [fs], every table state [t], every recursion bound [fuel] and every depth bound
   [pf] of the private parser's transitive impl list. *)
From Coq Require Import List String Ascii Bool Arith Permutation.
Import ListNotations.
From Cb Require Import C18.Model C18.Import C18.Init C18.Order C18.Layers C18.Inline.
Local Open Scope string_scope.
Local Open Scope list_scope.

(* ------------------------------------------------------------------ exactly the exports *)

(* Whatever binding (function, struct, interface, typedef, variable, enum, destructor) differs after
   `import p;` was written by a module q that this import loaded (p itself or a module reached through
   the imports of loaded modules): by an exported declaration of q's file, under its own name or
   `q.name`, or by an impl block held by that file's parser (impl blocks are registered whether or not
   they are exported: hidden_impl_invisible_refuted). *)
Theorem only_exports_visible : forall fuel pf fs t p t' g k,
  handle_import fuel pf fs t p = Ok t' -> tlookup g k t' <> tlookup g k t ->
  exists q m, mem q (loaded t) = false /\ mem q (loaded t') = true /\ resolve fs q = Some m /\
    ((exists d, In (SDecl true d) m /\ In (g, k) (decl_keys q d)) \/
     (exists d, In d (parser_impls pf fs m) /\
        ((g = TF /\ In k (map fst (method_binds d))) \/ (g = TD /\ k = im_struct d /\ im_dtor d <> None)))).
Proof. exact only_exports_visible_l. Qed.
Print Assumptions only_exports_visible.

(* readable instance: a function name that no exported function of any newly loaded module carries
   (plain or qualified) and that is no mangled method key is exactly as (un)callable as before *)
Theorem hidden_function_not_callable : forall fuel pf fs t p t' n,
  handle_import fuel pf fs t p = Ok t' ->
  (forall q m, mem q (loaded t) = false -> mem q (loaded t') = true -> resolve fs q = Some m ->
     (forall n0 b, In (SDecl true (DFunc n0 b)) m -> n <> n0 /\ n <> qualified q n0) /\
     (forall d, In d (parser_impls pf fs m) -> ~ In n (map fst (method_binds d)))) ->
  lookup n (funcs t') = lookup n (funcs t).
Proof. exact hidden_function_l. Qed.
Print Assumptions hidden_function_not_callable.

(* every exported declaration of the imported module is bound afterwards (under name and p.name) *)
Theorem exports_become_visible : forall fuel pf fs t p m t' d g k,
  mem p (loaded t) = false -> resolve fs p = Some m -> handle_import fuel pf fs t p = Ok t' ->
  In (SDecl true d) m -> In (g, k) (decl_keys p d) -> tlookup g k t' <> None.
Proof. exact exports_become_visible_l. Qed.
Print Assumptions exports_become_visible.

(* ... and the same holds for EVERY module the import loaded, directly or through other modules: its
   own imports are loaded and all its exports are bound - so an exported definition finds the exported
   names of the modules its file imports (formerly finding #35 / C18-transitive-import) *)
Theorem loaded_modules_are_complete : forall fuel pf fs t p t' q,
  handle_import fuel pf fs t p = Ok t' -> mem q (loaded t) = false -> mem q (loaded t') = true ->
  exists m, resolve fs q = Some m /\
    (forall r, In (SImport r) m -> mem r (loaded t') = true) /\
    (forall d g k, In (SDecl true d) m -> In (g, k) (decl_keys q d) -> tlookup g k t' <> None).
Proof. exact loaded_modules_complete_l. Qed.
Print Assumptions loaded_modules_are_complete.

Theorem transitive_imports_loaded : forall fuel pf fs t p m t' r,
  mem p (loaded t) = false -> resolve fs p = Some m -> handle_import fuel pf fs t p = Ok t' ->
  In (SImport r) m -> mem r (loaded t') = true.
Proof. exact transitive_imports_loaded_l. Qed.
Print Assumptions transitive_imports_loaded.

(* REFUTED on the faithful model (finding C18-hidden-impl-visible): an impl block WITHOUT `export`
   is registered all the same - its method becomes callable and its constructor is found *)
Theorem hidden_impl_invisible_refuted : exists fs t,
  resolve fs "a" = Some [SDecl true (DStruct "SA" (mkSdef false [mkMember "x" None]));
                         SDecl true (DInterface "IA" ["getx"]);
                         SDecl false (DImpl (mkImpl "IA" "SA" [("getx", 7)] [] None []));
                         SDecl false (DImpl (mkImpl "" "SA" [] [(1, 8)] None []))] /\
  load 3 3 fs ["a"] empty_tables = Ok t /\
  lookup (method_key "SA" "getx") (funcs t) = Some 7 /\ find_ctor "SA" 1 (ctors t) = Some 8.
Proof.
  exists [("a.cb", [SDecl true (DStruct "SA" (mkSdef false [mkMember "x" None]));
                   SDecl true (DInterface "IA" ["getx"]);
                   SDecl false (DImpl (mkImpl "IA" "SA" [("getx", 7)] [] None []));
                   SDecl false (DImpl (mkImpl "" "SA" [] [(1, 8)] None []))])].
  eexists. vm_compute. repeat split.
Qed.
Print Assumptions hidden_impl_invisible_refuted.


(* ------------------------------------------------------------------ initialisers (evaluated at import time) *)

(* When the loader reaches statement k of module p, an exported variable with initialiser e, it
   evaluates e in the state tk that the first k statements of the file have produced, and in tk
   every module the file imports before that statement is loaded - and, if this run loaded it,
   complete: its own imports loaded, all its exports bound - and every exported declaration that
   precedes the statement is bound.  So an initialiser that refers only to exported names of the
   modules its file imports (and to earlier exports of its own file) finds them, whether or not the
   importing program imports those modules itself, and in whatever order. *)
Theorem initialiser_sees_imports : forall fuel pf fs t p m t' k n c e,
  mem p (loaded t) = false -> resolve fs p = Some m ->
  handle_import (S fuel) pf fs t p = Ok t' ->
  nth_error m k = Some (SDecl true (DVar n c (Some e))) ->
  exists tk v,
    run_stmts (handle_import fuel pf fs) p (firstn k m) (mark_loaded p t) = Ok tk /\
    eval tk 0 e = VOk v /\
    (forall r, In (SImport r) (firstn k m) ->
       mem r (loaded tk) = true /\ (mem r (loaded t) = true \/ r = p \/ complete fs r tk)) /\
    (forall d g key, In (SDecl true d) (firstn k m) -> In (g, key) (decl_keys p d) -> tlookup g key tk <> None).
Proof. exact initialiser_sees_imports_l. Qed.
Print Assumptions initialiser_sees_imports.

(* the value of an initialiser depends on the tables only through the names that occur in it and in
   the bodies of the functions it may call: whatever else an import order has bound or not is immaterial *)
Theorem initialiser_value_local : forall e a b p,
  (forall g k, In (g, k) (ereads e) -> tlookup g k a = tlookup g k b) -> eval a p e = eval b p e.
Proof. exact eval_frame. Qed.
Print Assumptions initialiser_value_local.

(* a failing initialiser makes the import fail (the program ends before main) with that very error *)
Theorem failing_initialiser_fails_import : forall t ks c e er,
  eval t 0 e = VErr er -> apply_op t (OInit ks c e) = Err er.
Proof. exact failing_initialiser_l. Qed.
Print Assumptions failing_initialiser_fails_import.

(* a constant registered by an import (under its name and under module.name) rejects an assignment by
   the importer - the former finding C18-imported-const-assignable, repaired by fix a4fa15d *)
Theorem imported_constant_rejects_assignment : forall t ks e t' k v,
  apply_op t (OInit ks true e) = Ok t' -> In k ks -> assign t' k v = Err (EConstAssign k).
Proof. exact init_const_rejects_assignment. Qed.
Print Assumptions imported_constant_rejects_assignment.

(* ... and, in general, an assignment to an unqualified name is accepted or rejected (same error) alike
   after `import` and after pasting the loaded files *)
Theorem assignment_imported_like_inlined : forall a b k v,
  sim a b -> contains "." k = false -> rsim (assign a k v) (assign b k v).
Proof. exact sim_assign. Qed.
Print Assumptions assignment_imported_like_inlined.

(* ------------------------------------------------------------------ once *)

Theorem import_idempotent : forall fuel pf fs p r t,
  load fuel pf fs (p :: p :: r) t = load fuel pf fs (p :: r) t.
Proof. exact load_twice. Qed.
Print Assumptions import_idempotent.

(* a repeated import anywhere later in the sequence is a no-op: the very same result *)
Theorem import_again_is_noop : forall fuel pf fs p l1 l2 t,
  In p l1 -> load fuel pf fs (l1 ++ p :: l2) t = load fuel pf fs (l1 ++ l2) t.
Proof. exact load_again. Qed.
Print Assumptions import_again_is_noop.


(* REFUTED on the faithful model (finding C18-same-file-two-module-paths): "once" is per module PATH, not per
   file - a file that the search path also finds under a second module path is processed twice (its
   initialisers run again, an exported global is bound anew) *)
Theorem same_file_loaded_once_refuted : exists fs t,
  resolve fs "m0" = resolve fs "modules.m0" /\ resolve fs "m0" <> None /\
  load 3 3 fs ["m0"; "modules.m0"] empty_tables = Ok t /\
  loaded t = ["modules.m0"; "m0"] /\ List.length (filter (fun b => String.eqb (fst b) "g") (vars t)) = 2.
Proof.
  exists [("modules/m0.cb", [SDecl true (DVar "g" false (Some (ELit 5)))])]. eexists. vm_compute.
  repeat split. discriminate.
Qed.
Print Assumptions same_file_loaded_once_refuted.

(* the same for a module that was loaded through another module (a diamond, or a program importing
   what one of its modules imports): it is loaded once, the later import changes nothing *)
Theorem loaded_module_changes_nothing : forall fuel pf fs t p t',
  mem p (loaded t) = true -> handle_import fuel pf fs t p = Ok t' -> t' = t.
Proof. exact loaded_import_changes_nothing. Qed.
Print Assumptions loaded_module_changes_nothing.

Theorem successful_import_marks_loaded : forall fuel pf fs t p t',
  handle_import fuel pf fs t p = Ok t' -> mem p (loaded t') = true.
Proof. exact handle_import_marks. Qed.
Print Assumptions successful_import_marks_loaded.

(* the recursion bound of the model is immaterial: a result other than "bound exhausted" is final *)
Theorem recursion_bound_immaterial : forall fuel pf fs t p,
  no_depth (handle_import fuel pf fs t p) -> handle_import (S fuel) pf fs t p = handle_import fuel pf fs t p.
Proof. exact fuel_monotone. Qed.
Print Assumptions recursion_bound_immaterial.

(* ------------------------------------------------------------------ independent of order *)

(* Two successful import sequences that are permutations of each other load the same set of modules
   (those reachable through not-yet-loaded modules) ... *)
Theorem same_modules_loaded : forall fuel pf fs l1 l2 t t1 t2,
  Permutation l1 l2 -> load fuel pf fs l1 t = Ok t1 -> load fuel pf fs l2 t = Ok t2 ->
  forall q, mem q (loaded t1) = true -> mem q (loaded t2) = true.
Proof. exact load_same_modules. Qed.
Print Assumptions same_modules_loaded.

(* ... and, when the newly loaded modules (all inside U) have pairwise disjoint footprints (bound
   names; impl blocks: per struct; constructors: per struct and arity), tables equal as maps. *)
Theorem import_order_independent : forall fuel pf fs U l1 l2 t t1 t2,
  Permutation l1 l2 -> load fuel pf fs l1 t = Ok t1 -> load fuel pf fs l2 t = Ok t2 ->
  independent pf fs U ->
  (forall q, mem q (loaded t1) = true -> mem q (loaded t) = true \/ In q U) ->
  teq t1 t2.
Proof. exact import_order_independent_l. Qed.
Print Assumptions import_order_independent.

(* the same for modules that share registration steps: two importers of a common module both hand
   over its impl blocks (a diamond); identical steps commute *)
Theorem import_order_independent_diamond : forall fuel pf fs U l1 l2 t t1 t2,
  Permutation l1 l2 -> load fuel pf fs l1 t = Ok t1 -> load fuel pf fs l2 t = Ok t2 ->
  compatible pf fs U ->
  (forall q, mem q (loaded t1) = true -> mem q (loaded t) = true \/ In q U) ->
  teq t1 t2.
Proof. exact import_order_compatible_l. Qed.
Print Assumptions import_order_independent_diamond.


(* Modules whose initialisers READ exports of the modules they import (chains, diamonds with
   initialisers) are not independent and their registration steps do not commute; still the order of
   the program's import list is immaterial: when the import graph on U is acyclic, the files in U
   have their imports before their declarations, and any two modules of U either commute step by
   step (disjoint or identical writes, no read of the other's writes) or one imports the other, two
   successful permuted import sequences yield tables equal as maps.  (A load is the sequence of the
   new modules' blocks in completion order; no module is completed before one it imports.) *)
Theorem import_order_independent_layered : forall pf fs U rank fuel l1 l2 t t1 t2,
  (forall p m q, In p U -> resolve fs p = Some m -> In (SImport q) m -> rank q < rank p) ->
  (forall p m, In p U -> resolve fs p = Some m -> imports_first m = true) ->
  layered pf fs U -> Permutation l1 l2 ->
  load fuel pf fs l1 t = Ok t1 -> load fuel pf fs l2 t = Ok t2 ->
  (forall q, mem q (loaded t1) = true -> mem q (loaded t) = true \/ In q U) ->
  teq t1 t2.
Proof. exact import_order_layered_l. Qed.
Print Assumptions import_order_independent_layered.

(* what "equal as maps" gives the interpreter: every lookup it can make answers the same *)
Theorem equal_tables_answer_alike : forall a b, teq a b ->
  (forall g k, tlookup g k a = tlookup g k b) /\
  (forall s n, find_ctor s n (ctors a) = find_ctor s n (ctors b)) /\
  (forall i s, has_impl i s (impls a) = has_impl i s (impls b)) /\
  (forall s, impls_of s (impls a) = impls_of s (impls b)) /\
  (forall p, mem p (loaded a) = mem p (loaded b)).
Proof. exact equal_tables_answer_alike_l. Qed.
Print Assumptions equal_tables_answer_alike.

(* every registration step respects equality-as-maps, so everything that runs after the imports
   (the importer's own declarations) cannot tell the two orders apart either *)
Theorem later_registrations_respect_equality : forall ops a b,
  teq a b -> req (run_ops ops a) (run_ops ops b).
Proof. exact run_congr. Qed.
Print Assumptions later_registrations_respect_equality.

(* ------------------------------------------------------------------ imported = inlined (table level) *)

(* `import p;` leaves the tables as if every file it loads had been pasted once, where the loader
   visits it, as declarations of the importing file (exported declarations without `export`, then the
   impl blocks its parser holds): equal on every unqualified function and variable name, literally
   equal struct (array members included) / interface / typedef / enum / impl / constructor /
   destructor / impl-static tables; an error arises in one exactly if in the other.  Side conditions:
   names are identifiers and const variables have initialisers. *)
Theorem imported_like_inlined : forall fuel pf fs t p, names_ok fs ->
  rsim (handle_import fuel pf fs t p) (handle_inline fuel pf fs t p).
Proof. exact imported_like_inlined_l. Qed.
Print Assumptions imported_like_inlined.

(* ------------------------------------------------------------------ found via the dotted path *)

Theorem dotted_path_resolution : forall segs fs m,
  (forall s, In s segs -> contains "." s = false) ->
  let p := String.concat "." segs in
  contains "." p = true -> contains "/" p = false -> contains ".." p = false ->
  lookup (String.concat "/" segs +++ ".cb") fs = Some m ->
  resolve fs p = Some m.
Proof. exact dotted_path_resolution_l. Qed.
Print Assumptions dotted_path_resolution.

Theorem undotted_path_resolution : forall p fs m,
  contains "." p = false -> contains "/" p = false -> lookup (p +++ ".cb") fs = Some m -> resolve fs p = Some m.
Proof. exact undotted_path_resolution_l. Qed.
Print Assumptions undotted_path_resolution.

Theorem missing_module_is_an_error : forall fuel pf fs t p,
  mem p (loaded t) = false -> resolve fs p = None ->
  handle_import (S fuel) pf fs t p = Err (EOpen p (file_path_of p)).
Proof. exact unresolved_is_error. Qed.
Print Assumptions missing_module_is_an_error.

(* ------------------------------------------------------------------ the former refutation witnesses *)
(* (known findings C18-struct-array-member, C18-impl-static-not-imported, C18-transitive-import,
   C18-dotcb-component before the repairs): on the model of the repaired code each now behaves as the
   property demands *)
Theorem former_witnesses_repaired :
  (* an exported struct with an array member keeps the array shape *)
  (let wa := mkSdef false [mkMember "v" (Some 3); mkMember "k" None] in
   exists t, load 3 3 [("arr.cb", [SDecl true (DStruct "WA" wa)])] ["arr"] empty_tables = Ok t /\
             lookup "WA" (structs t) = Some wa) /\
  (* the static variable of an imported impl block exists *)
  (exists t, load 3 3 [("ms.cb", [SDecl true (DStruct "SS" (mkSdef false [mkMember "x" None]));
                                  SDecl true (DInterface "IS" ["tick"]);
                                  SDecl true (DImpl (mkImpl "IS" "SS" [("tick", 4)] [] None ["n"]))])]
                   ["ms"] empty_tables = Ok t /\ istatics t = [("IS", ("SS", "n"))]) /\
  (* a module's own import is loaded with it *)
  (exists t, load 5 5 [("lib/left.cb", [SImport "lib.base"; SDecl true (DFunc "left" 1)]);
                       ("lib/base.cb", [SDecl true (DFunc "bump" 2)])] ["lib.left"] empty_tables = Ok t /\
             lookup "left" (funcs t) = Some 1 /\ lookup "bump" (funcs t) = Some 2 /\
             mem "lib.base" (loaded t) = true) /\
  (* a path component beginning with "cb" *)
  (file_path_of "lib.cbits.m" = "lib/cbits/m.cb" /\
   resolve [("lib/cbits/m.cb", [SDecl true (DFunc "cf" 1)])] "lib.cbits.m" = Some [SDecl true (DFunc "cf" 1)]).
Proof. vm_compute. repeat split; eexists; repeat split. Qed.
Print Assumptions former_witnesses_repaired.

(* ------------------------------------------------------------------ non-vacuity *)
Definition ex_fs : fsys :=
  [("d1/a.cb", [SDecl true (DFunc "fa" 1); SDecl false (DFunc "ha" 2);
                SDecl true (DStruct "SA" (mkSdef false [mkMember "x" None; mkMember "v" (Some 2)]));
                SDecl true (DInterface "IA" ["ma"]);
                SDecl true (DImpl (mkImpl "IA" "SA" [("ma", 3)] [(1, 4)] (Some 5) ["sn"]))]);
   ("d1/d2/b.cb", [SImport "d1.a"; SDecl true (DFunc "fb" 6); SDecl true (DEnum "EB" [("X", 1)]);
                   SDecl true (DVar "KB" true (Some (ELit 7)))]);
   ("c.cb", [SImport "d1.a"; SDecl true (DTypedef "TC" "int"); SDecl false (DVar "HC" true (Some (ELit 8)))])].

Definition ex_fs2 : fsys :=
  [("x.cb", [SDecl true (DFunc "fx" 1); SDecl true (DStruct "SX" (mkSdef false [mkMember "x" None]));
             SDecl true (DImpl (mkImpl "" "SX" [] [(1, 4)] None []))]);
   ("sub/y.cb", [SImport "x"; SDecl true (DFunc "fy" 2); SDecl true (DEnum "EY" [("A", 1)])]);
   ("z.cb", [SDecl true (DVar "KZ" true (Some (ELit 3))); SDecl false (DFunc "fx" 9)])].

Example independence_hypothesis_satisfiable : independent 4 ex_fs2 ["x"; "z"].
Proof.
  intros p q Hp Hq Hne. simpl in Hp, Hq.
  destruct Hp as [<-|[<-|[]]]; destruct Hq as [<-|[<-|[]]]; try congruence; split; intros x Hx Hy;
    vm_compute in Hx; vm_compute in Hy;
    repeat (destruct Hx as [Hx|Hx]; [subst x; repeat (destruct Hy as [Hy|Hy]; [discriminate|]); tauto|]); tauto.
Qed.

(* the diamond d1.a <- d1.d2.b, c : b and c both carry a's impl block; still compatible *)
Example diamond_is_compatible : compatible 4 ex_fs ["d1.a"; "d1.d2.b"; "c"].
Proof. apply compatibleb_sound. vm_compute. reflexivity. Qed.

(* importing only the two tips of the diamond loads d1.a through them, once, in either order *)
Example permutations_agree : exists t1 t2,
  load 4 4 ex_fs ["d1.d2.b"; "c"] empty_tables = Ok t1 /\ load 4 4 ex_fs ["c"; "d1.d2.b"] empty_tables = Ok t2 /\
  teq t1 t2 /\ mem "d1.a" (loaded t1) = true.
Proof.
  do 2 eexists. split; [vm_compute; reflexivity|]. split; [vm_compute; reflexivity|]. split.
  - eapply (import_order_independent_diamond 4 4 ex_fs ["d1.a"; "d1.d2.b"; "c"] ["d1.d2.b"; "c"] ["c"; "d1.d2.b"] empty_tables).
    + apply perm_swap.
    + vm_compute. reflexivity.
    + vm_compute. reflexivity.
    + exact diamond_is_compatible.
    + intros q Hq. right. apply mem_true_iff in Hq. vm_compute in Hq.
      repeat (destruct Hq as [<-|Hq]; [simpl; tauto|]). destruct Hq.
  - vm_compute. reflexivity.
Qed.

Example diamond_example : exists t,
  load 4 4 ex_fs ["d1.d2.b"; "c"; "d1.a"; "c"; "d1.a"] empty_tables = Ok t /\
  load 4 4 ex_fs ["d1.d2.b"; "c"] empty_tables = Ok t /\
  lookup "fa" (funcs t) = Some 1 /\ lookup "ha" (funcs t) = None /\ lookup "d1.a.fa" (funcs t) = Some 1 /\
  lookup "SA::ma" (funcs t) = Some 3 /\ find_ctor "SA" 1 (ctors t) = Some 4 /\
  lookup "HC" (vars t) = None /\ lookup "KB" (vars t) = Some (true, Some 7).
Proof. eexists. vm_compute. repeat split. Qed.

(* the seeded shape: units <- layout, layout's constants are initialised from what units exports (a variable,
   a call), the program imports layout alone or both in either order; and a diamond on top of it *)
Definition scale_body : expr := EAdd EParam (EVar "UNIT").
Definition ex_init : fsys :=
  [("units.cb", [SDecl true (DVar "UNIT" true (Some (ELit 4))); SDecl true (DFunc "scale" 11)]);
   ("layout.cb", [SImport "units";
                  SDecl true (DVar "ROW" true (Some (EAdd (EVar "UNIT") (EVar "UNIT"))));
                  SDecl true (DVar "PAGE" true (Some (ECall "scale" [(11, scale_body)] (ELit 3))))]);
   ("lib/left.cb", [SImport "layout"; SDecl true (DVar "L" false (Some (EAdd (EVar "ROW") (ELit 1))))]);
   ("lib/right.cb", [SImport "layout"; SImport "units";
                     SDecl true (DVar "R" false (Some (EAdd (EVar "PAGE") (EVar "units.UNIT"))))])].
Definition ex_rank (p : name) : nat :=
  if String.eqb p "units" then 0 else if String.eqb p "layout" then 1 else 2.

Example initialisers_evaluated : exists t,
  load 5 5 ex_init ["layout"] empty_tables = Ok t /\
  lookup "ROW" (vars t) = Some (true, Some 8) /\ lookup "PAGE" (vars t) = Some (true, Some 7) /\
  lookup "layout.ROW" (vars t) = Some (true, Some 8) /\ lookup "UNIT" (vars t) = Some (true, Some 4) /\
  assign t "ROW" 3 = Err (EConstAssign "ROW").
Proof. eexists. vm_compute. repeat split. Qed.

(* without the nested import the initialiser fails and with it the import *)
Example initialiser_needs_import :
  load 5 5 [("layout.cb", [SDecl true (DVar "ROW" true (Some (EVar "UNIT")))])] ["layout"] empty_tables
  = Err (EUndefVar "UNIT").
Proof. reflexivity. Qed.

Example diamond_with_initialisers_is_layered :
  layeredb 5 ex_init ["units"; "layout"; "lib.left"; "lib.right"] = true /\
  rank_okb ex_init ex_rank ["units"; "layout"; "lib.left"; "lib.right"] = true /\
  imports_firstb ex_init ["units"; "layout"; "lib.left"; "lib.right"] = true /\
  compatibleb 5 ex_init ["units"; "layout"; "lib.left"; "lib.right"] = false.   (* the blocks do NOT commute *)
Proof. vm_compute. repeat split. Qed.

Example initialiser_permutations_agree : exists t1 t2,
  load 6 5 ex_init ["lib.left"; "lib.right"; "units"] empty_tables = Ok t1 /\
  load 6 5 ex_init ["units"; "lib.right"; "lib.left"] empty_tables = Ok t2 /\
  teq t1 t2 /\ lookup "R" (vars t1) = Some (false, Some 11) /\ lookup "L" (vars t2) = Some (false, Some 9).
Proof.
  do 2 eexists. split; [vm_compute; reflexivity|]. split; [vm_compute; reflexivity|]. split; [|split; vm_compute; reflexivity].
  destruct diamond_with_initialisers_is_layered as [HL [HR [HF _]]].
  eapply (import_order_independent_layered 5 ex_init ["units"; "layout"; "lib.left"; "lib.right"] ex_rank 6
            ["lib.left"; "lib.right"; "units"] ["units"; "lib.right"; "lib.left"] empty_tables).
  - apply rank_okb_sound. exact HR.
  - apply imports_firstb_sound. exact HF.
  - apply layeredb_sound. exact HL.
  - apply Permutation_rev.
  - vm_compute. reflexivity.
  - vm_compute. reflexivity.
  - intros q Hq. right. apply mem_true_iff in Hq. vm_compute in Hq.
    repeat (destruct Hq as [<-|Hq]; [simpl; tauto|]). destruct Hq.
Qed.
