(* C18 - property theorems only. Statements are about the Mech model of the run-time module loader
   (Model.v: handle_import_statement, sync_impl_definitions_from_parser, register_impl_definition);
   the proofs are in Import.v / Order.v / Inline.v.  They hold for every file system [fs], every
   table state [t] and every [fuel] (depth bound of the private parser's transitive impl list). *)
From Coq Require Import List String Ascii Bool Arith Permutation.
Import ListNotations.
From Cb Require Import C18.Model C18.Import C18.Order C18.Inline.
Local Open Scope string_scope.
Local Open Scope list_scope.

(* ------------------------------------------------------------------ exactly the exports *)

(* Whatever binding (function, struct, interface, typedef, variable, enum, destructor) differs after
   `import p;` was written by an exported declaration of the file p resolves to, under its own name
   or `p.name` - or by an impl block held by that file's parser (impl blocks are registered whether
   or not they are exported: see hidden_impl_invisible_refuted). *)
Theorem only_exports_visible : forall fuel fs t p m t' g k,
  mem p (loaded t) = false -> resolve fs p = Some m -> handle_import fuel fs t p = Ok t' ->
  tlookup g k t' <> tlookup g k t ->
  (exists d, In (SDecl true d) m /\ In (g, k) (decl_keys p d)) \/
  (exists d, In d (parser_impls fuel fs m) /\
     ((g = TF /\ In k (map fst (method_binds d))) \/ (g = TD /\ k = im_struct d /\ im_dtor d <> None))).
Proof. exact only_exports_visible_l. Qed.
Print Assumptions only_exports_visible.

(* readable instance: a function name that no exported function of the module carries (plain or
   qualified) and that is no mangled method key is exactly as (un)callable after the import as before *)
Theorem hidden_function_not_callable : forall fuel fs t p m t' n,
  mem p (loaded t) = false -> resolve fs p = Some m -> handle_import fuel fs t p = Ok t' ->
  (forall n0 b, In (SDecl true (DFunc n0 b)) m -> n <> n0 /\ n <> qualified p n0) ->
  (forall d, In d (parser_impls fuel fs m) -> ~ In n (map fst (method_binds d))) ->
  lookup n (funcs t') = lookup n (funcs t).
Proof. exact hidden_function_l. Qed.
Print Assumptions hidden_function_not_callable.

(* every exported declaration is bound after a successful import (under name and p.name) *)
Theorem exports_become_visible : forall fuel fs t p m t' d g k,
  mem p (loaded t) = false -> resolve fs p = Some m -> handle_import fuel fs t p = Ok t' ->
  In (SDecl true d) m -> In (g, k) (decl_keys p d) -> tlookup g k t' <> None.
Proof. exact exports_become_visible_l. Qed.
Print Assumptions exports_become_visible.

(* REFUTED on the faithful model (finding C18-hidden-impl-visible): an impl block WITHOUT `export`
   is registered all the same - its method becomes callable and its constructor is found *)
Theorem hidden_impl_invisible_refuted : exists fs t,
  resolve fs "a" = Some [SDecl true (DStruct "SA" (mkSdef false [mkMember "x" None]));
                         SDecl true (DInterface "IA" ["getx"]);
                         SDecl false (DImpl (mkImpl "IA" "SA" [("getx", 7)] [] None []));
                         SDecl false (DImpl (mkImpl "" "SA" [] [(1, 8)] None []))] /\
  load 3 fs ["a"] empty_tables = Ok t /\
  lookup (method_key "SA" "getx") (funcs t) = Some 7 /\ find_ctor "SA" 1 (ctors t) = Some 8.
Proof.
  exists [("a.cb", [SDecl true (DStruct "SA" (mkSdef false [mkMember "x" None]));
                   SDecl true (DInterface "IA" ["getx"]);
                   SDecl false (DImpl (mkImpl "IA" "SA" [("getx", 7)] [] None []));
                   SDecl false (DImpl (mkImpl "" "SA" [] [(1, 8)] None []))])].
  eexists. vm_compute. repeat split.
Qed.
Print Assumptions hidden_impl_invisible_refuted.

(* ------------------------------------------------------------------ once *)

Theorem import_idempotent : forall fuel fs p r t,
  load fuel fs (p :: p :: r) t = load fuel fs (p :: r) t.
Proof. exact load_twice. Qed.
Print Assumptions import_idempotent.

(* a repeated import anywhere later in the sequence (directly, or because several files of a diamond
   name the same module) is a no-op: the two sequences give the very same result *)
Theorem import_again_is_noop : forall fuel fs p l1 l2 t,
  In p l1 -> load fuel fs (l1 ++ p :: l2) t = load fuel fs (l1 ++ l2) t.
Proof. exact load_again. Qed.
Print Assumptions import_again_is_noop.

Theorem loaded_module_changes_nothing : forall fuel fs t p t',
  mem p (loaded t) = true -> handle_import fuel fs t p = Ok t' -> t' = t.
Proof. exact loaded_import_changes_nothing. Qed.
Print Assumptions loaded_module_changes_nothing.

Theorem successful_import_marks_loaded : forall fuel fs t p t',
  handle_import fuel fs t p = Ok t' -> mem p (loaded t') = true.
Proof. exact handle_import_marks. Qed.
Print Assumptions successful_import_marks_loaded.

(* ------------------------------------------------------------------ independent of order *)

(* Any permutation of a duplicate-free list of not-yet-loaded modules whose footprints (bound names;
   for impl blocks and constructors: the struct they belong to) are pairwise disjoint yields tables
   that are equal as maps - or an error in both orders. *)
Theorem import_order_independent : forall fuel fs l1 l2 t,
  Permutation l1 l2 -> NoDup l1 -> (forall p, In p l1 -> mem p (loaded t) = false) ->
  independent fuel fs l1 ->
  req (load fuel fs l1 t) (load fuel fs l2 t).
Proof. exact import_order_independent_l. Qed.
Print Assumptions import_order_independent.

(* the same for modules that share registration steps: two importers of a common module both hand
   over its impl blocks (a diamond); identical steps commute, so such lists may be permuted too *)
Theorem import_order_independent_diamond : forall fuel fs l1 l2 t,
  Permutation l1 l2 -> NoDup l1 -> (forall p, In p l1 -> mem p (loaded t) = false) ->
  compatible fuel fs l1 ->
  req (load fuel fs l1 t) (load fuel fs l2 t).
Proof. exact import_order_compatible_l. Qed.
Print Assumptions import_order_independent_diamond.

(* what "equal as maps" gives the interpreter: every lookup it can make answers the same *)
Theorem equal_tables_answer_alike : forall a b, teq a b ->
  (forall g k, tlookup g k a = tlookup g k b) /\
  (forall s n, find_ctor s n (ctors a) = find_ctor s n (ctors b)) /\
  (forall i s, has_impl i s (impls a) = has_impl i s (impls b)) /\
  (forall s, impls_of s (impls a) = impls_of s (impls b)) /\
  (forall p, mem p (loaded a) = mem p (loaded b)).
Proof. exact equal_tables_answer_alike_l. Qed.
Print Assumptions equal_tables_answer_alike.

(* every registration step respects equality-as-maps, so everything that runs after the imports
   (the importer's own declarations) cannot tell the two orders apart either *)
Theorem later_registrations_respect_equality : forall ops a b,
  teq a b -> req (run_ops ops a) (run_ops ops b).
Proof. exact run_congr. Qed.
Print Assumptions later_registrations_respect_equality.

(* ------------------------------------------------------------------ imported = inlined (table level) *)

(* `import p;` leaves the tables as if the exported declarations of the file (and the impl blocks its
   parser holds) had been written in the importing file: equal on every unqualified function and
   variable name, and literally equal struct / interface / typedef / enum / impl / constructor /
   destructor tables; a registration error arises in one exactly if in the other.  Side conditions:
   exported structs have no array members and impl blocks no static variables (the two refuted
   statements below), names are identifiers, const variables have initialisers. *)
Theorem imported_like_inlined : forall fuel fs t p m,
  mem p (loaded t) = false -> resolve fs p = Some m ->
  (forall d, In (SDecl true d) m -> decl_ok d) ->
  (forall d, In d (parser_impls fuel fs m) -> im_statics d = []) ->
  rsim (handle_import fuel fs t p) (run_ops (inline_ops fuel fs m) t).
Proof. exact imported_like_inlined_l. Qed.
Print Assumptions imported_like_inlined.

(* REFUTED (finding C18-struct-array-member): an exported struct with an array member is registered
   without the array information; written locally it keeps it *)
Theorem imported_struct_like_inlined_refuted : exists fs t t',
  let wa := mkSdef false [mkMember "v" (Some 3); mkMember "k" None] in
  resolve fs "arr" = Some [SDecl true (DStruct "WA" wa)] /\
  load 3 fs ["arr"] empty_tables = Ok t /\
  run_ops (inline_ops 3 fs [SDecl true (DStruct "WA" wa)]) empty_tables = Ok t' /\
  lookup "WA" (structs t') = Some wa /\
  lookup "WA" (structs t) = Some (mkSdef false [mkMember "v" None; mkMember "k" None]).
Proof.
  exists [("arr.cb", [SDecl true (DStruct "WA" (mkSdef false [mkMember "v" (Some 3); mkMember "k" None]))])].
  do 2 eexists. vm_compute. repeat split.
Qed.
Print Assumptions imported_struct_like_inlined_refuted.

(* REFUTED (finding C18-impl-static-not-imported): static variables of an impl block exist when the
   block is written in the running file, not when it arrives through an import *)
Theorem imported_impl_statics_like_inlined_refuted : exists fs t t',
  let m := [SDecl true (DStruct "SS" (mkSdef false [mkMember "x" None]));
            SDecl true (DInterface "IS" ["tick"]);
            SDecl true (DImpl (mkImpl "IS" "SS" [("tick", 4)] [] None ["n"]))] in
  resolve fs "ms" = Some m /\
  load 3 fs ["ms"] empty_tables = Ok t /\ run_ops (inline_ops 3 fs m) empty_tables = Ok t' /\
  istatics t = [] /\ istatics t' = [("IS", ("SS", "n"))].
Proof.
  exists [("ms.cb", [SDecl true (DStruct "SS" (mkSdef false [mkMember "x" None]));
                    SDecl true (DInterface "IS" ["tick"]);
                    SDecl true (DImpl (mkImpl "IS" "SS" [("tick", 4)] [] None ["n"]))])].
  do 2 eexists. vm_compute. repeat split.
Qed.
Print Assumptions imported_impl_statics_like_inlined_refuted.

(* REFUTED (finding C18-transitive-import, DESIGN section 7 #35): the `import` statements of a module
   are not executed when it is loaded, so what its exported functions call is not bound *)
Theorem transitive_imports_loaded_refuted : exists fs t,
  resolve fs "lib.left" = Some [SImport "lib.base"; SDecl true (DFunc "left" 1)] /\
  resolve fs "lib.base" = Some [SDecl true (DFunc "bump" 2)] /\
  load 5 fs ["lib.left"] empty_tables = Ok t /\
  lookup "left" (funcs t) = Some 1 /\ lookup "bump" (funcs t) = None /\ mem "lib.base" (loaded t) = false.
Proof.
  exists [("lib/left.cb", [SImport "lib.base"; SDecl true (DFunc "left" 1)]);
          ("lib/base.cb", [SDecl true (DFunc "bump" 2)])].
  eexists. vm_compute. repeat split.
Qed.
Print Assumptions transitive_imports_loaded_refuted.

(* ------------------------------------------------------------------ found via the dotted path *)

Theorem dotted_path_resolution : forall segs fs m,
  (forall s, In s segs -> contains "." s = false) ->
  let p := String.concat "." segs in
  contains ".cb" p = false -> contains "." p = true -> contains "/" p = false -> contains ".." p = false ->
  lookup (String.concat "/" segs +++ ".cb") fs = Some m ->
  resolve fs p = Some m.
Proof. exact dotted_path_resolution_l. Qed.
Print Assumptions dotted_path_resolution.

Theorem undotted_path_resolution : forall p fs m,
  contains "." p = false -> lookup (p +++ ".cb") fs = Some m -> resolve fs p = Some m.
Proof. exact undotted_path_resolution_l. Qed.
Print Assumptions undotted_path_resolution.

Theorem missing_module_is_an_error : forall fuel fs t p,
  mem p (loaded t) = false -> resolve fs p = None ->
  handle_import fuel fs t p = Err (EOpen p (file_path_of p)).
Proof. exact unresolved_is_error. Qed.
Print Assumptions missing_module_is_an_error.

(* REFUTED (finding C18-dotcb-component): a path component beginning with "cb" makes the loader take
   the dotted text itself as the file name *)
Theorem dotted_path_resolution_refuted : exists fs m,
  lookup "lib/cbits/m.cb" fs = Some m /\ file_path_of "lib.cbits.m" = "lib.cbits.m" /\
  resolve fs "lib.cbits.m" = None.
Proof. exists [("lib/cbits/m.cb", [SDecl true (DFunc "cf" 1)])]. eexists. vm_compute. repeat split. Qed.
Print Assumptions dotted_path_resolution_refuted.

(* ------------------------------------------------------------------ non-vacuity *)
Definition ex_fs : fsys :=
  [("d1/a.cb", [SDecl true (DFunc "fa" 1); SDecl false (DFunc "ha" 2);
                SDecl true (DStruct "SA" (mkSdef false [mkMember "x" None]));
                SDecl true (DInterface "IA" ["ma"]);
                SDecl true (DImpl (mkImpl "IA" "SA" [("ma", 3)] [(1, 4)] (Some 5) []))]);
   ("d1/d2/b.cb", [SImport "d1.a"; SDecl true (DFunc "fb" 6); SDecl true (DEnum "EB" [("X", 1)]);
                   SDecl true (DVar "KB" true (Some 7))]);
   ("c.cb", [SImport "d1.a"; SDecl true (DTypedef "TC" "int"); SDecl false (DVar "HC" true (Some 8))])].

Definition ex_fs2 : fsys :=
  [("x.cb", [SDecl true (DFunc "fx" 1); SDecl true (DStruct "SX" (mkSdef false [mkMember "x" None]));
             SDecl true (DImpl (mkImpl "" "SX" [] [(1, 4)] None []))]);
   ("sub/y.cb", [SDecl true (DFunc "fy" 2); SDecl true (DEnum "EY" [("A", 1)])]);
   ("z.cb", [SDecl true (DVar "KZ" true (Some 3)); SDecl false (DFunc "fx" 9)])].

Example independence_hypothesis_satisfiable : independent 4 ex_fs2 ["x"; "sub.y"; "z"].
Proof.
  intros p q Hp Hq Hne x Hx Hy. simpl in Hp, Hq.
  destruct Hp as [<-|[<-|[<-|[]]]]; destruct Hq as [<-|[<-|[<-|[]]]]; try congruence;
    vm_compute in Hx; vm_compute in Hy;
    repeat (destruct Hx as [Hx|Hx]; [subst x; repeat (destruct Hy as [Hy|Hy]; [discriminate|]); tauto|]); tauto.
Qed.

(* the diamond d1.a <- d1.d2.b, c : b and c both carry a's impl block; still compatible *)
Example diamond_is_compatible : compatible 4 ex_fs ["d1.a"; "d1.d2.b"; "c"].
Proof. apply compatibleb_sound. vm_compute. reflexivity. Qed.

Example permutations_agree :
  req (load 4 ex_fs ["d1.a"; "d1.d2.b"; "c"] empty_tables) (load 4 ex_fs ["c"; "d1.d2.b"; "d1.a"] empty_tables).
Proof.
  apply import_order_independent_diamond.
  - apply Permutation_rev with (l := ["d1.a"; "d1.d2.b"; "c"]).
  - repeat constructor; simpl; intuition discriminate.
  - intros p _. reflexivity.
  - exact diamond_is_compatible.
Qed.

Example diamond_example : exists t,
  load 4 ex_fs ["d1.d2.b"; "c"; "d1.a"; "c"; "d1.a"] empty_tables = Ok t /\
  load 4 ex_fs ["d1.d2.b"; "c"; "d1.a"] empty_tables = Ok t /\
  lookup "fa" (funcs t) = Some 1 /\ lookup "ha" (funcs t) = None /\ lookup "d1.a.fa" (funcs t) = Some 1 /\
  lookup "SA::ma" (funcs t) = Some 3 /\ find_ctor "SA" 1 (ctors t) = Some 4 /\
  lookup "HC" (vars t) = None /\ lookup "KB" (vars t) = Some (true, Some 7).
Proof. eexists. vm_compute. repeat split. Qed.
