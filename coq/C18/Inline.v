(* C18 - an import equals local registration of the exported declarations (table level), and the
   dotted-path resolution. *)
From Coq Require Import List String Ascii Bool Arith Lia.
Import ListNotations.
From Cb Require Import C18.Model C18.Import.
Local Open Scope string_scope.
Local Open Scope list_scope.
Opaque bind.

(* ---------- strings *)
Lemma prefix_refl_app : forall x b, String.prefix x (x +++ b) = true.
Proof. induction x; intros; simpl; [now destruct b|]. destruct (ascii_dec a a); [apply IHx|congruence]. Qed.

Lemma contains_here : forall x s, String.prefix x s = true -> contains x s = true.
Proof. intros. destruct s; cbn [contains]; now rewrite H. Qed.

Lemma contains_app_r : forall x a b, contains x (a +++ x +++ b) = true.
Proof.
  induction a; intros; simpl String.append.
  - apply contains_here. apply prefix_refl_app.
  - cbn [contains]. destruct (String.prefix x (String a (a0 +++ x +++ b))); [reflexivity|apply IHa].
Qed.

Definition dotted (k : name) : bool := contains "." k.

Lemma qualified_dotted : forall p n, dotted (qualified p n) = true.
Proof. intros. unfold dotted, qualified. apply contains_app_r. Qed.

(* ---------- simulation between the importing run and the inlined run *)
Record sim (a b : tables) : Prop := mk_sim {
  sim_funcs : forall k, dotted k = false -> lookup k (funcs a) = lookup k (funcs b);
  sim_vars : forall k, dotted k = false -> lookup k (vars a) = lookup k (vars b);
  sim_structs : structs a = structs b;
  sim_ifaces : ifaces a = ifaces b;
  sim_typedefs : typedefs a = typedefs b;
  sim_enums : enums a = enums b;
  sim_impls : impls a = impls b;
  sim_ctors : ctors a = ctors b;
  sim_dtors : dtors a = dtors b;
  sim_statics : istatics a = istatics b
}.
Definition rsim (r1 r2 : result) : Prop :=
  match r1, r2 with
  | Ok a, Ok b => sim a b
  | Err e1, Err e2 => e1 = e2
  | _, _ => False
  end.

Lemma sim_refl : forall t, sim t t.
Proof. intros; constructor; auto. Qed.

Lemma lookup_bind_congr' : forall V k k0 (v : V) m1 m2,
  lookup k m1 = lookup k m2 -> lookup k (bind k0 v m1) = lookup k (bind k0 v m2).
Proof.
  intros. destruct (string_dec k k0) as [->|Hn].
  - now rewrite !lookup_bind_eq.
  - now rewrite !lookup_bind_neq.
Qed.

(* the same step on both sides *)
Lemma sim_apply : forall o a b, sim a b -> rsim (apply_op a o) (apply_op b o).
Proof.
  intros o a b [Hf Hv Hs Hi Ht He Him Hc Hd Hst].
  destruct o; simpl;
    try (constructor; simpl; intros; auto using lookup_bind_congr'; congruence).
  - (* OEnum *) rewrite He. destruct (lookup k (enums b)).
    + constructor; auto.
    + constructor; simpl; intros; auto; congruence.
  - (* OImpl *)
  rewrite Him. destruct (has_impl _ _ _).
    + constructor; simpl; intros; auto; try congruence. apply lookup_bind_all_congr; auto.
    + destruct (find_conflict _ _); [reflexivity|].
      constructor; simpl; intros; auto; try congruence. apply lookup_bind_all_congr; auto.
Qed.

(* steps only the importing side performs: qualified bindings and the loaded_modules mark *)
Definition import_only (o : op) : bool :=
  match o with
  | OFunc k _ => dotted k
  | OVar k _ _ => dotted k
  | OLoaded _ => true
  | _ => false
  end.

Lemma sim_import_only : forall o a b, import_only o = true -> sim a b ->
  exists a', apply_op a o = Ok a' /\ sim a' b.
Proof.
  intros o a b H [Hf Hv Hs Hi Ht He Him Hc Hd Hst].
  destruct o; simpl in H; try discriminate; simpl; eexists; (split; [reflexivity|]);
    constructor; simpl; intros; auto.
  - rewrite lookup_bind_neq; auto. intro; subst; congruence.
  - rewrite lookup_bind_neq; auto. intro; subst; congruence.
Qed.

Definition erase (ops : list op) : list op := filter (fun o => negb (import_only o)) ops.

Lemma sim_run : forall ops a b, sim a b -> rsim (run_ops ops a) (run_ops (erase ops) b).
Proof.
  induction ops as [|o ops IH]; intros a b H; simpl; [assumption|].
  destruct (import_only o) eqn:E; simpl.
  - destruct (sim_import_only o a b E H) as [a' [-> H']]. now apply IH.
  - pose proof (sim_apply o a b H) as S.
    destruct (apply_op a o), (apply_op b o); simpl in S; try tauto. now apply IH.
Qed.

Lemma erase_app : forall a b, erase (a ++ b) = erase a ++ erase b.
Proof. intros. unfold erase. apply filter_app. Qed.
Lemma erase_flat_map : forall A (f : A -> list op) l, erase (flat_map f l) = flat_map (fun x => erase (f x)) l.
Proof. induction l; simpl; [reflexivity|]. now rewrite erase_app, IHl. Qed.

Lemma erase_sync : forall d, erase (sync_ops d) = sync_ops d.
Proof.
  intros. unfold sync_ops. rewrite !erase_app. f_equal; [|f_equal].
  - induction (im_ctors d); simpl; [reflexivity|]. unfold erase in *. simpl. now rewrite IHl.
  - now destruct (im_dtor d).
Qed.

(* side conditions under which the two registrations coincide *)
Definition no_arrays (sd : sdef) : Prop := forall m, In m (sd_members sd) -> mem_array m = None.
Definition decl_ok (d : decl) : Prop :=
  match d with
  | DFunc n _ => dotted n = false
  | DVar n c init => dotted n = false /\ (c = true -> init <> None)
  | DStruct _ sd => no_arrays sd
  | _ => True
  end.

Lemma import_sdef_id : forall sd, no_arrays sd -> import_sdef sd = sd.
Proof.
  intros [g ms] H. unfold import_sdef. simpl. f_equal. unfold no_arrays in H. simpl in H.
  induction ms as [|[n a] ms IH]; simpl; [reflexivity|].
  rewrite IH by (intros; apply H; now right).
  assert (Ha : a = None) by (apply (H (mkMember n a)); now left). subst a. reflexivity.
Qed.

Lemma erase_import_decl : forall p d, decl_ok d ->
  erase (import_decl_ops p d) = match d with DImpl _ => [] | _ => local_decl_ops d end.
Proof.
  intros p d H. destruct d; simpl in *; unfold erase; simpl; try reflexivity.
  - rewrite H, qualified_dotted. reflexivity.
  - now rewrite import_sdef_id.
  - destruct H as [H1 H2]. destruct is_const, init; simpl; rewrite ?H1, ?qualified_dotted; try reflexivity.
    exfalso. now apply H2.
Qed.

Lemma erase_import_stmts : forall p m, (forall d, In (SDecl true d) m -> decl_ok d) ->
  erase (flat_map (import_stmt_ops p) m) = flat_map local_decl_ops (exported_decls m).
Proof.
  induction m as [|s m IH]; intros H; simpl; [reflexivity|].
  rewrite erase_app, IH by (intros; apply H; now right).
  destruct s as [q|[|] d]; simpl; try reflexivity.
  rewrite erase_import_decl by (apply H; now left).
  destruct d; simpl; rewrite ?app_nil_r; reflexivity.
Qed.

Lemma erase_module_ops : forall fuel fs p m,
  (forall d, In (SDecl true d) m -> decl_ok d) ->
  (forall d, In d (parser_impls fuel fs m) -> im_statics d = []) ->
  erase (module_ops fuel fs p m) = inline_ops fuel fs m.
Proof.
  intros fuel fs p m H1 H2. unfold module_ops, inline_ops. rewrite !erase_app.
  rewrite erase_import_stmts by assumption. f_equal.
  rewrite erase_flat_map. unfold erase at 2. simpl. rewrite app_nil_r.
  induction (parser_impls fuel fs m) as [|d l IH]; simpl; [reflexivity|].
  rewrite IH by (intros; apply H2; now right). f_equal.
  rewrite erase_sync. unfold local_impl_ops. rewrite H2 by now left. reflexivity.
Qed.

Lemma imported_like_inlined_l : forall fuel fs t p m,
  mem p (loaded t) = false -> resolve fs p = Some m ->
  (forall d, In (SDecl true d) m -> decl_ok d) ->
  (forall d, In d (parser_impls fuel fs m) -> im_statics d = []) ->
  rsim (handle_import fuel fs t p) (run_ops (inline_ops fuel fs m) t).
Proof.
  intros fuel fs t p m M R H1 H2. unfold handle_import. rewrite M. unfold path_ops. rewrite R.
  rewrite <- (erase_module_ops fuel fs p m H1 H2). apply sim_run. apply sim_refl.
Qed.

(* ---------- dotted module paths *)
Lemma map_str_app : forall f a b, map_str f (a +++ b) = map_str f a +++ map_str f b.
Proof. induction a; intros; simpl; [reflexivity|]. now rewrite IHa. Qed.

Lemma contains_dot_cons : forall a s,
  contains "." (String a s) = if ascii_dec "."%char a then true else contains "." s.
Proof.
  intros. cbn [contains String.prefix]. destruct (ascii_dec "."%char a); [|reflexivity]. now destruct s.
Qed.

Lemma no_dot_map_id : forall s, contains "." s = false -> map_str dot_to_slash s = s.
Proof.
  induction s; intros H; [reflexivity|]. rewrite contains_dot_cons in H. cbn [map_str].
  destruct (ascii_dec "."%char a) as [E|N]; [discriminate|].
  rewrite IHs by assumption. unfold dot_to_slash.
  destruct (Ascii.eqb_spec a "."%char); [congruence|reflexivity].
Qed.

Lemma dots_become_slashes : forall segs, (forall s, In s segs -> contains "." s = false) ->
  map_str dot_to_slash (String.concat "." segs) = String.concat "/" segs.
Proof.
  induction segs as [|s segs IH]; intros H; [reflexivity|].
  destruct segs as [|s2 segs].
  - simpl. apply no_dot_map_id. apply H. now left.
  - change (String.concat "." (s :: s2 :: segs)) with (s +++ "." +++ String.concat "." (s2 :: segs)).
    change (String.concat "/" (s :: s2 :: segs)) with (s +++ "/" +++ String.concat "/" (s2 :: segs)).
    rewrite !map_str_app. rewrite IH by (intros; apply H; now right).
    rewrite no_dot_map_id by (apply H; now left). reflexivity.
Qed.

Lemma file_path_dotted : forall p,
  contains ".cb" p = false -> contains "." p = true -> contains "/" p = false -> contains ".." p = false ->
  file_path_of p = map_str dot_to_slash p +++ ".cb".
Proof. intros p H1 H2 H3 H4. unfold file_path_of. now rewrite H1, H2, H3, H4. Qed.

Lemma file_path_plain : forall p, contains "." p = false -> file_path_of p = p +++ ".cb".
Proof.
  intros p H. unfold file_path_of.
  assert (contains ".cb" p = false) as ->.
  { induction p; [reflexivity|]. rewrite contains_dot_cons in H. cbn [contains String.prefix].
    destruct (ascii_dec "."%char a) as [E|N]; [discriminate|]. auto. }
  now rewrite H.
Qed.

Lemma resolve_first_candidate : forall fs p m, lookup (file_path_of p) fs = Some m -> resolve fs p = Some m.
Proof.
  intros fs p m H. unfold resolve, search_paths.
  destruct (String.prefix "../" (file_path_of p) || String.prefix "./" (file_path_of p)); simpl; now rewrite H.
Qed.

Lemma unresolved_is_error : forall fuel fs t p, mem p (loaded t) = false -> resolve fs p = None ->
  handle_import fuel fs t p = Err (EOpen p (file_path_of p)).
Proof. intros. unfold handle_import, path_ops. now rewrite H, H0. Qed.

Lemma dotted_path_resolution_l : forall segs fs m,
  (forall s, In s segs -> contains "." s = false) ->
  let p := String.concat "." segs in
  contains ".cb" p = false -> contains "." p = true -> contains "/" p = false -> contains ".." p = false ->
  lookup (String.concat "/" segs +++ ".cb") fs = Some m ->
  resolve fs p = Some m.
Proof.
  intros segs fs m Hs p H1 H2 H3 H4 Hl. apply resolve_first_candidate.
  rewrite (file_path_dotted p H1 H2 H3 H4). unfold p. now rewrite (dots_become_slashes segs Hs).
Qed.

Lemma undotted_path_resolution_l : forall p fs m,
  contains "." p = false -> lookup (p +++ ".cb") fs = Some m -> resolve fs p = Some m.
Proof. intros p fs m H Hl. apply resolve_first_candidate. now rewrite (file_path_plain p H). Qed.
