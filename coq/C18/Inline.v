(* C18 - an import equals local registration of the exported declarations (table level), and the
   dotted-path resolution. *)
From Coq Require Import List String Ascii Bool Arith Lia.
Import ListNotations.
From Cb Require Import C18.Model C18.Import C18.Init.
Local Open Scope string_scope.
Local Open Scope list_scope.
Opaque bind.

(* ---------- strings *)
Lemma prefix_refl_app : forall x b, String.prefix x (x +++ b) = true.
Proof. induction x; intros; simpl; [now destruct b|]. destruct (ascii_dec a a); [apply IHx|congruence]. Qed.

Lemma contains_here : forall x s, String.prefix x s = true -> contains x s = true.
Proof. intros. destruct s; cbn [contains]; now rewrite H. Qed.

Lemma contains_app_r : forall x a b, contains x (a +++ x +++ b) = true.
Proof.
  induction a; intros; simpl String.append.
  - apply contains_here. apply prefix_refl_app.
  - cbn [contains]. destruct (String.prefix x (String a (a0 +++ x +++ b))); [reflexivity|apply IHa].
Qed.

Definition dotted (k : name) : bool := contains "." k.

Lemma qualified_dotted : forall p n, dotted (qualified p n) = true.
Proof. intros. unfold dotted, qualified. apply contains_app_r. Qed.

(* ---------- simulation between the importing run and the inlined run *)
Record sim (a b : tables) : Prop := mk_sim {
  sim_funcs : forall k, dotted k = false -> lookup k (funcs a) = lookup k (funcs b);
  sim_vars : forall k, dotted k = false -> lookup k (vars a) = lookup k (vars b);
  sim_structs : structs a = structs b;
  sim_ifaces : ifaces a = ifaces b;
  sim_typedefs : typedefs a = typedefs b;
  sim_enums : enums a = enums b;
  sim_impls : impls a = impls b;
  sim_ctors : ctors a = ctors b;
  sim_dtors : dtors a = dtors b;
  sim_statics : istatics a = istatics b;
  sim_loaded : loaded a = loaded b
}.
Definition rsim (r1 r2 : result) : Prop :=
  match r1, r2 with
  | Ok a, Ok b => sim a b
  | Err e1, Err e2 => e1 = e2
  | _, _ => False
  end.

Lemma sim_refl : forall t, sim t t.
Proof. intros; constructor; auto. Qed.

Lemma lookup_bind_congr' : forall V k k0 (v : V) m1 m2,
  lookup k m1 = lookup k m2 -> lookup k (bind k0 v m1) = lookup k (bind k0 v m2).
Proof.
  intros. destruct (string_dec k k0) as [->|Hn].
  - now rewrite !lookup_bind_eq.
  - now rewrite !lookup_bind_neq.
Qed.

(* an initialiser whose names (and those of every function body it may call) are plain identifiers
   computes the same value on both sides *)
Definition expr_ok (e : expr) : Prop := forall g k, In (g, k) (ereads e) -> dotted k = false.

Lemma sim_eval : forall a b p e, sim a b -> expr_ok e -> eval a p e = eval b p e.
Proof.
  intros a b p e [Hf Hv Hs Hi Ht He Him Hc Hd Hst Hl] Hok. apply eval_frame. intros g k Hin.
  specialize (Hok g k Hin). destruct g; unfold tlookup; f_equal; auto; congruence.
Qed.

Definition undotted (ks : list name) : list name := filter (fun k => negb (dotted k)) ks.

Lemma lookup_init_undotted : forall ks c v k (m1 m2 : amap (bool * option nat)),
  dotted k = false -> lookup k m1 = lookup k m2 ->
  lookup k (bind_all (init_binds ks c v) m1) = lookup k (bind_all (init_binds (undotted ks) c v) m2).
Proof.
  induction ks as [|k0 r IH]; intros c v k m1 m2 Hk H; [exact H|].
  unfold bind_all in *. simpl. destruct (dotted k0) eqn:D; simpl.
  - apply IH; auto. rewrite lookup_bind_neq; [exact H|]. intro; subst; congruence.
  - apply IH; auto. now apply lookup_bind_congr'.
Qed.

(* the same step on both sides *)
Definition op_ok (o : op) : Prop := match o with OInit _ _ e => expr_ok e | _ => True end.

Definition erase_op (o : op) : list op :=
  match o with
  | OInit ks c e => [OInit (undotted ks) c e]
  | OFunc k _ => if dotted k then [] else [o]
  | OVar k _ _ => if dotted k then [] else [o]
  | _ => [o]
  end.
Definition erase (ops : list op) : list op := flat_map erase_op ops.

Lemma sim_apply : forall o a b, sim a b -> op_ok o -> rsim (apply_op a o) (run_ops (erase_op o) b).
Proof.
  intros o a b H Hok. pose proof H as [Hf Hv Hs Hi Ht He Him Hc Hd Hst Hl].
  destruct o; cbn [erase_op];
    try (simpl; constructor; simpl; intros; auto using lookup_bind_congr'; congruence).
  - (* OFunc *) destruct (dotted k) eqn:D; simpl.
    + constructor; simpl; intros; auto. rewrite lookup_bind_neq; auto. intro; subst; congruence.
    + constructor; simpl; intros; auto using lookup_bind_congr'.
  - (* OVar *) destruct (dotted k) eqn:D; simpl.
    + constructor; simpl; intros; auto. rewrite lookup_bind_neq; auto. intro; subst; congruence.
    + constructor; simpl; intros; auto using lookup_bind_congr'.
  - (* OEnum *) simpl. rewrite He. destruct (lookup k (enums b)).
    + constructor; auto.
    + constructor; simpl; intros; auto; congruence.
  - (* OImpl *)
    simpl. rewrite Him. destruct (has_impl _ _ _).
    + constructor; simpl; intros; auto; try congruence. apply lookup_bind_all_congr; auto.
    + destruct (find_conflict _ _); [reflexivity|].
      constructor; simpl; intros; auto; try congruence. apply lookup_bind_all_congr; auto.
  - (* OInit *)
    simpl in Hok. simpl. rewrite (sim_eval a b 0 e H Hok). destruct (eval b 0 e); [|reflexivity].
    constructor; simpl; intros; auto. apply lookup_init_undotted; auto.
Qed.

Lemma run_ops_one : forall o t, run_ops [o] t = apply_op t o.
Proof. intros. simpl. now destruct (apply_op t o). Qed.

Lemma sim_run : forall ops a b, sim a b -> Forall op_ok ops -> rsim (run_ops ops a) (run_ops (erase ops) b).
Proof.
  induction ops as [|o ops IH]; intros a b H Hok; simpl; [assumption|].
  inversion Hok as [|? ? Ho Hr]; subst. unfold erase in *. rewrite run_ops_app.
  pose proof (sim_apply o a b H Ho) as S.
  destruct (apply_op a o), (run_ops (erase_op o) b); simpl in S; try tauto. now apply IH.
Qed.

Lemma erase_app : forall a b, erase (a ++ b) = erase a ++ erase b.
Proof. intros. unfold erase. apply flat_map_app. Qed.
Lemma erase_flat_map : forall A (f : A -> list op) l, erase (flat_map f l) = flat_map (fun x => erase (f x)) l.
Proof. induction l; simpl; [reflexivity|]. now rewrite erase_app, IHl. Qed.

Lemma erase_sync : forall d, erase (sync_ops d) = sync_ops d.
Proof.
  intros. unfold sync_ops. rewrite !erase_app. f_equal; [|f_equal; [|f_equal]].
  - induction (im_statics d); simpl; [reflexivity|]. unfold erase in *. simpl. now rewrite IHl.
  - induction (im_ctors d); simpl; [reflexivity|]. unfold erase in *. simpl. now rewrite IHl.
  - now destruct (im_dtor d).
Qed.
Lemma erase_syncs : forall l, erase (flat_map sync_ops l) = flat_map local_impl_ops l.
Proof. induction l; simpl; [reflexivity|]. now rewrite erase_app, erase_sync, IHl. Qed.
Lemma sync_ops_ok : forall l, Forall op_ok (flat_map sync_ops l).
Proof.
  intros. apply Forall_forall. intros o Ho. apply in_flat_map in Ho. destruct Ho as [d [_ Ho]].
  unfold sync_ops in Ho. rewrite !in_app_iff in Ho. destruct Ho as [Ho|[Ho|[Ho|Ho]]].
  - apply in_map_iff in Ho. destruct Ho as [x [<- _]]. exact I.
  - apply in_map_iff in Ho. destruct Ho as [x [<- _]]. exact I.
  - destruct (im_dtor d); simpl in Ho; [destruct Ho as [<-|[]]; exact I|tauto].
  - destruct Ho as [<-|[]]. exact I.
Qed.

(* side conditions: declared names are identifiers, a const has an initialiser, initialisers use
   plain (unqualified) names only *)
Definition decl_ok (d : decl) : Prop :=
  match d with
  | DFunc n _ => dotted n = false
  | DVar n c init => dotted n = false /\ (c = true -> init <> None) /\ (forall e, init = Some e -> expr_ok e)
  | _ => True
  end.
Definition names_ok (fs : fsys) : Prop :=
  forall q m d, resolve fs q = Some m -> In (SDecl true d) m -> decl_ok d.

Lemma erase_import_stmt : forall p e d, (e = true -> decl_ok d) ->
  erase (import_stmt_ops p (SDecl e d)) = inline_stmt_ops (SDecl e d).
Proof.
  intros p [|] d H; [|reflexivity]. specialize (H eq_refl).
  destruct d; simpl in *; unfold erase; simpl; try reflexivity.
  - rewrite H, qualified_dotted. reflexivity.
  - destruct H as [H1 [H2 H3]]. destruct is_const, init; simpl; unfold undotted; simpl;
      rewrite ?H1, ?qualified_dotted; try reflexivity.
    exfalso. now apply H2.
Qed.

Lemma import_stmt_ops_ok : forall p e d, (e = true -> decl_ok d) -> Forall op_ok (import_stmt_ops p (SDecl e d)).
Proof.
  intros p [|] d H; [|constructor]. specialize (H eq_refl).
  destruct d; simpl in *; repeat constructor.
  destruct H as [H1 [H2 H3]]. destruct is_const, init; repeat constructor; simpl; auto.
Qed.

Lemma sim_stmts : forall imp inl p,
  (forall a b q, sim a b -> rsim (imp a q) (inl b q)) ->
  forall l a b, sim a b -> (forall d, In (SDecl true d) l -> decl_ok d) ->
  rsim (run_stmts imp p l a) (inline_stmts inl l b).
Proof.
  intros imp inl p Hi. induction l as [|s l IH]; intros a b H Hok; [exact H|].
  destruct s as [q|e d]; cbn [run_stmts inline_stmts].
  - pose proof (Hi a b q H) as S. destruct (imp a q), (inl b q); simpl in S; try tauto.
    apply IH; auto. intros. apply Hok. now right.
  - assert (Hd : e = true -> decl_ok d) by (intros ->; apply Hok; now left).
    pose proof (sim_run (import_stmt_ops p (SDecl e d)) a b H (import_stmt_ops_ok p e d Hd)) as S.
    rewrite erase_import_stmt in S by exact Hd.
    destruct (run_ops (import_stmt_ops p (SDecl e d)) a), (run_ops (inline_stmt_ops (SDecl e d)) b);
      simpl in S; try tauto.
    apply IH; auto. intros. apply Hok. now right.
Qed.

(* an assignment by the importer to an unqualified name is accepted / rejected alike after importing and after inlining *)
Lemma sim_assign : forall a b k v, sim a b -> dotted k = false -> rsim (assign a k v) (assign b k v).
Proof.
  intros a b k v H Hk. pose proof H as [Hf Hv Hs Hi Ht He Him Hc Hd Hst Hl]. unfold assign. rewrite (Hv k Hk).
  destruct (lookup k (vars b)) as [[[|] w]|]; simpl; try reflexivity.
  constructor; simpl; intros; auto using lookup_bind_congr'.
Qed.

Lemma sim_mark : forall p a b, sim a b -> sim (mark_loaded p a) (mark_loaded p b).
Proof. intros p a b []. constructor; simpl; auto. congruence. Qed.

Lemma sim_import : forall pf fs, names_ok fs -> forall fuel a b p, sim a b ->
  rsim (handle_import fuel pf fs a p) (handle_inline fuel pf fs b p).
Proof.
  intros pf fs Hok. induction fuel as [|f IH]; intros a b p H; simpl;
    rewrite <- (sim_loaded _ _ H); destruct (mem p (loaded a)) eqn:M; try exact H; [reflexivity|].
  destruct (resolve fs p) as [m|] eqn:R; [|reflexivity].
  pose proof (sim_stmts (handle_import f pf fs) (handle_inline f pf fs) p IH m _ _ (sim_mark p a b H)
                (fun d Hd => Hok p m d R Hd)) as S.
  destruct (run_stmts _ _ _ _), (inline_stmts _ _ _); simpl in S; try tauto.
  pose proof (sim_run (flat_map sync_ops (parser_impls pf fs m)) _ _ S (sync_ops_ok _)) as S2.
  rewrite erase_syncs in S2. exact S2.
Qed.

Lemma imported_like_inlined_l : forall fuel pf fs t p, names_ok fs ->
  rsim (handle_import fuel pf fs t p) (handle_inline fuel pf fs t p).
Proof. intros. apply sim_import; auto using sim_refl. Qed.

(* ---------- dotted module paths *)
Lemma map_str_app : forall f a b, map_str f (a +++ b) = map_str f a +++ map_str f b.
Proof. induction a; intros; simpl; [reflexivity|]. now rewrite IHa. Qed.

Lemma contains_dot_cons : forall a s,
  contains "." (String a s) = if ascii_dec "."%char a then true else contains "." s.
Proof.
  intros. cbn [contains String.prefix]. destruct (ascii_dec "."%char a); [|reflexivity]. now destruct s.
Qed.

Lemma no_dot_map_id : forall s, contains "." s = false -> map_str dot_to_slash s = s.
Proof.
  induction s; intros H; [reflexivity|]. rewrite contains_dot_cons in H. cbn [map_str].
  destruct (ascii_dec "."%char a) as [E|N]; [discriminate|].
  rewrite IHs by assumption. unfold dot_to_slash.
  destruct (Ascii.eqb_spec a "."%char); [congruence|reflexivity].
Qed.

Lemma dots_become_slashes : forall segs, (forall s, In s segs -> contains "." s = false) ->
  map_str dot_to_slash (String.concat "." segs) = String.concat "/" segs.
Proof.
  induction segs as [|s segs IH]; intros H; [reflexivity|].
  destruct segs as [|s2 segs].
  - simpl. apply no_dot_map_id. apply H. now left.
  - change (String.concat "." (s :: s2 :: segs)) with (s +++ "." +++ String.concat "." (s2 :: segs)).
    change (String.concat "/" (s :: s2 :: segs)) with (s +++ "/" +++ String.concat "/" (s2 :: segs)).
    rewrite !map_str_app. rewrite IH by (intros; apply H; now right).
    rewrite no_dot_map_id by (apply H; now left). reflexivity.
Qed.

(* a module path as the parser produces it (identifiers joined by dots) contains no '/' *)
Lemma file_path_dotted : forall p,
  contains "." p = true -> contains "/" p = false -> contains ".." p = false ->
  file_path_of p = map_str dot_to_slash p +++ ".cb".
Proof. intros p H2 H3 H4. unfold file_path_of. now rewrite H2, H3, H4, !andb_false_r. Qed.

Lemma file_path_plain : forall p, contains "." p = false -> contains "/" p = false -> file_path_of p = p +++ ".cb".
Proof. intros p H H3. unfold file_path_of. now rewrite H, H3, !andb_false_r. Qed.

Lemma resolve_first_candidate : forall fs p m, lookup (file_path_of p) fs = Some m -> resolve fs p = Some m.
Proof.
  intros fs p m H. unfold resolve, search_paths.
  destruct (String.prefix "../" (file_path_of p) || String.prefix "./" (file_path_of p)); simpl; now rewrite H.
Qed.

Lemma unresolved_is_error : forall fuel pf fs t p, mem p (loaded t) = false -> resolve fs p = None ->
  handle_import (S fuel) pf fs t p = Err (EOpen p (file_path_of p)).
Proof. intros. simpl. now rewrite H, H0. Qed.

Lemma dotted_path_resolution_l : forall segs fs m,
  (forall s, In s segs -> contains "." s = false) ->
  let p := String.concat "." segs in
  contains "." p = true -> contains "/" p = false -> contains ".." p = false ->
  lookup (String.concat "/" segs +++ ".cb") fs = Some m ->
  resolve fs p = Some m.
Proof.
  intros segs fs m Hs p H2 H3 H4 Hl. apply resolve_first_candidate.
  rewrite (file_path_dotted p H2 H3 H4). unfold p. now rewrite (dots_become_slashes segs Hs).
Qed.

Lemma undotted_path_resolution_l : forall p fs m,
  contains "." p = false -> contains "/" p = false -> lookup (p +++ ".cb") fs = Some m -> resolve fs p = Some m.
Proof. intros p fs m H H3 Hl. apply resolve_first_candidate. now rewrite (file_path_plain p H H3). Qed.
