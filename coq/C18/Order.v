(* C18 - order independence: table equality "as maps", congruence of every registration step,
   commutation of steps with disjoint footprints, lifted to permutations of import lists. *)
From Coq Require Import List String Ascii Bool Arith Lia Permutation.
Import ListNotations.
From Cb Require Import C18.Model C18.Import C18.Init.
Local Open Scope string_scope.
Local Open Scope list_scope.

Opaque bind.

(* ---------- tables equal as maps *)
Record teq (a b : tables) : Prop := mk_teq {
  teq_funcs : forall k, lookup k (funcs a) = lookup k (funcs b);
  teq_structs : forall k, lookup k (structs a) = lookup k (structs b);
  teq_ifaces : forall k, lookup k (ifaces a) = lookup k (ifaces b);
  teq_typedefs : forall k, lookup k (typedefs a) = lookup k (typedefs b);
  teq_vars : forall k, lookup k (vars a) = lookup k (vars b);
  teq_enums : forall k, lookup k (enums a) = lookup k (enums b);
  teq_dtors : forall k, lookup k (dtors a) = lookup k (dtors b);
  teq_impls : forall s, impls_of s (impls a) = impls_of s (impls b);      (* impl blocks of each struct, in order *)
  teq_ctors : forall s n, find_ctor s n (ctors a) = find_ctor s n (ctors b);   (* constructor chosen for (struct, arity) *)
  teq_statics : forall x, In x (istatics a) <-> In x (istatics b);
  teq_loaded : forall p, mem p (loaded a) = mem p (loaded b)
}.
Definition req (r1 r2 : result) : Prop :=
  match r1, r2 with
  | Ok a, Ok b => teq a b
  | Err _, Err _ => True            (* both runs end with an error before main starts *)
  | _, _ => False
  end.

Lemma teq_refl : forall a, teq a a.
Proof. intros; constructor; intros; tauto || reflexivity. Qed.
Lemma teq_sym : forall a b, teq a b -> teq b a.
Proof. intros a b []; constructor; intros; try symmetry; auto. Qed.
Lemma teq_trans : forall a b c, teq a b -> teq b c -> teq a c.
Proof.
  intros a b c [] []; constructor; intros; try (etransitivity; eauto; fail).
Qed.
Lemma req_refl : forall r, req r r.
Proof. destruct r; simpl; auto using teq_refl. Qed.
Lemma req_sym : forall r s, req r s -> req s r.
Proof. destruct r, s; simpl; auto using teq_sym. Qed.
Lemma req_trans : forall r s u, req r s -> req s u -> req r u.
Proof. destruct r, s, u; simpl; try tauto. apply teq_trans. Qed.

Lemma teq_tlookup : forall a b, teq a b -> forall g k, tlookup g k a = tlookup g k b.
Proof. intros a b [] g k. destruct g; simpl; f_equal; auto. Qed.

(* what the interpreter can ask of the two non-map tables is determined by the per-struct views *)
Lemma find_ctor_sub : forall s n l, find_ctor s n l = find_ctor s n (ctors_of s l).
Proof.
  induction l as [|[s' [a b]] l IH]; simpl; [reflexivity|].
  rewrite (String.eqb_sym s' s). destruct (String.eqb s s') eqn:E; simpl.
  - rewrite E. simpl. destruct (Nat.eqb n a); auto.
  - assumption.
Qed.
Lemma has_impl_sub : forall i s l, has_impl i s l = has_impl i s (impls_of s l).
Proof.
  induction l as [|e l IH]; simpl; [reflexivity|]. unfold same_key at 1.
  destruct (String.eqb (im_struct e) s) eqn:E; simpl.
  - unfold same_key at 1. rewrite E. now rewrite IH.
  - now rewrite andb_false_r.
Qed.
Lemma teq_find_ctor : forall a b, teq a b -> forall s n, find_ctor s n (ctors a) = find_ctor s n (ctors b).
Proof. intros a b H. exact (teq_ctors _ _ H). Qed.
Lemma teq_has_impl : forall a b, teq a b -> forall i s, has_impl i s (impls a) = has_impl i s (impls b).
Proof. intros a b H i s. rewrite has_impl_sub, (has_impl_sub i s (impls b)). now rewrite (teq_impls _ _ H). Qed.

(* ---------- one impl registration, seen on the impl list only *)
Definition impl_step (l : list impl_def) (d : impl_def) : option (list impl_def) :=
  if has_impl (im_iface d) (im_struct d) l then Some (replace_impl d l)
  else match find_conflict l d with Some _ => None | None => Some (l ++ [d]) end.

Lemma apply_impl_some : forall t d l',
  impl_step (impls t) d = Some l' ->
  apply_op t (OImpl d) = Ok (set_funcs (set_impls t l') (bind_all (method_binds d) (funcs t))).
Proof.
  intros t d l' H. unfold impl_step in H. simpl. destruct (has_impl _ _ _).
  - now injection H as <-.
  - destruct (find_conflict _ _); [discriminate|]. now injection H as <-.
Qed.
Lemma apply_impl_none : forall t d, impl_step (impls t) d = None -> exists e, apply_op t (OImpl d) = Err e.
Proof.
  intros t d H. unfold impl_step in H. simpl. destruct (has_impl _ _ _); [discriminate|].
  destruct (find_conflict _ _); [eauto|discriminate].
Qed.

Lemma impls_of_app : forall s a b, impls_of s (a ++ b) = impls_of s a ++ impls_of s b.
Proof. intros. unfold impls_of. apply filter_app. Qed.

Lemma same_key_struct : forall i s e, same_key i s e = true -> im_struct e = s.
Proof. unfold same_key. intros. apply andb_true_iff in H. destruct H. now apply String.eqb_eq. Qed.

Lemma impls_of_replace : forall s d l,
  impls_of s (replace_impl d l) =
  if String.eqb (im_struct d) s then replace_impl d (impls_of s l) else impls_of s l.
Proof.
  induction l as [|e l IH]; simpl.
  - now destruct (String.eqb _ _).
  - destruct (same_key (im_iface d) (im_struct d) e) eqn:K.
    + pose proof (same_key_struct _ _ _ K) as Es. simpl. rewrite Es.
      destruct (String.eqb (im_struct d) s) eqn:E; [|reflexivity]. simpl. now rewrite K.
    + simpl. rewrite IH. destruct (String.eqb (im_struct e) s) eqn:E1, (String.eqb (im_struct d) s) eqn:E2;
        simpl; try rewrite K; reflexivity.
Qed.

Lemma find_conflict_sub : forall l d, find_conflict l d = find_conflict (impls_of (im_struct d) l) d.
Proof.
  intros. unfold find_conflict.
  change (filter (fun e => String.eqb (im_struct e) (im_struct d)) l) with (impls_of (im_struct d) l).
  change (filter (fun e => String.eqb (im_struct e) (im_struct d)) (impls_of (im_struct d) l))
    with (impls_of (im_struct d) (impls_of (im_struct d) l)).
  unfold impls_of at 2. unfold impls_of at 2.
  assert (Hf : forall (f : impl_def -> bool) x, filter f (filter f x) = filter f x).
  { induction x; simpl; auto. destruct (f a) eqn:E; simpl; rewrite ?E; congruence. }
  now rewrite Hf.
Qed.

(* the step on d only reads and changes the blocks of d's struct *)
Lemma impl_step_local : forall l1 l2 d,
  impls_of (im_struct d) l1 = impls_of (im_struct d) l2 ->
  match impl_step l1 d, impl_step l2 d with
  | Some a, Some b => impls_of (im_struct d) a = impls_of (im_struct d) b
  | None, None => True
  | _, _ => False
  end.
Proof.
  intros l1 l2 d H. unfold impl_step.
  rewrite (has_impl_sub _ _ l1), (has_impl_sub _ _ l2), (find_conflict_sub l1), (find_conflict_sub l2), H.
  destruct (has_impl _ _ _).
  - rewrite !impls_of_replace, String.eqb_refl. now rewrite H.
  - destruct (find_conflict _ _); [exact Logic.I|]. rewrite !impls_of_app. now rewrite H.
Qed.

Lemma impl_step_other : forall l d l' s,
  impl_step l d = Some l' -> s <> im_struct d -> impls_of s l' = impls_of s l.
Proof.
  intros l d l' s H Hs. unfold impl_step in H. apply not_eq_sym in Hs. apply String.eqb_neq in Hs.
  destruct (has_impl _ _ _).
  - injection H as <-. now rewrite impls_of_replace, Hs.
  - destruct (find_conflict _ _); [discriminate|]. injection H as <-.
    rewrite impls_of_app. simpl. rewrite Hs. apply app_nil_r.
Qed.

Lemma impl_step_congr : forall l1 l2 d,
  (forall s, impls_of s l1 = impls_of s l2) ->
  match impl_step l1 d, impl_step l2 d with
  | Some a, Some b => forall s, impls_of s a = impls_of s b
  | None, None => True
  | _, _ => False
  end.
Proof.
  intros l1 l2 d H. pose proof (impl_step_local l1 l2 d (H _)) as L.
  destruct (impl_step l1 d) as [a|] eqn:E1, (impl_step l2 d) as [b|] eqn:E2; auto.
  intros s. destruct (string_dec s (im_struct d)) as [->|Hn]; [assumption|].
  rewrite (impl_step_other _ _ _ _ E1 Hn), (impl_step_other _ _ _ _ E2 Hn). apply H.
Qed.

(* ---------- congruence of one step *)
Lemma lookup_bind_congr : forall V k k0 (v : V) m1 m2,
  lookup k m1 = lookup k m2 -> lookup k (bind k0 v m1) = lookup k (bind k0 v m2).
Proof.
  intros. destruct (string_dec k k0) as [->|Hn].
  - now rewrite !lookup_bind_eq.
  - now rewrite !lookup_bind_neq.
Qed.

Lemma find_ctor_app : forall s n l s' a b,
  find_ctor s n (l ++ [(s', (a, b))]) =
  match find_ctor s n l with
  | Some v => Some v
  | None => if String.eqb s s' && Nat.eqb n a then Some b else None
  end.
Proof.
  induction l as [|[s0 [a0 b0]] l IH]; intros; simpl; [reflexivity|].
  destruct (String.eqb s s0 && Nat.eqb n a0); [reflexivity|apply IH].
Qed.

Lemma apply_congr : forall o a b, teq a b -> req (apply_op a o) (apply_op b o).
Proof.
  intros o a b H. pose proof H as [Hf Hs Hi Ht Hv He Hd Him Hc Hst Hl].
  destruct o;
    try (simpl; constructor; simpl; intros; auto using lookup_bind_congr; fail).
  - (* OEnum *) simpl. rewrite He. destruct (lookup k (enums b)); [exact H|].
    constructor; simpl; intros; auto using lookup_bind_congr.
  - (* OCtor *) simpl. constructor; simpl; intros; auto. rewrite !find_ctor_app. now rewrite Hc.
  - (* OImpl *)
    pose proof (impl_step_congr (impls a) (impls b) d Him) as L.
    destruct (impl_step (impls a) d) as [la|] eqn:Ea, (impl_step (impls b) d) as [lb|] eqn:Eb; try tauto.
    + rewrite (apply_impl_some _ _ _ Ea), (apply_impl_some _ _ _ Eb). simpl.
      constructor; simpl; intros; auto. now apply lookup_bind_all_congr.
    + destruct (apply_impl_none _ _ Ea) as [e1 E1]. destruct (apply_impl_none _ _ Eb) as [e2 E2].
      rewrite E1, E2. exact Logic.I.
  - (* OStatic *) simpl. constructor; simpl; intros; auto. rewrite Hst. tauto.
  - (* OLoaded *) simpl. constructor; simpl; intros; auto. now rewrite Hl.
  - (* OInit: the same value is computed from tables equal as maps *)
    simpl. rewrite (eval_frame e a b 0) by (intros; now apply teq_tlookup).
    destruct (eval b 0 e); [|exact Logic.I].
    constructor; simpl; intros; auto. now apply lookup_bind_all_congr.
Qed.

Lemma run_congr : forall ops a b, teq a b -> req (run_ops ops a) (run_ops ops b).
Proof.
  induction ops as [|o ops IH]; intros a b H; simpl; [assumption|].
  pose proof (apply_congr o a b H) as C.
  destruct (apply_op a o), (apply_op b o); simpl in C; try tauto. now apply IH.
Qed.

Lemma req_run_congr : forall ops r1 r2, req r1 r2 ->
  req (match r1 with Ok t => run_ops ops t | Err e => Err e end)
      (match r2 with Ok t => run_ops ops t | Err e => Err e end).
Proof. intros ops [a|e1] [b|e2] H; simpl in *; try tauto. now apply run_congr. Qed.

(* ---------- footprints and commutation *)
Inductive ftag := FMap (g : tag) | FImpl | FCtor (arity : nat).
Definition foot (o : op) : list (ftag * name) :=
  map (fun x => (FMap (fst x), snd x)) (op_writes o) ++
  match o with
  | OImpl d => [(FImpl, im_struct d)]
  | OCtor s a _ => [(FCtor a, s)]
  | _ => []
  end.
(* the bindings a step looks at: only an initialiser reads (the names in its expression) *)
Definition op_reads (o : op) : list (tag * name) := match o with OInit _ _ e => ereads e | _ => [] end.
(* write/write independence ... *)
Definition findep (o1 o2 : op) : Prop := forall x, In x (foot o1) -> ~ In x (foot o2).
(* ... and neither step reads what the other writes *)
Definition indep (o1 o2 : op) : Prop :=
  findep o1 o2 /\ (forall x, In x (op_reads o1) -> ~ In x (op_writes o2)) /\
  (forall x, In x (op_reads o2) -> ~ In x (op_writes o1)).

Lemma findep_sym : forall a b, findep a b -> findep b a.
Proof. unfold findep. intros a b H x Hb Ha. exact (H x Ha Hb). Qed.
Lemma indep_sym : forall a b, indep a b -> indep b a.
Proof. intros a b [H1 [H2 H3]]. repeat split; auto using findep_sym. Qed.

Lemma bind_bind_comm : forall V k k1 k2 (v1 v2 : V) m, k1 <> k2 ->
  lookup k (bind k1 v1 (bind k2 v2 m)) = lookup k (bind k2 v2 (bind k1 v1 m)).
Proof.
  intros. destruct (string_dec k k1) as [E1|N1]; destruct (string_dec k k2) as [E2|N2]; try congruence.
  - subst k. now rewrite lookup_bind_eq, lookup_bind_neq, lookup_bind_eq.
  - subst k. now rewrite lookup_bind_neq, !lookup_bind_eq by auto.
  - now rewrite !lookup_bind_neq.
Qed.

Lemma bind_all_bind_comm : forall k k0 (b : nat) ws m, ~ In k0 (map fst ws) ->
  lookup k (bind k0 b (bind_all ws m)) = lookup k (bind_all ws (bind k0 b m)).
Proof.
  intros. destruct (string_dec k k0) as [->|N].
  - now rewrite lookup_bind_eq, lookup_bind_all_notin, lookup_bind_eq.
  - rewrite lookup_bind_neq by assumption. apply lookup_bind_all_congr. now rewrite lookup_bind_neq.
Qed.

Lemma bind_all_comm : forall k (ws1 ws2 : list (name * nat)) m,
  (forall x, In x (map fst ws1) -> ~ In x (map fst ws2)) ->
  lookup k (bind_all ws2 (bind_all ws1 m)) = lookup k (bind_all ws1 (bind_all ws2 m)).
Proof.
  intros k ws1 ws2 m H. destruct (in_dec string_dec k (map fst ws1)) as [I1|N1].
  - assert (N2 : ~ In k (map fst ws2)) by auto.
    rewrite (lookup_bind_all_notin _ ws2) by assumption.
    apply lookup_bind_all_congr. now rewrite lookup_bind_all_notin.
  - rewrite (lookup_bind_all_notin _ ws1 (bind_all ws2 m)) by assumption.
    apply lookup_bind_all_congr. now apply lookup_bind_all_notin.
Qed.

Definition simple (o : op) : Prop := match o with OImpl _ | OFail _ | OInit _ _ _ => False | _ => True end.

Lemma simple_ok : forall o t, simple o -> exists t', apply_op t o = Ok t' /\ impls t' = impls t.
Proof. intros o t H. destruct o; simpl in H; try tauto; simpl; eauto. destruct (lookup k (enums t)); eauto. Qed.

Lemma foot_writes : forall o g k, In (g, k) (op_writes o) -> In (FMap g, k) (foot o).
Proof.
  intros. unfold foot. apply in_app_iff. left.
  apply in_map_iff. exists (g, k). auto.
Qed.

(* a failing step commutes with everything (both orders end in an error) *)
Lemma comm_fail : forall e o t, req (run_ops [OFail e; o] t) (run_ops [o; OFail e] t).
Proof. intros. simpl. destruct (apply_op t o); exact Logic.I. Qed.

Lemma comm_enum_simple : forall k ms o t, simple o -> findep (OEnum k ms) o ->
  req (run_ops [OEnum k ms; o] t) (run_ops [o; OEnum k ms] t).
Proof.
  intros k ms o t S I.
  destruct o; simpl in S; try tauto;
    try (simpl; destruct (lookup k (enums t)) eqn:EL; simpl; rewrite ?EL; apply teq_refl).
  assert (N : k <> k0). { intro; subst. eapply (I (FMap TE, k0)); apply foot_writes; simpl; auto. }
  assert (N' : k0 <> k) by auto.
  simpl. destruct (lookup k (enums t)) eqn:E1; destruct (lookup k0 (enums t)) eqn:E2; simpl;
    rewrite ?E1, ?E2, ?lookup_bind_neq by auto; rewrite ?E1, ?E2; try apply teq_refl.
  constructor; simpl; intros; try reflexivity; try tauto. apply bind_bind_comm. auto.
Qed.

Lemma comm_simple_simple : forall o1 o2 t, simple o1 -> simple o2 -> findep o1 o2 ->
  req (run_ops [o1; o2] t) (run_ops [o2; o1] t).
Proof.
  intros o1 o2 t S1 S2 I.
  destruct o1; simpl in S1; try tauto; try (apply comm_enum_simple; assumption);
    destruct o2; simpl in S2; try tauto;
    try (apply req_sym, comm_enum_simple; [exact Logic.I|apply findep_sym; assumption]); simpl;
    try (apply teq_refl);
    try (constructor; simpl; intros; try reflexivity; try tauto;
         apply bind_bind_comm; intro; subst;
         eapply I; [apply foot_writes; simpl; left; reflexivity|apply foot_writes; simpl; left; reflexivity]).
  - (* OCtor / OCtor *)
    constructor; simpl; intros; try reflexivity; try tauto.
    rewrite !find_ctor_app. destruct (find_ctor s1 n (ctors t)); [reflexivity|].
    destruct (String.eqb s1 s && Nat.eqb n arity) eqn:E1, (String.eqb s1 s0 && Nat.eqb n arity0) eqn:E2; try reflexivity.
    apply andb_true_iff in E1, E2. destruct E1 as [E1 F1], E2 as [E2 F2].
    apply String.eqb_eq in E1, E2. apply Nat.eqb_eq in F1, F2. subst. exfalso.
    eapply (I (FCtor arity0, s0)); unfold foot; simpl; auto.
  - (* OStatic / OStatic *) constructor; simpl; intros; try reflexivity; tauto.
  - (* OLoaded / OLoaded *)
    constructor; simpl; intros; try reflexivity; try tauto.
    destruct (String.eqb p1 p0), (String.eqb p1 p); reflexivity.
Qed.

Lemma comm_impl_simple : forall d o t, simple o -> findep (OImpl d) o ->
  req (run_ops [OImpl d; o] t) (run_ops [o; OImpl d] t).
Proof.
  intros d o t S I.
  assert (Hk : forall k b, o = OFunc k b -> ~ In k (map fst (method_binds d))).
  { intros k b -> Hin. apply (I (FMap TF, k)).
    - apply foot_writes. simpl. now apply in_map_TF.
    - apply foot_writes. simpl. auto. }
  destruct (impl_step (impls t) d) as [l'|] eqn:E.
  - remember (OImpl d) as oi eqn:Hoi.
    destruct o; simpl in S; try tauto;
      try (cbn [run_ops apply_op]; subst oi; rewrite (apply_impl_some _ _ _ E);
      (erewrite apply_impl_some; [|cbn [impls set_funcs]; exact E]);
      cbn [apply_op req set_funcs set_impls funcs structs ifaces typedefs vars enums impls ctors dtors istatics loaded];
      try apply teq_refl).
    2:{ (* OEnum *)
      cbn [run_ops apply_op]; subst oi; rewrite (apply_impl_some _ _ _ E).
      cbn [set_funcs set_impls enums]. destruct (lookup k (enums t)) eqn:EL.
      - rewrite (apply_impl_some _ _ _ E). apply teq_refl.
      - erewrite apply_impl_some by (cbn [impls]; exact E). apply teq_refl. }
    constructor; cbn [set_funcs set_impls funcs structs ifaces typedefs vars enums impls ctors dtors istatics loaded];
      intros; try reflexivity; try tauto.
    apply bind_all_bind_comm. eapply Hk. reflexivity.
  - destruct (apply_impl_none _ _ E) as [e He].
    destruct (simple_ok o t S) as [t1 [H1 H2]].
    cbn [run_ops]. rewrite He, H1.
    assert (E' : impl_step (impls t1) d = None) by now rewrite H2.
    destruct (apply_impl_none _ _ E') as [e' He']. rewrite He'. exact Logic.I.
Qed.

Lemma comm_impl_impl : forall d1 d2 t, findep (OImpl d1) (OImpl d2) ->
  req (run_ops [OImpl d1; OImpl d2] t) (run_ops [OImpl d2; OImpl d1] t).
Proof.
  intros d1 d2 t I.
  assert (Hs : im_struct d1 <> im_struct d2).
  { intro Hs. apply (I (FImpl, im_struct d1)); unfold foot; apply in_app_iff; right; simpl; auto.
    left. now rewrite Hs. }
  assert (Hk : forall x, In x (map fst (method_binds d1)) -> ~ In x (map fst (method_binds d2))).
  { intros x H1 H2. apply (I (FMap TF, x)); apply foot_writes; simpl; now apply in_map_TF. }
  (* the decision for each block does not depend on whether the other was registered first *)
  assert (L12 : forall l1, impl_step (impls t) d1 = Some l1 ->
                match impl_step (impls t) d2, impl_step l1 d2 with
                | Some a, Some b => impls_of (im_struct d2) a = impls_of (im_struct d2) b
                | None, None => True | _, _ => False end).
  { intros l1 E1. apply impl_step_local. symmetry. eapply impl_step_other; eauto. }
  assert (L21 : forall l2, impl_step (impls t) d2 = Some l2 ->
                match impl_step (impls t) d1, impl_step l2 d1 with
                | Some a, Some b => impls_of (im_struct d1) a = impls_of (im_struct d1) b
                | None, None => True | _, _ => False end).
  { intros l2 E2. apply impl_step_local. symmetry. eapply impl_step_other; eauto. }
  cbn [run_ops].
  destruct (impl_step (impls t) d1) as [l1|] eqn:E1; destruct (impl_step (impls t) d2) as [l2|] eqn:E2.
  - specialize (L12 l1 eq_refl). specialize (L21 l2 eq_refl).
    destruct (impl_step l1 d2) as [l12|] eqn:E12; [|tauto].
    destruct (impl_step l2 d1) as [l21|] eqn:E21; [|tauto].
    rewrite (apply_impl_some _ _ _ E1), (apply_impl_some _ _ _ E2).
    erewrite apply_impl_some by (cbn [set_funcs set_impls impls]; exact E12).
    erewrite apply_impl_some by (cbn [set_funcs set_impls impls]; exact E21).
    constructor; cbn [set_funcs set_impls funcs structs ifaces typedefs vars enums impls ctors dtors istatics loaded];
      intros; try reflexivity; try tauto.
    + now apply bind_all_comm.
    + destruct (string_dec s (im_struct d2)) as [->|N2].
      * rewrite <- L12. symmetry. eapply impl_step_other; eauto.
      * rewrite (impl_step_other _ _ _ _ E12 N2).
        destruct (string_dec s (im_struct d1)) as [->|N1].
        -- rewrite <- L21. reflexivity.
        -- rewrite (impl_step_other _ _ _ _ E21 N1), (impl_step_other _ _ _ _ E1 N1), (impl_step_other _ _ _ _ E2 N2).
           reflexivity.
  - specialize (L12 l1 eq_refl). destruct (impl_step l1 d2) eqn:E12; [tauto|].
    rewrite (apply_impl_some _ _ _ E1). destruct (apply_impl_none _ _ E2) as [e He]. rewrite He.
    destruct (apply_impl_none (set_funcs (set_impls t l1) (bind_all (method_binds d1) (funcs t))) d2) as [e' He'].
    { cbn [set_funcs set_impls impls]. exact E12. }
    rewrite He'. exact Logic.I.
  - specialize (L21 l2 eq_refl). destruct (impl_step l2 d1) eqn:E21; [tauto|].
    rewrite (apply_impl_some _ _ _ E2). destruct (apply_impl_none _ _ E1) as [e He]. rewrite He.
    destruct (apply_impl_none (set_funcs (set_impls t l2) (bind_all (method_binds d2) (funcs t))) d1) as [e' He'].
    { cbn [set_funcs set_impls impls]. exact E21. }
    rewrite He'. exact Logic.I.
  - destruct (apply_impl_none _ _ E1) as [e1 He1]. destruct (apply_impl_none _ _ E2) as [e2 He2].
    rewrite He1, He2. exact Logic.I.
Qed.

(* ----- an initialiser step against any other step *)
Definition novar (o : op) : Prop := match o with OVar _ _ _ | OInit _ _ _ => False | _ => True end.

Lemma apply_set_vars : forall o t X, novar o ->
  apply_op (set_vars t X) o = match apply_op t o with Ok t' => Ok (set_vars t' X) | Err e => Err e end.
Proof.
  intros o t X H. destruct o; simpl in H; try tauto; simpl; try reflexivity.
  - destruct (lookup k (enums t)); reflexivity.
  - destruct (has_impl _ _ _); [reflexivity|]. destruct (find_conflict _ _); reflexivity.
Qed.
Lemma novar_vars : forall o t t', novar o -> apply_op t o = Ok t' -> vars t' = vars t.
Proof.
  intros o t t' H E. destruct o; simpl in H; try tauto; simpl in E; try (injection E as <-; reflexivity).
  - destruct (lookup k (enums t)); injection E as <-; reflexivity.
  - destruct (has_impl _ _ _); [injection E as <-; reflexivity|].
    destruct (find_conflict _ _); [discriminate|injection E as <-; reflexivity].
  - discriminate.
Qed.

Lemma bind_all_bind_comm_gen : forall V k k0 (b : V) ws m, ~ In k0 (map fst ws) ->
  lookup k (bind k0 b (bind_all ws m)) = lookup k (bind_all ws (bind k0 b m)).
Proof.
  intros. destruct (string_dec k k0) as [->|N].
  - now rewrite lookup_bind_eq, lookup_bind_all_notin, lookup_bind_eq.
  - rewrite lookup_bind_neq by assumption. apply lookup_bind_all_congr. now rewrite lookup_bind_neq.
Qed.
Lemma bind_all_comm_gen : forall V k (ws1 ws2 : list (name * V)) m,
  (forall x, In x (map fst ws1) -> ~ In x (map fst ws2)) ->
  lookup k (bind_all ws2 (bind_all ws1 m)) = lookup k (bind_all ws1 (bind_all ws2 m)).
Proof.
  intros V k ws1 ws2 m H. destruct (in_dec string_dec k (map fst ws1)) as [I1|N1].
  - assert (N2 : ~ In k (map fst ws2)) by auto.
    rewrite (lookup_bind_all_notin _ ws2) by assumption.
    apply lookup_bind_all_congr. now rewrite lookup_bind_all_notin.
  - rewrite (lookup_bind_all_notin _ ws1 (bind_all ws2 m)) by assumption.
    apply lookup_bind_all_congr. now apply lookup_bind_all_notin.
Qed.

Lemma apply_init_eq : forall t ks c e,
  apply_op t (OInit ks c e) =
  match eval t 0 e with VOk v => Ok (set_vars t (bind_all (init_binds ks c v) (vars t))) | VErr er => Err er end.
Proof. reflexivity. Qed.

Lemma comm_init_any : forall ks c e o t, indep (OInit ks c e) o ->
  req (run_ops [OInit ks c e; o] t) (run_ops [o; OInit ks c e] t).
Proof.
  intros ks c e o t [If [Irw Iwr]]. cbn [run_ops].
  (* the other step leaves the value of the initialiser alone *)
  assert (Ev : forall t2, apply_op t o = Ok t2 -> eval t2 0 e = eval t 0 e).
  { intros t2 E. eapply eval_after_step; eauto. }
  assert (Hk : forall k, In k ks -> ~ In (TV, k) (op_writes o)).
  { intros k Hin Hw. apply (If (FMap TV, k)); [|now apply foot_writes].
    apply foot_writes. simpl. now apply in_map_TV. }
  destruct (match o with OVar _ _ _ => Some true | OInit _ _ _ => Some false | _ => None end) as [[|]|] eqn:Kind.
  - (* OVar *)
    destruct o as [| | | |k0 c0 v0| | | | | | | |]; try discriminate. clear Kind.
    assert (Nk : ~ In k0 ks). { intro Hin. apply (Hk k0 Hin). simpl. auto. }
    rewrite !apply_init_eq. cbn [apply_op]. rewrite (Ev _ eq_refl).
    destruct (eval t 0 e) as [w|er]; [|exact Logic.I]. cbn [apply_op].
    constructor; simpl; intros; try reflexivity; try tauto.
    apply bind_all_bind_comm_gen. now rewrite init_binds_keys.
  - (* OInit *)
    destruct o as [| | | | | | | | | | | |ks' c' e']; try discriminate. clear Kind.
    assert (Ev' : forall t1, apply_op t (OInit ks c e) = Ok t1 -> eval t1 0 e' = eval t 0 e').
    { intros t1 E. eapply eval_after_step; eauto. }
    rewrite (apply_init_eq t ks c e), (apply_init_eq t ks' c' e').
    destruct (eval t 0 e) as [v|er] eqn:E0; destruct (eval t 0 e') as [v'|er'] eqn:E0'.
    + assert (A1 : eval (set_vars t (bind_all (init_binds ks c v) (vars t))) 0 e' = VOk v').
      { apply Ev'. rewrite apply_init_eq, E0. reflexivity. }
      assert (A2 : eval (set_vars t (bind_all (init_binds ks' c' v') (vars t))) 0 e = VOk v).
      { apply Ev. rewrite apply_init_eq, E0'. reflexivity. }
      rewrite !apply_init_eq, A1, A2.
      constructor; simpl; intros; try reflexivity; try tauto.
      apply bind_all_comm_gen. rewrite !init_binds_keys. intros x H1 H2.
      apply (Hk x H1). simpl. now apply in_map_TV.
    + assert (A1 : eval (set_vars t (bind_all (init_binds ks c v) (vars t))) 0 e' = VErr er').
      { apply Ev'. rewrite apply_init_eq, E0. reflexivity. }
      rewrite apply_init_eq, A1. exact Logic.I.
    + assert (A2 : eval (set_vars t (bind_all (init_binds ks' c' v') (vars t))) 0 e = VErr er).
      { apply Ev. rewrite apply_init_eq, E0'. reflexivity. }
      rewrite apply_init_eq, A2. exact Logic.I.
    + exact Logic.I.
  - (* a step that neither reads nor writes variables *)
    assert (Nv : novar o) by (destruct o; simpl; auto; discriminate).
    rewrite apply_init_eq. destruct (eval t 0 e) as [v|er] eqn:E0.
    + rewrite (apply_set_vars o t _ Nv). destruct (apply_op t o) as [t2|] eqn:E2; [|exact Logic.I].
      rewrite apply_init_eq, (Ev t2 eq_refl), ?E0, (novar_vars _ _ _ Nv E2). apply teq_refl.
    + destruct (apply_op t o) as [t2|] eqn:E2; [|exact Logic.I].
      rewrite apply_init_eq, (Ev t2 eq_refl), ?E0. exact Logic.I.
Qed.

Lemma comm_two : forall o1 o2 t, indep o1 o2 -> req (run_ops [o1; o2] t) (run_ops [o2; o1] t).
Proof.
  intros o1 o2 t I.
  destruct (match o1 with OInit _ _ _ => true | _ => false end) eqn:K1.
  { destruct o1; try discriminate. now apply comm_init_any. }
  destruct (match o2 with OInit _ _ _ => true | _ => false end) eqn:K2.
  { destruct o2; try discriminate. apply req_sym, comm_init_any, indep_sym. exact I. }
  destruct I as [I _].
  destruct o1 as [| | | | | | | |d1| | |e1|] eqn:E1; try discriminate K1;
    try (destruct o2 as [| | | | | | | |d2| | |e2|] eqn:E2; try discriminate K2;
         [ .. | apply req_sym, comm_fail ];
         try (apply comm_simple_simple; simpl; auto; fail);
         apply req_sym, comm_impl_simple; [simpl; auto|apply findep_sym; assumption]).
  - destruct o2 as [| | | | | | | |d2| | |e2|] eqn:E2; try discriminate K2;
      try (apply comm_impl_simple; simpl; auto; fail).
    + now apply comm_impl_impl.
    + apply req_sym, comm_fail.
  - apply comm_fail.
Qed.

(* ---------- lifting to lists of steps *)
(* two steps are compatible if they are the very same step (the same impl block reaching the
   interpreter through two importers of a common module - a diamond) or touch different names *)
Definition compat (o1 o2 : op) : Prop := o1 = o2 \/ indep o1 o2.

Lemma comm_compat : forall o1 o2 t, compat o1 o2 -> req (run_ops [o1; o2] t) (run_ops [o2; o1] t).
Proof. intros o1 o2 t [->|H]; [apply req_refl|now apply comm_two]. Qed.

Lemma run_cons : forall o ops t,
  run_ops (o :: ops) t = match apply_op t o with Ok t' => run_ops ops t' | Err e => Err e end.
Proof. reflexivity. Qed.

Lemma swap_adjacent : forall o1 o2 rest t, compat o1 o2 ->
  req (run_ops (o1 :: o2 :: rest) t) (run_ops (o2 :: o1 :: rest) t).
Proof.
  intros. change (o1 :: o2 :: rest) with ([o1; o2] ++ rest). change (o2 :: o1 :: rest) with ([o2; o1] ++ rest).
  rewrite !run_ops_app. apply req_run_congr. now apply comm_compat.
Qed.

Lemma req_cons : forall o a b,
  (forall t, req (run_ops a t) (run_ops b t)) -> forall t, req (run_ops (o :: a) t) (run_ops (o :: b) t).
Proof. intros. simpl. destruct (apply_op t o); [apply H|exact Logic.I]. Qed.

Lemma move_one : forall o ops2 rest, (forall o2, In o2 ops2 -> compat o o2) ->
  forall t, req (run_ops (o :: ops2 ++ rest) t) (run_ops (ops2 ++ o :: rest) t).
Proof.
  induction ops2 as [|o2 ops2 IH]; intros rest H t; simpl app.
  - apply req_refl.
  - eapply req_trans; [apply swap_adjacent; apply H; now left|].
    apply req_cons. intros. apply IH. intros. apply H. now right.
Qed.

Lemma swap_blocks : forall ops1 ops2 rest,
  (forall o1 o2, In o1 ops1 -> In o2 ops2 -> compat o1 o2) ->
  forall t, req (run_ops (ops1 ++ ops2 ++ rest) t) (run_ops (ops2 ++ ops1 ++ rest) t).
Proof.
  induction ops1 as [|o ops1 IH]; intros ops2 rest H t; simpl app.
  - apply req_refl.
  - eapply req_trans.
    + apply req_cons. intros. apply IH. intros. apply H; auto. now right.
    + apply move_one. intros. apply H; auto. now left.
Qed.

(* ---------- blocks of modules *)
Lemma req_prefix : forall pre a b,
  (forall t, req (run_ops a t) (run_ops b t)) -> forall t, req (run_ops (pre ++ a) t) (run_ops (pre ++ b) t).
Proof. induction pre; intros; simpl app; [apply H|]. apply req_cons. intros. now apply IHpre. Qed.

Lemma mem_app : forall x a b, mem x (a ++ b) = mem x a || mem x b.
Proof. induction a; intros; simpl; [reflexivity|]. destruct (String.eqb x a); auto. Qed.

Lemma NoDup_app_intro_disj : forall (a b : list name),
  NoDup a -> NoDup b -> (forall x, In x a -> In x b -> False) -> NoDup (a ++ b).
Proof.
  induction a; intros b Ha Hb H; simpl; [assumption|]. inversion Ha; subst. constructor.
  - intro Hin. apply in_app_iff in Hin. destruct Hin; [contradiction|]. apply (H a); [now left|assumption].
  - apply IHa; auto. intros x Hx. apply H. now right.
Qed.
Lemma NoDup_app_intro_r : forall (N : list name) p, NoDup N -> ~ In p N -> NoDup (N ++ [p]).
Proof.
  intros. apply NoDup_app_intro_disj; auto; [repeat constructor; intros []|].
  intros x Hx [<-|[]]. contradiction.
Qed.

Section Blocks.
Variable pf : nat.
Variable fs : fsys.

Definition blocks (l : list name) : list op := flat_map (block pf fs) l.
Definition footprint (p : name) : list (ftag * name) := flat_map foot (block pf fs p).
(* modules that bind disjoint names (impl blocks: for different structs; constructors: for different
   (struct, arity)) and whose initialisers do not read a name the other module binds *)
Definition mreads (p : name) : list (tag * name) := flat_map op_reads (block pf fs p).
Definition mwrites (p : name) : list (tag * name) := flat_map op_writes (block pf fs p).
Definition independent (U : list name) : Prop :=
  forall p q, In p U -> In q U -> p <> q ->
    (forall x, In x (footprint p) -> ~ In x (footprint q)) /\
    (forall x, In x (mreads p) -> ~ In x (mwrites q)).
(* weaker: any two registration steps of two different modules are identical or touch different names *)
Definition compatible (U : list name) : Prop :=
  forall p q, In p U -> In q U -> p <> q ->
  forall o1 o2, In o1 (block pf fs p) -> In o2 (block pf fs q) -> compat o1 o2.

Lemma independent_compatible : forall U, independent U -> compatible U.
Proof.
  intros U H p q Hp Hq Hne o1 o2 H1 H2. right.
  destruct (H p q Hp Hq Hne) as [F R]. destruct (H q p Hq Hp (not_eq_sym Hne)) as [_ R'].
  split; [|split]; intros x Hx1 Hx2.
  - apply (F x); unfold footprint; apply in_flat_map; eauto.
  - apply (R x); [unfold mreads|unfold mwrites]; apply in_flat_map; eauto.
  - apply (R' x); [unfold mreads|unfold mwrites]; apply in_flat_map; eauto.
Qed.

Lemma perm_blocks : forall l1 l2, Permutation l1 l2 -> NoDup l1 -> compatible l1 ->
  forall rest t, req (run_ops (blocks l1 ++ rest) t) (run_ops (blocks l2 ++ rest) t).
Proof.
  unfold blocks. intros l1 l2 P. induction P; intros N I rest t.
  - apply req_refl.
  - simpl. rewrite <- !app_assoc. rewrite !run_ops_app.
    destruct (run_ops (block pf fs x) t); [|exact Logic.I].
    apply IHP; [now inversion N|]. intros p q Hp Hq. apply I; now right.
  - simpl. rewrite <- !app_assoc. apply swap_blocks.
    inversion N as [|? ? N1 N2]; subst. inversion N2; subst.
    apply I; simpl; auto. intro; subst. apply N1. now left.
  - eapply req_trans; [apply IHP1; assumption|]. apply IHP2.
    + eapply Permutation_NoDup; eauto.
    + intros p q Hp Hq. apply I; (eapply Permutation_in; [apply Permutation_sym; exact P1|assumption]).
Qed.

Lemma in_blocks : forall o l, In o (blocks l) -> exists q, In q l /\ In o (block pf fs q).
Proof. intros o l H. apply in_flat_map in H. exact H. Qed.

(* ---------- normal form: a successful import = the blocks of the newly loaded modules, in the
   order they were marked *)
Variable U : list name.
Hypothesis HC : compatible U.

Definition new_ok (t t' : tables) (N : list name) : Prop :=
  loaded t' = N ++ loaded t /\ (forall q, In q N -> mem q (loaded t) = false) /\ NoDup N.

Lemma normal_form :
  (forall t p t', imports pf fs t p t' -> exists N, new_ok t t' N /\
     ((forall q, In q N -> In q U) ->
      forall rest, req (run_ops rest t') (run_ops (blocks (rev N) ++ rest) t))) /\
  (forall p t l t', stmts pf fs p t l t' -> exists N, new_ok t t' N /\
     (In p U -> mem p (loaded t) = true ->
      (forall o, In o (flat_map (import_stmt_ops p) l) -> In o (block pf fs p)) ->
      (forall q, In q N -> In q U) ->
      forall rest, req (run_ops rest t') (run_ops (flat_map (import_stmt_ops p) l ++ blocks (rev N) ++ rest) t))).
Proof.
  apply loader_ind.
  - (* already loaded *)
    intros t p M. exists []. split; [repeat split; auto; [intros q []|constructor]|].
    intros _ rest. simpl. apply req_refl.
  - (* a module is loaded *)
    intros t p m t2 t' M R Hst [N [[L [D ND]] Hreq]] Hs.
    pose proof (run_sync_loaded _ _ _ Hs) as L'.
    assert (HpN : ~ In p N).
    { intro Hin. specialize (D p Hin). simpl in D. now rewrite String.eqb_refl in D. }
    exists (N ++ [p]). split.
    + repeat split.
      * rewrite L', L. simpl. now rewrite <- app_assoc.
      * intros q Hq. apply in_app_iff in Hq. destruct Hq as [Hq|[<-|[]]]; [|exact M].
        specialize (D q Hq). simpl in D. destruct (String.eqb q p); [discriminate|exact D].
      * apply NoDup_app_intro_r; auto.
    + intros HU rest.
      assert (HpU : In p U) by (apply HU; apply in_app_iff; right; now left).
      assert (HNU : forall q, In q N -> In q U) by (intros; apply HU; apply in_app_iff; now left).
      assert (Hblock : block pf fs p = OLoaded p :: flat_map (import_stmt_ops p) m
                                       ++ flat_map sync_ops (parser_impls pf fs m)).
      { unfold block. now rewrite R. }
      rewrite rev_app_distr. simpl rev. simpl app. unfold blocks. simpl flat_map. fold (blocks (rev N)).
      rewrite Hblock. simpl app. rewrite run_cons. simpl apply_op. fold (mark_loaded p t).
      rewrite <- !app_assoc.
      (* run rest t' = run (syncs ++ rest) t2 *)
      assert (E : run_ops rest t' = run_ops (flat_map sync_ops (parser_impls pf fs m) ++ rest) t2)
        by (now rewrite run_ops_app, Hs).
      rewrite E.
      eapply req_trans.
      * apply Hreq; auto.
        -- simpl. now rewrite String.eqb_refl.
        -- intros o Ho. rewrite Hblock. right. apply in_app_iff. now left.
      * apply req_prefix. intros t0. apply swap_blocks.
        intros o1 o2 H1 H2. apply in_blocks in H1. destruct H1 as [q [Hq Ho1]].
        apply in_rev in Hq. apply (HC q p); auto.
        -- intro; subst. contradiction.
        -- rewrite Hblock. right. apply in_app_iff. now right.
  - (* no statement *)
    intros p t. exists []. split; [repeat split; auto; [intros q []|constructor]|].
    intros _ _ _ _ rest. simpl. apply req_refl.
  - (* import statement inside the module *)
    intros p t q r ta t2 Hi [Na [[La [Da NDa]] Ia]] Hs [Nr [[Lr [Dr NDr]] Sr]].
    exists (Nr ++ Na). split.
    + repeat split.
      * rewrite Lr, La. now rewrite app_assoc.
      * intros x Hx. apply in_app_iff in Hx. destruct Hx as [Hx|Hx]; [|auto].
        specialize (Dr x Hx). rewrite La, mem_app in Dr. apply orb_false_iff in Dr. tauto.
      * apply NoDup_app_intro_disj; auto.
        intros x Hx Hx'. specialize (Dr x Hx). rewrite La, mem_app in Dr. apply orb_false_iff in Dr.
        destruct Dr as [Dr _]. apply mem_false_iff in Dr. contradiction.
    + intros HpU Hp Hsub HU rest.
      assert (HUa : forall x, In x Na -> In x U) by (intros; apply HU; apply in_app_iff; now right).
      assert (HUr : forall x, In x Nr -> In x U) by (intros; apply HU; apply in_app_iff; now left).
      rewrite rev_app_distr. unfold blocks. rewrite flat_map_app. fold (blocks (rev Na)). fold (blocks (rev Nr)).
      simpl flat_map. simpl app. rewrite <- !app_assoc.
      eapply req_trans.
      * apply Sr; auto. eapply imports_mono; eauto.
      * eapply req_trans; [apply (Ia HUa)|].
        apply swap_blocks. intros o1 o2 H1 H2.
        apply in_blocks in H1. destruct H1 as [x [Hx Ho1]]. apply in_rev in Hx.
        apply (HC x p); auto.
        intro; subst. specialize (Da p Hx). congruence.
  - (* declaration *)
    intros p t e d r ta t2 Hr Hs [N [[L [D ND]] S]].
    pose proof (run_stmt_ops_loaded _ _ _ _ Hr) as La.
    exists N. split.
    + repeat split; auto.
      * now rewrite L, La.
      * intros x Hx. rewrite <- La. auto.
    + intros HpU Hp Hsub HU rest.
      cbn [flat_map]. rewrite <- app_assoc. rewrite run_ops_app, Hr.
      apply S; auto.
      * now rewrite La.
      * intros o Ho. apply Hsub. cbn [flat_map]. apply in_app_iff. now right.
Qed.

(* ---------- which modules an import loads: exactly those reachable through not-yet-loaded modules *)
Inductive reach_new (L : list name) (l : list name) : name -> Prop :=
| rn_base : forall q, In q l -> mem q L = false -> reach_new L l q
| rn_step : forall r m q, reach_new L l r -> resolve fs r = Some m -> In (SImport q) m -> mem q L = false ->
    reach_new L l q.

Lemma reach_new_not_loaded : forall L l q, reach_new L l q -> mem q L = false.
Proof. intros L l q H. destruct H; assumption. Qed.

Lemma reach_new_trans : forall L L' l l' q,
  reach_new L' l' q -> (forall x, mem x L = true -> mem x L' = true) ->
  (forall x, In x l' -> mem x L' = false -> reach_new L l x) -> reach_new L l q.
Proof.
  intros L L' l l' q H HL Hb. induction H.
  - auto.
  - eapply rn_step; eauto. destruct (mem q L) eqn:E; [|reflexivity]. rewrite (HL _ E) in H2. discriminate.
Qed.

Lemma reach_new_incl : forall L l l' q, reach_new L l q -> (forall x, In x l -> In x l') -> reach_new L l' q.
Proof. intros L l l' q H Hl. induction H; [apply rn_base; auto|eapply rn_step; eauto]. Qed.

Lemma loaded_reachable :
  (forall t p t', imports pf fs t p t' ->
     forall q, mem q (loaded t) = false -> mem q (loaded t') = true -> reach_new (loaded t) [p] q) /\
  (forall p t l t', stmts pf fs p t l t' ->
     forall q, mem q (loaded t) = false -> mem q (loaded t') = true ->
     exists r, In (SImport r) l /\ mem r (loaded t) = false /\ reach_new (loaded t) [r] q).
Proof.
  apply loader_ind.
  - intros t p M q H1 H2. congruence.
  - intros t p m t2 t' M R Hst IH Hs q H1 H2.
    pose proof (run_sync_loaded _ _ _ Hs) as L.
    destruct (String.eqb_spec q p) as [->|N]; [apply rn_base; [now left|assumption]|].
    rewrite L in H2.
    assert (H1' : mem q (loaded (mark_loaded p t)) = false).
    { simpl. apply String.eqb_neq in N. now rewrite N. }
    destruct (IH q H1' H2) as [r [Hr [Mr Rr]]].
    eapply reach_new_trans; eauto.
    + intros x Hx. simpl. rewrite Hx. now destruct (String.eqb x p).
    + intros x [E|[]] Hx. subst x. eapply rn_step; [apply rn_base; [now left|exact M]|exact R|exact Hr|].
      simpl in Hx. destruct (String.eqb r p); [discriminate|exact Hx].
  - intros p t q H1 H2. congruence.
  - intros p t q r ta t2 Hi I Hs S x H1 H2.
    destruct (mem x (loaded ta)) eqn:E.
    + exists q. split; [now left|]. split.
      * destruct (mem q (loaded t)) eqn:Mq; [|reflexivity].
        (* q was loaded already: the import changed nothing, so x cannot be new *)
        inversion Hi; subst; congruence.
      * apply I; assumption.
    + destruct (S x E H2) as [r0 [Hr0 [Mr0 Rr0]]]. exists r0. split; [now right|]. split.
      * destruct (mem r0 (loaded t)) eqn:Mr; [|reflexivity].
        rewrite (imports_mono _ _ _ _ _ _ Hi Mr) in Mr0. discriminate.
      * eapply reach_new_trans; eauto.
        -- intros y Hy. eapply imports_mono; eauto.
        -- intros y [E'|[]] Hy. subst y. apply rn_base; [now left|].
           destruct (mem r0 (loaded t)) eqn:My; [|reflexivity].
           rewrite (imports_mono _ _ _ _ _ _ Hi My) in Hy. discriminate.
  - intros p t e d r ta t2 Hr Hs S x H1 H2.
    pose proof (run_stmt_ops_loaded _ _ _ _ Hr) as L. rewrite <- L in H1.
    destruct (S x H1 H2) as [r0 [Hr0 [Mr0 Rr0]]]. rewrite L in Mr0, Rr0. exists r0. split; [now right|]. auto.
Qed.

End Blocks.

(* ---------- sequences of imports *)
Lemma load_mono : forall fuel pf fs l t t' q,
  load fuel pf fs l t = Ok t' -> mem q (loaded t) = true -> mem q (loaded t') = true.
Proof.
  induction l as [|a l IH]; intros t t' q H Hq; simpl in H.
  - now injection H as <-.
  - destruct (handle_import fuel pf fs t a) as [ta|] eqn:E; [|discriminate].
    eapply IH; eauto. eapply handle_import_mono; eauto.
Qed.

Lemma load_keeps : forall fuel pf fs l t t' g k,
  load fuel pf fs l t = Ok t' -> tlookup g k t <> None -> tlookup g k t' <> None.
Proof.
  induction l as [|a l IH]; intros t t' g k H Hd; simpl in H.
  - now injection H as <-.
  - destruct (handle_import fuel pf fs t a) as [ta|] eqn:E; [|discriminate].
    eapply IH; eauto. eapply imports_keeps; eauto. eapply handle_import_sound; eauto.
Qed.

Lemma load_marks : forall fuel pf fs l t t' p,
  load fuel pf fs l t = Ok t' -> In p l -> mem p (loaded t') = true.
Proof.
  induction l as [|a l IH]; intros t t' p H Hp; simpl in H; [destruct Hp|].
  destruct (handle_import fuel pf fs t a) as [ta|] eqn:E; [|discriminate].
  destruct Hp as [->|Hp]; [|eauto].
  eapply load_mono; eauto. eapply handle_import_marks; eauto.
Qed.

Lemma load_complete : forall fuel pf fs l t t' q,
  load fuel pf fs l t = Ok t' -> mem q (loaded t) = false -> mem q (loaded t') = true -> complete fs q t'.
Proof.
  induction l as [|a l IH]; intros t t' q H H1 H2; simpl in H.
  - injection H as <-. congruence.
  - destruct (handle_import fuel pf fs t a) as [ta|] eqn:E; [|discriminate].
    destruct (mem q (loaded ta)) eqn:Ma; [|eauto].
    pose proof (handle_import_sound _ _ _ _ _ _ E) as Hi.
    destruct (proj1 (newly_loaded_complete pf fs) _ _ _ Hi q H1 Ma) as [m [R [C1 C2]]].
    exists m. repeat split; auto.
    + intros r Hr. eapply load_mono; eauto.
    + intros d g k Hd Hk. eapply load_keeps; eauto.
Qed.

Lemma load_reach : forall fuel pf fs l t t' q,
  load fuel pf fs l t = Ok t' -> mem q (loaded t) = false -> mem q (loaded t') = true ->
  reach_new fs (loaded t) l q.
Proof.
  induction l as [|a l IH]; intros t t' q H H1 H2; simpl in H.
  - injection H as <-. congruence.
  - destruct (handle_import fuel pf fs t a) as [ta|] eqn:E; [|discriminate].
    pose proof (handle_import_sound _ _ _ _ _ _ E) as Hi.
    destruct (mem q (loaded ta)) eqn:Ma.
    + eapply reach_new_incl; [apply (proj1 (loaded_reachable pf fs) _ _ _ Hi q H1 Ma)|].
      intros x [<-|[]]. now left.
    + eapply reach_new_trans; [apply (IH _ _ _ H Ma H2)| |].
      * intros x Hx. eapply imports_mono; eauto.
      * intros x Hx Mx. apply rn_base; [now right|].
        destruct (mem x (loaded t)) eqn:Mt; [|reflexivity].
        rewrite (imports_mono _ _ _ _ _ _ Hi Mt) in Mx. discriminate.
Qed.

Lemma load_normal : forall fuel pf fs U, compatible pf fs U -> forall l t t',
  load fuel pf fs l t = Ok t' -> exists N, new_ok t t' N /\
    ((forall q, In q N -> In q U) ->
     forall rest, req (run_ops rest t') (run_ops (blocks pf fs (rev N) ++ rest) t)).
Proof.
  intros fuel pf fs U HC. induction l as [|a l IH]; intros t t' H; simpl in H.
  - injection H as <-. exists []. split; [repeat split; auto; [intros q []|constructor]|].
    intros _ rest. apply req_refl.
  - destruct (handle_import fuel pf fs t a) as [ta|] eqn:E; [|discriminate].
    pose proof (handle_import_sound _ _ _ _ _ _ E) as Hi.
    destruct (proj1 (normal_form pf fs U HC) _ _ _ Hi) as [Na [[La [Da NDa]] Ia]].
    destruct (IH _ _ H) as [Nr [[Lr [Dr NDr]] Ir]].
    exists (Nr ++ Na). split.
    + repeat split.
      * rewrite Lr, La. now rewrite app_assoc.
      * intros x Hx. apply in_app_iff in Hx. destruct Hx as [Hx|Hx]; [|auto].
        specialize (Dr x Hx). rewrite La, mem_app in Dr. apply orb_false_iff in Dr. tauto.
      * apply NoDup_app_intro_disj; auto.
        intros x Hx Hx'. specialize (Dr x Hx). rewrite La, mem_app in Dr. apply orb_false_iff in Dr.
        destruct Dr as [Dr _]. apply mem_false_iff in Dr. contradiction.
    + intros HU rest.
      assert (HUa : forall x, In x Na -> In x U) by (intros; apply HU; apply in_app_iff; now right).
      assert (HUr : forall x, In x Nr -> In x U) by (intros; apply HU; apply in_app_iff; now left).
      rewrite rev_app_distr. unfold blocks. rewrite flat_map_app. rewrite <- app_assoc.
      eapply req_trans; [apply (Ir HUr)|]. apply (Ia HUa).
Qed.

(* the set of modules a successful sequence of imports loads does not depend on the order *)
Lemma load_same_modules : forall fuel pf fs l1 l2 t t1 t2,
  Permutation l1 l2 -> load fuel pf fs l1 t = Ok t1 -> load fuel pf fs l2 t = Ok t2 ->
  forall q, mem q (loaded t1) = true -> mem q (loaded t2) = true.
Proof.
  intros fuel pf fs l1 l2 t t1 t2 P H1 H2 q Hq.
  destruct (mem q (loaded t)) eqn:M; [eapply load_mono; eauto|].
  pose proof (load_reach _ _ _ _ _ _ _ H1 M Hq) as R.
  assert (R2 : reach_new fs (loaded t) l2 q).
  { eapply reach_new_incl; eauto. intros. eapply Permutation_in; eauto. }
  clear R Hq. induction R2 as [q Hin Mq|r m q Hr IH Rr Hm Mq].
  - eapply load_marks; eauto.
  - specialize (IH (reach_new_not_loaded _ _ _ _ Hr)).
    destruct (load_complete _ _ _ _ _ _ _ H2 (reach_new_not_loaded _ _ _ _ Hr) IH) as [m' [R' [C _]]].
    rewrite Rr in R'. injection R' as <-. auto.
Qed.

Lemma import_order_compatible_l : forall fuel pf fs U l1 l2 t t1 t2,
  Permutation l1 l2 -> load fuel pf fs l1 t = Ok t1 -> load fuel pf fs l2 t = Ok t2 ->
  compatible pf fs U ->
  (forall q, mem q (loaded t1) = true -> mem q (loaded t) = true \/ In q U) ->
  teq t1 t2.
Proof.
  intros fuel pf fs U l1 l2 t t1 t2 P H1 H2 HC HU.
  destruct (load_normal _ _ _ _ HC _ _ _ H1) as [N1 [[L1 [D1 ND1]] I1]].
  destruct (load_normal _ _ _ _ HC _ _ _ H2) as [N2 [[L2 [D2 ND2]] I2]].
  assert (S12 : forall q, In q N1 -> In q N2).
  { intros q Hq. assert (Hm : mem q (loaded t1) = true).
    { rewrite L1, mem_app. apply orb_true_iff. left. now apply mem_true_iff. }
    pose proof (load_same_modules _ _ _ _ _ _ _ _ P H1 H2 q Hm) as Hm2.
    rewrite L2, mem_app, (D1 q Hq), orb_false_r in Hm2. now apply mem_true_iff. }
  assert (S21 : forall q, In q N2 -> In q N1).
  { intros q Hq. assert (Hm : mem q (loaded t2) = true).
    { rewrite L2, mem_app. apply orb_true_iff. left. now apply mem_true_iff. }
    pose proof (load_same_modules _ _ _ _ _ _ _ _ (Permutation_sym P) H2 H1 q Hm) as Hm1.
    rewrite L1, mem_app, (D2 q Hq), orb_false_r in Hm1. now apply mem_true_iff. }
  assert (U1 : forall q, In q N1 -> In q U).
  { intros q Hq. destruct (HU q) as [Hl|Hu]; auto.
    - rewrite L1, mem_app. apply orb_true_iff. left. now apply mem_true_iff.
    - rewrite (D1 q Hq) in Hl. discriminate. }
  assert (U2 : forall q, In q N2 -> In q U) by auto.
  assert (PN : Permutation (rev N1) (rev N2)).
  { apply NoDup_Permutation.
    - now apply NoDup_rev.
    - now apply NoDup_rev.
    - intros x. rewrite <- !in_rev. split; auto. }
  pose proof (I1 U1 []) as E1. pose proof (I2 U2 []) as E2.
  change (run_ops [] t1) with (Ok t1) in E1. change (run_ops [] t2) with (Ok t2) in E2.
  assert (C1 : compatible pf fs (rev N1)).
  { intros p q Hp Hq. apply HC; apply U1; now apply in_rev. }
  pose proof (perm_blocks pf fs _ _ PN (NoDup_rev ND1) C1 [] t) as E.
  exact (req_trans (Ok t1) _ (Ok t2) E1 (req_trans _ _ _ E (req_sym _ _ E2))).
Qed.

Lemma import_order_independent_l : forall fuel pf fs U l1 l2 t t1 t2,
  Permutation l1 l2 -> load fuel pf fs l1 t = Ok t1 -> load fuel pf fs l2 t = Ok t2 ->
  independent pf fs U ->
  (forall q, mem q (loaded t1) = true -> mem q (loaded t) = true \/ In q U) ->
  teq t1 t2.
Proof. intros. eapply import_order_compatible_l; eauto using independent_compatible. Qed.

Lemma equal_tables_answer_alike_l : forall a b, teq a b ->
  (forall g k, tlookup g k a = tlookup g k b) /\
  (forall s n, find_ctor s n (ctors a) = find_ctor s n (ctors b)) /\
  (forall i s, has_impl i s (impls a) = has_impl i s (impls b)) /\
  (forall s, impls_of s (impls a) = impls_of s (impls b)) /\
  (forall p, mem p (loaded a) = mem p (loaded b)).
Proof.
  intros a b H. repeat split.
  - exact (teq_tlookup a b H).
  - exact (teq_find_ctor a b H).
  - exact (teq_has_impl a b H).
  - exact (teq_impls a b H).
  - exact (teq_loaded a b H).
Qed.

(* ---------- a decidable sufficient check of [compatible], for concrete file systems *)
Definition impl_eq_dec : forall a b : impl_def, {a = b} + {a <> b}.
Proof.
  decide equality; try apply string_dec.
  - apply (list_eq_dec string_dec).
  - apply (option_eq_dec Nat.eq_dec).
  - apply (list_eq_dec (prod_eq_dec Nat.eq_dec Nat.eq_dec)).
  - apply (list_eq_dec (prod_eq_dec string_dec Nat.eq_dec)).
Defined.
Definition error_eq_dec : forall a b : error, {a = b} + {a <> b}.
Proof. decide equality; apply string_dec. Defined.
Definition expr_eq_dec : forall a b : expr, {a = b} + {a <> b}.
Proof.
  fix IH 1. intros a b. decide equality; try apply string_dec; try apply Nat.eq_dec.
  apply (list_eq_dec (prod_eq_dec Nat.eq_dec IH)).
Defined.
Definition op_eq_dec : forall a b : op, {a = b} + {a <> b}.
Proof.
  decide equality; try apply string_dec; try apply Nat.eq_dec; try apply bool_dec;
    try apply expr_eq_dec; try apply (list_eq_dec string_dec).
  - apply sdef_eq_dec.
  - apply (option_eq_dec Nat.eq_dec).
  - apply (list_eq_dec (prod_eq_dec string_dec Nat.eq_dec)).
  - apply impl_eq_dec.
  - apply error_eq_dec.
Defined.
Definition ftag_eq_dec : forall a b : ftag, {a = b} + {a <> b}.
Proof. decide equality; [apply tag_eq_dec|apply Nat.eq_dec]. Defined.
Definition fk_eq_dec : forall a b : ftag * name, {a = b} + {a <> b} := prod_eq_dec ftag_eq_dec string_dec.

Definition disjointb (a b : list (ftag * name)) : bool :=
  forallb (fun x => if in_dec fk_eq_dec x b then false else true) a.
Definition tdisjointb (a b : list (tag * name)) : bool :=
  forallb (fun x => if in_dec tk_eq_dec x b then false else true) a.
Definition compatb (o1 o2 : op) : bool :=
  if op_eq_dec o1 o2 then true
  else disjointb (foot o1) (foot o2) && tdisjointb (op_reads o1) (op_writes o2) && tdisjointb (op_reads o2) (op_writes o1).
Definition compatibleb (pf : nat) (fs : fsys) (l : list name) : bool :=
  forallb (fun p => forallb (fun q =>
     String.eqb p q || forallb (fun o1 => forallb (compatb o1) (block pf fs q)) (block pf fs p)) l) l.

Lemma compatb_sound : forall o1 o2, compatb o1 o2 = true -> compat o1 o2.
Proof.
  intros o1 o2 H. unfold compatb in H. destruct (op_eq_dec o1 o2); [now left|right].
  apply andb_true_iff in H. destruct H as [H H3]. apply andb_true_iff in H. destruct H as [H H2].
  split; [|split]; intros x H1 Hx.
  - unfold disjointb in H. rewrite forallb_forall in H. specialize (H x H1).
    destruct (in_dec fk_eq_dec x (foot o2)); [discriminate|contradiction].
  - unfold tdisjointb in H2. rewrite forallb_forall in H2. specialize (H2 x H1).
    destruct (in_dec tk_eq_dec x (op_writes o2)); [discriminate|contradiction].
  - unfold tdisjointb in H3. rewrite forallb_forall in H3. specialize (H3 x H1).
    destruct (in_dec tk_eq_dec x (op_writes o1)); [discriminate|contradiction].
Qed.

Lemma compatibleb_sound : forall pf fs l, compatibleb pf fs l = true -> compatible pf fs l.
Proof.
  intros pf fs l H p q Hp Hq Hne o1 o2 H1 H2. unfold compatibleb in H.
  rewrite forallb_forall in H. specialize (H p Hp). rewrite forallb_forall in H. specialize (H q Hq).
  apply orb_true_iff in H. destruct H as [H|H]; [apply String.eqb_eq in H; contradiction|].
  rewrite forallb_forall in H. specialize (H o1 H1). rewrite forallb_forall in H. apply compatb_sound. auto.
Qed.
