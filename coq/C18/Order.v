(* C18 - order independence: table equality "as maps", congruence of every registration step,
   commutation of steps with disjoint footprints, lifted to permutations of import lists. *)
From Coq Require Import List String Ascii Bool Arith Lia Permutation.
Import ListNotations.
From Cb Require Import C18.Model C18.Import.
Local Open Scope string_scope.
Local Open Scope list_scope.

Opaque bind.

(* ---------- tables equal as maps *)
Record teq (a b : tables) : Prop := mk_teq {
  teq_funcs : forall k, lookup k (funcs a) = lookup k (funcs b);
  teq_structs : forall k, lookup k (structs a) = lookup k (structs b);
  teq_ifaces : forall k, lookup k (ifaces a) = lookup k (ifaces b);
  teq_typedefs : forall k, lookup k (typedefs a) = lookup k (typedefs b);
  teq_vars : forall k, lookup k (vars a) = lookup k (vars b);
  teq_enums : forall k, lookup k (enums a) = lookup k (enums b);
  teq_dtors : forall k, lookup k (dtors a) = lookup k (dtors b);
  teq_impls : forall s, impls_of s (impls a) = impls_of s (impls b);      (* impl blocks of each struct, in order *)
  teq_ctors : forall s n, find_ctor s n (ctors a) = find_ctor s n (ctors b);   (* constructor chosen for (struct, arity) *)
  teq_statics : forall x, In x (istatics a) <-> In x (istatics b);
  teq_loaded : forall p, mem p (loaded a) = mem p (loaded b)
}.
Definition req (r1 r2 : result) : Prop :=
  match r1, r2 with
  | Ok a, Ok b => teq a b
  | Err _, Err _ => True            (* both runs end with an error before main starts *)
  | _, _ => False
  end.

Lemma teq_refl : forall a, teq a a.
Proof. intros; constructor; intros; tauto || reflexivity. Qed.
Lemma teq_sym : forall a b, teq a b -> teq b a.
Proof. intros a b []; constructor; intros; try symmetry; auto. Qed.
Lemma teq_trans : forall a b c, teq a b -> teq b c -> teq a c.
Proof.
  intros a b c [] []; constructor; intros; try (etransitivity; eauto; fail).
Qed.
Lemma req_refl : forall r, req r r.
Proof. destruct r; simpl; auto using teq_refl. Qed.
Lemma req_sym : forall r s, req r s -> req s r.
Proof. destruct r, s; simpl; auto using teq_sym. Qed.
Lemma req_trans : forall r s u, req r s -> req s u -> req r u.
Proof. destruct r, s, u; simpl; try tauto. apply teq_trans. Qed.

Lemma teq_tlookup : forall a b, teq a b -> forall g k, tlookup g k a = tlookup g k b.
Proof. intros a b [] g k. destruct g; simpl; f_equal; auto. Qed.

(* what the interpreter can ask of the two non-map tables is determined by the per-struct views *)
Lemma find_ctor_sub : forall s n l, find_ctor s n l = find_ctor s n (ctors_of s l).
Proof.
  induction l as [|[s' [a b]] l IH]; simpl; [reflexivity|].
  rewrite (String.eqb_sym s' s). destruct (String.eqb s s') eqn:E; simpl.
  - rewrite E. simpl. destruct (Nat.eqb n a); auto.
  - assumption.
Qed.
Lemma has_impl_sub : forall i s l, has_impl i s l = has_impl i s (impls_of s l).
Proof.
  induction l as [|e l IH]; simpl; [reflexivity|]. unfold same_key at 1.
  destruct (String.eqb (im_struct e) s) eqn:E; simpl.
  - unfold same_key at 1. rewrite E. now rewrite IH.
  - now rewrite andb_false_r.
Qed.
Lemma teq_find_ctor : forall a b, teq a b -> forall s n, find_ctor s n (ctors a) = find_ctor s n (ctors b).
Proof. intros a b H. exact (teq_ctors _ _ H). Qed.
Lemma teq_has_impl : forall a b, teq a b -> forall i s, has_impl i s (impls a) = has_impl i s (impls b).
Proof. intros a b H i s. rewrite has_impl_sub, (has_impl_sub i s (impls b)). now rewrite (teq_impls _ _ H). Qed.

(* ---------- one impl registration, seen on the impl list only *)
Definition impl_step (l : list impl_def) (d : impl_def) : option (list impl_def) :=
  if has_impl (im_iface d) (im_struct d) l then Some (replace_impl d l)
  else match find_conflict l d with Some _ => None | None => Some (l ++ [d]) end.

Lemma apply_impl_some : forall t d l',
  impl_step (impls t) d = Some l' ->
  apply_op t (OImpl d) = Ok (set_funcs (set_impls t l') (bind_all (method_binds d) (funcs t))).
Proof.
  intros t d l' H. unfold impl_step in H. simpl. destruct (has_impl _ _ _).
  - now injection H as <-.
  - destruct (find_conflict _ _); [discriminate|]. now injection H as <-.
Qed.
Lemma apply_impl_none : forall t d, impl_step (impls t) d = None -> exists e, apply_op t (OImpl d) = Err e.
Proof.
  intros t d H. unfold impl_step in H. simpl. destruct (has_impl _ _ _); [discriminate|].
  destruct (find_conflict _ _); [eauto|discriminate].
Qed.

Lemma impls_of_app : forall s a b, impls_of s (a ++ b) = impls_of s a ++ impls_of s b.
Proof. intros. unfold impls_of. apply filter_app. Qed.

Lemma same_key_struct : forall i s e, same_key i s e = true -> im_struct e = s.
Proof. unfold same_key. intros. apply andb_true_iff in H. destruct H. now apply String.eqb_eq. Qed.

Lemma impls_of_replace : forall s d l,
  impls_of s (replace_impl d l) =
  if String.eqb (im_struct d) s then replace_impl d (impls_of s l) else impls_of s l.
Proof.
  induction l as [|e l IH]; simpl.
  - now destruct (String.eqb _ _).
  - destruct (same_key (im_iface d) (im_struct d) e) eqn:K.
    + pose proof (same_key_struct _ _ _ K) as Es. simpl. rewrite Es.
      destruct (String.eqb (im_struct d) s) eqn:E; [|reflexivity]. simpl. now rewrite K.
    + simpl. rewrite IH. destruct (String.eqb (im_struct e) s) eqn:E1, (String.eqb (im_struct d) s) eqn:E2;
        simpl; try rewrite K; reflexivity.
Qed.

Lemma find_conflict_sub : forall l d, find_conflict l d = find_conflict (impls_of (im_struct d) l) d.
Proof.
  intros. unfold find_conflict.
  change (filter (fun e => String.eqb (im_struct e) (im_struct d)) l) with (impls_of (im_struct d) l).
  change (filter (fun e => String.eqb (im_struct e) (im_struct d)) (impls_of (im_struct d) l))
    with (impls_of (im_struct d) (impls_of (im_struct d) l)).
  unfold impls_of at 2. unfold impls_of at 2.
  assert (Hf : forall (f : impl_def -> bool) x, filter f (filter f x) = filter f x).
  { induction x; simpl; auto. destruct (f a) eqn:E; simpl; rewrite ?E; congruence. }
  now rewrite Hf.
Qed.

(* the step on d only reads and changes the blocks of d's struct *)
Lemma impl_step_local : forall l1 l2 d,
  impls_of (im_struct d) l1 = impls_of (im_struct d) l2 ->
  match impl_step l1 d, impl_step l2 d with
  | Some a, Some b => impls_of (im_struct d) a = impls_of (im_struct d) b
  | None, None => True
  | _, _ => False
  end.
Proof.
  intros l1 l2 d H. unfold impl_step.
  rewrite (has_impl_sub _ _ l1), (has_impl_sub _ _ l2), (find_conflict_sub l1), (find_conflict_sub l2), H.
  destruct (has_impl _ _ _).
  - rewrite !impls_of_replace, String.eqb_refl. now rewrite H.
  - destruct (find_conflict _ _); [exact Logic.I|]. rewrite !impls_of_app. now rewrite H.
Qed.

Lemma impl_step_other : forall l d l' s,
  impl_step l d = Some l' -> s <> im_struct d -> impls_of s l' = impls_of s l.
Proof.
  intros l d l' s H Hs. unfold impl_step in H. apply not_eq_sym in Hs. apply String.eqb_neq in Hs.
  destruct (has_impl _ _ _).
  - injection H as <-. now rewrite impls_of_replace, Hs.
  - destruct (find_conflict _ _); [discriminate|]. injection H as <-.
    rewrite impls_of_app. simpl. rewrite Hs. apply app_nil_r.
Qed.

Lemma impl_step_congr : forall l1 l2 d,
  (forall s, impls_of s l1 = impls_of s l2) ->
  match impl_step l1 d, impl_step l2 d with
  | Some a, Some b => forall s, impls_of s a = impls_of s b
  | None, None => True
  | _, _ => False
  end.
Proof.
  intros l1 l2 d H. pose proof (impl_step_local l1 l2 d (H _)) as L.
  destruct (impl_step l1 d) as [a|] eqn:E1, (impl_step l2 d) as [b|] eqn:E2; auto.
  intros s. destruct (string_dec s (im_struct d)) as [->|Hn]; [assumption|].
  rewrite (impl_step_other _ _ _ _ E1 Hn), (impl_step_other _ _ _ _ E2 Hn). apply H.
Qed.

(* ---------- congruence of one step *)
Lemma lookup_bind_congr : forall V k k0 (v : V) m1 m2,
  lookup k m1 = lookup k m2 -> lookup k (bind k0 v m1) = lookup k (bind k0 v m2).
Proof.
  intros. destruct (string_dec k k0) as [->|Hn].
  - now rewrite !lookup_bind_eq.
  - now rewrite !lookup_bind_neq.
Qed.

Lemma find_ctor_app : forall s n l s' a b,
  find_ctor s n (l ++ [(s', (a, b))]) =
  match find_ctor s n l with
  | Some v => Some v
  | None => if String.eqb s s' && Nat.eqb n a then Some b else None
  end.
Proof.
  induction l as [|[s0 [a0 b0]] l IH]; intros; simpl; [reflexivity|].
  destruct (String.eqb s s0 && Nat.eqb n a0); [reflexivity|apply IH].
Qed.

Lemma apply_congr : forall o a b, teq a b -> req (apply_op a o) (apply_op b o).
Proof.
  intros o a b H. pose proof H as [Hf Hs Hi Ht Hv He Hd Him Hc Hst Hl].
  destruct o;
    try (simpl; constructor; simpl; intros; auto using lookup_bind_congr; fail).
  - (* OEnum *) simpl. rewrite He. destruct (lookup k (enums b)); [exact H|].
    constructor; simpl; intros; auto using lookup_bind_congr.
  - (* OCtor *) simpl. constructor; simpl; intros; auto. rewrite !find_ctor_app. now rewrite Hc.
  - (* OImpl *)
    pose proof (impl_step_congr (impls a) (impls b) d Him) as L.
    destruct (impl_step (impls a) d) as [la|] eqn:Ea, (impl_step (impls b) d) as [lb|] eqn:Eb; try tauto.
    + rewrite (apply_impl_some _ _ _ Ea), (apply_impl_some _ _ _ Eb). simpl.
      constructor; simpl; intros; auto. now apply lookup_bind_all_congr.
    + destruct (apply_impl_none _ _ Ea) as [e1 E1]. destruct (apply_impl_none _ _ Eb) as [e2 E2].
      rewrite E1, E2. exact Logic.I.
  - (* OStatic *) simpl. constructor; simpl; intros; auto. rewrite Hst. tauto.
  - (* OLoaded *) simpl. constructor; simpl; intros; auto. now rewrite Hl.
Qed.

Lemma run_congr : forall ops a b, teq a b -> req (run_ops ops a) (run_ops ops b).
Proof.
  induction ops as [|o ops IH]; intros a b H; simpl; [assumption|].
  pose proof (apply_congr o a b H) as C.
  destruct (apply_op a o), (apply_op b o); simpl in C; try tauto. now apply IH.
Qed.

Lemma req_run_congr : forall ops r1 r2, req r1 r2 ->
  req (match r1 with Ok t => run_ops ops t | Err e => Err e end)
      (match r2 with Ok t => run_ops ops t | Err e => Err e end).
Proof. intros ops [a|e1] [b|e2] H; simpl in *; try tauto. now apply run_congr. Qed.

(* ---------- footprints and commutation *)
Inductive ftag := FMap (g : tag) | FImpl | FCtor (arity : nat).
Definition foot (o : op) : list (ftag * name) :=
  map (fun x => (FMap (fst x), snd x)) (op_writes o) ++
  match o with
  | OImpl d => [(FImpl, im_struct d)]
  | OCtor s a _ => [(FCtor a, s)]
  | _ => []
  end.
Definition indep (o1 o2 : op) : Prop := forall x, In x (foot o1) -> ~ In x (foot o2).

Lemma indep_sym : forall a b, indep a b -> indep b a.
Proof. unfold indep. intros a b H x Hb Ha. exact (H x Ha Hb). Qed.

Lemma bind_bind_comm : forall V k k1 k2 (v1 v2 : V) m, k1 <> k2 ->
  lookup k (bind k1 v1 (bind k2 v2 m)) = lookup k (bind k2 v2 (bind k1 v1 m)).
Proof.
  intros. destruct (string_dec k k1) as [E1|N1]; destruct (string_dec k k2) as [E2|N2]; try congruence.
  - subst k. now rewrite lookup_bind_eq, lookup_bind_neq, lookup_bind_eq.
  - subst k. now rewrite lookup_bind_neq, !lookup_bind_eq by auto.
  - now rewrite !lookup_bind_neq.
Qed.

Lemma bind_all_bind_comm : forall k k0 (b : nat) ws m, ~ In k0 (map fst ws) ->
  lookup k (bind k0 b (bind_all ws m)) = lookup k (bind_all ws (bind k0 b m)).
Proof.
  intros. destruct (string_dec k k0) as [->|N].
  - now rewrite lookup_bind_eq, lookup_bind_all_notin, lookup_bind_eq.
  - rewrite lookup_bind_neq by assumption. apply lookup_bind_all_congr. now rewrite lookup_bind_neq.
Qed.

Lemma bind_all_comm : forall k (ws1 ws2 : list (name * nat)) m,
  (forall x, In x (map fst ws1) -> ~ In x (map fst ws2)) ->
  lookup k (bind_all ws2 (bind_all ws1 m)) = lookup k (bind_all ws1 (bind_all ws2 m)).
Proof.
  intros k ws1 ws2 m H. destruct (in_dec string_dec k (map fst ws1)) as [I1|N1].
  - assert (N2 : ~ In k (map fst ws2)) by auto.
    rewrite (lookup_bind_all_notin _ ws2) by assumption.
    apply lookup_bind_all_congr. now rewrite lookup_bind_all_notin.
  - rewrite (lookup_bind_all_notin _ ws1 (bind_all ws2 m)) by assumption.
    apply lookup_bind_all_congr. now apply lookup_bind_all_notin.
Qed.

Definition simple (o : op) : Prop := match o with OImpl _ | OFail _ => False | _ => True end.

Lemma simple_ok : forall o t, simple o -> exists t', apply_op t o = Ok t' /\ impls t' = impls t.
Proof. intros o t H. destruct o; simpl in H; try tauto; simpl; eauto. destruct (lookup k (enums t)); eauto. Qed.

Lemma foot_writes : forall o g k, In (g, k) (op_writes o) -> In (FMap g, k) (foot o).
Proof.
  intros. unfold foot. apply in_app_iff. left.
  apply in_map_iff. exists (g, k). auto.
Qed.

(* a failing step commutes with everything (both orders end in an error) *)
Lemma comm_fail : forall e o t, req (run_ops [OFail e; o] t) (run_ops [o; OFail e] t).
Proof. intros. simpl. destruct (apply_op t o); exact Logic.I. Qed.

Lemma comm_enum_simple : forall k ms o t, simple o -> indep (OEnum k ms) o ->
  req (run_ops [OEnum k ms; o] t) (run_ops [o; OEnum k ms] t).
Proof.
  intros k ms o t S I.
  destruct o; simpl in S; try tauto;
    try (simpl; destruct (lookup k (enums t)) eqn:EL; simpl; rewrite ?EL; apply teq_refl).
  assert (N : k <> k0). { intro; subst. eapply (I (FMap TE, k0)); apply foot_writes; simpl; auto. }
  assert (N' : k0 <> k) by auto.
  simpl. destruct (lookup k (enums t)) eqn:E1; destruct (lookup k0 (enums t)) eqn:E2; simpl;
    rewrite ?E1, ?E2, ?lookup_bind_neq by auto; rewrite ?E1, ?E2; try apply teq_refl.
  constructor; simpl; intros; try reflexivity; try tauto. apply bind_bind_comm. auto.
Qed.

Lemma comm_simple_simple : forall o1 o2 t, simple o1 -> simple o2 -> indep o1 o2 ->
  req (run_ops [o1; o2] t) (run_ops [o2; o1] t).
Proof.
  intros o1 o2 t S1 S2 I.
  destruct o1; simpl in S1; try tauto; try (apply comm_enum_simple; assumption);
    destruct o2; simpl in S2; try tauto;
    try (apply req_sym, comm_enum_simple; [exact Logic.I|apply indep_sym; assumption]); simpl;
    try (apply teq_refl);
    try (constructor; simpl; intros; try reflexivity; try tauto;
         apply bind_bind_comm; intro; subst;
         eapply I; [apply foot_writes; simpl; left; reflexivity|apply foot_writes; simpl; left; reflexivity]).
  - (* OCtor / OCtor *)
    constructor; simpl; intros; try reflexivity; try tauto.
    rewrite !find_ctor_app. destruct (find_ctor s1 n (ctors t)); [reflexivity|].
    destruct (String.eqb s1 s && Nat.eqb n arity) eqn:E1, (String.eqb s1 s0 && Nat.eqb n arity0) eqn:E2; try reflexivity.
    apply andb_true_iff in E1, E2. destruct E1 as [E1 F1], E2 as [E2 F2].
    apply String.eqb_eq in E1, E2. apply Nat.eqb_eq in F1, F2. subst. exfalso.
    eapply (I (FCtor arity0, s0)); unfold foot; simpl; auto.
  - (* OStatic / OStatic *) constructor; simpl; intros; try reflexivity; tauto.
  - (* OLoaded / OLoaded *)
    constructor; simpl; intros; try reflexivity; try tauto.
    destruct (String.eqb p1 p0), (String.eqb p1 p); reflexivity.
Qed.

Lemma comm_impl_simple : forall d o t, simple o -> indep (OImpl d) o ->
  req (run_ops [OImpl d; o] t) (run_ops [o; OImpl d] t).
Proof.
  intros d o t S I.
  assert (Hk : forall k b, o = OFunc k b -> ~ In k (map fst (method_binds d))).
  { intros k b -> Hin. apply (I (FMap TF, k)).
    - apply foot_writes. simpl. now apply in_map_TF.
    - apply foot_writes. simpl. auto. }
  destruct (impl_step (impls t) d) as [l'|] eqn:E.
  - remember (OImpl d) as oi eqn:Hoi.
    destruct o; simpl in S; try tauto;
      try (cbn [run_ops apply_op]; subst oi; rewrite (apply_impl_some _ _ _ E);
      (erewrite apply_impl_some; [|cbn [impls set_funcs]; exact E]);
      cbn [apply_op req set_funcs set_impls funcs structs ifaces typedefs vars enums impls ctors dtors istatics loaded];
      try apply teq_refl).
    2:{ (* OEnum *)
      cbn [run_ops apply_op]; subst oi; rewrite (apply_impl_some _ _ _ E).
      cbn [set_funcs set_impls enums]. destruct (lookup k (enums t)) eqn:EL.
      - rewrite (apply_impl_some _ _ _ E). apply teq_refl.
      - erewrite apply_impl_some by (cbn [impls]; exact E). apply teq_refl. }
    constructor; cbn [set_funcs set_impls funcs structs ifaces typedefs vars enums impls ctors dtors istatics loaded];
      intros; try reflexivity; try tauto.
    apply bind_all_bind_comm. eapply Hk. reflexivity.
  - destruct (apply_impl_none _ _ E) as [e He].
    destruct (simple_ok o t S) as [t1 [H1 H2]].
    cbn [run_ops]. rewrite He, H1.
    assert (E' : impl_step (impls t1) d = None) by now rewrite H2.
    destruct (apply_impl_none _ _ E') as [e' He']. rewrite He'. exact Logic.I.
Qed.

Lemma comm_impl_impl : forall d1 d2 t, indep (OImpl d1) (OImpl d2) ->
  req (run_ops [OImpl d1; OImpl d2] t) (run_ops [OImpl d2; OImpl d1] t).
Proof.
  intros d1 d2 t I.
  assert (Hs : im_struct d1 <> im_struct d2).
  { intro Hs. apply (I (FImpl, im_struct d1)); unfold foot; apply in_app_iff; right; simpl; auto.
    left. now rewrite Hs. }
  assert (Hk : forall x, In x (map fst (method_binds d1)) -> ~ In x (map fst (method_binds d2))).
  { intros x H1 H2. apply (I (FMap TF, x)); apply foot_writes; simpl; now apply in_map_TF. }
  (* the decision for each block does not depend on whether the other was registered first *)
  assert (L12 : forall l1, impl_step (impls t) d1 = Some l1 ->
                match impl_step (impls t) d2, impl_step l1 d2 with
                | Some a, Some b => impls_of (im_struct d2) a = impls_of (im_struct d2) b
                | None, None => True | _, _ => False end).
  { intros l1 E1. apply impl_step_local. symmetry. eapply impl_step_other; eauto. }
  assert (L21 : forall l2, impl_step (impls t) d2 = Some l2 ->
                match impl_step (impls t) d1, impl_step l2 d1 with
                | Some a, Some b => impls_of (im_struct d1) a = impls_of (im_struct d1) b
                | None, None => True | _, _ => False end).
  { intros l2 E2. apply impl_step_local. symmetry. eapply impl_step_other; eauto. }
  cbn [run_ops].
  destruct (impl_step (impls t) d1) as [l1|] eqn:E1; destruct (impl_step (impls t) d2) as [l2|] eqn:E2.
  - specialize (L12 l1 eq_refl). specialize (L21 l2 eq_refl).
    destruct (impl_step l1 d2) as [l12|] eqn:E12; [|tauto].
    destruct (impl_step l2 d1) as [l21|] eqn:E21; [|tauto].
    rewrite (apply_impl_some _ _ _ E1), (apply_impl_some _ _ _ E2).
    erewrite apply_impl_some by (cbn [set_funcs set_impls impls]; exact E12).
    erewrite apply_impl_some by (cbn [set_funcs set_impls impls]; exact E21).
    constructor; cbn [set_funcs set_impls funcs structs ifaces typedefs vars enums impls ctors dtors istatics loaded];
      intros; try reflexivity; try tauto.
    + now apply bind_all_comm.
    + destruct (string_dec s (im_struct d2)) as [->|N2].
      * rewrite <- L12. symmetry. eapply impl_step_other; eauto.
      * rewrite (impl_step_other _ _ _ _ E12 N2).
        destruct (string_dec s (im_struct d1)) as [->|N1].
        -- rewrite <- L21. reflexivity.
        -- rewrite (impl_step_other _ _ _ _ E21 N1), (impl_step_other _ _ _ _ E1 N1), (impl_step_other _ _ _ _ E2 N2).
           reflexivity.
  - specialize (L12 l1 eq_refl). destruct (impl_step l1 d2) eqn:E12; [tauto|].
    rewrite (apply_impl_some _ _ _ E1). destruct (apply_impl_none _ _ E2) as [e He]. rewrite He.
    destruct (apply_impl_none (set_funcs (set_impls t l1) (bind_all (method_binds d1) (funcs t))) d2) as [e' He'].
    { cbn [set_funcs set_impls impls]. exact E12. }
    rewrite He'. exact Logic.I.
  - specialize (L21 l2 eq_refl). destruct (impl_step l2 d1) eqn:E21; [tauto|].
    rewrite (apply_impl_some _ _ _ E2). destruct (apply_impl_none _ _ E1) as [e He]. rewrite He.
    destruct (apply_impl_none (set_funcs (set_impls t l2) (bind_all (method_binds d2) (funcs t))) d1) as [e' He'].
    { cbn [set_funcs set_impls impls]. exact E21. }
    rewrite He'. exact Logic.I.
  - destruct (apply_impl_none _ _ E1) as [e1 He1]. destruct (apply_impl_none _ _ E2) as [e2 He2].
    rewrite He1, He2. exact Logic.I.
Qed.

Lemma comm_two : forall o1 o2 t, indep o1 o2 -> req (run_ops [o1; o2] t) (run_ops [o2; o1] t).
Proof.
  intros o1 o2 t I.
  destruct o1 as [| | | | | | | |d1| | |e1] eqn:E1;
    try (destruct o2 as [| | | | | | | |d2| | |e2] eqn:E2;
         [ .. | apply req_sym, comm_fail ];
         try (apply comm_simple_simple; simpl; auto; fail);
         apply req_sym, comm_impl_simple; [simpl; auto|apply indep_sym; assumption]).
  - destruct o2 as [| | | | | | | |d2| | |e2] eqn:E2;
      try (apply comm_impl_simple; simpl; auto; fail).
    + now apply comm_impl_impl.
    + apply req_sym, comm_fail.
  - apply comm_fail.
Qed.

(* ---------- lifting to lists of steps *)
(* two steps are compatible if they are the very same step (the same impl block reaching the
   interpreter through two importers of a common module - a diamond) or touch different names *)
Definition compat (o1 o2 : op) : Prop := o1 = o2 \/ indep o1 o2.

Lemma comm_compat : forall o1 o2 t, compat o1 o2 -> req (run_ops [o1; o2] t) (run_ops [o2; o1] t).
Proof. intros o1 o2 t [->|H]; [apply req_refl|now apply comm_two]. Qed.

Lemma run_cons : forall o ops t,
  run_ops (o :: ops) t = match apply_op t o with Ok t' => run_ops ops t' | Err e => Err e end.
Proof. reflexivity. Qed.

Lemma swap_adjacent : forall o1 o2 rest t, compat o1 o2 ->
  req (run_ops (o1 :: o2 :: rest) t) (run_ops (o2 :: o1 :: rest) t).
Proof.
  intros. change (o1 :: o2 :: rest) with ([o1; o2] ++ rest). change (o2 :: o1 :: rest) with ([o2; o1] ++ rest).
  rewrite !run_ops_app. apply req_run_congr. now apply comm_compat.
Qed.

Lemma req_cons : forall o a b,
  (forall t, req (run_ops a t) (run_ops b t)) -> forall t, req (run_ops (o :: a) t) (run_ops (o :: b) t).
Proof. intros. simpl. destruct (apply_op t o); [apply H|exact Logic.I]. Qed.

Lemma move_one : forall o ops2 rest, (forall o2, In o2 ops2 -> compat o o2) ->
  forall t, req (run_ops (o :: ops2 ++ rest) t) (run_ops (ops2 ++ o :: rest) t).
Proof.
  induction ops2 as [|o2 ops2 IH]; intros rest H t; simpl app.
  - apply req_refl.
  - eapply req_trans; [apply swap_adjacent; apply H; now left|].
    apply req_cons. intros. apply IH. intros. apply H. now right.
Qed.

Lemma swap_blocks : forall ops1 ops2 rest,
  (forall o1 o2, In o1 ops1 -> In o2 ops2 -> compat o1 o2) ->
  forall t, req (run_ops (ops1 ++ ops2 ++ rest) t) (run_ops (ops2 ++ ops1 ++ rest) t).
Proof.
  induction ops1 as [|o ops1 IH]; intros ops2 rest H t; simpl app.
  - apply req_refl.
  - eapply req_trans.
    + apply req_cons. intros. apply IH. intros. apply H; auto. now right.
    + apply move_one. intros. apply H; auto. now left.
Qed.

(* ---------- import lists *)
Definition footprint (fuel : nat) (fs : fsys) (p : name) : list (ftag * name) :=
  flat_map foot (path_ops fuel fs p).
(* modules that bind disjoint names (impl blocks: for different structs; constructors: for different
   (struct, arity)) *)
Definition independent (fuel : nat) (fs : fsys) (l : list name) : Prop :=
  forall p q, In p l -> In q l -> p <> q ->
  forall x, In x (footprint fuel fs p) -> ~ In x (footprint fuel fs q).
(* weaker: any two registration steps of two different modules are identical or touch different names *)
Definition compatible (fuel : nat) (fs : fsys) (l : list name) : Prop :=
  forall p q, In p l -> In q l -> p <> q ->
  forall o1 o2, In o1 (path_ops fuel fs p) -> In o2 (path_ops fuel fs q) -> compat o1 o2.

Lemma independent_compatible : forall fuel fs l, independent fuel fs l -> compatible fuel fs l.
Proof.
  intros fuel fs l H p q Hp Hq Hne o1 o2 H1 H2. right. intros x Hx1 Hx2.
  apply (H p q Hp Hq Hne x); unfold footprint; apply in_flat_map; eauto.
Qed.

Lemma load_is_run : forall fuel fs l t, NoDup l -> (forall p, In p l -> mem p (loaded t) = false) ->
  load fuel fs l t = run_ops (flat_map (path_ops fuel fs) l) t.
Proof.
  induction l as [|p l IH]; intros t N U; simpl; [reflexivity|].
  unfold handle_import. rewrite (U p) by now left. rewrite run_ops_app.
  destruct (run_ops (path_ops fuel fs p) t) as [t'|e] eqn:E; [|reflexivity].
  inversion N; subst. apply IH; [assumption|]. intros q Hq.
  rewrite (path_ops_loaded _ _ _ _ _ E). simpl. rewrite (U q) by now right.
  destruct (String.eqb_spec q p); [subst; tauto|reflexivity].
Qed.

Lemma perm_blocks : forall fuel fs l1 l2, Permutation l1 l2 -> NoDup l1 -> compatible fuel fs l1 ->
  forall rest t, req (run_ops (flat_map (path_ops fuel fs) l1 ++ rest) t)
                     (run_ops (flat_map (path_ops fuel fs) l2 ++ rest) t).
Proof.
  intros fuel fs l1 l2 P. induction P; intros N I rest t.
  - apply req_refl.
  - simpl. rewrite <- !app_assoc. rewrite !run_ops_app.
    destruct (run_ops (path_ops fuel fs x) t); [|exact Logic.I].
    apply IHP; [now inversion N|]. intros p q Hp Hq. apply I; now right.
  - simpl. rewrite <- !app_assoc. apply swap_blocks.
    inversion N as [|? ? N1 N2]; subst. inversion N2; subst.
    apply I; simpl; auto. intro; subst. apply N1. now left.
  - eapply req_trans; [apply IHP1; assumption|]. apply IHP2.
    + eapply Permutation_NoDup; eauto.
    + intros p q Hp Hq. apply I; (eapply Permutation_in; [apply Permutation_sym; exact P1|assumption]).
Qed.

Lemma import_order_compatible_l : forall fuel fs l1 l2 t,
  Permutation l1 l2 -> NoDup l1 -> (forall p, In p l1 -> mem p (loaded t) = false) ->
  compatible fuel fs l1 ->
  req (load fuel fs l1 t) (load fuel fs l2 t).
Proof.
  intros fuel fs l1 l2 t P N U I.
  rewrite (load_is_run fuel fs l1 t N U).
  rewrite (load_is_run fuel fs l2 t).
  - pose proof (perm_blocks fuel fs l1 l2 P N I [] t) as H. now rewrite !app_nil_r in H.
  - eapply Permutation_NoDup; eauto.
  - intros p Hp. apply U. eapply Permutation_in; [apply Permutation_sym; exact P|assumption].
Qed.

Lemma import_order_independent_l : forall fuel fs l1 l2 t,
  Permutation l1 l2 -> NoDup l1 -> (forall p, In p l1 -> mem p (loaded t) = false) ->
  independent fuel fs l1 ->
  req (load fuel fs l1 t) (load fuel fs l2 t).
Proof. intros. apply import_order_compatible_l; auto using independent_compatible. Qed.

Lemma equal_tables_answer_alike_l : forall a b, teq a b ->
  (forall g k, tlookup g k a = tlookup g k b) /\
  (forall s n, find_ctor s n (ctors a) = find_ctor s n (ctors b)) /\
  (forall i s, has_impl i s (impls a) = has_impl i s (impls b)) /\
  (forall s, impls_of s (impls a) = impls_of s (impls b)) /\
  (forall p, mem p (loaded a) = mem p (loaded b)).
Proof.
  intros a b H. repeat split.
  - exact (teq_tlookup a b H).
  - exact (teq_find_ctor a b H).
  - exact (teq_has_impl a b H).
  - exact (teq_impls a b H).
  - exact (teq_loaded a b H).
Qed.

(* ---------- a decidable sufficient check of [compatible], for concrete file systems *)
Definition option_eq_dec {A} (d : forall a b : A, {a = b} + {a <> b}) : forall a b : option A, {a = b} + {a <> b}.
Proof. decide equality. Defined.
Definition prod_eq_dec {A B} (da : forall a b : A, {a = b} + {a <> b}) (db : forall a b : B, {a = b} + {a <> b})
  : forall a b : A * B, {a = b} + {a <> b}.
Proof. decide equality. Defined.
Definition member_eq_dec : forall a b : member, {a = b} + {a <> b}.
Proof. decide equality; [apply (option_eq_dec Nat.eq_dec)|apply string_dec]. Defined.
Definition sdef_eq_dec : forall a b : sdef, {a = b} + {a <> b}.
Proof. decide equality; [apply (list_eq_dec member_eq_dec)|apply bool_dec]. Defined.
Definition impl_eq_dec : forall a b : impl_def, {a = b} + {a <> b}.
Proof.
  decide equality; try apply string_dec.
  - apply (list_eq_dec string_dec).
  - apply (option_eq_dec Nat.eq_dec).
  - apply (list_eq_dec (prod_eq_dec Nat.eq_dec Nat.eq_dec)).
  - apply (list_eq_dec (prod_eq_dec string_dec Nat.eq_dec)).
Defined.
Definition error_eq_dec : forall a b : error, {a = b} + {a <> b}.
Proof. decide equality; apply string_dec. Defined.
Definition op_eq_dec : forall a b : op, {a = b} + {a <> b}.
Proof.
  decide equality; try apply string_dec; try apply Nat.eq_dec; try apply bool_dec.
  - apply sdef_eq_dec.
  - apply (list_eq_dec string_dec).
  - apply (option_eq_dec Nat.eq_dec).
  - apply (list_eq_dec (prod_eq_dec string_dec Nat.eq_dec)).
  - apply impl_eq_dec.
  - apply error_eq_dec.
Defined.
Definition ftag_eq_dec : forall a b : ftag, {a = b} + {a <> b}.
Proof. decide equality; [apply tag_eq_dec|apply Nat.eq_dec]. Defined.
Definition fk_eq_dec : forall a b : ftag * name, {a = b} + {a <> b} := prod_eq_dec ftag_eq_dec string_dec.

Definition disjointb (a b : list (ftag * name)) : bool :=
  forallb (fun x => if in_dec fk_eq_dec x b then false else true) a.
Definition compatb (o1 o2 : op) : bool :=
  if op_eq_dec o1 o2 then true else disjointb (foot o1) (foot o2).
Definition compatibleb (fuel : nat) (fs : fsys) (l : list name) : bool :=
  forallb (fun p => forallb (fun q =>
     String.eqb p q || forallb (fun o1 => forallb (compatb o1) (path_ops fuel fs q)) (path_ops fuel fs p)) l) l.

Lemma compatb_sound : forall o1 o2, compatb o1 o2 = true -> compat o1 o2.
Proof.
  intros o1 o2 H. unfold compatb in H. destruct (op_eq_dec o1 o2); [now left|right].
  intros x H1 H2. unfold disjointb in H. rewrite forallb_forall in H. specialize (H x H1).
  destruct (in_dec fk_eq_dec x (foot o2)); [discriminate|contradiction].
Qed.

Lemma compatibleb_sound : forall fuel fs l, compatibleb fuel fs l = true -> compatible fuel fs l.
Proof.
  intros fuel fs l H p q Hp Hq Hne o1 o2 H1 H2. unfold compatibleb in H.
  rewrite forallb_forall in H. specialize (H p Hp). rewrite forallb_forall in H. specialize (H q Hq).
  apply orb_true_iff in H. destruct H as [H|H]; [apply String.eqb_eq in H; contradiction|].
  rewrite forallb_forall in H. specialize (H o1 H1). rewrite forallb_forall in H. apply compatb_sound. auto.
Qed.
