(* C18 - order independence for modules whose initialisers READ what the modules they import export
   (chains, diamonds with initialisers).  The blocks of such modules do not commute, so the normal
   form of Order.v (blocks in marking order) is of no use; here a successful load is shown to equal
   the blocks of the newly loaded modules in COMPLETION order, completion orders never put a module
   before one it imports, and two such orders of the same modules are connected by swaps of blocks
   that do commute. *)
From Coq Require Import List String Ascii Bool Arith Lia Permutation.
Import ListNotations.
From Cb Require Import C18.Model C18.Import C18.Init C18.Order.
Local Open Scope string_scope.
Local Open Scope list_scope.

(* ---------- "a stands before b" *)
Definition before (a b : name) (l : list name) : Prop := exists l1 l2, l = l1 ++ a :: l2 /\ In b l2.

Lemma before_in : forall a b l, before a b l -> In a l /\ In b l.
Proof.
  intros a b l [l1 [l2 [-> H]]]. split; apply in_app_iff; right; [now left|now right].
Qed.
Lemma before_app_l : forall a b l1 l2, before a b l1 -> before a b (l1 ++ l2).
Proof.
  intros a b l1 l2 [x [y [-> H]]]. exists x, (y ++ l2). split.
  - now rewrite <- app_assoc.
  - apply in_app_iff. now left.
Qed.
Lemma before_app_r : forall a b l1 l2, before a b l2 -> before a b (l1 ++ l2).
Proof. intros a b l1 l2 [x [y [-> H]]]. exists (l1 ++ x), y. split; [now rewrite <- app_assoc|assumption]. Qed.
Lemma before_cross : forall a b l1 l2, In a l1 -> In b l2 -> before a b (l1 ++ l2).
Proof.
  intros a b l1 l2 Ha Hb. apply in_split in Ha. destruct Ha as [x [y ->]].
  exists x, (y ++ l2). split; [now rewrite <- app_assoc|]. apply in_app_iff. now right.
Qed.
Lemma before_app_inv : forall a b l1 l2, before a b (l1 ++ l2) ->
  before a b l1 \/ before a b l2 \/ (In a l1 /\ In b l2).
Proof.
  intros a b l1. induction l1 as [|c l1 IH]; intros l2 H.
  - right. left. exact H.
  - destruct H as [x [y [E Hb]]]. destruct x as [|c' x]; simpl in E.
    + injection E as <- <-. apply in_app_iff in Hb. destruct Hb as [Hb|Hb].
      * left. exists [], l1. split; auto.
      * right. right. split; [now left|assumption].
    + injection E as <- E.
      destruct (IH l2) as [H|[H|[H1 H2]]].
      * exists x, y. auto.
      * left. destruct H as [u [v [-> Hv]]]. exists (c :: u), v. auto.
      * right. left. exact H.
      * right. right. split; [now right|assumption].
Qed.
Lemma before_insert : forall a b q A B, before a b (A ++ B) -> before a b (A ++ q :: B).
Proof.
  intros a b q A B H. destruct (before_app_inv _ _ _ _ H) as [H1|[H1|[H1 H2]]].
  - now apply before_app_l.
  - apply before_app_r. destruct H1 as [u [v [-> Hv]]]. exists (q :: u), v. auto.
  - apply before_cross; [assumption|now right].
Qed.

Section Layers.
Variable pf : nat.
Variable fs : fsys.

Definition bcompat (a b : name) : Prop :=
  forall o1 o2, In o1 (block pf fs a) -> In o2 (block pf fs b) -> compat o1 o2.

(* ---------- two orders of the same blocks that differ only in pairs whose blocks commute *)
Lemma blocks_app : forall l1 l2, blocks pf fs (l1 ++ l2) = blocks pf fs l1 ++ blocks pf fs l2.
Proof. intros. unfold blocks. apply flat_map_app. Qed.

Lemma reorder : forall C2 C1, NoDup C1 -> NoDup C2 -> (forall x, In x C1 <-> In x C2) ->
  (forall a b, before a b C1 -> before b a C2 -> bcompat a b) ->
  forall rest t, req (run_ops (blocks pf fs C1 ++ rest) t) (run_ops (blocks pf fs C2 ++ rest) t).
Proof.
  induction C2 as [|q C2 IH]; intros C1 N1 N2 S I rest t.
  - destruct C1 as [|c C1]; [apply req_refl|]. exfalso. apply (proj1 (S c)). now left.
  - assert (Hq : In q C1) by (apply S; now left).
    apply in_split in Hq. destruct Hq as [A [B ->]].
    inversion N2 as [|? ? Nq N2']; subst.
    pose proof (NoDup_remove_1 _ _ _ N1) as N1'.
    pose proof (NoDup_remove_2 _ _ _ N1) as NqAB.
    rewrite blocks_app. change (q :: B) with ([q] ++ B). rewrite blocks_app.
    change (q :: C2) with ([q] ++ C2). rewrite (blocks_app [q] C2).
    assert (Eq1 : blocks pf fs [q] = block pf fs q) by (unfold blocks; simpl; apply app_nil_r).
    rewrite Eq1. rewrite <- !app_assoc.
    eapply req_trans.
    + (* the block of q moves to the front, past the blocks of A *)
      apply swap_blocks. intros o1 o2 H1 H2. apply in_blocks in H1. destruct H1 as [a [Ha Ho1]].
      apply (I a q); auto.
      * apply before_cross; [assumption|now left].
      * assert (Ha2 : In a (q :: C2)) by (apply S; apply in_app_iff; now left).
        destruct Ha2 as [<-|Ha2].
        -- exfalso. apply NqAB. apply in_app_iff. now left.
        -- exists [], C2. split; auto.
    + apply req_prefix. intros t0. rewrite app_assoc, <- blocks_app.
      apply IH; auto.
      * intros x. split; intros Hx.
        -- assert (Hx' : In x (q :: C2)).
           { apply S. apply in_app_iff in Hx. apply in_app_iff. destruct Hx; [now left|right; now right]. }
           destruct Hx' as [<-|Hx']; [contradiction|assumption].
        -- assert (Hx' : In x (A ++ q :: B)) by (apply S; now right).
           apply in_app_iff in Hx'. apply in_app_iff. destruct Hx' as [Hx'|[<-|Hx']]; auto. contradiction.
      * intros a b H1 H2. apply (I a b).
        -- now apply before_insert.
        -- destruct H2 as [u [v [-> Hv]]]. exists (q :: u), v. auto.
Qed.

(* ---------- files whose imports precede all declarations *)
Fixpoint decls_only (m : module) : bool :=
  match m with [] => true | SImport _ :: _ => false | SDecl _ _ :: r => decls_only r end.
Fixpoint imports_first (m : module) : bool :=
  match m with SImport _ :: r => imports_first r | l => decls_only l end.

Lemma decls_static : forall p t l t', stmts pf fs p t l t' -> decls_only l = true ->
  run_ops (flat_map (import_stmt_ops p) l) t = Ok t' /\ loaded t' = loaded t.
Proof.
  intros p t l t' H. induction H as [p t|p t q r ta t2 Hi Hs IH|p t e d r ta t2 Hr Hs IH]; intros D.
  - split; reflexivity.
  - discriminate.
  - simpl in D. destruct (IH D) as [E L]. split.
    + cbn [flat_map]. rewrite run_ops_app, Hr. exact E.
    + rewrite L. eapply run_stmt_ops_loaded; eauto.
Qed.

Definition imports_mod (a b : name) : Prop := exists m, resolve fs a = Some m /\ In (SImport b) m.
(* a completion order: no module stands before one it imports *)
Definition resp (C : list name) : Prop := forall a b, before a b C -> ~ imports_mod a b.

Definition newly (t t' : tables) (q : name) : Prop := mem q (loaded t) = false /\ mem q (loaded t') = true.

Variable U : list name.
(* the import graph is acyclic on U: a rank that every import statement of a U-module decreases *)
Variable rank : name -> nat.
Hypothesis Hrank : forall p m q, In p U -> resolve fs p = Some m -> In (SImport q) m -> rank q < rank p.
Hypothesis HUfirst : forall p m, In p U -> resolve fs p = Some m -> imports_first m = true.

Lemma loaded_indep : forall p o, compat (OLoaded p) o.
Proof. intros. right. repeat split; intros x H; simpl in H; try tauto; simpl; tauto. Qed.

Lemma resp_app : forall C1 C2, resp C1 -> resp C2 ->
  (forall a b, In a C1 -> In b C2 -> ~ imports_mod a b) -> resp (C1 ++ C2).
Proof.
  intros C1 C2 R1 R2 X a b H. destruct (before_app_inv _ _ _ _ H) as [H1|[H1|[H1 H2]]]; auto.
Qed.

Lemma nil_form : forall t t', loaded t' = loaded t ->
  NoDup (@nil name) /\ (forall q, In q [] <-> newly t t' q) /\ resp [].
Proof.
  intros t t' L. split; [constructor|]. split.
  - intros q. split; [intros []|]. intros [H1 H2]. rewrite L in H2. congruence.
  - intros a b [l1 [l2 [E _]]]. destruct l1; discriminate.
Qed.

(* a successful load = the blocks of the newly loaded modules in the order in which they were completed *)
Lemma completion_form :
  (forall t p t', imports pf fs t p t' -> (forall q, newly t t' q -> In q U) ->
     exists C, NoDup C /\ (forall q, In q C <-> newly t t' q) /\ resp C /\ (forall a, In a C -> rank a <= rank p) /\
       forall rest, req (run_ops rest t') (run_ops (blocks pf fs C ++ rest) t)) /\
  (forall p t l t', stmts pf fs p t l t' -> imports_first l = true -> (forall q, newly t t' q -> In q U) ->
     exists C, NoDup C /\ (forall q, In q C <-> newly t t' q) /\ resp C /\
       (forall a, In a C -> exists r, In (SImport r) l /\ rank a <= rank r) /\
       forall rest, req (run_ops rest t') (run_ops (blocks pf fs C ++ flat_map (import_stmt_ops p) l ++ rest) t)).
Proof.
  apply loader_ind.
  - (* already loaded *)
    intros t p M _. exists []. destruct (nil_form t t eq_refl) as [A [B C]].
    split; [exact A|split; [exact B|split; [exact C|split; [intros a []|]]]]. intros rest. apply req_refl.
  - (* a module is loaded *)
    intros t p m t2 t' M R Hst IH Hs HU.
    pose proof (run_sync_loaded _ _ _ Hs) as L'.
    assert (Hp2 : mem p (loaded t2) = true).
    { eapply stmts_mono; eauto. simpl. now rewrite String.eqb_refl. }
    assert (HpU : In p U). { apply HU. split; [exact M|now rewrite L']. }
    destruct IH as [C [ND [SC [RC [RK EQ]]]]].
    { now apply (HUfirst p m). }
    { intros q [Q1 Q2]. apply HU. split.
      - simpl in Q1. destruct (String.eqb q p); [discriminate|exact Q1].
      - now rewrite L'. }
    assert (HpC : ~ In p C).
    { intro Hin. apply SC in Hin. destruct Hin as [Q1 _]. simpl in Q1. now rewrite String.eqb_refl in Q1. }
    exists (C ++ [p]). split; [|split; [|split; [|split]]].
    + apply NoDup_app_intro_r; auto.
    + intros q. split.
      * intros Hq. apply in_app_iff in Hq. split.
        -- destruct Hq as [Hq|[<-|[]]]; [|exact M].
           apply SC in Hq. destruct Hq as [Q1 _]. simpl in Q1. destruct (String.eqb q p); [discriminate|exact Q1].
        -- rewrite L'. destruct Hq as [Hq|[<-|[]]]; [|exact Hp2]. apply SC in Hq. destruct Hq as [_ Q2]. exact Q2.
      * intros [Q1 Q2]. apply in_app_iff. destruct (String.eqb_spec q p) as [->|N]; [right; now left|left].
        apply SC. split.
        -- simpl. apply String.eqb_neq in N. now rewrite N.
        -- now rewrite <- L'.
    + (* no module loaded below p imports p: the import graph is acyclic *)
      apply resp_app; auto.
      * intros a b [l1 [l2 [E Hb]]]. destruct l1 as [|x l1]; [injection E as <- <-; destruct Hb|].
        injection E as _ E. destruct l1; discriminate.
      * intros a b Ha [<-|[]] [ma [Ra Hi]].
        destruct (RK a Ha) as [r [Hr Hle]]. pose proof (Hrank _ _ _ HpU R Hr).
        assert (HaU : In a U).
        { apply HU. apply SC in Ha. destruct Ha as [Q1 Q2]. split.
          - simpl in Q1. destruct (String.eqb a p); [discriminate|exact Q1].
          - now rewrite L'. }
        pose proof (Hrank _ _ _ HaU Ra Hi). lia.
    + intros a Ha. apply in_app_iff in Ha. destruct Ha as [Ha|[<-|[]]]; [|lia].
      destruct (RK a Ha) as [r [Hr Hle]]. pose proof (Hrank _ _ _ HpU R Hr). lia.
    + intros rest.
      assert (Hblock : block pf fs p = OLoaded p :: flat_map (import_stmt_ops p) m
                                       ++ flat_map sync_ops (parser_impls pf fs m)).
      { unfold block. now rewrite R. }
      assert (E1 : blocks pf fs [p] = block pf fs p) by (unfold blocks; simpl; apply app_nil_r).
      rewrite blocks_app, E1, Hblock. rewrite <- app_assoc.
      change ((OLoaded p :: flat_map (import_stmt_ops p) m ++ flat_map sync_ops (parser_impls pf fs m)) ++ rest)
        with (OLoaded p :: (flat_map (import_stmt_ops p) m ++ flat_map sync_ops (parser_impls pf fs m)) ++ rest).
      rewrite <- app_assoc.
      (* OLoaded p, executed first, moves behind the blocks of the modules loaded below p *)
      eapply req_trans; [|apply (move_one (OLoaded p) (blocks pf fs C)); intros; apply loaded_indep].
      rewrite run_cons. simpl apply_op. fold (mark_loaded p t).
      assert (E : run_ops rest t' = run_ops (flat_map sync_ops (parser_impls pf fs m) ++ rest) t2)
        by (now rewrite run_ops_app, Hs).
      rewrite E. apply EQ.
  - (* no statement *)
    intros p t _ _. exists []. destruct (nil_form t t eq_refl) as [A [B C]].
    split; [exact A|split; [exact B|split; [exact C|split; [intros a []|]]]]. intros rest. apply req_refl.
  - (* an import statement of the module *)
    intros p t q r ta t2 Hi IHi Hs IHs F HU. simpl in F.
    assert (Mi : forall x, mem x (loaded t) = true -> mem x (loaded ta) = true) by (intros x; eapply imports_mono; eauto).
    assert (Ms : forall x, mem x (loaded ta) = true -> mem x (loaded t2) = true) by (intros x; eapply stmts_mono; eauto).
    destruct IHi as [Ca [NDa [SCa [RCa [RKa EQa]]]]].
    { intros x [X1 X2]. apply HU. split; auto. }
    destruct (IHs F) as [Cr [NDr [SCr [RCr [RKr EQr]]]]].
    { intros x [X1 X2]. apply HU. split; auto.
      destruct (mem x (loaded t)) eqn:E; [|reflexivity]. rewrite (Mi _ E) in X1. discriminate. }
    exists (Ca ++ Cr). split; [|split; [|split; [|split]]].
    + apply NoDup_app_intro_disj; auto. intros x Ha Hr. apply SCa in Ha. apply SCr in Hr.
      destruct Ha as [_ A2]. destruct Hr as [R1 _]. congruence.
    + intros y. split.
      * intros Hx. apply in_app_iff in Hx. destruct Hx as [Hx|Hx].
        -- apply SCa in Hx. destruct Hx as [X1 X2]. split; auto.
        -- apply SCr in Hx. destruct Hx as [X1 X2]. split; auto.
           destruct (mem y (loaded t)) eqn:Ey; [|reflexivity]. rewrite (Mi _ Ey) in X1. discriminate.
      * intros [X1 X2]. apply in_app_iff. destruct (mem y (loaded ta)) eqn:Ey.
        -- left. apply SCa. split; auto.
        -- right. apply SCr. split; auto.
    + (* a module completed by the first import has all its imports loaded by then *)
      apply resp_app; auto. intros a b Ha Hb [ma [Ra Him]].
      apply SCa in Ha. destruct Ha as [A1 A2]. apply SCr in Hb. destruct Hb as [B1 _].
      destruct (proj1 (newly_loaded_complete pf fs) _ _ _ Hi a A1 A2) as [m' [R' [Cm _]]].
      rewrite Ra in R'. injection R' as <-. rewrite (Cm b Him) in B1. discriminate.
    + intros a Ha. apply in_app_iff in Ha. destruct Ha as [Ha|Ha].
      * exists q. split; [now left|auto].
      * destruct (RKr a Ha) as [r0 [Hr0 Hle]]. exists r0. split; [now right|assumption].
    + intros rest. cbn [flat_map import_stmt_ops]. simpl app.
      rewrite blocks_app, <- app_assoc. eapply req_trans; [apply EQr|apply EQa].
  - (* a declaration: no import follows (imports first), the rest is a fixed list of steps *)
    intros p t e d r ta t2 Hr Hs _ F HU. simpl in F.
    assert (Hall : stmts pf fs p t (SDecl e d :: r) t2) by (econstructor; eauto).
    destruct (decls_static _ _ _ _ Hall F) as [E L].
    exists []. destruct (nil_form t t2 L) as [A [B C]].
    split; [exact A|split; [exact B|split; [exact C|split; [intros a []|]]]].
    intros rest.
    replace (blocks pf fs [] ++ flat_map (import_stmt_ops p) (SDecl e d :: r) ++ rest)
      with (flat_map (import_stmt_ops p) (SDecl e d :: r) ++ rest) by reflexivity.
    rewrite run_ops_app, E. apply req_refl.
Qed.

(* the same for a sequence of imports *)
Lemma load_completion_form : forall fuel l t t',
  load fuel pf fs l t = Ok t' -> (forall q, newly t t' q -> In q U) ->
  exists C, NoDup C /\ (forall q, In q C <-> newly t t' q) /\ resp C /\
    forall rest, req (run_ops rest t') (run_ops (blocks pf fs C ++ rest) t).
Proof.
  intros fuel. induction l as [|a l IH]; intros t t' H HU; simpl in H.
  - injection H as <-. exists []. destruct (nil_form t t eq_refl) as [A [B C]].
    split; [exact A|split; [exact B|split; [exact C|]]]. intros rest. apply req_refl.
  - destruct (handle_import fuel pf fs t a) as [ta|] eqn:E; [|discriminate].
    pose proof (handle_import_sound _ _ _ _ _ _ E) as Hi.
    assert (Mi : forall x, mem x (loaded t) = true -> mem x (loaded ta) = true) by (intros x; eapply imports_mono; eauto).
    assert (Ml : forall x, mem x (loaded ta) = true -> mem x (loaded t') = true).
    { intros x Hx. eapply load_mono; eauto. }
    destruct (proj1 completion_form _ _ _ Hi) as [Ca [NDa [SCa [RCa [_ EQa]]]]].
    { intros x [X1 X2]. apply HU. split; auto. }
    destruct (IH _ _ H) as [Cr [NDr [SCr [RCr EQr]]]].
    { intros x [X1 X2]. apply HU. split; auto.
      destruct (mem x (loaded t)) eqn:Ex; [|reflexivity]. rewrite (Mi _ Ex) in X1. discriminate. }
    exists (Ca ++ Cr). split; [|split; [|split]].
    + apply NoDup_app_intro_disj; auto. intros x Ha Hr. apply SCa in Ha. apply SCr in Hr.
      destruct Ha as [_ A2]. destruct Hr as [R1 _]. congruence.
    + intros y. split.
      * intros Hx. apply in_app_iff in Hx. destruct Hx as [Hx|Hx].
        -- apply SCa in Hx. destruct Hx as [X1 X2]. split; auto.
        -- apply SCr in Hx. destruct Hx as [X1 X2]. split; auto.
           destruct (mem y (loaded t)) eqn:Ey; [|reflexivity]. rewrite (Mi _ Ey) in X1. discriminate.
      * intros [X1 X2]. apply in_app_iff. destruct (mem y (loaded ta)) eqn:Ey.
        -- left. apply SCa. split; auto.
        -- right. apply SCr. split; auto.
    + apply resp_app; auto. intros x b Ha Hb [ma [Ra Him]].
      apply SCa in Ha. destruct Ha as [A1 A2]. apply SCr in Hb. destruct Hb as [B1 _].
      destruct (proj1 (newly_loaded_complete pf fs) _ _ _ Hi x A1 A2) as [m' [R' [Cm _]]].
      rewrite Ra in R'. injection R' as <-. rewrite (Cm b Him) in B1. discriminate.
    + intros rest. rewrite blocks_app, <- app_assoc. eapply req_trans; [apply EQr|apply EQa].
Qed.

(* modules of U either commute step by step, or one of them imports the other *)
Definition layered : Prop :=
  forall p q, In p U -> In q U -> p <> q -> bcompat p q \/ imports_mod p q \/ imports_mod q p.

Lemma layered_order_independent : forall fuel l1 l2 t t1 t2,
  layered -> Permutation l1 l2 ->
  load fuel pf fs l1 t = Ok t1 -> load fuel pf fs l2 t = Ok t2 ->
  (forall q, mem q (loaded t1) = true -> mem q (loaded t) = true \/ In q U) ->
  teq t1 t2.
Proof.
  intros fuel l1 l2 t t1 t2 HL P H1 H2 HU.
  assert (HU1 : forall q, newly t t1 q -> In q U).
  { intros q [Q1 Q2]. destruct (HU q Q2) as [X|X]; [congruence|exact X]. }
  assert (HU2 : forall q, newly t t2 q -> In q U).
  { intros q [Q1 Q2]. apply HU1. split; auto.
    eapply load_same_modules; [apply Permutation_sym; exact P|exact H2|exact H1|exact Q2]. }
  destruct (load_completion_form _ _ _ _ H1 HU1) as [C1 [ND1 [S1 [R1 E1]]]].
  destruct (load_completion_form _ _ _ _ H2 HU2) as [C2 [ND2 [S2 [R2 E2]]]].
  pose proof (E1 []) as F1. pose proof (E2 []) as F2.
  change (run_ops [] t1) with (Ok t1) in F1. change (run_ops [] t2) with (Ok t2) in F2.
  assert (S12 : forall x, In x C1 <-> In x C2).
  { intros x. rewrite S1, S2. unfold newly. split; intros [X1 X2]; split; auto.
    - eapply load_same_modules; eauto.
    - eapply load_same_modules; [apply Permutation_sym; exact P|exact H2|exact H1|exact X2]. }
  assert (E : req (run_ops (blocks pf fs C1 ++ []) t) (run_ops (blocks pf fs C2 ++ []) t)).
  { apply reorder; auto. intros a b B1 B2.
    destruct (before_in _ _ _ B1) as [Ia Ib].
    assert (Hne : a <> b).
    { intro; subst b. destruct B1 as [u [v [-> Hv]]].
      apply NoDup_remove_2 in ND1. apply ND1. apply in_app_iff. now right. }
    destruct (HL a b) as [Hc|[Hi|Hi]]; auto.
    - apply HU1. now apply S1.
    - apply HU1. now apply S1.
    - exfalso. exact (R1 a b B1 Hi).
    - exfalso. exact (R2 b a B2 Hi). }
  exact (req_trans (Ok t1) _ (Ok t2) F1 (req_trans _ _ _ E (req_sym _ _ F2))).
Qed.

End Layers.

Lemma import_order_layered_l : forall pf fs U rank fuel l1 l2 t t1 t2,
  (forall p m q, In p U -> resolve fs p = Some m -> In (SImport q) m -> rank q < rank p) ->
  (forall p m, In p U -> resolve fs p = Some m -> imports_first m = true) ->
  layered pf fs U -> Permutation l1 l2 ->
  load fuel pf fs l1 t = Ok t1 -> load fuel pf fs l2 t = Ok t2 ->
  (forall q, mem q (loaded t1) = true -> mem q (loaded t) = true \/ In q U) ->
  teq t1 t2.
Proof. intros. eapply layered_order_independent; eauto. Qed.

(* ---------- decidable sufficient checks of the hypotheses, for concrete file systems *)
Definition imports_modb (fs : fsys) (a b : name) : bool :=
  match resolve fs a with
  | Some m => existsb (fun s => match s with SImport q => String.eqb q b | _ => false end) m
  | None => false
  end.
Definition bcompatb (pf : nat) (fs : fsys) (p q : name) : bool :=
  forallb (fun o1 => forallb (compatb o1) (block pf fs q)) (block pf fs p).
Definition layeredb (pf : nat) (fs : fsys) (U : list name) : bool :=
  forallb (fun p => forallb (fun q =>
     String.eqb p q || bcompatb pf fs p q || imports_modb fs p q || imports_modb fs q p) U) U.
Definition rank_okb (fs : fsys) (rank : name -> nat) (U : list name) : bool :=
  forallb (fun p => match resolve fs p with
                    | Some m => forallb (fun s => match s with SImport q => Nat.ltb (rank q) (rank p) | _ => true end) m
                    | None => true
                    end) U.
Definition imports_firstb (fs : fsys) (U : list name) : bool :=
  forallb (fun p => match resolve fs p with Some m => imports_first m | None => true end) U.

Lemma imports_modb_sound : forall fs a b, imports_modb fs a b = true -> imports_mod fs a b.
Proof.
  intros fs a b H. unfold imports_modb in H. destruct (resolve fs a) as [m|] eqn:R; [|discriminate].
  exists m. split; [exact R|]. apply existsb_exists in H. destruct H as [s [Hs E]].
  destruct s as [q|]; [|discriminate]. apply String.eqb_eq in E. now subst.
Qed.
Lemma layeredb_sound : forall pf fs U, layeredb pf fs U = true -> layered pf fs U.
Proof.
  intros pf fs U H p q Hp Hq Hne. unfold layeredb in H.
  rewrite forallb_forall in H. specialize (H p Hp). rewrite forallb_forall in H. specialize (H q Hq).
  rewrite !orb_true_iff in H. destruct H as [[[H|H]|H]|H].
  - apply String.eqb_eq in H. contradiction.
  - left. intros o1 o2 H1 H2. unfold bcompatb in H. rewrite forallb_forall in H. specialize (H o1 H1).
    rewrite forallb_forall in H. apply compatb_sound. auto.
  - right. left. now apply imports_modb_sound.
  - right. right. now apply imports_modb_sound.
Qed.
Lemma rank_okb_sound : forall fs rank U, rank_okb fs rank U = true ->
  forall p m q, In p U -> resolve fs p = Some m -> In (SImport q) m -> rank q < rank p.
Proof.
  intros fs rank U H p m q Hp R Hq. unfold rank_okb in H. rewrite forallb_forall in H. specialize (H p Hp).
  rewrite R in H. rewrite forallb_forall in H. specialize (H _ Hq). now apply Nat.ltb_lt in H.
Qed.
Lemma imports_firstb_sound : forall fs U, imports_firstb fs U = true ->
  forall p m, In p U -> resolve fs p = Some m -> imports_first m = true.
Proof.
  intros fs U H p m Hp R. unfold imports_firstb in H. rewrite forallb_forall in H. specialize (H p Hp).
  now rewrite R in H.
Qed.
