(* C18 - FRONT END of the module loader: how the private RecursiveParser turns the TEXT of a top-level
   item of a module file into the statement the loader sees (node kind + `is_exported` flag).

   Model.v takes a module as the list of statements "as the private parser hands them to the loader:
   declarations carry the export flag".  Which node kind an item becomes and whether the flag arrives on
   it is decided by the dispatch of

     StatementParser::parseStatement              src/frontend/recursive_parser/parsers/statement_parser.cpp:32
       parseDeclarationStatement                  :137   import / typedef / struct / enum / interface / impl
       parseTypedefTypeStatement                  :288   the type is written as an IDENTIFIER (typedef alias,
                                                         struct, interface, union, enum or a name the parser
                                                         does not know yet)
       parseBasicTypeStatement                    :1021  built-in type keyword, after an optional `unsigned`
         parseArrayDeclaration                    :1261  `int[3] a ...`
         parseVariableDeclarationList             :1506
     VariableDeclarationParser::parseVariableDeclaration   variable_declaration_parser.cpp:27

   and the flag is put on the node in THREE different places (one per branch): :160-220 inside
   parseDeclarationStatement, :93-100 after parseTypedefTypeStatement, :117-123 after parseBasicTypeStatement -
   the latter two only for AST_FUNC_DECL / AST_VAR_DECL nodes.  This file mirrors that dispatch on a surface
   syntax of items (kind x type spelling x modifiers x declarators).

   Definitions only; total, computable, extractable.  No proofs in this file. *)
From Coq Require Import List String Ascii Bool Arith.
Import ListNotations.
From Cb Require Import C18.Model.
Local Open Scope string_scope.
Local Open Scope list_scope.

(* ---------- how a type is spelled *)
Inductive basic := BInt | BLong | BShort | BTiny | BVoid | BBool | BString | BChar | BFloat | BDouble | BBig | BQuad.
Inductive head :=
| HBasic (b : basic)                                 (* TOK_INT ... TOK_QUAD *)
| HUnsigned (b : basic)                              (* `unsigned` + keyword: consumed between the two branches (:106) *)
| HName (n : name) (targs : list name).              (* an identifier, optionally with type arguments: Millis, Box<int> *)
Record spell := mkSpell {
  sp_head : head;
  sp_ptr : nat;                                      (* number of `*` after the type *)
  sp_ref : bool;                                     (* `&` *)
  sp_dims : list (option nat)                        (* `[3]` / `[]` after the type: int[3] a *)
}.

(* one declarator of a variable declaration: `x`, `x[3]`, `x = e` *)
Record declarator := mkD { d_name : name; d_dims : list (option nat); d_init : option expr }.

Inductive item :=
| IImport (p : name)
| IFunc (is_async is_const : bool) (ret : spell) (n : name) (tparams : list name) (params : list spell) (body : nat)
| IVar (is_static is_const : bool) (ty : spell) (d : declarator) (more : list declarator)   (* `T a [, b ...];` *)
| ITypedef (n : name) (target : name)
| IStruct (n : name) (d : sdef)
| IEnum (n : name) (members : list (name * nat))
| IInterface (n : name) (methods : list name)
| IImpl (d : impl_def).

(* an item as written: `[export [default]] item` *)
Record witem := mkW { w_export : bool; w_default : bool; w_item : item }.
Definition smodule := list witem.
Definition sfsys := list (name * smodule).

(* ---------- the parser's type tables when the item is reached *)
Record penv := mkEnv {
  pe_typedefs : list name;                           (* typedef_map_ *)
  pe_structs : list name;                            (* struct_definitions_ *)
  pe_ifaces : list name;                             (* interface_definitions_ *)
  pe_unions : list name;                             (* union_definitions_ *)
  pe_enums : list name                               (* enum_definitions_ *)
}.
Definition empty_env : penv := mkEnv [] [] [] [] [].

(* ---------- AST node kinds that a top-level item can become *)
Inductive nkind := NImport | NFunc | NVar | NArray | NMulti | NTypedef | NStruct | NEnum | NInterface | NImpl
                   | NNone.                          (* nullptr: not recognised by this branch *)

Definition head_name (ty : spell) : option name :=
  match sp_head ty with HName n _ => Some n | _ => None end.
Definition has_targs (ty : spell) : bool :=
  match sp_head ty with HName _ (_ :: _) => true | _ => false end.
Definition nonempty {A} (l : list A) : bool := match l with [] => false | _ => true end.

(* parseTypedefTypeStatement :318-366: the name is not a known type; look ahead for
   `Name [*&]* identifier [<...>] ( ; | = | "(" )` and then assume a struct type *)
Definition looks_like_decl (it : item) : bool :=
  match it with
  | IFunc _ _ ret _ _ _ _ => negb (has_targs ret) && negb (nonempty (sp_dims ret))
  | IVar _ _ ty d more =>
      negb (has_targs ty) && negb (nonempty (sp_dims ty)) && negb (nonempty (d_dims d)) && negb (nonempty more)
  | _ => false
  end.

(* which sub-branch of parseTypedefTypeStatement handles a variable declaration (:664-1017) *)
Inductive vbranch := VStruct | VIface | VEnum | VOther.
Definition var_branch (env : penv) (n : name) (looks : bool) : option vbranch :=
  let is_typedef := mem n (pe_typedefs env) in
  let is_struct := mem n (pe_structs env) in
  let is_iface := mem n (pe_ifaces env) in
  let is_union := mem n (pe_unions env) in
  let is_enum := mem n (pe_enums env) in
  let known := is_typedef || is_struct || is_iface || is_union || is_enum in
  if negb known && negb looks then None              (* :368-371 `return nullptr; // not a type` *)
  else if is_struct || (negb known && looks) then Some VStruct     (* :359 is_struct_type = true *)
  else if is_iface then Some VIface
  else if is_enum then Some VEnum
  else Some VOther.

(* node kind of `T a [, b ...];` per sub-branch *)
Definition var_node (vb : vbranch) (more : list declarator) : nkind :=
  match vb, more with
  | VIface, [] => NVar                               (* :704 one variable only *)
  | VIface, _ => NNone                               (* :738 consume(';') fails: parse error *)
  | _, [] => NVar                                    (* parseVariableDeclaration :242 / enum branch :883 *)
  | _, _ => NMulti                                   (* AST_MULTIPLE_VAR_DECL :285 / :940 *)
  end.

(* is_const of the resulting AST_VAR_DECL node *)
Definition node_const_name (vb : vbranch) (is_const : bool) (ty : spell) : bool :=
  match vb with
  | VIface => false                                  (* :704-741 never sets is_const *)
  | VEnum => is_const                                (* :886 *)
  | _ => is_const && negb (Nat.ltb 0 (sp_ptr ty) && negb (sp_ref ty))   (* applyDeclarationModifiers :1645-1650 *)
  end.
Definition node_const_basic (is_const : bool) (ty : spell) : bool :=
  is_const && Nat.eqb (sp_ptr ty) 0.                 (* parseVariableDeclarationList :1564-1569 *)

(* ---------- the three branches of parseStatement: (node kind, is_const of a variable node) *)
Definition decl_branch (it : item) : nkind :=        (* parseDeclarationStatement *)
  match it with
  | IImport _ => NImport
  | ITypedef _ _ => NTypedef
  | IStruct _ _ => NStruct
  | IEnum _ _ => NEnum
  | IInterface _ _ => NInterface
  | IImpl _ => NImpl
  | _ => NNone
  end.

Definition name_branch (env : penv) (it : item) : nkind * bool :=   (* parseTypedefTypeStatement *)
  match it with
  | IFunc _ _ ret _ _ _ _ =>
      match head_name ret with
      | None => (NNone, false)
      | Some n => match var_branch env n (looks_like_decl it) with
                  | None => (NNone, false)
                  | Some _ => (NFunc, false)         (* :524 is_function: `name (` followed by `)`, a type or `{` *)
                  end
      end
  | IVar _ c ty d more =>
      match head_name ty with
      | None => (NNone, false)
      | Some n => match var_branch env n (looks_like_decl it) with
                  | None => (NNone, false)
                  | Some vb => (var_node vb more, node_const_name vb c ty)
                  end
      end
  | _ => (NNone, false)
  end.

Definition is_basic_head (ty : spell) : bool :=
  match sp_head ty with HBasic _ | HUnsigned _ => true | HName _ _ => false end.

Definition basic_branch (it : item) : nkind * bool :=               (* parseBasicTypeStatement *)
  match it with
  | IFunc _ _ ret _ _ _ _ => if is_basic_head ret then (NFunc, false) else (NNone, false)   (* :1226 / :1308 *)
  | IVar _ c ty d more =>
      if negb (is_basic_head ty) then (NNone, false)
      else if nonempty (sp_dims ty) then (NArray, false)            (* :1128 parseArrayDeclaration -> AST_ARRAY_DECL *)
      else match more with
           | [] => (NVar, node_const_basic c ty)                    (* :1541 *)
           | _ => (NMulti, false)                                   (* :1578 *)
           end
  | _ => (NNone, false)
  end.

(* ---------- the statement the loader sees *)
Definition to_stmt (flag : bool) (k : nkind) (vconst : bool) (it : item) : stmt :=
  match k, it with
  | NImport, IImport p => SImport p
  | NFunc, IFunc _ _ _ n _ _ body => SDecl flag (DFunc n body)
  | NVar, IVar _ _ _ d _ => SDecl flag (DVar (d_name d) vconst (d_init d))
  | NArray, IVar _ _ _ d _ => SDecl flag (DOther (d_name d))
  | NMulti, IVar _ _ _ _ _ => SDecl flag (DOther "")                (* the node has no name; the variables are its children *)
  | NTypedef, ITypedef n x => SDecl flag (DTypedef n x)
  | NStruct, IStruct n d => SDecl flag (DStruct n d)
  | NEnum, IEnum n ms => SDecl flag (DEnum n ms)
  | NInterface, IInterface n ms => SDecl flag (DInterface n ms)
  | NImpl, IImpl d => SDecl flag (DImpl d)
  | _, _ => SDecl false (DOther "")                                 (* expression statement / parse error: never exported *)
  end.

Definition flaggable (k : nkind) : bool := match k with NFunc | NVar => true | _ => false end.

(* StatementParser::parseStatement: `export` (and `default`) are consumed first; then the branches in this order *)
Definition parse_item (env : penv) (w : witem) : stmt :=
  let e := w_export w in
  let it := w_item w in
  match decl_branch it with
  | NNone =>
      match name_branch env it with
      | (NNone, _) =>
          match basic_branch it with
          | (NNone, _) => to_stmt false NNone false it
          | (k, c) => to_stmt (e && flaggable k) k c it             (* :117-123 *)
          end
      | (k, c) => to_stmt (e && flaggable k) k c it                 (* :93-100 *)
      end
  | NImport => to_stmt false NImport false it                       (* :141 an import statement is never exported *)
  | k => to_stmt e k false it                                       (* :175-220 *)
  end.

(* what parsing the item adds to the parser's own tables *)
Definition extend_env (env : penv) (it : item) : penv :=
  match it with
  | ITypedef n _ => mkEnv (n :: pe_typedefs env) (pe_structs env) (pe_ifaces env) (pe_unions env) (pe_enums env)
  | IStruct n _ => mkEnv (pe_typedefs env) (n :: pe_structs env) (pe_ifaces env) (pe_unions env) (pe_enums env)
  | IInterface n _ => mkEnv (pe_typedefs env) (pe_structs env) (n :: pe_ifaces env) (pe_unions env) (pe_enums env)
  | IEnum n _ => mkEnv (pe_typedefs env) (pe_structs env) (pe_ifaces env) (pe_unions env) (n :: pe_enums env)
  | _ => env
  end.

(* RecursiveParser::processImport (parse-time import, recursive_parser.cpp:2309-2397): the struct / enum / interface
   definitions of the imported file for which SOME exported statement of that file carries the same name (the test
   is by name only) are copied into the importing parser; typedefs are not.  [imp] abstracts it: the names an
   `import p;` adds. *)
Definition add_env (a b : penv) : penv :=
  mkEnv (pe_typedefs a ++ pe_typedefs b) (pe_structs a ++ pe_structs b) (pe_ifaces a ++ pe_ifaces b)
        (pe_unions a ++ pe_unions b) (pe_enums a ++ pe_enums b).

Fixpoint parse_module (imp : name -> penv) (env : penv) (sm : smodule) : module :=
  match sm with
  | [] => []
  | w :: r =>
      let env' := match w_item w with
                  | IImport p => add_env (imp p) env
                  | it => extend_env env it
                  end in
      parse_item env w :: parse_module imp env' r
  end.

(* the environment in which the k-th item of a file is parsed *)
Fixpoint env_at (imp : name -> penv) (env : penv) (sm : smodule) (k : nat) : penv :=
  match k, sm with
  | 0, _ => env
  | S k', [] => env
  | S k', w :: r =>
      env_at imp (match w_item w with
                  | IImport p => add_env (imp p) env
                  | it => extend_env env it
                  end) r k'
  end.

(* exported names of a surface file, by kind: what processImport hands over *)
Definition exported_name (sm : smodule) (n : name) : bool :=
  existsb (fun w => w_export w &&
                    match w_item w with
                    | IFunc _ _ _ m _ _ _ => String.eqb m n
                    | IVar _ _ _ d [] => String.eqb (d_name d) n
                    | ITypedef m _ | IStruct m _ | IEnum m _ | IInterface m _ => String.eqb m n
                    | _ => false
                    end) sm.
Definition file_env (sm : smodule) : penv :=
  let own := fold_left (fun env w => extend_env env (w_item w)) sm empty_env in
  mkEnv [] (filter (exported_name sm) (pe_structs own)) (filter (exported_name sm) (pe_ifaces own)) []
        (filter (exported_name sm) (pe_enums own)).

(* the surface file system seen through the run-time path resolution of Model.v *)
Definition sresolve (sfs : sfsys) (module_path : name) : option smodule :=
  (fix first (paths : list name) : option smodule :=
     match paths with
     | [] => None
     | p :: r => match lookup p sfs with Some m => Some m | None => first r end
     end) (search_paths (file_path_of module_path)).

Definition import_env (sfs : sfsys) (p : name) : penv :=
  match sresolve sfs p with Some sm => file_env sm | None => empty_env end.

Definition parse_file (sfs : sfsys) (sm : smodule) : module := parse_module (import_env sfs) empty_env sm.
Definition parse_fs (sfs : sfsys) : fsys := map (fun pm => (fst pm, parse_file sfs (snd pm))) sfs.

(* ---------- the items whose export the loader can honour: every kind, every type spelling, except the two
   node kinds that never receive the flag (finding C18-exported-array-not-imported, C18-multi-declaration-export-dropped) *)
Definition plain_item (it : item) : bool :=
  match it with
  | IImport _ => false
  | IVar _ _ ty _ more => negb (nonempty more) && negb (is_basic_head ty && nonempty (sp_dims ty))
  | _ => true
  end.

(* the item reaches one of the branches: a built-in head, a name the parser knows, or the simple declarator shape *)
Definition dispatchable (env : penv) (it : item) : bool :=
  match it with
  | IFunc _ _ ty _ _ _ _ | IVar _ _ ty _ _ =>
      match sp_head ty with
      | HName n _ => match var_branch env n (looks_like_decl it) with Some _ => true | None => false end
      | _ => true
      end
  | _ => true
  end.

(* kind agreement between what was written and what the loader sees (names, body / initialiser / definition kept;
   only the constness of a variable node depends on the branch) *)
Definition same_decl (it : item) (d : decl) : Prop :=
  match it, d with
  | IFunc _ _ _ n _ _ body, DFunc n' b' => n = n' /\ body = b'
  | IVar _ _ _ dc [], DVar n' _ i' => d_name dc = n' /\ d_init dc = i'
  | ITypedef n x, DTypedef n' x' => n = n' /\ x = x'
  | IStruct n sd, DStruct n' sd' => n = n' /\ sd = sd'
  | IEnum n ms, DEnum n' ms' => n = n' /\ ms = ms'
  | IInterface n ms, DInterface n' ms' => n = n' /\ ms = ms'
  | IImpl i, DImpl i' => i = i'
  | _, _ => False
  end.
