(* C18 - proofs about the front end (Front.v) and its composition with the loader (Model.v / Import.v):
   the `export` keyword arrives on the loader's statement for every kind of item and every spelling of its type,
   nothing is exported without the keyword, and therefore the visibility theorems of Import.v hold about module
   files AS WRITTEN. *)
From Coq Require Import List String Ascii Bool Arith.
Import ListNotations.
From Cb Require Import C18.Model C18.Import C18.Front.
Local Open Scope string_scope.
Local Open Scope list_scope.

(* ---------- one item *)

(* the flag is never invented: a statement that reaches the loader as exported was written with `export`,
   and it is the very item (same name, same body / initialiser / definition) *)
Lemma parse_item_exported : forall env w d,
  parse_item env w = SDecl true d -> w_export w = true /\ same_decl (w_item w) d.
Proof.
  intros env [e df it] d. unfold parse_item; cbn [w_export w_item].
  destruct it as [p|a c ret n tp ps body|st c ty dc more|n x|n sd|n ms|n ms|i]; cbn [decl_branch].
  - cbn. discriminate.
  - (* function *)
    cbn [name_branch basic_branch].
    destruct (head_name ret) as [hn|].
    + destruct (var_branch env hn _) as [vb|].
      * cbn. rewrite andb_true_r. intros H. injection H as -> <-. cbn. auto.
      * destruct (is_basic_head ret); cbn.
        -- rewrite andb_true_r. intros H. injection H as -> <-. cbn. auto.
        -- discriminate.
    + destruct (is_basic_head ret); cbn.
      * rewrite andb_true_r. intros H. injection H as -> <-. cbn. auto.
      * discriminate.
  - (* variable *)
    cbn [name_branch basic_branch]. unfold head_name, is_basic_head.
    destruct (sp_head ty) as [b|b|hn ta]; cbn [negb].
    + destruct (nonempty (sp_dims ty)); [cbn; rewrite andb_false_r; discriminate|].
      destruct more; cbn; rewrite ?andb_true_r, ?andb_false_r; try discriminate.
      intros H; injection H as -> <-; cbn; auto.
    + destruct (nonempty (sp_dims ty)); [cbn; rewrite andb_false_r; discriminate|].
      destruct more; cbn; rewrite ?andb_true_r, ?andb_false_r; try discriminate.
      intros H; injection H as -> <-; cbn; auto.
    + destruct (var_branch env hn _) as [vb|]; [|cbn; discriminate].
      destruct vb, more; cbn; rewrite ?andb_true_r, ?andb_false_r; try discriminate;
        intros H; injection H as -> <-; cbn; auto.
  - cbn. intros H. injection H as -> <-. cbn. auto.
  - cbn. intros H. injection H as -> <-. cbn. auto.
  - cbn. intros H. injection H as -> <-. cbn. auto.
  - cbn. intros H. injection H as -> <-. cbn. auto.
  - cbn. intros H. injection H as -> <-. cbn. auto.
Qed.

Lemma parse_item_needs_keyword : forall env w d,
  w_export w = false -> parse_item env w <> SDecl true d.
Proof.
  intros env w d He H. apply parse_item_exported in H. destruct H as [H _]. congruence.
Qed.

(* the flag always arrives: whatever the kind of the item and however its type is spelled - built-in, `unsigned`,
   typedef alias, struct, interface, union, enum, generic instance, pointer, reference, a name the parser does not know
   yet - the loader's statement carries exactly the keyword (except the two node kinds of [plain_item]) *)
Lemma parse_item_plain : forall env e df it,
  plain_item it = true -> dispatchable env it = true ->
  exists d, parse_item env (mkW e df it) = SDecl e d /\ same_decl it d.
Proof.
  intros env e df it Hp Hd. unfold parse_item; cbn [w_export w_item].
  destruct it as [p|a c ret n tp ps body|st c ty dc more|n x|n sd|n ms|n ms|i]; cbn [decl_branch].
  - discriminate.
  - cbn [name_branch basic_branch]. cbn [dispatchable] in Hd. unfold head_name, is_basic_head.
    destruct (sp_head ret) as [b|b|hn ta].
    + cbn. rewrite andb_true_r. eexists. split; [reflexivity|cbn; auto].
    + cbn. rewrite andb_true_r. eexists. split; [reflexivity|cbn; auto].
    + destruct (var_branch env hn _) as [vb|]; [|discriminate].
      cbn. rewrite andb_true_r. eexists. split; [reflexivity|cbn; auto].
  - cbn [plain_item] in Hp. apply andb_true_iff in Hp. destruct Hp as [Hm Ha].
    destruct more; [|discriminate]. clear Hm.
    cbn [name_branch basic_branch]. cbn [dispatchable] in Hd. unfold head_name, is_basic_head in *.
    destruct (sp_head ty) as [b|b|hn ta].
    + cbn in Ha. apply negb_true_iff in Ha. rewrite Ha. cbn. rewrite andb_true_r.
      eexists. split; [reflexivity|cbn; auto].
    + cbn in Ha. apply negb_true_iff in Ha. rewrite Ha. cbn. rewrite andb_true_r.
      eexists. split; [reflexivity|cbn; auto].
    + destruct (var_branch env hn _) as [vb|]; [|discriminate].
      destruct vb; cbn; rewrite andb_true_r; eexists; (split; [reflexivity|cbn; auto]).
  - cbn. eexists. split; [reflexivity|cbn; auto].
  - cbn. eexists. split; [reflexivity|cbn; auto].
  - cbn. eexists. split; [reflexivity|cbn; auto].
  - cbn. eexists. split; [reflexivity|cbn; auto].
  - cbn. eexists. split; [reflexivity|cbn; auto].
Qed.

(* the branch (and with it the parser's type tables) does not matter for WHAT is exported: two environments in which
   the item is dispatchable give the same statement up to the constness of a variable node *)
Lemma parse_item_env_independent : forall env1 env2 e df it d1 d2,
  plain_item it = true -> dispatchable env1 it = true -> dispatchable env2 it = true ->
  parse_item env1 (mkW e df it) = SDecl e d1 -> parse_item env2 (mkW e df it) = SDecl e d2 ->
  same_decl it d1 /\ same_decl it d2.
Proof.
  intros env1 env2 e df it d1 d2 Hp H1 H2 P1 P2.
  destruct (parse_item_plain env1 e df it Hp H1) as [x1 [Q1 S1]].
  destruct (parse_item_plain env2 e df it Hp H2) as [x2 [Q2 S2]].
  rewrite Q1 in P1. rewrite Q2 in P2. injection P1 as <-. injection P2 as <-. auto.
Qed.

(* an import statement stays an import statement *)
Lemma parse_item_import : forall env w p,
  parse_item env w = SImport p <-> w_item w = IImport p.
Proof.
  intros env [e df it] p. unfold parse_item; cbn [w_export w_item]. split.
  - destruct it as [q|a c ret n tp ps body|st c ty dc more|n x|n sd|n ms|n ms|i]; cbn [decl_branch]; try (cbn; discriminate).
    + cbn. intros H. injection H as <-. reflexivity.
    + cbn [name_branch basic_branch]. destruct (head_name ret); [destruct (var_branch _ _ _)|]; cbn;
        try discriminate; destruct (is_basic_head ret); cbn; discriminate.
    + cbn [name_branch basic_branch]. unfold head_name, is_basic_head.
      destruct (sp_head ty) as [b|b|hn ta]; cbn [negb].
      * destruct (nonempty (sp_dims ty)); [cbn; discriminate|]. destruct more; cbn; discriminate.
      * destruct (nonempty (sp_dims ty)); [cbn; discriminate|]. destruct more; cbn; discriminate.
      * destruct (var_branch env hn _) as [vb|]; [|cbn; discriminate]. destruct vb, more; cbn; discriminate.
  - intros ->. reflexivity.
Qed.

(* ---------- a whole file *)
Lemma parse_module_nth : forall imp sm env k w,
  nth_error sm k = Some w ->
  nth_error (parse_module imp env sm) k = Some (parse_item (env_at imp env sm k) w).
Proof.
  intros imp sm. induction sm as [|x r IH]; intros env k w H.
  - destruct k; discriminate.
  - destruct k as [|k]; cbn in H.
    + injection H as ->. reflexivity.
    + cbn [parse_module env_at nth_error]. apply IH. exact H.
Qed.

Lemma parse_module_In : forall imp sm env s,
  In s (parse_module imp env sm) ->
  exists k w, nth_error sm k = Some w /\ s = parse_item (env_at imp env sm k) w.
Proof.
  intros imp sm. induction sm as [|x r IH]; intros env s H.
  - destruct H.
  - cbn [parse_module] in H. destruct H as [H|H].
    + exists 0, x. split; [reflexivity|]. now rewrite <- H.
    + apply IH in H. destruct H as [k [w [Hn Hs]]]. exists (S k), w. split; [exact Hn|exact Hs].
Qed.

Lemma parse_module_length : forall imp sm env, List.length (parse_module imp env sm) = List.length sm.
Proof. intros imp sm. induction sm; intros env; cbn; [reflexivity|now rewrite IHsm]. Qed.

(* ---------- the file system *)
Lemma lookup_map_snd : forall (A B : Type) (f : A -> B) k (l : list (name * A)),
  lookup k (map (fun pm => (fst pm, f (snd pm))) l) = option_map f (lookup k l).
Proof.
  intros A B f k l. induction l as [|[k' v] r IH]; cbn; [reflexivity|].
  destruct (String.eqb k k'); [reflexivity|exact IH].
Qed.

Lemma resolve_parse_fs : forall sfs p,
  resolve (parse_fs sfs) p = option_map (parse_file sfs) (sresolve sfs p).
Proof.
  intros sfs p. unfold resolve, sresolve, parse_fs.
  induction (search_paths (file_path_of p)) as [|x r IH]; cbn; [reflexivity|].
  rewrite lookup_map_snd. destruct (lookup x sfs); cbn; [reflexivity|exact IH].
Qed.

Lemma resolve_parse_fs_some : forall sfs p m,
  resolve (parse_fs sfs) p = Some m -> exists sm, sresolve sfs p = Some sm /\ m = parse_file sfs sm.
Proof.
  intros sfs p m H. rewrite resolve_parse_fs in H. destruct (sresolve sfs p) as [sm|]; [|discriminate].
  injection H as <-. eauto.
Qed.

(* ---------- composition with the loader *)

(* Exactly the exports, read on the TEXT of the module files: whatever binding differs after `import p;` was written
   by a newly loaded module q - by an item of q's file that carries the keyword `export` (whatever its kind and the
   spelling of its type), under its own name or `q.name` - or by an impl block held by that file's parser. *)
Lemma only_written_exports_visible_l : forall sfs fuel pf t p t' g k,
  handle_import fuel pf (parse_fs sfs) t p = Ok t' -> tlookup g k t' <> tlookup g k t ->
  exists q sm, mem q (loaded t) = false /\ mem q (loaded t') = true /\ sresolve sfs q = Some sm /\
    ((exists w d, In w sm /\ w_export w = true /\ same_decl (w_item w) d /\ In (g, k) (decl_keys q d)) \/
     (exists d, In d (parser_impls pf (parse_fs sfs) (parse_file sfs sm)) /\
        ((g = TF /\ In k (map fst (method_binds d))) \/ (g = TD /\ k = im_struct d /\ im_dtor d <> None)))).
Proof.
  intros sfs fuel pf t p t' g k H Hne.
  destruct (only_exports_visible_l fuel pf (parse_fs sfs) t p t' g k H Hne) as [q [m [Hq0 [Hq1 [Hr Hw]]]]].
  apply resolve_parse_fs_some in Hr. destruct Hr as [sm [Hs ->]].
  exists q, sm. repeat split; try assumption.
  destruct Hw as [[d [Hin Hk]]|Himpl].
  - left. apply parse_module_In in Hin. destruct Hin as [i [w [Hn Hp]]].
    symmetry in Hp. apply parse_item_exported in Hp. destruct Hp as [He Hs'].
    exists w, d. repeat split; try assumption. eapply nth_error_In. exact Hn.
  - right. exact Himpl.
Qed.

(* every item written with `export` becomes usable: for the k-th item of the imported file, of any kind and any type
   spelling (plain: not an array declaration with a built-in element type, not a multi-variable declaration), the
   names it defines are bound afterwards *)
Lemma written_exports_become_visible_l : forall sfs fuel pf t p sm t' i df it,
  mem p (loaded t) = false -> sresolve sfs p = Some sm ->
  handle_import fuel pf (parse_fs sfs) t p = Ok t' ->
  nth_error sm i = Some (mkW true df it) -> plain_item it = true ->
  dispatchable (env_at (import_env sfs) empty_env sm i) it = true ->
  exists d, same_decl it d /\ forall g k, In (g, k) (decl_keys p d) -> tlookup g k t' <> None.
Proof.
  intros sfs fuel pf t p sm t' i df it Hl Hs H Hn Hp Hd.
  destruct (parse_item_plain _ true df it Hp Hd) as [d [Hpi Hsd]].
  exists d. split; [exact Hsd|]. intros g k Hk.
  eapply (exports_become_visible_l fuel pf (parse_fs sfs) t p (parse_file sfs sm) t' d g k); try eassumption.
  - rewrite resolve_parse_fs, Hs. reflexivity.
  - unfold parse_file. eapply nth_error_In. erewrite parse_module_nth by exact Hn. rewrite Hpi. reflexivity.
Qed.

(* ... and the same for every module the import loaded, directly or through other modules *)
Lemma written_exports_of_loaded_modules_l : forall sfs fuel pf t p t' q,
  handle_import fuel pf (parse_fs sfs) t p = Ok t' -> mem q (loaded t) = false -> mem q (loaded t') = true ->
  exists sm, sresolve sfs q = Some sm /\
    (forall r, In (mkW false false (IImport r)) sm \/ (exists e df, In (mkW e df (IImport r)) sm) -> mem r (loaded t') = true) /\
    (forall i df it, nth_error sm i = Some (mkW true df it) -> plain_item it = true ->
       dispatchable (env_at (import_env sfs) empty_env sm i) it = true ->
       exists d, same_decl it d /\ forall g k, In (g, k) (decl_keys q d) -> tlookup g k t' <> None).
Proof.
  intros sfs fuel pf t p t' q H Hq0 Hq1.
  destruct (loaded_modules_complete_l fuel pf (parse_fs sfs) t p t' q H Hq0 Hq1) as [m [Hr [Himp Hexp]]].
  apply resolve_parse_fs_some in Hr. destruct Hr as [sm [Hs ->]]. exists sm. split; [exact Hs|]. split.
  - intros r Hr. apply Himp.
    assert (Hin : exists e df, In (mkW e df (IImport r)) sm) by (destruct Hr as [Hr|Hr]; [eauto|exact Hr]).
    destruct Hin as [e [df Hin]]. apply In_nth_error in Hin. destruct Hin as [i Hi].
    unfold parse_file. eapply nth_error_In. erewrite parse_module_nth by exact Hi. reflexivity.
  - intros i df it Hn Hp Hd.
    destruct (parse_item_plain _ true df it Hp Hd) as [d [Hpi Hsd]].
    exists d. split; [exact Hsd|]. intros g k Hk. eapply Hexp; [|exact Hk].
    unfold parse_file. eapply nth_error_In. erewrite parse_module_nth by exact Hn. rewrite Hpi. reflexivity.
Qed.

(* a name that no item written with `export` in a newly loaded file defines (and no impl block) is exactly as
   (un)bound as before: hidden constants / globals / functions / types of whatever type spelling stay hidden *)
Lemma hidden_items_stay_hidden_l : forall sfs fuel pf t p t' g k,
  handle_import fuel pf (parse_fs sfs) t p = Ok t' ->
  (forall q sm, mem q (loaded t) = false -> mem q (loaded t') = true -> sresolve sfs q = Some sm ->
     (forall w d, In w sm -> w_export w = true -> same_decl (w_item w) d -> ~ In (g, k) (decl_keys q d)) /\
     (forall d, In d (parser_impls pf (parse_fs sfs) (parse_file sfs sm)) ->
        ~ (g = TF /\ In k (map fst (method_binds d))) /\ ~ (g = TD /\ k = im_struct d /\ im_dtor d <> None))) ->
  tlookup g k t' = tlookup g k t.
Proof.
  intros sfs fuel pf t p t' g k H Hall.
  destruct (otval_eq_dec (tlookup g k t') (tlookup g k t)) as [E|N]; [exact E|exfalso].
  destruct (only_written_exports_visible_l sfs fuel pf t p t' g k H N) as [q [sm [Hq0 [Hq1 [Hs Hw]]]]].
  destruct (Hall q sm Hq0 Hq1 Hs) as [HA HB].
  destruct Hw as [[w [d [Hin [He [Hsd Hk]]]]]|[d [Hin Hk]]].
  - exact (HA w d Hin He Hsd Hk).
  - destruct (HB d Hin) as [H1 H2]. destruct Hk as [Hk|Hk]; [exact (H1 Hk)|exact (H2 Hk)].
Qed.
