(* C18 - Mech model of the RUN-TIME module loader of the Cb interpreter.

   Mirrors, function by function:
     Interpreter::handle_import_statement        src/backend/interpreter/core/interpreter.cpp:1227
     Interpreter::sync_impl_definitions_from_parser   src/backend/interpreter/core/initialization.cpp:190
     InterfaceOperations::register_impl_definition    src/backend/interpreter/managers/types/interfaces.cpp:37
     InterfaceOperations::handle_impl_declaration     interfaces.cpp:735   (registration of a LOCAL impl block)
     Interpreter::register_global_declarations   interpreter.cpp:143  (imports first, then the kind passes)

   A module file is the list of its top-level statements as the private RecursiveParser hands them to
   the loader: declarations carry the `export` flag; an `import` statement can never be exported
   (statement_parser.cpp:parseStatement does not set is_exported on it).  HOW the text of an item
   (kind x spelling of its type) becomes such a statement is modelled in Front.v (parse_item / parse_fs);
   the driver feeds every case through it.  AST nodes / initialiser
   values are abstract identities ([nat]): the loader only stores pointers to them.

   NOT modelled: the parse-time path RecursiveParser::processImport / resolveModulePath (it copies
   exported struct/enum/interface definitions into the importing parser so that type names parse;
   its only contribution that the run-time loader relies on - the impl blocks of transitively
   imported files, which sit in the private parser's impl_definitions_ - is modelled by
   [parser_impls], using the run-time path resolution); C++ ownership transfer of impl nodes;
   generic-name mangling in register_impl_definition (struct names are plain identifiers here);
   selective imports `import m { a, b }` (reached by translation of the file system) and aliases.

   The model mirrors /repo after the fix: commits e75028a (path form), 7f2ae2b (a module's own imports
   are executed, module marked loaded first), 871ed77 (array members kept), a650333 (impl statics).

   Definitions only; total, computable, extractable.  No proofs in this file. *)
From Coq Require Import List String Ascii Bool Arith.
Import ListNotations.
Local Open Scope string_scope.
Local Open Scope list_scope.
Infix "+++" := String.append (right associativity, at level 60).

Definition name := string.

(* ---------- std::map<std::string, V>: operator[]= is [bind]; find is [lookup] (newest binding first) *)
Definition amap (V : Type) := list (name * V).
Fixpoint lookup {V : Type} (k : name) (m : amap V) : option V :=
  match m with
  | [] => None
  | (k', v) :: r => if String.eqb k k' then Some v else lookup k r
  end.
Definition bind {V : Type} (k : name) (v : V) (m : amap V) : amap V := (k, v) :: m.

Fixpoint mem (x : name) (l : list name) : bool :=
  match l with [] => false | y :: r => if String.eqb x y then true else mem x r end.

(* ---------- syntax of a parsed file *)
Record member := mkMember { mem_name : name; mem_array : option nat }.   (* int[n] v;  => Some n *)
Record sdef := mkSdef { sd_generic : bool; sd_members : list member }.
Record impl_def := mkImpl {
  im_iface : name;                       (* "" for `impl S { self(..) ~self() }` *)
  im_struct : name;
  im_methods : list (name * nat);        (* method name, AST node *)
  im_ctors : list (nat * nat);           (* arity, AST node *)
  im_dtor : option nat;
  im_statics : list name                 (* `static int n = 0;` inside the impl block *)
}.

(* initialiser expressions of exported variables (evaluated AT IMPORT TIME, interpreter.cpp:1579-1626:
   expression_evaluator_->evaluate_typed_expression(stmt->init_expr) against the interpreter's CURRENT
   global scope) and bodies of side-effect-free functions `int f(int a) { return <expr>; }`.
   A call is late-bound: the name is looked up in global_scope.functions when the call is evaluated;
   [cands] lists the body of every function declaration (AST node id, `return` expression) that
   carries that name anywhere in the file system - the closed-world stand-in for dereferencing the
   AST node pointer the table holds. *)
Inductive expr :=
| ELit (v : nat)
| EParam                                             (* the parameter `a` of the enclosing function *)
| EVar (x : name)                                    (* a global variable / constant, plain or `m.x` *)
| EEnum (en m : name)                                (* En::M *)
| EAdd (a b : expr)
| ECall (f : name) (cands : list (nat * expr)) (arg : expr).

Inductive decl :=
| DFunc (n : name) (body : nat)
| DStruct (n : name) (d : sdef)                      (* AST_STRUCT_DECL / AST_GENERIC_STRUCT_DECL *)
| DInterface (n : name) (methods : list name)
| DImpl (d : impl_def)
| DTypedef (n : name) (target : name)
| DVar (n : name) (is_const : bool) (init : option expr)  (* AST_VAR_DECL; the initialiser is evaluated on import *)
| DEnum (n : name) (members : list (name * nat))
| DOther (n : name).                                 (* any other node type (array declaration ...) *)

Inductive stmt :=
| SImport (path : name)
| SDecl (exported : bool) (d : decl).
Definition module := list stmt.
Definition fsys := list (name * module).             (* path as given to ifstream::open -> parsed file *)

(* ---------- path resolution: handle_import_statement, first half *)
Fixpoint contains (needle s : string) : bool :=      (* s.find(needle) != npos *)
  if String.prefix needle s then true
  else match s with EmptyString => false | String _ r => contains needle r end.

Definition dot_to_slash (c : ascii) : ascii := if Ascii.eqb c "."%char then "/"%char else c.
Fixpoint map_str (f : ascii -> ascii) (s : string) : string :=
  match s with EmptyString => EmptyString | String c r => String (f c) (map_str f r) end.

Fixpoint ends_with (suffix s : string) : bool :=     (* s.compare(s.size() - |suffix|, |suffix|, suffix) == 0 *)
  if String.eqb s suffix then true
  else match s with EmptyString => false | String _ r => ends_with suffix r end.

Definition file_path_of (module_path : name) : name :=
  if Nat.ltb 3 (String.length module_path) && ends_with ".cb" module_path && contains "/" module_path
  then module_path                                   (* a real file path such as ../utils/helper.cb *)
  else if contains "." module_path && negb (contains "/" module_path) && negb (contains ".." module_path)
       then map_str dot_to_slash module_path +++ ".cb"
       else module_path +++ ".cb".

Definition search_paths (fp : name) : list name :=
  if String.prefix "../" fp || String.prefix "./" fp then [fp]
  else [fp; "modules/" +++ fp; "../modules/" +++ fp; "../../modules/" +++ fp; "../" +++ fp; "../../" +++ fp;
        "tests/cases/import_export/" +++ fp; "../../tests/cases/import_export/" +++ fp].

Fixpoint first_open (fs : fsys) (paths : list name) : option module :=
  match paths with
  | [] => None
  | p :: r => match lookup p fs with Some m => Some m | None => first_open fs r end
  end.
Definition resolve (fs : fsys) (module_path : name) : option module :=
  first_open fs (search_paths (file_path_of module_path)).

(* ---------- interpreter tables the loader writes *)
Record tables := mkT {
  funcs : amap nat;                      (* global_scope.functions *)
  structs : amap sdef;                   (* struct_definitions_ *)
  ifaces : amap (list name);             (* interface_definitions_ *)
  typedefs : amap name;                  (* typedef_map *)
  vars : amap (bool * option nat);       (* global_scope.variables: is_const, value *)
  enums : amap (list (name * nat));      (* enum_manager_ *)
  impls : list impl_def;                 (* impl_definitions_ deque: in-place update per (iface, struct) *)
  ctors : list (name * (nat * nat));     (* struct_constructors_[s] vectors, flattened in push_back order *)
  dtors : amap nat;                      (* struct_destructors_ *)
  istatics : list (name * (name * name));(* impl static variables created: (iface, (struct, var)) *)
  loaded : list name                     (* loaded_modules *)
}.
Definition empty_tables : tables := mkT [] [] [] [] [] [] [] [] [] [] [].

Inductive error :=
| EOpen (module_path file_path : name)               (* "Failed to open module file: p (searched: fp)" *)
| EConflict (method sname : name)                    (* "Method name conflict: method 'm' ... for type 's'" *)
| EDepth (module_path : name)                        (* model only: recursion bound of [handle_import] exhausted *)
| EUndefVar (x : name)                               (* "Undefined variable: x" while an initialiser is evaluated *)
| EUndefFunc (f : name)                              (* "Undefined function: f" *)
| EUndefEnum (en m : name)                           (* enum / member not known *)
| ENoBody (f : name)                                 (* model only: the bound node is not among the call's candidates *)
| EConstAssign (x : name).                           (* "Cannot reassign const variable: x" *)
Inductive result := Ok (t : tables) | Err (e : error).

(* ----- evaluation of an initialiser against the current tables *)
Inductive ev := VOk (v : nat) | VErr (e : error).
(* the body among [cands] that belongs to AST node b *)
Definition pick_body (evb : expr -> ev) (f : name) (b : nat) : list (nat * expr) -> ev :=
  fix pick (l : list (nat * expr)) : ev :=
    match l with
    | [] => VErr (ENoBody f)
    | (b', body) :: r => if Nat.eqb b b' then evb body else pick r
    end.
Fixpoint eval (t : tables) (param : nat) (e : expr) {struct e} : ev :=
  match e with
  | ELit v => VOk v
  | EParam => VOk param
  | EVar x => match lookup x (vars t) with
              | Some (_, Some v) => VOk v
              | Some (_, None) => VOk 0              (* a global without initialiser holds 0 *)
              | None => VErr (EUndefVar x)
              end
  | EEnum en m => match lookup en (enums t) with
                  | Some ms => match lookup m ms with Some v => VOk v | None => VErr (EUndefEnum en m) end
                  | None => VErr (EUndefEnum en m)
                  end
  | EAdd a b => match eval t param a with
                | VOk x => match eval t param b with VOk y => VOk (x + y) | VErr er => VErr er end
                | VErr er => VErr er
                end
  | ECall f cands arg =>
      match eval t param arg with
      | VOk x =>
          match lookup f (funcs t) with              (* late binding: the function table as it is NOW *)
          | None => VErr (EUndefFunc f)
          | Some b => pick_body (fun body => eval t x body) f b cands   (* the node body with a := x *)
          end
      | VErr er => VErr er
      end
  end.

(* primitive table updates; every registration below is a list of these *)
Inductive op :=
| OFunc (k : name) (b : nat)
| OStruct (k : name) (d : sdef)
| OIface (k : name) (ms : list name)
| OTypedef (k : name) (target : name)
| OVar (k : name) (c : bool) (v : option nat)
| OEnum (k : name) (ms : list (name * nat))
| OCtor (s : name) (arity body : nat)
| ODtor (s : name) (b : nat)
| OImpl (d : impl_def)
| OStatic (i s v : name)
| OLoaded (p : name)
| OFail (e : error)                                   (* throw std::runtime_error: the program ends, exit 1 *)
| OInit (ks : list name) (c : bool) (e : expr).       (* evaluate e NOW, bind every k in ks to the value *)

(* ----- register_impl_definition *)
Definition same_key (i s : name) (e : impl_def) : bool :=
  String.eqb (im_iface e) i && String.eqb (im_struct e) s.
Definition has_impl (i s : name) (l : list impl_def) : bool := existsb (same_key i s) l.
Fixpoint replace_impl (d : impl_def) (l : list impl_def) : list impl_def :=   (* *existing = stored_def *)
  match l with
  | [] => []
  | e :: r => if same_key (im_iface d) (im_struct d) e then d :: r else e :: replace_impl d r
  end.
Definition has_method (m : name) (e : impl_def) : bool :=
  existsb (fun p => String.eqb (fst p) m) (im_methods e).
(* first method of the new block that an existing impl block of the same struct already defines *)
Definition find_conflict (l : list impl_def) (d : impl_def) : option name :=
  let same := filter (fun e => String.eqb (im_struct e) (im_struct d)) l in
  match filter (fun p => existsb (has_method (fst p)) same) (im_methods d) with
  | [] => None
  | p :: _ => Some (fst p)
  end.
(* keys under which register_impl_definition stores each method in global_scope.functions *)
Definition method_binds (d : impl_def) : list (name * nat) :=
  flat_map (fun p => (im_struct d +++ "::" +++ fst p, snd p) ::
                     (if String.eqb (im_iface d) "" then []
                      else [(im_iface d +++ "_" +++ im_struct d +++ "_" +++ fst p, snd p)]))
           (im_methods d).
Definition bind_all {V : Type} (ws : list (name * V)) (m : amap V) : amap V :=
  fold_left (fun acc w => bind (fst w) (snd w) acc) ws m.

Definition set_funcs (t : tables) (x : amap nat) : tables :=
  mkT x (structs t) (ifaces t) (typedefs t) (vars t) (enums t) (impls t) (ctors t) (dtors t) (istatics t) (loaded t).
Definition set_vars (t : tables) (x : amap (bool * option nat)) : tables :=
  mkT (funcs t) (structs t) (ifaces t) (typedefs t) x (enums t) (impls t) (ctors t) (dtors t) (istatics t) (loaded t).
Definition init_binds (ks : list name) (c : bool) (v : nat) : list (name * (bool * option nat)) :=
  map (fun k => (k, (c, Some v))) ks.
Definition set_impls (t : tables) (x : list impl_def) : tables :=
  mkT (funcs t) (structs t) (ifaces t) (typedefs t) (vars t) (enums t) x (ctors t) (dtors t) (istatics t) (loaded t).

Definition apply_op (t : tables) (o : op) : result :=
  match o with
  | OFunc k b => Ok (set_funcs t (bind k b (funcs t)))
  | OStruct k d => Ok (mkT (funcs t) (bind k d (structs t)) (ifaces t) (typedefs t) (vars t) (enums t) (impls t) (ctors t) (dtors t) (istatics t) (loaded t))
  | OIface k ms => Ok (mkT (funcs t) (structs t) (bind k ms (ifaces t)) (typedefs t) (vars t) (enums t) (impls t) (ctors t) (dtors t) (istatics t) (loaded t))
  | OTypedef k x => Ok (mkT (funcs t) (structs t) (ifaces t) (bind k x (typedefs t)) (vars t) (enums t) (impls t) (ctors t) (dtors t) (istatics t) (loaded t))
  | OVar k c v => Ok (mkT (funcs t) (structs t) (ifaces t) (typedefs t) (bind k (c, v) (vars t)) (enums t) (impls t) (ctors t) (dtors t) (istatics t) (loaded t))
  | OInit ks c e =>                                  (* evaluate_typed_expression(init_expr), then variables[k] = var *)
      match eval t 0 e with
      | VOk v => Ok (set_vars t (bind_all (init_binds ks c v) (vars t)))
      | VErr er => Err er
      end
  | OEnum k ms =>                                    (* EnumManager::register_enum: "already exists" -> return *)
      match lookup k (enums t) with
      | Some _ => Ok t
      | None => Ok (mkT (funcs t) (structs t) (ifaces t) (typedefs t) (vars t) (bind k ms (enums t)) (impls t) (ctors t) (dtors t) (istatics t) (loaded t))
      end
  | OCtor s a b => Ok (mkT (funcs t) (structs t) (ifaces t) (typedefs t) (vars t) (enums t) (impls t) (ctors t ++ [(s, (a, b))]) (dtors t) (istatics t) (loaded t))
  | ODtor s b => Ok (mkT (funcs t) (structs t) (ifaces t) (typedefs t) (vars t) (enums t) (impls t) (ctors t) (bind s b (dtors t)) (istatics t) (loaded t))
  | OImpl d =>
      if has_impl (im_iface d) (im_struct d) (impls t)
      then Ok (set_funcs (set_impls t (replace_impl d (impls t))) (bind_all (method_binds d) (funcs t)))
      else match find_conflict (impls t) d with
           | Some m => Err (EConflict m (im_struct d))
           | None => Ok (set_funcs (set_impls t (impls t ++ [d])) (bind_all (method_binds d) (funcs t)))
           end
  | OStatic i s v => Ok (mkT (funcs t) (structs t) (ifaces t) (typedefs t) (vars t) (enums t) (impls t) (ctors t) (dtors t) ((i, (s, v)) :: istatics t) (loaded t))
  | OLoaded p => Ok (mkT (funcs t) (structs t) (ifaces t) (typedefs t) (vars t) (enums t) (impls t) (ctors t) (dtors t) (istatics t) (p :: loaded t))
  | OFail e => Err e
  end.

Fixpoint run_ops (ops : list op) (t : tables) : result :=
  match ops with
  | [] => Ok t
  | o :: r => match apply_op t o with Ok t' => run_ops r t' | Err e => Err e end
  end.

(* ----- sync_impl_definitions_from_parser, per impl block: impl static variables (a650333), constructors /
   destructor into the struct_* tables, then register_impl_definition. *)
Definition sync_ops (d : impl_def) : list op :=
  map (fun v => OStatic (im_iface d) (im_struct d) v) (im_statics d)
  ++ map (fun c => OCtor (im_struct d) (fst c) (snd c)) (im_ctors d)
  ++ (match im_dtor d with Some b => [ODtor (im_struct d) b] | None => [] end)
  ++ [OImpl d].

(* ----- handle_impl_declaration (an impl block written in the file being run): the same registrations
   (its extra functions["S::m"] = node store is repeated verbatim by register_impl_definition and is
   left out). *)
Definition local_impl_ops (d : impl_def) : list op := sync_ops d.

(* ----- the switch over exported statements of handle_import_statement *)
Definition qualified (module_path n : name) : name := module_path +++ "." +++ n.
(* StructDefinition rebuilt member by member; array members keep their array_type_info (871ed77) *)
Definition import_sdef (d : sdef) : sdef := d.

Definition import_decl_ops (module_path : name) (d : decl) : list op :=
  match d with
  | DFunc n b => [OFunc n b; OFunc (qualified module_path n) b]
  | DStruct n sd => [OStruct n (import_sdef sd)]
  | DInterface n ms => [OIface n ms]
  | DImpl _ => []                                    (* "will be processed after impl_nodes transfer" *)
  | DTypedef n x => [OTypedef n x]
  | DVar n c init =>
      match c, init with
      | true, None => []                             (* const without initialiser: nothing registered *)
      | _, None => [OVar n c None; OVar (qualified module_path n) c None]
      | _, Some e => [OInit [n; qualified module_path n] c e]   (* evaluated once, stored under both names *)
      end
  | DEnum n ms => [OEnum n ms]
  | DOther _ => []
  end.
Definition import_stmt_ops (module_path : name) (s : stmt) : list op :=
  match s with
  | SImport _ => []                                  (* executed by [run_stmts], registers nothing itself *)
  | SDecl false _ => []
  | SDecl true d => import_decl_ops module_path d
  end.

(* impl_definitions_ of the private parser after parsing the file: its own impl blocks in statement
   order, with those of every file it imports spliced in where the import statement stands
   (parse-time processImport copies ALL impl definitions of the imported parser). *)
Fixpoint parser_impls (fuel : nat) (fs : fsys) (m : module) : list impl_def :=
  flat_map (fun s => match s with
                     | SDecl _ (DImpl d) => [d]
                     | SImport p => match fuel with
                                    | 0 => []
                                    | S f => match resolve fs p with
                                             | Some m' => parser_impls f fs m'
                                             | None => []
                                             end
                                    end
                     | _ => []
                     end) m.

Definition mark_loaded (p : name) (t : tables) : tables :=
  mkT (funcs t) (structs t) (ifaces t) (typedefs t) (vars t) (enums t) (impls t) (ctors t) (dtors t) (istatics t) (p :: loaded t).

(* the loop over the module's statements; [imp] = the loader itself, one level down *)
Fixpoint run_stmts (imp : tables -> name -> result) (module_path : name) (l : module) (t : tables) : result :=
  match l with
  | [] => Ok t
  | SImport q :: r =>                                (* 7f2ae2b: a module's own imports are loaded with it *)
      match imp t q with Ok t' => run_stmts imp module_path r t' | Err e => Err e end
  | SDecl e d :: r =>
      match run_ops (import_stmt_ops module_path (SDecl e d)) t with
      | Ok t' => run_stmts imp module_path r t'
      | Err e => Err e
      end
  end.

(* [fuel] bounds the nesting of imports (every level marks a new module as loaded, so the real
   recursion is bounded by the number of module paths); [pf] is the depth bound of [parser_impls] *)
Fixpoint handle_import (fuel pf : nat) (fs : fsys) (t : tables) (module_path : name) {struct fuel} : result :=
  if mem module_path (loaded t) then Ok t              (* loaded_modules.find(...) != end(): return *)
  else match fuel with
       | 0 => Err (EDepth module_path)
       | S f =>
         match resolve fs module_path with
         | None => Err (EOpen module_path (file_path_of module_path))
         | Some m =>
           (* loaded_modules.insert first: a module reached again through its own imports is not re-entered *)
           match run_stmts (handle_import f pf fs) module_path m (mark_loaded module_path t) with
           | Ok t2 => run_ops (flat_map sync_ops (parser_impls pf fs m)) t2
           | Err e => Err e
           end
         end
       end.

(* a sequence of import statements, e.g. the imports at the top of the file being run *)
Fixpoint load (fuel pf : nat) (fs : fsys) (paths : list name) (t : tables) : result :=
  match paths with
  | [] => Ok t
  | p :: r => match handle_import fuel pf fs t p with Ok t' => load fuel pf fs r t' | Err e => Err e end
  end.

(* everything the loading of ONE module registers itself (nested imports excluded) *)
Definition block (pf : nat) (fs : fsys) (module_path : name) : list op :=
  match resolve fs module_path with
  | None => [OFail (EOpen module_path (file_path_of module_path))]
  | Some m => OLoaded module_path :: flat_map (import_stmt_ops module_path) m
              ++ flat_map sync_ops (parser_impls pf fs m)
  end.

(* ----- registration of a declaration written in the file being run (register_global_declarations) *)
Definition local_decl_ops (d : decl) : list op :=
  match d with
  | DFunc n b => [OFunc n b]
  | DStruct n sd => [OStruct n sd]
  | DInterface n ms => [OIface n ms]
  | DImpl i => local_impl_ops i
  | DTypedef n x => [OTypedef n x]
  | DVar n c None => [OVar n c None]
  | DVar n c (Some e) => [OInit [n] c e]
  | DEnum n ms => [OEnum n ms]
  | DOther _ => []
  end.

Definition imports_of (m : module) : list name :=
  flat_map (fun s => match s with SImport p => [p] | _ => [] end) m.
Definition decls_of (m : module) : list decl :=
  flat_map (fun s => match s with SDecl _ d => [d] | _ => [] end) m.
(* the passes of the AST_STMT_LIST case: const variables, other variables, structs, enums, typedefs,
   interfaces, impls, everything else *)
Definition pass (k : nat) (d : decl) : bool :=
  match k, d with
  | 0, DVar _ true _ => true
  | 1, DVar _ false _ => true
  | 2, DStruct _ _ => true
  | 3, DEnum _ _ => true
  | 4, DTypedef _ _ => true
  | 5, DInterface _ _ => true
  | 6, DImpl _ => true
  | 7, DFunc _ _ => true
  | _, _ => false
  end.
Definition local_ops (m : module) : list op :=
  flat_map (fun k => flat_map local_decl_ops (filter (pass k) (decls_of m))) [0; 1; 2; 3; 4; 5; 6; 7].

(* the whole start-up of a program file: all imports first, then its own declarations *)
Definition start_program (fuel pf : nat) (fs : fsys) (prog : module) : result :=
  match load fuel pf fs (imports_of prog) empty_tables with
  | Ok t => run_ops (local_ops prog) t
  | Err e => Err e
  end.

(* ----- an assignment `x = v;` executed by the importer after the imports: a variable registered as a
   constant (is_const, and - since fix a4fa15d - is_assigned: its initialiser has been evaluated) rejects it *)
Definition assign (t : tables) (x : name) (v : nat) : result :=
  match lookup x (vars t) with
  | None => Err (EUndefVar x)
  | Some (true, _) => Err (EConstAssign x)
  | Some (false, _) => Ok (set_vars t (bind x (false, Some v) (vars t)))
  end.

(* ---------- observations *)
Fixpoint find_ctor (s : name) (arity : nat) (l : list (name * (nat * nat))) : option nat :=
  match l with                                       (* first constructor of s with that many parameters *)
  | [] => None
  | (s', (a, b)) :: r => if String.eqb s s' && Nat.eqb arity a then Some b else find_ctor s arity r
  end.
Definition impls_of (s : name) (l : list impl_def) : list impl_def :=
  filter (fun e => String.eqb (im_struct e) s) l.
Definition ctors_of (s : name) (l : list (name * (nat * nat))) : list (name * (nat * nat)) :=
  filter (fun c => String.eqb (fst c) s) l.
Definition method_key (s m : name) : name := s +++ "::" +++ m.

(* ---------- the "inlined" reading: every (transitively) imported file is pasted once, where the loader
   visits it, as local declarations: exported declarations with `export` removed, then the impl blocks *)
Definition inline_stmt_ops (s : stmt) : list op :=
  match s with
  | SDecl true (DImpl _) => []
  | SDecl true d => local_decl_ops d
  | _ => []
  end.
Fixpoint inline_stmts (inl : tables -> name -> result) (l : module) (t : tables) : result :=
  match l with
  | [] => Ok t
  | SImport q :: r => match inl t q with Ok t' => inline_stmts inl r t' | Err e => Err e end
  | SDecl e d :: r =>
      match run_ops (inline_stmt_ops (SDecl e d)) t with
      | Ok t' => inline_stmts inl r t'
      | Err e => Err e
      end
  end.
Fixpoint handle_inline (fuel pf : nat) (fs : fsys) (t : tables) (module_path : name) {struct fuel} : result :=
  if mem module_path (loaded t) then Ok t              (* a file is pasted once *)
  else match fuel with
       | 0 => Err (EDepth module_path)
       | S f =>
         match resolve fs module_path with
         | None => Err (EOpen module_path (file_path_of module_path))
         | Some m =>
           match inline_stmts (handle_inline f pf fs) m (mark_loaded module_path t) with
           | Ok t2 => run_ops (flat_map local_impl_ops (parser_impls pf fs m)) t2
           | Err e => Err e
           end
         end
       end.
