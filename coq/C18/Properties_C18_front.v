(* C18 - property theorems about the FRONT END of the loader (Front.v: the dispatch of
   StatementParser::parseStatement and the three places where the `export` flag is put on the node) and its
   composition with the run-time loader (Model.v).  Proofs in FrontLemmas.v.  They hold for every parser
   environment (the type tables of the module's private parser), every surface file system, every table state. *)
From Coq Require Import List String Ascii Bool Arith.
Import ListNotations.
From Cb Require Import C18.Model C18.Import C18.Front C18.FrontLemmas.
Local Open Scope string_scope.
Local Open Scope list_scope.

(* ------------------------------------------------------------------ the export filter over all kinds and spellings *)

(* The keyword arrives: a function / a single variable or constant / a typedef / struct / enum / interface / impl
   written `[export] ...` reaches the loader as the same definition with exactly that flag - whether its type is
   written as a built-in keyword, `unsigned` + keyword, a typedef alias, a struct, interface, union or enum name, a
   generic instance, with `*`, `&` or (after a user-defined name) `[n]`, or a name the parser only assumes to be a
   type.  (This is the statement the seeded change C18-4 falsifies for the identifier branch.) *)
Theorem export_flag_follows_keyword : forall env e df it,
  plain_item it = true -> dispatchable env it = true ->
  exists d, parse_item env (mkW e df it) = SDecl e d /\ same_decl it d.
Proof. exact parse_item_plain. Qed.
Print Assumptions export_flag_follows_keyword.

(* ... and is never invented: an exported statement of the loader was written with `export` and is that very item *)
Theorem exported_statement_was_written_exported : forall env w d,
  parse_item env w = SDecl true d -> w_export w = true /\ same_decl (w_item w) d.
Proof. exact parse_item_exported. Qed.
Print Assumptions exported_statement_was_written_exported.

Theorem no_export_without_keyword : forall env w d,
  w_export w = false -> parse_item env w <> SDecl true d.
Proof. exact parse_item_needs_keyword. Qed.
Print Assumptions no_export_without_keyword.

(* an `import` line of a module file reaches the loader as an import statement, whatever is written before it *)
Theorem import_line_stays_import : forall env w p,
  parse_item env w = SImport p <-> w_item w = IImport p.
Proof. exact parse_item_import. Qed.
Print Assumptions import_line_stays_import.

(* REFUTED on the faithful model (known finding C18-exported-array-not-imported): an array declaration with a
   built-in element type becomes an AST_ARRAY_DECL node, which never receives the flag *)
Theorem exported_array_keeps_flag_refuted : exists env it,
  parse_item env (mkW true false it) = SDecl false (DOther "arr") /\
  it = IVar false false (mkSpell (HBasic BInt) 0 false [Some 3]) (mkD "arr" [] None) [].
Proof. exists empty_env. eexists. split; [|reflexivity]. reflexivity. Qed.
Print Assumptions exported_array_keeps_flag_refuted.

(* REFUTED on the faithful model (known finding C18-multi-declaration-export-dropped): `export int a = 1, b = 2;`
   becomes an AST_MULTIPLE_VAR_DECL node, which never receives the flag - in either branch *)
Theorem exported_multi_declaration_keeps_flag_refuted :
  parse_item empty_env (mkW true false (IVar false false (mkSpell (HBasic BInt) 0 false [])
                                              (mkD "a" [] (Some (ELit 1))) [mkD "b" [] (Some (ELit 2))]))
  = SDecl false (DOther "") /\
  parse_item (mkEnv ["Ms"] [] [] [] []) (mkW true false (IVar false false (mkSpell (HName "Ms" []) 0 false [])
                                              (mkD "a" [] (Some (ELit 1))) [mkD "b" [] (Some (ELit 2))]))
  = SDecl false (DOther "").
Proof. split; reflexivity. Qed.
Print Assumptions exported_multi_declaration_keeps_flag_refuted.

(* ------------------------------------------------------------------ exactly the exports, on the module TEXT *)

(* Whatever binding differs after `import p;` was written by a newly loaded module q: by an item of q's file that
   carries the keyword `export` - under its own name or `q.name` - or by an impl block of that file's parser. *)
Theorem only_written_exports_visible : forall sfs fuel pf t p t' g k,
  handle_import fuel pf (parse_fs sfs) t p = Ok t' -> tlookup g k t' <> tlookup g k t ->
  exists q sm, mem q (loaded t) = false /\ mem q (loaded t') = true /\ sresolve sfs q = Some sm /\
    ((exists w d, In w sm /\ w_export w = true /\ same_decl (w_item w) d /\ In (g, k) (decl_keys q d)) \/
     (exists d, In d (parser_impls pf (parse_fs sfs) (parse_file sfs sm)) /\
        ((g = TF /\ In k (map fst (method_binds d))) \/ (g = TD /\ k = im_struct d /\ im_dtor d <> None)))).
Proof. exact only_written_exports_visible_l. Qed.
Print Assumptions only_written_exports_visible.

Theorem hidden_items_stay_hidden : forall sfs fuel pf t p t' g k,
  handle_import fuel pf (parse_fs sfs) t p = Ok t' ->
  (forall q sm, mem q (loaded t) = false -> mem q (loaded t') = true -> sresolve sfs q = Some sm ->
     (forall w d, In w sm -> w_export w = true -> same_decl (w_item w) d -> ~ In (g, k) (decl_keys q d)) /\
     (forall d, In d (parser_impls pf (parse_fs sfs) (parse_file sfs sm)) ->
        ~ (g = TF /\ In k (map fst (method_binds d))) /\ ~ (g = TD /\ k = im_struct d /\ im_dtor d <> None))) ->
  tlookup g k t' = tlookup g k t.
Proof. exact hidden_items_stay_hidden_l. Qed.
Print Assumptions hidden_items_stay_hidden.

(* Every item written with `export` - of any kind and any type spelling - is bound after the import of its file ... *)
Theorem written_exports_become_visible : forall sfs fuel pf t p sm t' i df it,
  mem p (loaded t) = false -> sresolve sfs p = Some sm ->
  handle_import fuel pf (parse_fs sfs) t p = Ok t' ->
  nth_error sm i = Some (mkW true df it) -> plain_item it = true ->
  dispatchable (env_at (import_env sfs) empty_env sm i) it = true ->
  exists d, same_decl it d /\ forall g k, In (g, k) (decl_keys p d) -> tlookup g k t' <> None.
Proof. exact written_exports_become_visible_l. Qed.
Print Assumptions written_exports_become_visible.

(* ... and so is every such item of every module the import loaded directly or through other modules, whose own
   import lines have all been executed *)
Theorem written_exports_of_loaded_modules : forall sfs fuel pf t p t' q,
  handle_import fuel pf (parse_fs sfs) t p = Ok t' -> mem q (loaded t) = false -> mem q (loaded t') = true ->
  exists sm, sresolve sfs q = Some sm /\
    (forall r, In (mkW false false (IImport r)) sm \/ (exists e df, In (mkW e df (IImport r)) sm) -> mem r (loaded t') = true) /\
    (forall i df it, nth_error sm i = Some (mkW true df it) -> plain_item it = true ->
       dispatchable (env_at (import_env sfs) empty_env sm i) it = true ->
       exists d, same_decl it d /\ forall g k, In (g, k) (decl_keys q d) -> tlookup g k t' <> None).
Proof. exact written_exports_of_loaded_modules_l. Qed.
Print Assumptions written_exports_of_loaded_modules.

(* ------------------------------------------------------------------ non-vacuity: the seeded demo (seeded/C18-4/units.cb) *)
Definition sp (h : head) : spell := mkSpell h 0 false [].
Definition units_text : smodule :=
  [mkW true false (ITypedef "Millis" "int");
   mkW true false (IEnum "Level" [("Low", 1); ("Mid", 5); ("High", 9)]);
   mkW true false (IVar false true (sp (HBasic BInt)) (mkD "PLAIN_LIMIT" [] (Some (ELit 3))) []);
   mkW true false (IVar false true (sp (HName "Millis" [])) (mkD "TIMEOUT" [] (Some (ELit 250))) []);
   mkW true false (IVar false true (sp (HName "Level" [])) (mkD "DEFAULT_LEVEL" [] (Some (EEnum "Level" "Mid"))) []);
   mkW true false (IFunc false false (sp (HName "Millis" [])) "twice" [] [sp (HName "Millis" [])] 11);
   mkW true false (IFunc false false (sp (HBasic BInt)) "level_weight" [] [sp (HName "Level" [])] 12);
   mkW false false (IVar false true (sp (HName "Millis" [])) (mkD "HIDDEN_K" [] (Some (ELit 7))) []);
   mkW false false (IFunc false false (sp (HName "Level" [])) "hidden_f" [] [] 13)].

Example seeded_demo_parsed :
  parse_file [("units.cb", units_text)] units_text =
  [SDecl true (DTypedef "Millis" "int");
   SDecl true (DEnum "Level" [("Low", 1); ("Mid", 5); ("High", 9)]);
   SDecl true (DVar "PLAIN_LIMIT" true (Some (ELit 3)));
   SDecl true (DVar "TIMEOUT" true (Some (ELit 250)));
   SDecl true (DVar "DEFAULT_LEVEL" true (Some (EEnum "Level" "Mid")));
   SDecl true (DFunc "twice" 11);
   SDecl true (DFunc "level_weight" 12);
   SDecl false (DVar "HIDDEN_K" true (Some (ELit 7)));
   SDecl false (DFunc "hidden_f" 13)].
Proof. reflexivity. Qed.

Example seeded_demo_loaded : exists t,
  load 3 3 (parse_fs [("units.cb", units_text)]) ["units"] empty_tables = Ok t /\
  lookup "TIMEOUT" (vars t) = Some (true, Some 250) /\ lookup "units.TIMEOUT" (vars t) = Some (true, Some 250) /\
  lookup "DEFAULT_LEVEL" (vars t) = Some (true, Some 5) /\ lookup "PLAIN_LIMIT" (vars t) = Some (true, Some 3) /\
  lookup "twice" (funcs t) = Some 11 /\ lookup "level_weight" (funcs t) = Some 12 /\
  lookup "HIDDEN_K" (vars t) = None /\ lookup "hidden_f" (funcs t) = None.
Proof. eexists. vm_compute. repeat split. Qed.

(* every branch of the dispatch is reachable: the same constant written with a built-in type, `unsigned`, a typedef
   alias, an enum, a struct, an interface, a union, an unknown name, a pointer - always one exported variable node *)
Example every_branch_exports :
  let env := mkEnv ["Ms"] ["Pt"] ["Shape"] ["U"] ["Lv"] in
  let v h := mkW true false (IVar false true (sp h) (mkD "K" [] (Some (ELit 1))) []) in
  map (parse_item env) [v (HBasic BInt); v (HUnsigned BLong); v (HName "Ms" []); v (HName "Lv" []); v (HName "Pt" []);
                        v (HName "U" []); v (HName "Unknown" []);
                        mkW true true (IVar false true (mkSpell (HName "Ms" []) 1 false []) (mkD "K" [] (Some (ELit 1))) [])]
  = [SDecl true (DVar "K" true (Some (ELit 1))); SDecl true (DVar "K" true (Some (ELit 1)));
     SDecl true (DVar "K" true (Some (ELit 1))); SDecl true (DVar "K" true (Some (ELit 1)));
     SDecl true (DVar "K" true (Some (ELit 1))); SDecl true (DVar "K" true (Some (ELit 1)));
     SDecl true (DVar "K" true (Some (ELit 1))); SDecl true (DVar "K" false (Some (ELit 1)))] /\
  parse_item env (mkW true false (IVar false true (sp (HName "Shape" [])) (mkD "K" [] (Some (ELit 1))) []))
  = SDecl true (DVar "K" false (Some (ELit 1))).                      (* the interface branch drops `const` *)
Proof. split; reflexivity. Qed.
