(* C19 - Mech model of stdlib/std/map.cb (AVL tree Map<K,V>), transcribed function by function.
   Keys and values are integers ([Z]; the harness maps every Cb key type order-preservingly
   into Z and every value type injectively).  Heights are STORED in the nodes, as in the code
   ([MapNode.height]), and every node carries the identity of its malloc block so that a
   malloc/free event log can accompany each operation.  Everything is total, computable and
   extractable; no proofs in this file.

   The tree-returning function and its event log are written as two functions that follow the
   same recursion (e.g. [insert_to_node] / [insert_log]); [m_step] puts them together. *)
From Coq Require Import ZArith List Bool.
Import ListNotations.
Local Open Scope Z_scope.

(* ---------------------------------------------------------------- malloc / free event log *)
Inductive event := Malloc (n : nat) | Free (n : nat).

(* ---------------------------------------------------------------- struct MapNode<K,V> *)
Inductive tree :=
| Leaf                                                      (* nullptr *)
| Node (l : tree) (k v : Z) (hv : bool) (h : Z) (r : tree) (id : nat).
     (* left, key, value, has_value, height, right; id = malloc block *)

(* map.cb:68 get_height *)
Definition get_height (t : tree) : Z :=
  match t with Leaf => 0 | Node _ _ _ _ h _ _ => h end.

(* map.cb:76 update_height: max_h = left_h; if (right_h > left_h) max_h = right_h; height = max_h + 1 *)
Definition update_height (t : tree) : tree :=
  match t with
  | Leaf => Leaf
  | Node l k v hv _ r id =>
      let left_h := get_height l in
      let right_h := get_height r in
      let max_h := if right_h >? left_h then right_h else left_h in
      Node l k v hv (max_h + 1) r id
  end.

(* map.cb:92 get_balance *)
Definition get_balance (t : tree) : Z :=
  match t with Leaf => 0 | Node l _ _ _ _ r _ => get_height l - get_height r end.

(* map.cb:101 rotate_right(y): null guards on y and on x = y->left *)
Definition rotate_right (y : tree) : tree :=
  match y with
  | Leaf => Leaf
  | Node x k v hv h r id =>
      match x with
      | Leaf => y
      | Node xl xk xv xhv xh t2 xid =>
          let y' := update_height (Node t2 k v hv h r id) in
          update_height (Node xl xk xv xhv xh y' xid)
      end
  end.

(* map.cb:125 rotate_left(x): null guards on x and on y = x->right *)
Definition rotate_left (x : tree) : tree :=
  match x with
  | Leaf => Leaf
  | Node l k v hv h y id =>
      match y with
      | Leaf => x
      | Node t2 yk yv yhv yh yr yid =>
          let x' := update_height (Node l k v hv h t2 id) in
          update_height (Node x' yk yv yhv yh yr yid)
      end
  end.

(* map.cb:199-233 and, textually identical, map.cb:346-382: update_height(node); balance;
   if (balance > 1) { if (left != nullptr) { if (get_balance(left) < 0) node->left = rotate_left(left);
                                             return rotate_right(node); } }
   if (balance < -1) { if (right != nullptr) { if (get_balance(right) > 0) node->right = rotate_right(right);
                                               return rotate_left(node); } }
   return node; *)
Definition rebalance (n : tree) : tree :=
  match update_height n with
  | Leaf => Leaf
  | Node l k v hv h r id =>
      let balance := get_height l - get_height r in
      if balance >? 1 then
        match l with
        | Leaf => Node l k v hv h r id
        | Node _ _ _ _ _ _ _ =>
            let l' := if get_balance l <? 0 then rotate_left l else l in
            rotate_right (Node l' k v hv h r id)
        end
      else if balance <? -1 then
        match r with
        | Leaf => Node l k v hv h r id
        | Node _ _ _ _ _ _ _ =>
            let r' := if get_balance r >? 0 then rotate_right r else r in
            rotate_left (Node l k v hv h r' id)
        end
      else Node l k v hv h r id
  end.

(* map.cb:166 insert_to_node; [nid] is the block malloc returns if a node is created *)
Fixpoint insert_to_node (nid : nat) (t : tree) (key value : Z) : tree :=
  match t with
  | Leaf => Node Leaf key value true 1 Leaf nid
  | Node l k v hv h r id =>
      if key =? k then Node l k value true h r id
      else if key <? k then rebalance (Node (insert_to_node nid l key value) k v hv h r id)
      else rebalance (Node l k v hv h (insert_to_node nid r key value) id)
  end.
Fixpoint insert_log (nid : nat) (t : tree) (key : Z) : list event :=
  match t with
  | Leaf => [Malloc nid]
  | Node l k _ _ _ r _ =>
      if key =? k then [] else if key <? k then insert_log nid l key else insert_log nid r key
  end.

(* the inlined find_min loop of map.cb:326-335: key, value, has_value of the leftmost node *)
Fixpoint min_node (t : tree) (dk dv : Z) (dhv : bool) : Z * Z * bool :=
  match t with
  | Leaf => (dk, dv, dhv)
  | Node l k v hv _ _ _ => min_node l k v hv
  end.

(* map.cb:296 remove_from_node *)
Fixpoint remove_from_node (t : tree) (key : Z) : tree :=
  match t with
  | Leaf => Leaf
  | Node l k v hv h r id =>
      if key <? k then rebalance (Node (remove_from_node l key) k v hv h r id)
      else if key >? k then rebalance (Node l k v hv h (remove_from_node r key) id)
      else
        match l with
        | Leaf => r                                              (* free(node); return node->right *)
        | Node _ _ _ _ _ _ _ =>
            match r with
            | Leaf => l                                          (* free(node); return node->left *)
            | Node _ _ _ _ _ _ _ =>
                let '(sk, sv, shv) := min_node r k v hv in       (* successor's data copied first *)
                rebalance (Node l sk sv shv h (remove_from_node r sk) id)
            end
        end
  end.
Fixpoint remove_log (t : tree) (key : Z) : list event :=
  match t with
  | Leaf => []
  | Node l k v hv _ r id =>
      if key <? k then remove_log l key
      else if key >? k then remove_log r key
      else
        match l with
        | Leaf => [Free id]
        | Node _ _ _ _ _ _ _ =>
            match r with
            | Leaf => [Free id]
            | Node _ _ _ _ _ _ _ =>
                let '(sk, _, _) := min_node r k v hv in remove_log r sk
            end
        end
  end.

(* map.cb:387 free_all_nodes: post-order *)
Fixpoint free_all_nodes (t : tree) : list event :=
  match t with
  | Leaf => []
  | Node l _ _ _ _ r id => free_all_nodes l ++ free_all_nodes r ++ [Free id]
  end.

(* map.cb:440 contains (iterative descent) *)
Fixpoint contains_loop (t : tree) (key : Z) : bool :=
  match t with
  | Leaf => false
  | Node l k _ hv _ r _ =>
      if key =? k then hv else if key <? k then contains_loop l key else contains_loop r key
  end.
(* map.cb:414 get *)
Fixpoint get_loop (t : tree) (key default_value : Z) : Z :=
  match t with
  | Leaf => default_value
  | Node l k v hv _ r _ =>
      if key =? k then (if hv then v else default_value)
      else if key <? k then get_loop l key default_value else get_loop r key default_value
  end.

(* ---------------------------------------------------------------- struct Map<K,V> + the allocator's next block *)
Record map := mkmap { root : tree; count : Z; mnext : nat }.

Definition map_init : map := mkmap Leaf 0 0.                     (* self(): root = nullptr; count = 0 *)

Inductive mop :=
| MInsert (k v : Z) | MGet (k d : Z) | MContains (k : Z) | MRemove (k : Z) | MTryRemove (k : Z)
| MSize | MIsEmpty | MClear | MHeight.

Inductive res := RUnit | RInt (z : Z) | RBool (b : bool).

(* map.cb:400 insert / :465 remove / :506 try_remove / :491 clear *)
Definition m_insert (m : map) (k v : Z) : map :=
  let key_exists := contains_loop (root m) k in
  let r := insert_to_node (mnext m) (root m) k v in
  mkmap r (if key_exists then count m else count m + 1) (S (mnext m)).
Definition m_remove (m : map) (k : Z) : map :=
  if contains_loop (root m) k
  then mkmap (remove_from_node (root m) k) (if count m >? 0 then count m - 1 else count m) (mnext m)
  else m.

Definition m_step (m : map) (o : mop) : map :=
  match o with
  | MInsert k v => m_insert m k v
  | MRemove k | MTryRemove k => m_remove m k
  | MClear => mkmap Leaf 0 (mnext m)
  | _ => m
  end.
Definition m_res (m : map) (o : mop) : res :=
  match o with
  | MGet k d => RInt (get_loop (root m) k d)
  | MContains k => RBool (contains_loop (root m) k)
  | MTryRemove k => RBool (contains_loop (root m) k)
  | MSize => RInt (count m)
  | MIsEmpty => RBool (count m =? 0)
  | MHeight => RInt (get_height (root m))
  | _ => RUnit
  end.
Definition m_log (m : map) (o : mop) : list event :=
  match o with
  | MInsert k _ => insert_log (mnext m) (root m) k
  | MRemove k | MTryRemove k => if contains_loop (root m) k then remove_log (root m) k else []
  | MClear => free_all_nodes (root m)
  | _ => []
  end.
(* ~self() *)
Definition m_dtor_log (m : map) : list event := free_all_nodes (root m).

Fixpoint m_run (ops : list mop) (m : map) : map :=
  match ops with [] => m | o :: r => m_run r (m_step m o) end.
Fixpoint m_run_res (ops : list mop) (m : map) : list res :=
  match ops with [] => [] | o :: r => m_res m o :: m_run_res r (m_step m o) end.
Fixpoint m_run_log (ops : list mop) (m : map) : list event :=
  match ops with [] => [] | o :: r => m_log m o ++ m_run_log r (m_step m o) end.

(* ---------------------------------------------------------------- a checker for event logs:
   [replay live log] = the live blocks after [log], or None if the log frees a block that is
   not live (double free / invalid free) or mallocs a block that is live. *)
Fixpoint mem (x : nat) (l : list nat) : bool :=
  match l with [] => false | y :: r => Nat.eqb x y || mem x r end.
Fixpoint remove1 (x : nat) (l : list nat) : list nat :=
  match l with [] => [] | y :: r => if Nat.eqb x y then r else y :: remove1 x r end.
Fixpoint replay (live : list nat) (log : list event) : option (list nat) :=
  match log with
  | [] => Some live
  | Malloc x :: r => if mem x live then None else replay (x :: live) r
  | Free x :: r => if mem x live then replay (remove1 x live) r else None
  end.
