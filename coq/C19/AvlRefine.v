(* C19 - the Map model refines a finite map: the in-order contents of the tree are a strictly
   sorted association list on which insert_to_node / remove_from_node act as ordered insertion /
   deletion; get / contains are association-list lookup; count = number of entries. *)
From Coq Require Import ZArith List Bool Lia Arith.
From Cb Require Import C19.Model C19.AvlInv.
Import ListNotations.
Local Open Scope Z_scope.

(* ---------------------------------------------------------------- Spec: sorted association lists *)
Definition fmap := list (Z * Z).
Definition keys_lt (a : Z) (l : fmap) : Prop := Forall (fun p => fst p < a) l.
Definition keys_gt (a : Z) (l : fmap) : Prop := Forall (fun p => a < fst p) l.
Fixpoint sorted (l : fmap) : Prop :=
  match l with [] => True | p :: tl => keys_gt (fst p) tl /\ sorted tl end.

Fixpoint assoc (k : Z) (l : fmap) : option Z :=
  match l with [] => None | (a, b) :: tl => if k =? a then Some b else assoc k tl end.
Fixpoint ins_list (k v : Z) (l : fmap) : fmap :=
  match l with
  | [] => [(k, v)]
  | (a, b) :: tl => if k =? a then (k, v) :: tl else if k <? a then (k, v) :: l else (a, b) :: ins_list k v tl
  end.
Fixpoint del_list (k : Z) (l : fmap) : fmap :=
  match l with [] => [] | (a, b) :: tl => if k =? a then tl else (a, b) :: del_list k tl end.

Definition is_some {A} (o : option A) : bool := match o with Some _ => true | None => false end.

(* ---------- sortedness and append *)
Lemma keys_gt_weaken : forall a b l, a <= b -> keys_gt b l -> keys_gt a l.
Proof. intros a b l Hab H. unfold keys_gt in *. eapply Forall_impl; [|exact H]. simpl. intros; lia. Qed.
Lemma keys_lt_weaken : forall a b l, b <= a -> keys_lt b l -> keys_lt a l.
Proof. intros a b l Hab H. unfold keys_lt in *. eapply Forall_impl; [|exact H]. simpl. intros; lia. Qed.

Lemma sorted_app : forall xs a b ys, sorted (xs ++ (a, b) :: ys) ->
  sorted xs /\ keys_lt a xs /\ keys_gt a ys /\ sorted ys.
Proof.
  induction xs as [|[c d] xs IH]; intros a b ys H.
  - cbn in H. destruct H. repeat split; auto. constructor.
  - cbn [app sorted fst] in H. destruct H as (G & S).
    destruct (IH _ _ _ S) as (S1 & L & G2 & S2).
    unfold keys_gt in G. apply Forall_app in G. destruct G as (G1 & G3).
    inversion G3; subst. cbn [fst] in *.
    repeat split; auto. constructor; auto.
Qed.

Lemma sorted_app_intro : forall xs a b ys,
  sorted xs -> keys_lt a xs -> keys_gt a ys -> sorted ys -> sorted (xs ++ (a, b) :: ys).
Proof.
  induction xs as [|[c d] xs IH]; intros a b ys S1 L G S2.
  - cbn. auto.
  - cbn [app sorted fst] in *. destruct S1 as (G1 & S1). inversion L; subst. cbn [fst] in *.
    split; [|apply IH; auto].
    unfold keys_gt. apply Forall_app. split; auto. constructor; auto.
    eapply keys_gt_weaken; [|exact G]. lia.
Qed.

(* ---------- lookup and append *)
Lemma assoc_none_gt : forall k a l, k <= a -> keys_gt a l -> assoc k l = None.
Proof.
  induction l as [|[c d] l IH]; intros; auto. inversion H0; subst. cbn [fst] in *.
  cbn [assoc]. destruct (Z.eqb_spec k c); [lia|]. auto.
Qed.
Lemma assoc_none_lt : forall k a l, a <= k -> keys_lt a l -> assoc k l = None.
Proof.
  induction l as [|[c d] l IH]; intros; auto. inversion H0; subst. cbn [fst] in *.
  cbn [assoc]. destruct (Z.eqb_spec k c); [lia|]. auto.
Qed.
Lemma assoc_app_lt : forall k xs a b ys, k < a -> keys_gt a ys ->
  assoc k (xs ++ (a, b) :: ys) = assoc k xs.
Proof.
  induction xs as [|[c d] xs IH]; intros a b ys Hk G.
  - cbn [app assoc]. destruct (Z.eqb_spec k a); [lia|]. eapply assoc_none_gt; [|exact G]. lia.
  - cbn [app assoc]. destruct (k =? c); auto.
Qed.
Lemma assoc_app_gt : forall k xs a b ys, a < k -> keys_lt a xs ->
  assoc k (xs ++ (a, b) :: ys) = assoc k ys.
Proof.
  induction xs as [|[c d] xs IH]; intros a b ys Hk L.
  - cbn [app assoc]. destruct (Z.eqb_spec k a); [lia|]. auto.
  - inversion L; subst. cbn [fst] in *. cbn [app assoc]. destruct (Z.eqb_spec k c); [lia|]. auto.
Qed.
Lemma assoc_app_eq : forall xs a b ys, keys_lt a xs ->
  assoc a (xs ++ (a, b) :: ys) = Some b.
Proof.
  induction xs as [|[c d] xs IH]; intros a b ys L.
  - cbn [app assoc]. rewrite Z.eqb_refl. auto.
  - inversion L; subst. cbn [fst] in *. cbn [app assoc]. destruct (Z.eqb_spec a c); [lia|]. auto.
Qed.

(* ---------- ordered insertion and append *)
Lemma ins_list_app_lt : forall k v xs a b ys, k < a ->
  ins_list k v (xs ++ (a, b) :: ys) = ins_list k v xs ++ (a, b) :: ys.
Proof.
  induction xs as [|[c d] xs IH]; intros a b ys Hk.
  - cbn [app ins_list]. destruct (Z.eqb_spec k a); [lia|]. destruct (Z.ltb_spec k a); [|lia]. auto.
  - cbn [app ins_list]. destruct (k =? c); auto. destruct (k <? c); auto.
    rewrite IH; auto.
Qed.
Lemma ins_list_app_gt : forall k v xs a b ys, a < k -> keys_lt a xs ->
  ins_list k v (xs ++ (a, b) :: ys) = xs ++ (a, b) :: ins_list k v ys.
Proof.
  induction xs as [|[c d] xs IH]; intros a b ys Hk L.
  - cbn [app ins_list]. destruct (Z.eqb_spec k a); [lia|]. destruct (Z.ltb_spec k a); [lia|]. auto.
  - inversion L; subst. cbn [fst] in *. cbn [app ins_list].
    destruct (Z.eqb_spec k c); [lia|]. destruct (Z.ltb_spec k c); [lia|]. rewrite IH; auto.
Qed.
Lemma ins_list_app_eq : forall v xs a b ys, keys_lt a xs ->
  ins_list a v (xs ++ (a, b) :: ys) = xs ++ (a, v) :: ys.
Proof.
  induction xs as [|[c d] xs IH]; intros a b ys L.
  - cbn [app ins_list]. rewrite Z.eqb_refl. auto.
  - inversion L; subst. cbn [fst] in *. cbn [app ins_list].
    destruct (Z.eqb_spec a c); [lia|]. destruct (Z.ltb_spec a c); [lia|]. rewrite IH; auto.
Qed.

(* ---------- deletion and append *)
Lemma del_list_none_gt : forall k a l, k <= a -> keys_gt a l -> del_list k l = l.
Proof.
  induction l as [|[c d] l IH]; intros; auto. inversion H0; subst. cbn [fst] in *.
  cbn [del_list]. destruct (Z.eqb_spec k c); [lia|]. rewrite IH; auto.
Qed.
Lemma del_list_app_lt : forall k xs a b ys, k < a -> keys_gt a ys ->
  del_list k (xs ++ (a, b) :: ys) = del_list k xs ++ (a, b) :: ys.
Proof.
  induction xs as [|[c d] xs IH]; intros a b ys Hk G.
  - cbn [app del_list]. destruct (Z.eqb_spec k a); [lia|].
    rewrite (del_list_none_gt k a); auto. lia.
  - cbn [app del_list]. destruct (k =? c); auto. rewrite IH; auto.
Qed.
Lemma del_list_app_gt : forall k xs a b ys, a < k -> keys_lt a xs ->
  del_list k (xs ++ (a, b) :: ys) = xs ++ (a, b) :: del_list k ys.
Proof.
  induction xs as [|[c d] xs IH]; intros a b ys Hk L.
  - cbn [app del_list]. destruct (Z.eqb_spec k a); [lia|]. auto.
  - inversion L; subst. cbn [fst] in *. cbn [app del_list].
    destruct (Z.eqb_spec k c); [lia|]. rewrite IH; auto.
Qed.
Lemma del_list_app_eq : forall xs a b ys, keys_lt a xs ->
  del_list a (xs ++ (a, b) :: ys) = xs ++ ys.
Proof.
  induction xs as [|[c d] xs IH]; intros a b ys L.
  - cbn [app del_list]. rewrite Z.eqb_refl. auto.
  - inversion L; subst. cbn [fst] in *. cbn [app del_list].
    destruct (Z.eqb_spec a c); [lia|]. rewrite IH; auto.
Qed.

(* ---------- the Spec operations keep sortedness and are a finite map *)
Lemma keys_gt_ins : forall a k v l, a < k -> keys_gt a l -> keys_gt a (ins_list k v l).
Proof.
  induction l as [|[c d] l IH]; intros Hk G; cbn [ins_list].
  - constructor; auto.
  - inversion G; subst. cbn [fst] in *.
    destruct (k =? c); [constructor; auto|]. destruct (k <? c); [constructor; auto|].
    constructor; auto. apply IH; auto.
Qed.
Lemma sorted_ins_list : forall k v l, sorted l -> sorted (ins_list k v l).
Proof.
  induction l as [|[c d] l IH]; intros S; cbn [ins_list].
  - cbn. split; auto. constructor.
  - cbn [sorted fst] in S. destruct S as (G & S).
    destruct (Z.eqb_spec k c); [subst; cbn [sorted fst]; auto|].
    destruct (Z.ltb_spec k c).
    + cbn [sorted fst]. repeat split; auto. constructor; auto.
      eapply keys_gt_weaken; [|exact G]. lia.
    + cbn [sorted fst]. split; auto. apply keys_gt_ins; auto. lia.
Qed.
Lemma keys_gt_del : forall a k l, keys_gt a l -> keys_gt a (del_list k l).
Proof.
  induction l as [|[c d] l IH]; intros G; cbn [del_list]; auto.
  inversion G; subst. destruct (k =? c); auto. constructor; auto. apply IH; auto.
Qed.
Lemma sorted_del_list : forall k l, sorted l -> sorted (del_list k l).
Proof.
  induction l as [|[c d] l IH]; intros S; cbn [del_list]; auto.
  cbn [sorted fst] in S. destruct S as (G & S).
  destruct (k =? c); auto. cbn [sorted fst]. split; auto. apply keys_gt_del; auto.
Qed.

Lemma assoc_ins_list : forall k' k v l,
  assoc k' (ins_list k v l) = if k' =? k then Some v else assoc k' l.
Proof.
  induction l as [|[c d] l IH]; cbn [ins_list assoc].
  - destruct (k' =? k); auto.
  - destruct (Z.eqb_spec k c).
    + subst. cbn [assoc]. destruct (k' =? c); auto.
    + destruct (k <? c).
      * cbn [assoc]. destruct (k' =? k); auto.
      * cbn [assoc]. rewrite IH. destruct (Z.eqb_spec k' c); auto.
        destruct (Z.eqb_spec k' k); auto. lia.
Qed.
Lemma assoc_del_list : forall k' k l, sorted l ->
  assoc k' (del_list k l) = if k' =? k then None else assoc k' l.
Proof.
  induction l as [|[c d] l IH]; intros S; cbn [del_list assoc].
  - destruct (k' =? k); auto.
  - cbn [sorted fst] in S. destruct S as (G & S).
    destruct (Z.eqb_spec k c).
    + subst. destruct (Z.eqb_spec k' c); auto. subst. eapply assoc_none_gt; [|exact G]. lia.
    + cbn [assoc]. rewrite IH; auto. destruct (Z.eqb_spec k' c); auto.
      destruct (Z.eqb_spec k' k); auto. lia.
Qed.
Lemma length_ins_list : forall k v l, sorted l ->
  length (ins_list k v l) = if is_some (assoc k l) then length l else S (length l).
Proof.
  induction l as [|[c d] l IH]; intros S; cbn [ins_list assoc]; auto.
  cbn [sorted fst] in S. destruct S as (G & S).
  destruct (Z.eqb_spec k c); [reflexivity|].
  destruct (Z.ltb_spec k c).
  - rewrite (assoc_none_gt k c l) by (auto; lia). reflexivity.
  - cbn [length]. rewrite IH; auto. destruct (is_some (assoc k l)); auto.
Qed.
Lemma length_del_list : forall k l, sorted l ->
  length (del_list k l) = if is_some (assoc k l) then pred (length l) else length l.
Proof.
  induction l as [|[c d] l IH]; intros S; cbn [del_list assoc]; auto.
  cbn [sorted fst] in S. destruct S as (G & S).
  destruct (Z.eqb_spec k c); [reflexivity|].
  cbn [length]. rewrite IH; auto. destruct (assoc k l) eqn:E; cbn [is_some]; auto.
  destruct l; [discriminate|reflexivity].
Qed.
Lemma del_list_absent : forall k l, assoc k l = None -> del_list k l = l.
Proof.
  induction l as [|[c d] l IH]; cbn [assoc del_list]; auto.
  destruct (k =? c); [discriminate|]. intros. rewrite IH; auto.
Qed.
Lemma sorted_NoDup_keys : forall l, sorted l -> NoDup (List.map fst l).
Proof.
  induction l as [|[c d] l IH]; intros S; cbn [List.map]; constructor.
  - cbn [sorted fst] in S. destruct S as (G & _). intros Hin.
    apply in_map_iff in Hin. destruct Hin as (p & E & Hin).
    unfold keys_gt in G. rewrite Forall_forall in G. specialize (G _ Hin). cbn [fst] in *. lia.
  - apply IH. cbn [sorted] in S. tauto.
Qed.

(* ---------------------------------------------------------------- tree = its sorted contents *)
Definition bst (t : tree) : Prop := sorted (elements t).

Lemma bst_node : forall l k v hv h r id, bst (Node l k v hv h r id) ->
  bst l /\ keys_lt k (elements l) /\ keys_gt k (elements r) /\ bst r.
Proof. intros. unfold bst in *. cbn [elements] in H. apply sorted_app in H. tauto. Qed.

Lemma elements_insert : forall nid key value t, bst t ->
  elements (insert_to_node nid t key value) = ins_list key value (elements t).
Proof.
  intros nid key value. induction t as [|l IHl k v hv h r IHr id]; intros B; auto.
  apply bst_node in B. destruct B as (Bl & L & G & Br).
  cbn [insert_to_node].
  destruct (Z.eqb_spec key k).
  { subst. cbn [elements]. rewrite ins_list_app_eq; auto. }
  destruct (Z.ltb_spec key k).
  - rewrite elements_rebalance. cbn [elements]. rewrite IHl; auto.
    rewrite ins_list_app_lt; auto.
  - rewrite elements_rebalance. cbn [elements]. rewrite IHr; auto.
    rewrite ins_list_app_gt; auto. lia.
Qed.

Lemma min_node_elements : forall t dk dv dhv, t <> Leaf ->
  exists tl, elements t = fst (min_node t dk dv dhv) :: tl.
Proof.
  induction t as [|l IHl k v hv h r IHr id]; intros dk dv dhv Hne; [congruence|].
  cbn [min_node elements]. destruct l as [|ll lk lv lhv lh lr lid].
  - cbn. eexists. reflexivity.
  - destruct (IHl k v hv) as (tl & E); [congruence|]. rewrite E. cbn [app]. eexists. reflexivity.
Qed.

Lemma elements_remove : forall t key, bst t ->
  elements (remove_from_node t key) = del_list key (elements t).
Proof.
  induction t as [|l IHl k v hv h r IHr id]; intros key B; auto.
  apply bst_node in B. destruct B as (Bl & L & G & Br).
  cbn [remove_from_node].
  destruct (Z.ltb_spec key k).
  { rewrite elements_rebalance. cbn [elements]. rewrite IHl; auto. rewrite del_list_app_lt; auto. }
  destruct (Z.gtb_spec key k).
  { rewrite elements_rebalance. cbn [elements]. rewrite IHr; auto. rewrite del_list_app_gt; auto. }
  assert (key = k) by lia. subst key.
  destruct l as [|ll lk lv lhv lh lr lid].
  { cbn [elements app del_list]. rewrite Z.eqb_refl. auto. }
  destruct r as [|rl rk rv rhv rh rr rid].
  { cbn [elements]. rewrite del_list_app_eq; auto. rewrite app_nil_r. auto. }
  remember (Node ll lk lv lhv lh lr lid) as l.
  remember (Node rl rk rv rhv rh rr rid) as r.
  destruct (min_node_elements r k v hv) as (tl & E); [subst r; congruence|].
  destruct (min_node r k v hv) as [[sk sv] shv]. cbn [fst] in E.
  rewrite elements_rebalance. cbn [elements]. rewrite IHr; auto.
  rewrite del_list_app_eq; auto. rewrite E. cbn [del_list]. rewrite Z.eqb_refl. reflexivity.
Qed.

Lemma contains_assoc : forall t key, bst t -> avl t ->
  contains_loop t key = is_some (assoc key (elements t)).
Proof.
  induction t as [|l IHl k v hv h r IHr id]; intros key B A; auto.
  apply bst_node in B. destruct B as (Bl & L & G & Br).
  cbn [avl] in A. destruct A as (Al & Ar & _ & _ & Hhv).
  cbn [contains_loop elements].
  destruct (Z.eqb_spec key k).
  { subst. rewrite assoc_app_eq; auto. }
  destruct (Z.ltb_spec key k).
  - rewrite assoc_app_lt; auto.
  - rewrite assoc_app_gt; auto. lia.
Qed.
Lemma get_assoc : forall t key d, bst t -> avl t ->
  get_loop t key d = match assoc key (elements t) with Some x => x | None => d end.
Proof.
  induction t as [|l IHl k v hv h r IHr id]; intros key d B A; auto.
  apply bst_node in B. destruct B as (Bl & L & G & Br).
  cbn [avl] in A. destruct A as (Al & Ar & _ & _ & Hhv).
  cbn [get_loop elements].
  destruct (Z.eqb_spec key k).
  { subst. rewrite assoc_app_eq; auto. }
  destruct (Z.ltb_spec key k).
  - rewrite assoc_app_lt; auto.
  - rewrite assoc_app_gt; auto. lia.
Qed.

(* ---------------------------------------------------------------- the whole Map: invariant and refinement *)
Definition map_inv (m : map) : Prop :=
  avl (root m) /\ bst (root m) /\ count m = Z.of_nat (length (elements (root m))).

(* Spec state: the sorted association list; Spec step and result *)
Definition fm_step (s : fmap) (o : mop) : fmap :=
  match o with
  | MInsert k v => ins_list k v s
  | MRemove k | MTryRemove k => del_list k s
  | MClear => []
  | _ => s
  end.
(* what the property demands of a result; the height is not part of the finite map: it must obey the
   AVL bound fib (h+2) <= n+1 (equivalent to h <= 1.44 log2 (n+2)) *)
Definition fm_res_ok (s : fmap) (o : mop) (r : res) : Prop :=
  match o with
  | MGet k d => r = RInt (match assoc k s with Some x => x | None => d end)
  | MContains k => r = RBool (is_some (assoc k s))
  | MTryRemove k => r = RBool (is_some (assoc k s))
  | MSize => r = RInt (Z.of_nat (length s))
  | MIsEmpty => r = RBool (match s with [] => true | _ => false end)
  | MHeight => exists h, r = RInt h /\ 0 <= h /\ (fib (Z.to_nat h + 2) <= length s + 1)%nat
  | _ => r = RUnit
  end.
Fixpoint fm_run (ops : list mop) (s : fmap) : fmap :=
  match ops with [] => s | o :: r => fm_run r (fm_step s o) end.
Fixpoint fm_all_ok (ops : list mop) (s : fmap) (rs : list res) : Prop :=
  match ops, rs with
  | [], [] => True
  | o :: ops', r :: rs' => fm_res_ok s o r /\ fm_all_ok ops' (fm_step s o) rs'
  | _, _ => False
  end.

Lemma map_inv_init : map_inv map_init.
Proof. cbv. auto. Qed.

Lemma map_inv_step : forall m o, map_inv m -> map_inv (m_step m o).
Proof.
  intros m o (A & B & C). destruct o; cbn [m_step]; try (repeat split; assumption).
  - (* insert *)
    unfold m_insert, map_inv. cbn [root count].
    split; [apply insert_avl; auto|].
    split; [unfold bst; rewrite elements_insert; auto; apply sorted_ins_list; auto|].
    rewrite elements_insert; auto. rewrite length_ins_list; auto.
    rewrite contains_assoc; auto. destruct (is_some _); lia.
  - (* remove *)
    unfold m_remove. destruct (contains_loop (root m) k) eqn:E; [|repeat split; assumption].
    unfold map_inv. cbn [root count].
    split; [apply remove_avl; auto|].
    split; [unfold bst; rewrite elements_remove; auto; apply sorted_del_list; auto|].
    rewrite elements_remove; auto. rewrite length_del_list; auto.
    rewrite contains_assoc in E; auto. rewrite E.
    destruct (elements (root m)); [discriminate|].
    cbn [length pred] in *. destruct (Z.gtb_spec (count m) 0); lia.
  - (* try_remove *)
    unfold m_remove. destruct (contains_loop (root m) k) eqn:E; [|repeat split; assumption].
    unfold map_inv. cbn [root count].
    split; [apply remove_avl; auto|].
    split; [unfold bst; rewrite elements_remove; auto; apply sorted_del_list; auto|].
    rewrite elements_remove; auto. rewrite length_del_list; auto.
    rewrite contains_assoc in E; auto. rewrite E.
    destruct (elements (root m)); [discriminate|].
    cbn [length pred] in *. destruct (Z.gtb_spec (count m) 0); lia.
Qed.

Lemma map_inv_run : forall ops m, map_inv m -> map_inv (m_run ops m).
Proof. induction ops; cbn [m_run]; auto. intros. apply IHops, map_inv_step, H. Qed.

Lemma step_refines : forall m o, map_inv m ->
  elements (root (m_step m o)) = fm_step (elements (root m)) o /\
  fm_res_ok (elements (root m)) o (m_res m o).
Proof.
  intros m o (A & B & C). destruct o; cbn [m_step m_res fm_step fm_res_ok]; split; auto.
  - unfold m_insert. cbn [root]. apply elements_insert; auto.
  - rewrite get_assoc; auto.
  - rewrite contains_assoc; auto.
  - unfold m_remove. destruct (contains_loop (root m) k) eqn:E.
    + cbn [root]. apply elements_remove; auto.
    + rewrite contains_assoc in E; auto. symmetry. apply del_list_absent.
      destruct (assoc k (elements (root m))); [discriminate|reflexivity].
  - unfold m_remove. destruct (contains_loop (root m) k) eqn:E.
    + cbn [root]. apply elements_remove; auto.
    + rewrite contains_assoc in E; auto. symmetry. apply del_list_absent.
      destruct (assoc k (elements (root m))); [discriminate|reflexivity].
  - rewrite contains_assoc; auto.
  - rewrite C. auto.
  - rewrite C. destruct (elements (root m)); reflexivity.
  - exists (get_height (root m)). split; auto. split; [apply avl_height_nonneg; auto|].
    rewrite <- size_elements. apply avl_height_fib_l; auto.
Qed.

Lemma run_refines : forall ops m, map_inv m ->
  elements (root (m_run ops m)) = fm_run ops (elements (root m)) /\
  fm_all_ok ops (elements (root m)) (m_run_res ops m).
Proof.
  induction ops as [|o ops IH]; intros m I; cbn [m_run fm_run m_run_res fm_all_ok]; auto.
  destruct (step_refines m o I) as (E & R).
  destruct (IH _ (map_inv_step m o I)) as (E2 & R2).
  rewrite E in E2, R2. auto.
Qed.
